import IofloModel.Lemmas.ClauseVerbs
/-!
# C15 — optional clauses of a command may appear in any order

Model: `Model/Clauses.lean` (the option loops of `buildFramer`, `buildFrame`, `buildDo`, `buildAux`,
`buildRear`, `buildLog`, `buildLogger`, `buildServer` and the sub-parsers they call).

A *clause text* is `connective token…`.  `Alone v c`: the clause parses on its own — from any
configuration, consuming all its tokens.  The theorems say: clause texts with pairwise different
connectives that each parse alone parse, in every order, to one and the same configuration — because
each is *local* (`LocalText`: what follows a clause is never absorbed into it).  Where the code as it
is does absorb, the theorem carries the complement of the finding's region as a hypothesis and the
finding is proved as a counterexample.
-/
namespace Ioflo.Clauses
open Ioflo.Literal

/-- **C15, generic form.** For an option loop (`while index < len(tokens): connective = …`) in which
every clause of a set is *local* — before any continuation that is empty or starts with a connective
of the verb, the loop body consumes exactly the clause's own tokens — and the clauses' updates of
the configuration commute, every arrangement of the clauses parses to the same configuration. -/
theorem C15_order_independent {σ : Type} (v : Verb σ) (K : List Str) (cs₁ cs₂ : List (ClauseSem σ))
    (hp : cs₁.Perm cs₂) (hk : ∀ c ∈ cs₁, c.key ∈ K) (hl : ∀ c ∈ cs₁, Local v K c)
    (hc : ∀ a ∈ cs₁, ∀ b ∈ cs₁, ∀ s, b.upd (a.upd s) = a.upd (b.upd s)) (s : σ) :
    runClauses v (flat cs₁) s = runClauses v (flat cs₂) s := by
  have := runClauses_perm v K cs₁ cs₂ hp hk hl hc [] (Or.inl rfl) s
  simpa using this

/-- clause texts with pairwise different connectives -/
def Distinct (cs : List (List Str)) : Prop := ∀ a ∈ cs, ∀ b ∈ cs, a ≠ b → a.head? ≠ b.head?

/-- what a theorem below concludes: every arrangement gives the same result, and it is a success -/
def SameAndOk {σ : Type} (v : Verb σ) (cs₁ cs₂ : List (List Str)) (s : σ) : Prop :=
  runClauses v cs₁.flatten s = runClauses v cs₂.flatten s ∧ ∃ cfg, runClauses v cs₁.flatten s = .ok cfg

theorem alone_key {σ : Type} {v : Verb σ} {K : List Str}
    (hkey : ∀ k b s s', v.clause k b s = .ok (s', []) → k ∈ K) {cs : List (List Str)}
    (ha : ∀ c ∈ cs, Alone v c) (s0 : σ) : ∀ k ∈ keysOf cs, k ∈ K := by
  intro k hk
  unfold keysOf at hk
  rw [List.mem_filterMap] at hk
  obtain ⟨c, hc, hh⟩ := hk
  obtain ⟨k', b, rfl, hal⟩ := ha c hc
  simp at hh; subst hh
  obtain ⟨s', h⟩ := hal s0
  exact hkey _ _ _ _ h

theorem finish {σ : Type} {v : Verb σ} {cs₁ cs₂ : List (List Str)} {s : σ}
    (h : runClauses v (cs₁.flatten ++ []) s = runClauses v (cs₂.flatten ++ []) s ∧
      ∃ cfg, runClauses v (cs₁.flatten ++ []) s = runClauses v [] cfg) : SameAndOk v cs₁ cs₂ s := by
  simp only [List.append_nil, runClauses_nil] at h
  exact h

/-! ## frame name [in over] [via inode] -/

theorem frame_key (k : Str) (b : List Str) (s s' : FrameCfg) (h : frameVerb.clause k b s = .ok (s', [])) :
    k ∈ frameKeys := by
  change frameClause k b s = _ at h
  unfold frameClause at h
  split at h
  · rename_i hk; simp at hk; simp [frameKeys, hk]
  · split at h
    · rename_i hk; simp at hk; simp [frameKeys, hk]
    · cases h

/-- **frame**: full. -/
theorem C15_frame (cs₁ cs₂ : List (List Str)) (hp : cs₁.Perm cs₂) (hd : Distinct cs₁)
    (ha : ∀ c ∈ cs₁, Alone frameVerb c) (s : FrameCfg) : SameAndOk frameVerb cs₁ cs₂ s := by
  have hK := alone_key frame_key ha s
  exact finish (texts_order_independent frameVerb frameKeys [] cs₁ cs₂ hp hK hd
    (fun c hc => frame_local _ (by simpa using hK) c (ha c hc)) frame_commutes [] (Or.inl rfl) s)

/-- the command level: `frame name <clauses>` -/
theorem C15_buildFrame (name : Str) (cs₁ cs₂ : List (List Str)) (hp : cs₁.Perm cs₂) (hd : Distinct cs₁)
    (ha : ∀ c ∈ cs₁, Alone frameVerb c) : buildFrame (name :: cs₁.flatten) = buildFrame (name :: cs₂.flatten) := by
  unfold buildFrame
  simp only [oneTok, bind]
  rw [(C15_frame cs₁ cs₂ hp hd ha {}).1]

/-! ## framer name [be …] [at …] [in …] [first …] [via …] -/

theorem framer_key (k : Str) (b : List Str) (s s' : FramerCfg) (h : framerVerb.clause k b s = .ok (s', [])) :
    k ∈ framerKeys := by
  change framerClause k b s = _ at h
  unfold framerClause at h
  repeat' split at h
  all_goals first
    | (rename_i hk; simp at hk; simp [framerKeys, hk]; done)
    | (rename_i hk _; simp at hk; simp [framerKeys, hk]; done)
    | cases h

/-- the full statement for `framer` -/
def C15_framer_full : Prop :=
  ∀ (cs₁ cs₂ : List (List Str)), cs₁.Perm cs₂ → Distinct cs₁ → (∀ c ∈ cs₁, Alone framerVerb c) →
    ∀ s, SameAndOk framerVerb cs₁ cs₂ s

/-- **framer, partial**: holds outside the region of defect D61 (a `first` clause together with a `via`
clause whose relation ends with an omitted name). -/
theorem C15_framer_partial (cs₁ cs₂ : List (List Str)) (hp : cs₁.Perm cs₂) (hd : Distinct cs₁)
    (ha : ∀ c ∈ cs₁, Alone framerVerb c) (hreg : d61Region cs₁ = false) (s : FramerCfg) :
    SameAndOk framerVerb cs₁ cs₂ s := by
  have hK := alone_key framer_key ha s
  refine finish (texts_order_independent framerVerb framerKeys [] cs₁ cs₂ hp hK hd
    (fun c hc => framer_local _ (by simpa using hK) c (ha c hc) ?_) framer_commutes [] (Or.inl rfl) s)
  intro hv hf
  apply closed_of_not_open
  simp only [d61Region, Bool.and_eq_false_iff] at hreg
  rcases hreg with h1 | h2
  · simp only [List.append_nil] at hf
    have : (keysOf cs₁).contains (str "first") = true := by simpa using hf
    rw [this] at h1; cases h1
  · rw [List.any_eq_false] at h2
    have := h2 c hc
    simpa [hv] using this

/-- D61 witness: `framer alpha via inode of framer first beta` -/
def d61a : List (List Str) := [[str "via", str "inode", str "of", str "framer"], [str "first", str "beta"]]
def d61b : List (List Str) := [[str "first", str "beta"], [str "via", str "inode", str "of", str "framer"]]

theorem C15_framer_counterexample : ¬ C15_framer_full := by
  intro h
  have hp : d61a.Perm d61b := List.Perm.swap _ _ _
  have hd : Distinct d61a := by
    intro a ha b hb hne
    simp only [d61a, List.mem_cons, List.not_mem_nil, or_false] at ha hb
    rcases ha with rfl | rfl <;> rcases hb with rfl | rfl <;> first | exact absurd rfl hne | decide
  have hal : ∀ c ∈ d61a, Alone framerVerb c := by
    intro c hc
    simp only [d61a, List.mem_cons, List.not_mem_nil, or_false] at hc
    rcases hc with rfl | rfl
    · refine ⟨_, _, rfl, fun s => ⟨{ s with inode := str "framer.me.inode" }, ?_⟩⟩
      have e : framerVerb.clause = framerClause := rfl
      rw [e, framer_via]
      have : parseIndirect true [str "inode", str "of", str "framer"] = .ok (str "framer.me.inode", []) := by
        decide +kernel
      simp [clauseOf, this, accept]
    · refine ⟨_, _, rfl, fun s => ⟨{ s with first := str "beta" }, ?_⟩⟩
      have e : framerVerb.clause = framerClause := rfl
      rw [e, framer_first]
      have : named (str "beta") = .ok (str "beta") := by decide +kernel
      simp [clauseOf, oneTok, this]
  have := (h d61a d61b hp hd hal {}).1
  revert this
  decide +kernel

/-- … and it is the D61 region: -/
example : d61Region d61a = true := by decide +kernel

/-! ## log, logger: single-token values — full -/

theorem log_key (k : Str) (b : List Str) (s s' : LogCfg) (h : logVerb.clause k b s = .ok (s', [])) :
    k ∈ logKeys := by
  have e : logVerb.clause = logClause := rfl
  rw [e] at h
  unfold logClause at h
  repeat' split at h
  all_goals first
    | (rename_i hk; simp at hk; simp [logKeys, hk]; done)
    | (rename_i hk _; simp at hk; simp [logKeys, hk]; done)
    | cases h

/-- **log**: full. -/
theorem C15_log (cs₁ cs₂ : List (List Str)) (hp : cs₁.Perm cs₂) (hd : Distinct cs₁)
    (ha : ∀ c ∈ cs₁, Alone logVerb c) (s : LogCfg) : SameAndOk logVerb cs₁ cs₂ s :=
  finish (texts_order_independent logVerb logKeys [] cs₁ cs₂ hp (alone_key log_key ha s) hd
    (fun c hc => log_local _ c (ha c hc)) log_commutes [] (Or.inl rfl) s)

theorem logger_key (k : Str) (b : List Str) (s s' : LoggerCfg) (h : loggerVerb.clause k b s = .ok (s', [])) :
    k ∈ loggerKeys := by
  have e : loggerVerb.clause = loggerClause := rfl
  rw [e] at h
  unfold loggerClause at h
  repeat' split at h
  all_goals first
    | (rename_i hk; simp at hk; simp [loggerKeys, hk]; done)
    | (rename_i hk _; simp at hk; simp [loggerKeys, hk]; done)
    | cases h

/-- **logger**: full. -/
theorem C15_logger (cs₁ cs₂ : List (List Str)) (hp : cs₁.Perm cs₂) (hd : Distinct cs₁)
    (ha : ∀ c ∈ cs₁, Alone loggerVerb c) (s : LoggerCfg) : SameAndOk loggerVerb cs₁ cs₂ s :=
  finish (texts_order_independent loggerVerb loggerKeys [] cs₁ cs₂ hp (alone_key logger_key ha s) hd
    (fun c hc => logger_local _ c (ha c hc)) logger_commutes [] (Or.inl rfl) s)

/-! ## rear original [as clone] [be schedule] [in frame name] -/

theorem rear_key (k : Str) (b : List Str) (s s' : RearCfg) (h : rearVerb.clause k b s = .ok (s', [])) :
    k ∈ rearKeys := by
  have e : rearVerb.clause = rearClause := rfl
  rw [e] at h
  unfold rearClause at h
  repeat' split at h
  all_goals first
    | (rename_i hk; simp at hk; simp [rearKeys, hk]; done)
    | (rename_i hk _; simp at hk; simp [rearKeys, hk]; done)
    | cases h

/-- **rear**: for clause sets whose `in` clause names its frame (`in frame <name>`, three tokens; the
syntax `rear … in frame framename` requires the name). -/
theorem C15_rear (cs₁ cs₂ : List (List Str)) (hp : cs₁.Perm cs₂) (hd : Distinct cs₁)
    (ha : ∀ c ∈ cs₁, Alone rearVerb c)
    (hin : ∀ c ∈ cs₁, c.head? = some (str "in") → c.length = 3) (s : RearCfg) :
    SameAndOk rearVerb cs₁ cs₂ s :=
  finish (texts_order_independent rearVerb rearKeys [] cs₁ cs₂ hp (alone_key rear_key ha s) hd
    (fun c hc => rear_local _ c (ha c hc) (hin c hc)) rear_commutes [] (Or.inl rfl) s)

/-! ## do kind… [as …] [at …] [via …] [with …] [from …] [per …] [for …] [cum …] [qua …] -/

theorem do_key (fix : Bool) (k : Str) (b : List Str) (s s' : DoCfg)
    (h : (doVerb fix).clause k b s = .ok (s', [])) : k ∈ doStops := by
  have e : (doVerb fix).clause = doClause fix := rfl
  have e2 : doStops = [str "as", str "at", str "via", str "with", str "from", str "per", str "for", str "cum", str "qua"] := rfl
  rw [e] at h
  unfold doClause at h
  repeat' split at h
  all_goals first
    | (rename_i hk; simp at hk; simp [e2, hk]; done)
    | (rename_i hk _; simp at hk; simp [e2, hk]; done)
    | cases h

/-- **do, repaired `as` terminator list**: full. -/
theorem C15_do (cs₁ cs₂ : List (List Str)) (hp : cs₁.Perm cs₂) (hd : Distinct cs₁)
    (ha : ∀ c ∈ cs₁, Alone (doVerb true) c) (s : DoCfg) : SameAndOk (doVerb true) cs₁ cs₂ s := by
  have hK := alone_key (do_key true) ha s
  refine finish (texts_order_independent (doVerb true) doStops [] cs₁ cs₂ hp hK hd
    (fun c hc => do_local true _ (by simpa using hK) c (ha c hc) ?_) (do_commutes true) [] (Or.inl rfl) s)
  intro _ x hx
  have := hK x (by simpa using hx)
  simpa [doAsStops] using this

/-- the full statement for `do` as found -/
def C15_do_asfound_full : Prop :=
  ∀ (cs₁ cs₂ : List (List Str)), cs₁.Perm cs₂ → Distinct cs₁ → (∀ c ∈ cs₁, Alone (doVerb false) c) →
    ∀ s, SameAndOk (doVerb false) cs₁ cs₂ s

/-- **do as found, partial**: holds outside the region of defect D9 (an `as` clause together with a
`via`, `from` or `per` clause). -/
theorem C15_do_asfound_partial (cs₁ cs₂ : List (List Str)) (hp : cs₁.Perm cs₂) (hd : Distinct cs₁)
    (ha : ∀ c ∈ cs₁, Alone (doVerb false) c) (hreg : d9Region cs₁ = false) (s : DoCfg) :
    SameAndOk (doVerb false) cs₁ cs₂ s := by
  have hK := alone_key (do_key false) ha s
  refine finish (texts_order_independent (doVerb false) doStops [] cs₁ cs₂ hp hK hd
    (fun c hc => do_local false _ (by simpa using hK) c (ha c hc) ?_) (do_commutes false) [] (Or.inl rfl) s)
  intro hv x hx
  simp only [List.append_nil] at hx
  have has : (keysOf cs₁).contains (str "as") = true := by
    obtain ⟨k, b, rfl, _⟩ := ha c hc
    simp at hv; subst hv
    simpa using mem_keysOf hc
  simp only [d9Region, has, Bool.true_and, Bool.or_eq_false_iff] at hreg
  have hx' := hK x hx
  have e2 : doStops = [str "as", str "at", str "via", str "with", str "from", str "per", str "for", str "cum", str "qua"] := rfl
  simp only [e2, List.mem_cons, List.not_mem_nil, or_false] at hx'
  rcases hx' with rfl | rfl | rfl | rfl | rfl | rfl | rfl | rfl | rfl
  · decide
  · decide
  · have : (keysOf cs₁).contains (str "via") = true := by simpa using hx
    rw [this] at hreg; simp at hreg
  · decide
  · have : (keysOf cs₁).contains (str "from") = true := by simpa using hx
    rw [this] at hreg; simp at hreg
  · have : (keysOf cs₁).contains (str "per") = true := by simpa using hx
    rw [this] at hreg; simp at hreg
  · decide
  · decide
  · decide

/-- D9 witness: `do doer as foo via x` -/
def d9a : List (List Str) := [[str "as", str "foo"], [str "via", str "x"]]
def d9b : List (List Str) := [[str "via", str "x"], [str "as", str "foo"]]

theorem C15_do_asfound_counterexample : ¬ C15_do_asfound_full := by
  intro h
  have hp : d9a.Perm d9b := List.Perm.swap _ _ _
  have hd : Distinct d9a := by
    intro a ha b hb hne
    simp only [d9a, List.mem_cons, List.not_mem_nil, or_false] at ha hb
    rcases ha with rfl | rfl <;> rcases hb with rfl | rfl <;> first | exact absurd rfl hne | decide
  have hal : ∀ c ∈ d9a, Alone (doVerb false) c := by
    intro c hc
    simp only [d9a, List.mem_cons, List.not_mem_nil, or_false] at hc
    have e : (doVerb false).clause = doClause false := rfl
    rcases hc with rfl | rfl
    · refine ⟨_, _, rfl, fun s => ⟨{ s with name := str "Foo" }, ?_⟩⟩
      rw [e, do_as]
      have : asName false [str "foo"] = .ok (str "Foo", []) := by decide +kernel
      have h2 : nonEmpty (str "Foo") = .ok (str "Foo") := by decide +kernel
      simp [clauseOf, this, h2]
    · refine ⟨_, _, rfl, fun s => ⟨{ s with inode := some (str "x") }, ?_⟩⟩
      rw [e, do_via]
      have : parseIndirect true [str "x"] = .ok (str "x", []) := by decide +kernel
      simp [clauseOf, this, accept]
  have := (h d9a d9b hp hd hal {}).1
  revert this
  decide +kernel

example : d9Region d9a = true := by decide +kernel
/-- the repaired loop reads the same two clauses the same way in both orders -/
example : runClauses (doVerb true) d9a.flatten {} = runClauses (doVerb true) d9b.flatten {} := by
  decide +kernel

/-! ## aux name [as clone] [via inode] [if needs…] -/

theorem aux_key (k : Str) (b : List Str) (s s' : AuxCfg) (h : auxVerb.clause k b s = .ok (s', [])) :
    k ∈ [str "as", str "via", str "if"] := by
  have e : auxVerb.clause = auxClause := rfl
  rw [e] at h
  unfold auxClause at h
  repeat' split at h
  all_goals first
    | (rename_i hk; simp at hk; simp [hk]; done)
    | (rename_i hk _; simp at hk; simp [hk]; done)
    | cases h

/-- **aux**: the `as` / `via` clauses in any order, followed by the optional trailing `if …` clause. -/
theorem C15_aux (cs₁ cs₂ : List (List Str)) (hp : cs₁.Perm cs₂) (hd : Distinct cs₁)
    (ha : ∀ c ∈ cs₁, Alone auxVerb c) (hnoif : ∀ c ∈ cs₁, c.head? ≠ some (str "if"))
    (tail : List Str) (ht : tail = [] ∨ ∃ needs, tail = str "if" :: needs) (s : AuxCfg) :
    runClauses auxVerb (cs₁.flatten ++ tail) s = runClauses auxVerb (cs₂.flatten ++ tail) s := by
  have hK3 := alone_key aux_key ha s
  have hK : ∀ k ∈ keysOf cs₁, k ∈ auxKeys := by
    intro k hk
    have h3 := hK3 k hk
    simp only [List.mem_cons, List.not_mem_nil, or_false] at h3
    unfold keysOf at hk
    rw [List.mem_filterMap] at hk
    obtain ⟨c, hc, hh⟩ := hk
    rcases h3 with rfl | rfl | rfl
    · simp [auxKeys]
    · simp [auxKeys]
    · exact absurd hh (hnoif c hc)
  have htail : Follows [str "if"] tail := by
    rcases ht with rfl | ⟨needs, rfl⟩
    · exact Or.inl rfl
    · exact Or.inr ⟨_, needs, by simp, rfl⟩
  refine (texts_order_independent auxVerb auxKeys [str "if"] cs₁ cs₂ hp hK hd
    (fun c hc => aux_local _ ?_ c (hnoif c hc) (ha c hc)) aux_commutes tail htail s).1
  intro k hk
  rcases List.mem_append.mp hk with h | h
  · have := hK k h
    simp only [auxKeys, List.mem_cons, List.not_mem_nil, or_false] at this
    rcases this with rfl | rfl <;> simp
  · simp at h; simp [h]

/-! ## server name [at …] [to …] [be …] [in …] [rx …] [tx …] [per …] [for …] -/

theorem server_key (k : Str) (b : List Str) (s s' : ServerCfg) (h : serverVerb.clause k b s = .ok (s', [])) :
    k ∈ serverKeys := by
  have e : serverVerb.clause = serverClause := rfl
  rw [e] at h
  unfold serverClause at h
  repeat' split at h
  all_goals first
    | (rename_i hk; simp at hk; simp [serverKeys, hk]; done)
    | (rename_i hk _; simp at hk; simp [serverKeys, hk]; done)
    | cases h

def C15_server_full : Prop :=
  ∀ (cs₁ cs₂ : List (List Str)), cs₁.Perm cs₂ → Distinct cs₁ → (∀ c ∈ cs₁, Alone serverVerb c) →
    ∀ s, SameAndOk serverVerb cs₁ cs₂ s

/-- **server, partial**: holds for clause sets with neither a `per` nor a `for` clause, or — more
generally — whenever the connectives present are all reserved words other than `in` as soon as a
`per`/`for` clause is among them (this excludes exactly the regions of D62 and D63 and the harmless
rest of `per`/`for` together with `in`, `rx`, `tx`). -/
theorem C15_server_partial (cs₁ cs₂ : List (List Str)) (hp : cs₁.Perm cs₂) (hd : Distinct cs₁)
    (ha : ∀ c ∈ cs₁, Alone serverVerb c)
    (hper : (keysOf cs₁).contains (str "per") = true → ∀ x ∈ keysOf cs₁, isReserved x = true)
    (hfor : (keysOf cs₁).contains (str "for") = true → PlainRes (keysOf cs₁)) (s : ServerCfg) :
    SameAndOk serverVerb cs₁ cs₂ s := by
  have hK := alone_key server_key ha s
  refine finish (texts_order_independent serverVerb serverKeys [] cs₁ cs₂ hp hK hd
    (fun c hc => server_local _ c (ha c hc) ?_ ?_) server_commutes [] (Or.inl rfl) s)
  · intro hv
    obtain ⟨k, b, rfl, _⟩ := ha c hc
    simp at hv; subst hv
    simpa using hper (by simpa using mem_keysOf hc)
  · intro hv
    obtain ⟨k, b, rfl, _⟩ := ha c hc
    simp at hv; subst hv
    simpa using hfor (by simpa using mem_keysOf hc)

/-- D62 witness: `server s per x 1 rx :5000`;  D63 witness: `server s for .a.b in front` -/
def d62a : List (List Str) := [[str "per", str "x", str "1"], [str "rx", str ":5000"]]
def d62b : List (List Str) := [[str "rx", str ":5000"], [str "per", str "x", str "1"]]
def d63a : List (List Str) := [[str "for", str ".a.b"], [str "in", str "front"]]
def d63b : List (List Str) := [[str "in", str "front"], [str "for", str ".a.b"]]

theorem C15_server_d62 :
    runClauses serverVerb d62a.flatten {} ≠ runClauses serverVerb d62b.flatten {} ∧ d62Region d62a = true := by
  decide +kernel

theorem C15_server_d63 :
    runClauses serverVerb d63a.flatten {} ≠ runClauses serverVerb d63b.flatten {} ∧ d63Region d63a = true := by
  decide +kernel

/-! ## the command level: `verb name <clauses>` -/

theorem C15_buildFramer_partial (name : Str) (cs₁ cs₂ : List (List Str)) (hp : cs₁.Perm cs₂) (hd : Distinct cs₁)
    (ha : ∀ c ∈ cs₁, Alone framerVerb c) (hreg : d61Region cs₁ = false) :
    buildFramer (name :: cs₁.flatten) = buildFramer (name :: cs₂.flatten) := by
  unfold buildFramer
  simp only [oneTok, bind]
  rw [(C15_framer_partial cs₁ cs₂ hp hd ha hreg {}).1]

theorem C15_buildLog (name : Str) (cs₁ cs₂ : List (List Str)) (hp : cs₁.Perm cs₂) (hd : Distinct cs₁)
    (ha : ∀ c ∈ cs₁, Alone logVerb c) : buildLog (name :: cs₁.flatten) = buildLog (name :: cs₂.flatten) := by
  unfold buildLog
  simp only [oneTok, bind]
  rw [(C15_log cs₁ cs₂ hp hd ha {}).1]

theorem C15_buildLogger (name : Str) (cs₁ cs₂ : List (List Str)) (hp : cs₁.Perm cs₂) (hd : Distinct cs₁)
    (ha : ∀ c ∈ cs₁, Alone loggerVerb c) : buildLogger (name :: cs₁.flatten) = buildLogger (name :: cs₂.flatten) := by
  unfold buildLogger
  simp only [oneTok, bind]
  rw [(C15_logger cs₁ cs₂ hp hd ha {}).1]

theorem C15_buildRear (name : Str) (cs₁ cs₂ : List (List Str)) (hp : cs₁.Perm cs₂) (hd : Distinct cs₁)
    (ha : ∀ c ∈ cs₁, Alone rearVerb c) (hin : ∀ c ∈ cs₁, c.head? = some (str "in") → c.length = 3) :
    buildRear (name :: cs₁.flatten) = buildRear (name :: cs₂.flatten) := by
  unfold buildRear
  simp only [oneTok, bind]
  rw [(C15_rear cs₁ cs₂ hp hd ha hin {}).1]

theorem C15_buildAux (name : Str) (cs₁ cs₂ : List (List Str)) (hp : cs₁.Perm cs₂) (hd : Distinct cs₁)
    (ha : ∀ c ∈ cs₁, Alone auxVerb c) (hnoif : ∀ c ∈ cs₁, c.head? ≠ some (str "if"))
    (tail : List Str) (ht : tail = [] ∨ ∃ needs, tail = str "if" :: needs) :
    buildAux (name :: (cs₁.flatten ++ tail)) = buildAux (name :: (cs₂.flatten ++ tail)) := by
  unfold buildAux
  simp only [oneTok, bind]
  rw [C15_aux cs₁ cs₂ hp hd ha hnoif tail ht {}]

theorem C15_buildServer_partial (name : Str) (cs₁ cs₂ : List (List Str)) (hp : cs₁.Perm cs₂) (hd : Distinct cs₁)
    (ha : ∀ c ∈ cs₁, Alone serverVerb c)
    (hper : (keysOf cs₁).contains (str "per") = true → ∀ x ∈ keysOf cs₁, isReserved x = true)
    (hfor : (keysOf cs₁).contains (str "for") = true → PlainRes (keysOf cs₁)) :
    buildServer (name :: cs₁.flatten) = buildServer (name :: cs₂.flatten) := by
  unfold buildServer
  simp only [oneTok, bind]
  rw [(C15_server_partial cs₁ cs₂ hp hd ha hper hfor {}).1]

/-- `do <kind parts> <clauses>`: the kind parts (no connective among them) stay in front -/
theorem C15_buildDo (parts : List Str) (hparts : ∀ t ∈ parts, doStops.contains t = false)
    (cs₁ cs₂ : List (List Str)) (hp : cs₁.Perm cs₂) (hd : Distinct cs₁)
    (ha : ∀ c ∈ cs₁, Alone (doVerb true) c) :
    buildDo true (parts ++ cs₁.flatten) = buildDo true (parts ++ cs₂.flatten) := by
  have hK := alone_key (do_key true) ha ({} : DoCfg)
  have hstart : ∀ cs : List (List Str), cs.Perm cs₁ → takeParts doStops (parts ++ cs.flatten) = (parts, cs.flatten) := by
    intro cs hperm
    have hself : takeParts doStops parts = (parts, []) := by
      clear hperm
      induction parts with
      | nil => simp [takeParts]
      | cons t tl ih =>
        have ht := hparts t (List.mem_cons_self ..)
        have := ih (fun x hx => hparts x (List.mem_cons_of_mem _ hx))
        have ht' : ¬ t ∈ doStops := by simpa using ht
        simp [takeParts, ht', this]
    apply takeParts_ctx _ _ hself
    cases hcs : cs with
    | nil => left; rfl
    | cons c rest =>
      right
      have hcm : c ∈ cs₁ := hperm.mem_iff.mp (by rw [hcs]; exact List.mem_cons_self ..)
      obtain ⟨k, b, rfl, _⟩ := ha c hcm
      refine ⟨k, b ++ rest.flatten, by simp, ?_⟩
      have := hK k (mem_keysOf hcm)
      simpa using this
  unfold buildDo
  simp only []
  rw [hstart cs₁ (List.Perm.refl _), hstart cs₂ hp.symm]
  simp only []
  rw [(C15_do cs₁ cs₂ hp hd ha {}).1]

/-! ## non-vacuity: concrete clause sets that satisfy the hypotheses -/

example : runClauses framerVerb
    [str "be", str "active", str "at", str "0.5", str "via", str "inode", str "of", str "framer", str "me",
     str "first", str "f0"] {} =
    .ok { schedule := str "active", order := str "mid", period := .float (.fin ⟨false, 5, -1⟩),
          first := str "f0", inode := str "framer.me.inode" } := by decide +kernel

example : runClauses (doVerb true)
    [str "as", str "foo", str "per", str "x", str "1", str "from", str "a", str "b", str "in", str "pos", str "of", str "me",
     str "at", str "enter"] {} =
    .ok { name := str "Foo", context := some (str "enter"), ioinits := [(str "x", .int 1)],
          preParms := [(str "me.pos", [str "a", str "b"])] } := by decide +kernel

/-! ## the marker clauses of a need: `… is updated [in frame [name]] [by marker]` -/

/-- what may follow the marker clauses of a need: nothing, or a reserved word other than `in` and `by`
(in practice `and`, the connective of the next need) -/
def MarkerRest (rest : List Str) : Prop :=
  rest = [] ∨ ∃ k r, rest = k :: r ∧ isReserved k = true ∧ k ≠ str "in" ∧ k ≠ str "by"

theorem markerLoop_stop {rest : List Str} (h : MarkerRest rest) (s : MarkerCfg) :
    markerLoop rest s = .ok (s, rest) := by
  rcases h with rfl | ⟨k, r, rfl, _, h1, h2⟩
  · rfl
  · have e1 : (k == str "in") = false := by simpa using h1
    have e2 : (k == str "by") = false := by simpa using h2
    unfold markerLoop; simp [e1, e2]

theorem markerLoop_by (m : Str) (rest : List Str) (s : MarkerCfg) :
    markerLoop (str "by" :: m :: rest) s = markerLoop rest { s with marker := stripQuotes m } := by
  conv => lhs; rw [markerLoop.eq_def]
  have : (str "by" == str "in") = false := by decide
  simp [this]

theorem markerLoop_in_named (name : Str) (hn : isReserved name = false) (hi : identPub name = true)
    (rest : List Str) (s : MarkerCfg) :
    markerLoop (str "in" :: str "frame" :: name :: rest) s = markerLoop rest { s with frame := name } := by
  conv => lhs; rw [markerLoop.eq_def]
  simp [hn, hi]

theorem markerLoop_in_bare (rest : List Str)
    (hr : rest = [] ∨ ∃ k r, rest = k :: r ∧ isReserved k = true) (s : MarkerCfg) :
    markerLoop (str "in" :: str "frame" :: rest) s =
      (match rest with
       | [] => .ok ({ s with frame := str "me" }, [])
       | _ => markerLoop rest { s with frame := str "me" }) := by
  rcases hr with rfl | ⟨k, r, rfl, hk⟩
  · conv => lhs; rw [markerLoop.eq_def]
    simp
  · conv => lhs; rw [markerLoop.eq_def]
    simp [hk]

/-- **the `in frame [name]` and `by marker` clauses of an `is updated` / `is changed` need** may be
written in either order. -/
theorem C15_marker_need (name : Option Str)
    (hname : ∀ n, name = some n → isReserved n = false ∧ identPub n = true)
    (m : Str) (rest : List Str) (hrest : MarkerRest rest) (s : MarkerCfg) :
    markerLoop ((str "in" :: str "frame" :: name.toList) ++ (str "by" :: m :: rest)) s =
      .ok ({ frame := name.getD (str "me"), marker := stripQuotes m }, rest) ∧
    markerLoop ((str "by" :: m :: (str "in" :: str "frame" :: name.toList)) ++ rest) s =
      .ok ({ frame := name.getD (str "me"), marker := stripQuotes m }, rest) := by
  have hby : isReserved (str "by") = true := by decide
  cases name with
  | some n =>
    obtain ⟨h1, h2⟩ := hname n rfl
    constructor
    · simp only [Option.toList, List.cons_append, List.nil_append]
      rw [markerLoop_in_named n h1 h2, markerLoop_by, markerLoop_stop hrest]; rfl
    · simp only [Option.toList, List.cons_append, List.nil_append]
      rw [markerLoop_by, markerLoop_in_named n h1 h2, markerLoop_stop hrest]; rfl
  | none =>
    constructor
    · simp only [Option.toList, List.cons_append, List.nil_append]
      rw [markerLoop_in_bare _ (Or.inr ⟨_, _, rfl, hby⟩)]
      simp only []
      rw [markerLoop_by, markerLoop_stop hrest]; rfl
    · simp only [Option.toList, List.cons_append, List.nil_append]
      rw [markerLoop_by]
      rcases hrest with rfl | ⟨k, r, rfl, hk, h3, h4⟩
      · rw [markerLoop_in_bare [] (Or.inl rfl)]; rfl
      · rw [markerLoop_in_bare _ (Or.inr ⟨k, r, rfl, hk⟩)]
        simp only []
        rw [markerLoop_stop (Or.inr ⟨k, r, rfl, hk, h3, h4⟩)]; rfl

/-- … in particular at every position of a conjunction: when the need is followed by `and <next need> …`, both
orders of its clauses — with a named frame or with the nameless `in frame` directly before `and` — give the same
need and leave exactly `and <next need> …` for the conjunction loop of `go` / `let` / `aux … if` -/
theorem C15_marker_need_in_conjunction (name : Option Str)
    (hname : ∀ n, name = some n → isReserved n = false ∧ identPub n = true)
    (m : Str) (more : List Str) (s : MarkerCfg) :
    markerLoop ((str "in" :: str "frame" :: name.toList) ++ (str "by" :: m :: str "and" :: more)) s =
      .ok ({ frame := name.getD (str "me"), marker := stripQuotes m }, str "and" :: more) ∧
    markerLoop ((str "by" :: m :: (str "in" :: str "frame" :: name.toList)) ++ (str "and" :: more)) s =
      .ok ({ frame := name.getD (str "me"), marker := stripQuotes m }, str "and" :: more) :=
  C15_marker_need name hname m (str "and" :: more)
    (Or.inr ⟨str "and", more, rfl, by decide, by decide, by decide⟩) s

example : markerLoop [str "by", str "\"m 1\"", str "in", str "frame", str "and", str "x"] {} =
    .ok ({ frame := str "me", marker := str "m 1" }, [str "and", str "x"]) := by decide +kernel

end Ioflo.Clauses
