import IofloModel.Lemmas.Lex
import IofloModel.Lemmas.LexLoad
/-!
# C16 — script layout does not change what is built

Model: `Model/Lex.lean` (the chunk regex as a scanner, `Builder.tokenize`, the command reading loop of
`Builder.build`, text-mode `readline`).  `Layout` is a program together with every choice a formatter
has (indentation and trailing white space of each physical line, spaces between tokens, backslash
breaks at token boundaries, newline breaks before connectives, blank and comment lines, trailing
comments); `erase` forgets the choices, `render` is the script text.  The builder is a function of the
token lists it dispatches (plus line numbers, which go into messages only), so equality of the
dispatched token lists is what layout independence means for the reader.
-/
namespace Ioflo.Lex

/-- **C16 (repaired `tokenize`), every layout**: reading the rendered text dispatches exactly the
program's commands. -/
theorem C16_layout (L : Layout) (h : L.ok = true) : commands L.render = L.erase := by
  unfold commands commandsG Layout.render
  rw [fileLines_flatten (layout_lines_isLine h)]
  have h' := h
  simp only [Layout.ok, Bool.and_eq_true, List.all_eq_true] at h'
  refine mainLoop_layout L h (fun r hr => fun rest => tokenize_run (h'.1 r hr).1 rest) ?_
  intro c hc
  obtain ⟨h1, _, h3, _⟩ := cmd_facts (h'.2 c hc)
  exact ⟨fun rest => tokenize_run h1 rest, fun r hr => fun rest => tokenize_run (h3 r hr) rest⟩

/-- two layouts of the same program dispatch the same commands -/
theorem C16_layouts_agree (L₁ L₂ : Layout) (h₁ : L₁.ok = true) (h₂ : L₂.ok = true)
    (he : L₁.erase = L₂.erase) : commands L₁.render = commands L₂.render := by
  rw [C16_layout L₁ h₁, C16_layout L₂ h₂, he]

/-- **the newline at the very end of the file is optional**: the text without it dispatches the same
commands (for the repaired and for the as-found `tokenize` alike) -/
theorem C16_final_newline_optional (fix : Bool) (L : Layout) (h : L.ok = true) :
    commandsG fix L.renderNoEol = commandsG fix L.render := by
  unfold commandsG Layout.renderNoEol Layout.render
  rcases layout_lines_last h with e | ⟨ls, x, e, hx, hn⟩
  · rw [e]; rfl
  · have hall := layout_lines_isLine h
    rw [e] at hall ⊢
    have hls : ∀ l ∈ ls, IsLine l := fun l hl => hall l (List.mem_append_left _ hl)
    have e1 : (ls ++ [x ++ ['\n']]).flatten.dropLast = ls.flatten ++ x := by
      rw [List.flatten_append]
      simp only [List.flatten_cons, List.flatten_nil, List.append_nil]
      rw [← List.append_assoc, List.dropLast_concat]
    rw [e1, fileLines_noeol hls hn, fileLines_flatten hall]
    exact (mainLoop_eol fix hx hn _ [] _ _ (Nat.le_refl _) (Or.inr ⟨ls, rfl, rfl⟩)).symm

/-- every layout, with or without the final newline -/
theorem C16_layout_noeol (L : Layout) (h : L.ok = true) : commands L.renderNoEol = L.erase := by
  have := C16_final_newline_optional true L h
  unfold commands
  rw [this]
  exact C16_layout L h

/-- The same statement for `tokenize` as found in the repository. -/
def C16_full_asfound : Prop := ∀ L : Layout, L.ok = true → commandsOld L.render = L.erase

/-- **C16 for the code as found, partial**: holds for every layout whose backslash runs end in a
line indented with spaces only (`Layout.spaceLead`, the complement of the region of defect D50). -/
theorem C16_layout_asfound_partial (L : Layout) (h : L.ok = true) (hs : L.spaceLead = true) :
    commandsOld L.render = L.erase := by
  unfold commandsOld commandsG Layout.render
  rw [fileLines_flatten (layout_lines_isLine h)]
  have h' := h
  simp only [Layout.ok, Bool.and_eq_true, List.all_eq_true] at h'
  simp only [Layout.spaceLead, Bool.and_eq_true, List.all_eq_true] at hs
  refine mainLoop_layout L h (fun r hr => fun rest => tokenize_run_old (h'.1 r hr).1 (hs.1 r hr) rest) ?_
  intro c hc
  obtain ⟨h1, _, h3, _⟩ := cmd_facts (h'.2 c hc)
  have hsc := hs.2 c hc
  simp only [Cmd.spaceLead, Bool.and_eq_true, List.all_eq_true] at hsc
  exact ⟨fun rest => tokenize_run_old h1 hsc.1 rest,
         fun r hr => fun rest => tokenize_run_old (h3 r hr) (hsc.2 r hr) rest⟩

/-- witness of D50: `do x \` / `<TAB>via y` -/
def d50 : Layout :=
  { pre := [],
    cmds := [{ head := { mids := [({ lead := [], toks := [(0, "do".toList), (0, "x".toList)], trail := [' '] }, 0)],
                         last := { lead := ['\t'], toks := [(0, "via".toList), (0, "y".toList)], trail := [] },
                         ending := .plain },
               conts := [] }] }

example : d50.ok = true ∧ d50.spaceLead = false ∧ String.ofList d50.render = "do x \\\n\tvia y\n" := by
  decide

theorem C16_d50_old : commandsOld d50.render = [["do".toList, "x".toList, "\tvia".toList, "y".toList]] := by
  decide +kernel

/-- On the code as found the full statement is false (defect D50). -/
theorem C16_asfound_counterexample : ¬ C16_full_asfound := by
  intro h
  have := h d50 (by decide)
  rw [C16_d50_old] at this
  revert this; decide

/-- … while the repaired reader returns the program on the same text. -/
example : commands d50.render = [["do".toList, "x".toList, "via".toList, "y".toList]] :=
  C16_layout d50 (by decide)

/-! ### every well-formed program has a layout (so the theorems are not vacuous for any program) -/

/-- a program the reader can be asked to read: every command non-empty, made of well-formed tokens,
not starting with a reserved word -/
def wfProg (p : List (List Str)) : Bool :=
  p.all (fun c => c.all tokOK && (match c with | [] => false | t :: _ => !isReserved t))

def canonCmd (c : List Str) : Cmd :=
  { head := { mids := [], last := { lead := [], toks := c.map (fun t => (0, t)), trail := [] }, ending := .plain },
    conts := [] }

/-- one command per line, single spaces -/
def canon (p : List (List Str)) : Layout := { pre := [], cmds := p.map canonCmd }

theorem canonCmd_tokens (c : List Str) : (canonCmd c).tokens = c := by
  simp [canonCmd, Cmd.tokens, Run.tokens, Seg.tokens, Function.comp_def]

theorem C16_canon (p : List (List Str)) (h : wfProg p = true) :
    (canon p).ok = true ∧ (canon p).erase = p := by
  constructor
  · simp only [Layout.ok, canon, List.all_nil, Bool.true_and, List.all_eq_true, List.mem_map]
    rintro c ⟨c0, hc0, rfl⟩
    simp only [wfProg, List.all_eq_true, Bool.and_eq_true] at h
    obtain ⟨hall, hhd⟩ := h c0 hc0
    have ht : (canonCmd c0).head.tokens = c0 := by
      simp [canonCmd, Run.tokens, Seg.tokens, Function.comp_def]
    cases c0 with
    | nil => simp at hhd
    | cons t ts =>
      simp only [Cmd.ok, Run.isHead, ht, Bool.and_eq_true]
      refine ⟨⟨⟨?_, hhd⟩, by simp [canonCmd]⟩, by simp [canonCmd]⟩
      simp only [Run.ok, Run.gapOK, canonCmd, Seg.ok, Ending.ok, List.all_nil, Bool.true_and, Bool.and_true,
        List.all_map, List.all_eq_true]
      intro x hx; exact hall x hx
  · simp only [Layout.erase, canon, List.map_map]
    rw [show (Cmd.tokens ∘ canonCmd) = id from funext canonCmd_tokens]; simp

/-- **C16, stated over programs**: whatever layout of a well-formed program is read, the reader
dispatches the program — the same as for its canonical one-command-per-line layout. -/
theorem C16_program (p : List (List Str)) (h : wfProg p = true) (L : Layout) (hL : L.ok = true)
    (he : L.erase = p) : commands L.render = p ∧ commands (canon p).render = p := by
  obtain ⟨h1, h2⟩ := C16_canon p h
  exact ⟨by rw [C16_layout L hL, he], by rw [C16_layout _ h1, h2]⟩

/-! ### non-vacuity: a layout using every freedom at once -/

/-- ```
# header
<TAB>put  true \\
   into   "a b" \
<TAB> of x<TAB>
<blank>
   # why
<NBSP>of  framer   # tail \<SP>
load  x.flo
```  -/
def demo : Layout :=
  { pre := [{ mids := [], last := { lead := [], toks := [], trail := [] }, ending := .comment 0 " header".toList }],
    cmds := [
      { head := { mids := [({ lead := ['\t'], toks := [(0, "put".toList), (1, "true".toList)], trail := [' '] }, 1),
                           ({ lead := "   ".toList, toks := [(0, "into".toList), (2, "\"a b\"".toList)], trail := [' '] }, 0)],
                  last := { lead := ['\t', ' '], toks := [(0, "of".toList), (0, "x".toList)], trail := ['\t'] },
                  ending := .plain },
        conts := [{ mids := [], last := { lead := [], toks := [], trail := [] }, ending := .plain },
                  { mids := [], last := { lead := "   ".toList, toks := [], trail := [] }, ending := .comment 0 " why".toList },
                  { mids := [], last := { lead := [Char.ofNat 0xa0], toks := [(0, "of".toList), (1, "framer".toList)], trail := [] },
                    ending := .comment 3 " tail \\ ".toList }] },
      { head := { mids := [], last := { lead := [], toks := [(0, "load".toList), (1, "x.flo".toList)], trail := [] },
                  ending := .plain },
        conts := [] }] }

example : demo.ok = true := by decide
example : demo.spaceLead = false := by decide
example : String.ofList demo.render =
    "# header\n\tput  true \\\\\n   into   \"a b\" \\\n\t of x\t\n\n   # why\n\u00a0of  framer   # tail \\ \nload  x.flo\n" := by
  decide
example : demo.erase = [["put", "true", "into", "\"a b\"", "of", "x", "of", "framer"].map String.toList,
                        ["load", "x.flo"].map String.toList] := by decide
example : commands demo.render = demo.erase := C16_layout demo (by decide)

/-! ## `load`: programs split over files

`Builder.build` follows `load <file>` commands (Model/LexLoad.lean: `treeLoop`, the read loop with its file stack
written as recursion).  The statements below extend C16 to a tree of files: every file may be laid out
independently — including what the last line of a loaded file is (a continuation line, a comment, a blank line, a
line without newline) and where the `load` command stands in its parent. -/

/-- **the reader over a file tree dispatches the `load`-expansion of the files' programs**: each file
contributes exactly the commands it holds when read alone, spliced in after its `load` command; nothing of the
reader's look-ahead state (`nextTokens`, a pending connective continuation) crosses a file boundary -/
theorem C16_load_reads_programs (fix : Bool) (fs : Str → Option Str) (d : Nat) (text : Str) :
    readTreeG fix fs d text = expand (fun n => (fs n).map (commandsG fix)) d (commandsG fix text) :=
  treeLoop_eq_expand fix fs d [] (fileLines text)

/-- **every dispatched command has a verb**: the read loop skips empty and comment-only lines, so `tokens[0]` in
`Builder.build` and `Builder.dispatch` cannot raise IndexError (used by the exception-flow table of C14) -/
theorem C16_commands_nonempty (fix : Bool) (text : Str) : ∀ c ∈ commandsG fix text, c ≠ [] :=
  mainLoop_nonempty fix [] (fileLines text)

/-- **only the blank separates tokens**: `REO_Chunks` is `#.*|[^ "']+|"[^"]*"|'[^']*'`, so any other character — a tab,
a vertical tab, a form feed, a no-break space — between two words is part of ONE token: a text without blank and
quote that does not start with `#` is a single chunk.  (White space at the two ends of a line is removed by `strip`
before; that is the indentation freedom of `Layout`.  Layouts therefore put blanks between tokens.) -/
theorem C16_only_blanks_separate (c : Char) (cs : Str) (hc : isPlain c = true) (hh : c ≠ '#')
    (h : ∀ x ∈ cs, isPlain x = true) : chunks (c :: cs) = [c :: cs] := chunks_plain c cs hc hh h

example : isPlain '\t' = true ∧ isPlain '\u000b' = true ∧ isPlain '\u00a0' = true ∧ isPlain ' ' = false := by decide

/-- a tab between two words does not separate them; a tab at the ends of the line is indentation -/
example : commands "\tdo\tx  to\u000by\t\n".toList = [["do\tx".toList, "to\u000by".toList]] := by decide +kernel

/-- the text of a laid-out file, with or without the newline at its very end -/
def Layout.text (L : Layout) (eol : Bool) : Str := if eol then L.render else L.renderNoEol

theorem commands_text (L : Layout) (h : L.ok = true) (eol : Bool) : commands (L.text eol) = L.erase := by
  unfold Layout.text
  cases eol
  · exact C16_layout_noeol L h
  · exact C16_layout L h

/-- **C16 over a file tree**: whatever admissible layout every file of the tree has, with or without a final
newline, `Builder.build` dispatches the `load`-expansion of the erased programs — the outcome (commands, and how
reading ends) depends on the programs only -/
theorem C16_load_layout (Ls : Str → Option Layout) (hok : ∀ n K, Ls n = some K → K.ok = true)
    (eol : Str → Bool) (L : Layout) (hL : L.ok = true) (eolTop : Bool) (d : Nat) :
    readTree (fun n => (Ls n).map (fun K => K.text (eol n))) d (L.text eolTop)
      = expand (fun n => (Ls n).map Layout.erase) d L.erase := by
  unfold readTree
  rw [C16_load_reads_programs]
  have e1 : commandsG true (L.text eolTop) = L.erase := commands_text L hL eolTop
  have e2 : (fun n => ((Ls n).map (fun K => K.text (eol n))).map (commandsG true)) = (fun n => (Ls n).map Layout.erase) := by
    funext n
    cases h : Ls n with
    | none => rfl
    | some K => simp only [Option.map]; exact congrArg some (commands_text K (hok n K h) (eol n))
  rw [e1, e2]

/-- two layouts of the same tree of programs are read alike -/
theorem C16_load_layouts_agree (Ls₁ Ls₂ : Str → Option Layout)
    (h₁ : ∀ n K, Ls₁ n = some K → K.ok = true) (h₂ : ∀ n K, Ls₂ n = some K → K.ok = true)
    (he : ∀ n, (Ls₁ n).map Layout.erase = (Ls₂ n).map Layout.erase)
    (eol₁ eol₂ : Str → Bool) (L₁ L₂ : Layout) (hL₁ : L₁.ok = true) (hL₂ : L₂.ok = true) (heL : L₁.erase = L₂.erase)
    (e₁ e₂ : Bool) (d : Nat) :
    readTree (fun n => (Ls₁ n).map (fun K => K.text (eol₁ n))) d (L₁.text e₁)
      = readTree (fun n => (Ls₂ n).map (fun K => K.text (eol₂ n))) d (L₂.text e₂) := by
  rw [C16_load_layout Ls₁ h₁ eol₁ L₁ hL₁ e₁ d, C16_load_layout Ls₂ h₂ eol₂ L₂ hL₂ e₂ d, heL]
  congr 1
  funext n; exact he n

/-- a loaded file whose last line is a connective continuation line without a newline, loaded from the middle of
its parent; a nested load; a missing file -/
example :
    readTree (filesOf [("x.flo".toList, "do x\n  # why\n  via y".toList), ("y.flo".toList, "load x.flo\nframe b\n".toList)])
      3 "house h\nload y.flo\n  \nput 1 into .a\n".toList
    = ([["house", "h"], ["load", "y.flo"], ["load", "x.flo"], ["do", "x", "via", "y"], ["frame", "b"],
        ["put", "1", "into", ".a"]].map (·.map String.toList), .done) ∧
    readTree (filesOf []) 3 "house h\nload z.flo\nframe a\n".toList
    = ([["house", "h"], ["load", "z.flo"]].map (·.map String.toList), .ioError) ∧
    readTree (filesOf [("s.flo".toList, "load s.flo\n".toList)]) 2 "load s.flo\n".toList
    = ([["load", "s.flo"], ["load", "s.flo"], ["load", "s.flo"]].map (·.map String.toList), .depth) := by
  unfold readTree
  simp only [C16_load_reads_programs]
  decide +kernel

end Ioflo.Lex
