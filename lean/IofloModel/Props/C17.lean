import IofloModel.Lemmas.Literal
import IofloModel.Lemmas.LiteralExp
import IofloModel.Lemmas.LiteralPoint
import IofloModel.Lemmas.LiteralExp2
/-!
# C17 — direct data literals convert to the documented typed values

Model: `Model/Literal.lean` (the ten `Convert2*` functions of building.py transcribed function by
function, the regular expressions of globaling.py as hand-written recognisers, CPython's
`int`/`float`/`complex` text grammars).  Property theorems only; helpers are in `Lemmas/Literal.lean`.
-/
namespace Ioflo.Literal

/-! ## the nested converters realise the documented flat order

`firstOf rs t`: the first recogniser of `rs` that accepts `t` decides the result (a value, or the
`ValueError` of `float('')` for a point pattern with an empty number); if none accepts: `ValueError`. -/

/-- `Convert2Num`: decimal int, hex int, float, complex. -/
theorem C17_order_num (t : Str) : convert2Num t = firstOf ordNum t := order_num t

/-- `Convert2CoordNum`: lat/lon, then numbers. -/
theorem C17_order_coordNum (t : Str) : convert2CoordNum t = firstOf (ordCoord ++ ordNum) t := order_coordNum t

theorem C17_order_boolCoordNum (t : Str) :
    convert2BoolCoordNum t = firstOf (ordBool ++ ordCoord ++ ordNum) t := order_boolCoordNum t

/-- need goals (`Convert2StrBoolCoordNum`): quoted string, none/true/yes/false/no, lat/lon, numbers —
no path text and no points. -/
theorem C17_order_goal (t : Str) : convert2StrBoolCoordNum t = firstOf orderGoal t := order_goal t

theorem C17_order_pointNum (t : Str) : convert2PointNum t = firstOf (ordPoint ++ ordNum) t := order_pointNum t

theorem C17_order_coordPointNum (t : Str) :
    convert2CoordPointNum t = firstOf (ordCoord ++ ordPoint ++ ordNum) t := order_coordPointNum t

theorem C17_order_boolCoordPointNum (t : Str) :
    convert2BoolCoordPointNum t = firstOf (ordBool ++ ordCoord ++ ordPoint ++ ordNum) t :=
  order_boolCoordPointNum t

theorem C17_order_pathCoordPointNum (t : Str) :
    convert2PathCoordPointNum t = firstOf (ordPath ++ ordCoord ++ ordPoint ++ ordNum) t :=
  order_pathCoordPointNum t

theorem C17_order_boolPathCoordPointNum (t : Str) :
    convert2BoolPathCoordPointNum t = firstOf (ordBool ++ ordPath ++ ordCoord ++ ordPoint ++ ordNum) t :=
  order_boolPathCoordPointNum t

/-- direct data (`Convert2StrBoolPathCoordPointNum`): quoted string, none/true/yes/false/no, path text,
lat/lon, typed points, decimal int, hex int, float, complex. -/
theorem C17_order_direct (t : Str) : convert2StrBoolPathCoordPointNum t = firstOf orderDirect t :=
  order_direct t

/-! ## the context dependence the order implies -/

/-- `dead` is a path string where paths are accepted (direct data) and the number 0xdead where they
are not (need goals). -/
theorem C17_dead_is_path_or_hex :
    convert2StrBoolPathCoordPointNum "dead".toList = .ok (.str "dead".toList) ∧
    convert2StrBoolCoordNum "dead".toList = .ok (.int 57005) := by decide

/-- hex int comes before float: `1e5` is the integer 0x1e5, not 100000.0 (and `float` alone reads it
as 1·10⁵). -/
theorem C17_exponent_shadowed_by_hex :
    convert2Num "1e5".toList = .ok (.int 485) ∧
    pyFloat "1e5".toList = some (.fin { neg := false, mant := 1, exp := 5 }) := by decide

/-- decimal int comes before hex int: a text both can read is decimal. -/
theorem C17_dec_before_hex (t : Str) (i : Int) (h : pyInt 10 t = some i) : convert2Num t = .ok (.int i) := by
  simp [convert2Num, h]

theorem C17_hex_after_dec (t : Str) (i : Int) (h10 : pyInt 10 t = none) (h16 : pyInt 16 t = some i) :
    convert2Num t = .ok (.int i) := by
  simp [convert2Num, h10, h16]

/-! ## round trips -/

/-- **integers**: every integer written in decimal reads back as itself, in every literal context
(all ten converters). -/
theorem C17_roundtrip_int (i : Int) :
    convert2Num (showInt i) = .ok (.int i) ∧
    convert2CoordNum (showInt i) = .ok (.int i) ∧
    convert2BoolCoordNum (showInt i) = .ok (.int i) ∧
    convert2StrBoolCoordNum (showInt i) = .ok (.int i) ∧
    convert2PointNum (showInt i) = .ok (.int i) ∧
    convert2CoordPointNum (showInt i) = .ok (.int i) ∧
    convert2BoolCoordPointNum (showInt i) = .ok (.int i) ∧
    convert2PathCoordPointNum (showInt i) = .ok (.int i) ∧
    convert2BoolPathCoordPointNum (showInt i) = .ok (.int i) ∧
    convert2StrBoolPathCoordPointNum (showInt i) = .ok (.int i) := by
  have sub : ∀ (pre : List Recog), (∀ r ∈ pre, r ∈ ordStr ++ ordBool ++ ordPath ++ ordCoord ++ ordPoint) →
      firstOf (pre ++ ordNum) (showInt i) = .ok (.int i) := fun pre h => firstOf_showInt h i
  refine ⟨?_, ?_, ?_, ?_, ?_, ?_, ?_, ?_, ?_, ?_⟩
  · rw [order_num]; exact sub [] (by simp)
  · rw [order_coordNum]; exact sub _ (by intro r hr; simp only [List.mem_append]; simp [hr])
  · rw [order_boolCoordNum]; exact sub _ (by
      intro r hr; simp only [List.mem_append] at hr ⊢; rcases hr with h | h <;> simp [h])
  · rw [order_goal]; unfold orderGoal; exact sub _ (by
      intro r hr; simp only [List.mem_append] at hr ⊢; rcases hr with (h | h) | h <;> simp [h])
  · rw [order_pointNum]; exact sub _ (by intro r hr; simp only [List.mem_append]; simp [hr])
  · rw [order_coordPointNum]; exact sub _ (by
      intro r hr; simp only [List.mem_append] at hr ⊢; rcases hr with h | h <;> simp [h])
  · rw [order_boolCoordPointNum]; exact sub _ (by
      intro r hr; simp only [List.mem_append] at hr ⊢; rcases hr with (h | h) | h <;> simp [h])
  · rw [order_pathCoordPointNum]; exact sub _ (by
      intro r hr; simp only [List.mem_append] at hr ⊢; rcases hr with (h | h) | h <;> simp [h])
  · rw [order_boolPathCoordPointNum]; exact sub _ (by
      intro r hr; simp only [List.mem_append] at hr ⊢; rcases hr with ((h | h) | h) | h <;> simp [h])
  · rw [order_direct]; unfold orderDirect; exact sub _ (by intro r hr; exact hr)

example : showInt (-4096) = "-4096".toList ∧ showInt 0 = "0".toList := by decide +kernel

/-- **True / False / None** as Python writes them read back as the boolean / None, for direct data and
for need goals. -/
theorem C17_roundtrip_bool_none :
    convert2StrBoolPathCoordPointNum "True".toList = .ok (.bool true) ∧
    convert2StrBoolPathCoordPointNum "False".toList = .ok (.bool false) ∧
    convert2StrBoolPathCoordPointNum "None".toList = .ok .none ∧
    convert2StrBoolCoordNum "True".toList = .ok (.bool true) ∧
    convert2StrBoolCoordNum "False".toList = .ok (.bool false) ∧
    convert2StrBoolCoordNum "None".toList = .ok .none := by decide

/-- **strings**: a text without double quotes written between double quotes reads back as that text
(direct data and need goals); likewise with single quotes. -/
theorem C17_roundtrip_string (s : Str) :
    ((∀ c ∈ s, c ≠ '"') →
      convert2StrBoolPathCoordPointNum ('"' :: (s ++ ['"'])) = .ok (.str s) ∧
      convert2StrBoolCoordNum ('"' :: (s ++ ['"'])) = .ok (.str s)) ∧
    ((∀ c ∈ s, c ≠ '\'') →
      convert2StrBoolPathCoordPointNum ('\'' :: (s ++ ['\''])) = .ok (.str s) ∧
      convert2StrBoolCoordNum ('\'' :: (s ++ ['\''])) = .ok (.str s)) := by
  constructor
  · intro h
    obtain ⟨h1, h2⟩ := quoted_wrap '"' h
    simp [convert2StrBoolPathCoordPointNum, convert2StrBoolCoordNum, h1, h2]
  · intro h
    obtain ⟨h1, h2⟩ := quoted_wrap '\'' h
    have h0 : quotedBy '"' ('\'' :: (s ++ ['\''])) = false := by simp [quotedBy]
    simp [convert2StrBoolPathCoordPointNum, convert2StrBoolCoordNum, h0, h1, h2]

example : convert2StrBoolPathCoordPointNum "\"a # 'b' \"".toList = .ok (.str "a # 'b' ".toList) := by decide

/-- **paths**: a dotted path text that is not one of the five boolean/None words is kept as the string
it is (direct data). -/
theorem C17_roundtrip_path (p : Str) (hp : pathNode p = true)
    (hb : isNone p = false ∧ isTrue p = false ∧ isFalse p = false) :
    convert2StrBoolPathCoordPointNum p = .ok (.str p) := by
  obtain ⟨h1, h2⟩ := pathNode_not_quoted hp
  simp [convert2StrBoolPathCoordPointNum, convert2BoolPathCoordPointNum, convert2PathCoordPointNum,
    h1, h2, hb.1, hb.2.1, hb.2.2, hp, reraise]

example : pathNode ".a.b_1.".toList = true ∧ pathNode "goal.heading".toList = true ∧
    pathNode "a..b".toList = false ∧ pathNode ".".toList = false := by decide

/-! ### points with integer coordinates, written `<int>x<int>y`, `<int>n<int>e`, … (direct data)

`intF i` is the exact decimal value of the integer `i` (what `float(str(i))` denotes before binary
rounding). -/

theorem C17_roundtrip_point_xy (a b : Int) :
    convert2StrBoolPathCoordPointNum (showInt a ++ 'x' :: (showInt b ++ ['y']))
      = .ok (.point .xy [intF a, intF b]) := by
  have sx : IsSep 'x' := sep_of (by decide) (by decide)
  have sy : IsSep 'y' := sep_of (by decide) (by decide)
  rw [order_direct, direct_to_points (pre_declines_int_head a _) (coord_declines_point a b sx sy [])]
  simp [ordPoint, firstOf_cons, rPoint2,
    point2_accept true sX sY a b sx sy (by decide) (by decide)]

theorem C17_roundtrip_point_ne (a b : Int) :
    convert2StrBoolPathCoordPointNum (showInt a ++ 'n' :: (showInt b ++ ['e']))
      = .ok (.point .ne [intF a, intF b]) := by
  have s1 : IsSep 'n' := sep_of (by decide) (by decide)
  have s2 : IsSep 'e' := sep_of (by decide) (by decide)
  rw [order_direct, direct_to_points (pre_declines_int_head a _) (coord_declines_point a b s1 s2 [])]
  simp [ordPoint, firstOf_cons, rPoint2,
    point2_decline_sep true sX sY a s1 _ (by decide),
    point2_accept false sN sE a b s1 s2 (by decide) (by decide)]

theorem C17_roundtrip_point_fs (a b : Int) :
    convert2StrBoolPathCoordPointNum (showInt a ++ 'f' :: (showInt b ++ ['s']))
      = .ok (.point .fs [intF a, intF b]) := by
  have s1 : IsSep 'f' := sep_of (by decide) (by decide)
  have s2 : IsSep 's' := sep_of (by decide) (by decide)
  rw [order_direct, direct_to_points (pre_declines_int_head a _) (coord_declines_point a b s1 s2 [])]
  simp [ordPoint, firstOf_cons, rPoint2,
    point2_decline_sep true sX sY a s1 _ (by decide),
    point2_decline_sep false sN sE a s1 _ (by decide),
    point2_accept false sF sS a b s1 s2 (by decide) (by decide)]

theorem C17_roundtrip_point_xyz (a b c : Int) :
    convert2StrBoolPathCoordPointNum (showInt a ++ 'x' :: (showInt b ++ 'y' :: (showInt c ++ ['z'])))
      = .ok (.point .xyz [intF a, intF b, intF c]) := by
  have s1 : IsSep 'x' := sep_of (by decide) (by decide)
  have s2 : IsSep 'y' := sep_of (by decide) (by decide)
  have s3 : IsSep 'z' := sep_of (by decide) (by decide)
  rw [order_direct, direct_to_points (pre_declines_int_head a _) (coord_declines_point a b s1 s2 _)]
  simp [ordPoint, firstOf_cons, rPoint2, rPoint3,
    point2_decline_long true sX sY a b c s1 s2 ['z'],
    point2_decline_sep false sN sE a s1 _ (by decide),
    point2_decline_sep false sF sS a s1 _ (by decide),
    point3_accept sX sY sZ a b c s1 s2 s3 (by decide) (by decide) (by decide)]

theorem C17_roundtrip_point_ned (a b c : Int) :
    convert2StrBoolPathCoordPointNum (showInt a ++ 'n' :: (showInt b ++ 'e' :: (showInt c ++ ['d'])))
      = .ok (.point .ned [intF a, intF b, intF c]) := by
  have s1 : IsSep 'n' := sep_of (by decide) (by decide)
  have s2 : IsSep 'e' := sep_of (by decide) (by decide)
  have s3 : IsSep 'd' := sep_of (by decide) (by decide)
  rw [order_direct, direct_to_points (pre_declines_int_head a _) (coord_declines_point a b s1 s2 _)]
  simp [ordPoint, firstOf_cons, rPoint2, rPoint3,
    point2_decline_sep true sX sY a s1 _ (by decide),
    point2_decline_long false sN sE a b c s1 s2 ['d'],
    point2_decline_sep false sF sS a s1 _ (by decide),
    point3_decline_sep sX sY sZ a s1 _ (by decide),
    point3_accept sN sE sD a b c s1 s2 s3 (by decide) (by decide) (by decide)]

theorem C17_roundtrip_point_fsb (a b c : Int) :
    convert2StrBoolPathCoordPointNum (showInt a ++ 'f' :: (showInt b ++ 's' :: (showInt c ++ ['b'])))
      = .ok (.point .fsb [intF a, intF b, intF c]) := by
  have s1 : IsSep 'f' := sep_of (by decide) (by decide)
  have s2 : IsSep 's' := sep_of (by decide) (by decide)
  have s3 : IsSep 'b' := sep_of (by decide) (by decide)
  rw [order_direct, direct_to_points (pre_declines_int_head a _) (coord_declines_point a b s1 s2 _)]
  simp [ordPoint, firstOf_cons, rPoint2, rPoint3,
    point2_decline_sep true sX sY a s1 _ (by decide),
    point2_decline_sep false sN sE a s1 _ (by decide),
    point2_decline_long false sF sS a b c s1 s2 ['b'],
    point3_decline_sep sX sY sZ a s1 _ (by decide),
    point3_decline_sep sN sE sD a s1 _ (by decide),
    point3_accept sF sS sB a b c s1 s2 s3 (by decide) (by decide) (by decide)]

/-- non-vacuity and the oddities of the patterns: the comma is a separator, an `x…y` text without its
first number is a point pattern whose `float('')` raises `ValueError`, lat/lon -/
example :
    convert2StrBoolPathCoordPointNum "-12x7y".toList
      = .ok (.point .xy [.fin { neg := true, mant := 12, exp := 0 }, .fin { neg := false, mant := 7, exp := 0 }]) ∧
    convert2StrBoolPathCoordPointNum "1,2.5,".toList
      = .ok (.point .xy [.fin { neg := false, mant := 1, exp := 0 }, .fin { neg := false, mant := 25, exp := -1 }]) ∧
    convert2StrBoolPathCoordPointNum "x-5y".toList = valueError ∧
    convert2StrBoolPathCoordPointNum "45N30.5".toList
      = .ok (.coord false (.fin { neg := false, mant := 45, exp := 0 }) (.fin { neg := false, mant := 305, exp := -1 })) := by
  decide

/-! ### finite decimal numerals (floats written without exponent) -/

/-- **finite decimal numerals**: `[-]digits.digits` (what Python writes for a float without exponent, e.g.
`-12.5`, `100.0`, `0.001`) reads back, in every literal context (all ten converters), as the float whose
exact value is that decimal. -/
theorem C17_roundtrip_decimal (neg : Bool) (a : Nat) (ds : Str) (hds : ∀ c ∈ ds, isDigit c = true) :
    convert2Num (showDec neg a ds) = .ok (.float (decValue neg a ds)) ∧
    convert2CoordNum (showDec neg a ds) = .ok (.float (decValue neg a ds)) ∧
    convert2BoolCoordNum (showDec neg a ds) = .ok (.float (decValue neg a ds)) ∧
    convert2StrBoolCoordNum (showDec neg a ds) = .ok (.float (decValue neg a ds)) ∧
    convert2PointNum (showDec neg a ds) = .ok (.float (decValue neg a ds)) ∧
    convert2CoordPointNum (showDec neg a ds) = .ok (.float (decValue neg a ds)) ∧
    convert2BoolCoordPointNum (showDec neg a ds) = .ok (.float (decValue neg a ds)) ∧
    convert2PathCoordPointNum (showDec neg a ds) = .ok (.float (decValue neg a ds)) ∧
    convert2BoolPathCoordPointNum (showDec neg a ds) = .ok (.float (decValue neg a ds)) ∧
    convert2StrBoolPathCoordPointNum (showDec neg a ds) = .ok (.float (decValue neg a ds)) := by
  have sub : ∀ (pre : List Recog), (∀ r ∈ pre, r ∈ ordStr ++ ordBool ++ ordPath ++ ordCoord ++ ordPoint) →
      firstOf (pre ++ ordNum) (showDec neg a ds) = .ok (.float (decValue neg a ds)) :=
    fun pre h => firstOf_showDec h neg a ds hds
  refine ⟨?_, ?_, ?_, ?_, ?_, ?_, ?_, ?_, ?_, ?_⟩
  · rw [order_num]; exact sub [] (by simp)
  · rw [order_coordNum]; exact sub _ (by intro r hr; simp only [List.mem_append]; simp [hr])
  · rw [order_boolCoordNum]; exact sub _ (by
      intro r hr; simp only [List.mem_append] at hr ⊢; rcases hr with h | h <;> simp [h])
  · rw [order_goal]; unfold orderGoal; exact sub _ (by
      intro r hr; simp only [List.mem_append] at hr ⊢; rcases hr with (h | h) | h <;> simp [h])
  · rw [order_pointNum]; exact sub _ (by intro r hr; simp only [List.mem_append]; simp [hr])
  · rw [order_coordPointNum]; exact sub _ (by
      intro r hr; simp only [List.mem_append] at hr ⊢; rcases hr with h | h <;> simp [h])
  · rw [order_boolCoordPointNum]; exact sub _ (by
      intro r hr; simp only [List.mem_append] at hr ⊢; rcases hr with (h | h) | h <;> simp [h])
  · rw [order_pathCoordPointNum]; exact sub _ (by
      intro r hr; simp only [List.mem_append] at hr ⊢; rcases hr with (h | h) | h <;> simp [h])
  · rw [order_boolPathCoordPointNum]; exact sub _ (by
      intro r hr; simp only [List.mem_append] at hr ⊢; rcases hr with ((h | h) | h) | h <;> simp [h])
  · rw [order_direct]; unfold orderDirect; exact sub _ (by intro r hr; exact hr)

example : showDec true 12 "50".toList = "-12.50".toList ∧
    decValue true 12 "50".toList = .fin { neg := true, mant := 1250, exp := -2 } := by decide +kernel

/-- **decimal numerals with an exponent** as Python writes them, `[-]digits.digits e(+|-)digits` (`1.5e-07`,
`-2.0e+16`): in every literal context (all ten converters) the float whose exact value is that decimal times the
power of ten.  (The form without a dot: `C17_roundtrip_exponent_nodot`.) -/
theorem C17_roundtrip_exponent (neg : Bool) (a : Nat) (ds : Str) (hds : ∀ c ∈ ds, isDigit c = true)
    (eneg : Bool) (k : Nat) :
    convert2Num (showExp neg a ds eneg k) = .ok (.float (expValue neg a ds eneg k)) ∧
    convert2CoordNum (showExp neg a ds eneg k) = .ok (.float (expValue neg a ds eneg k)) ∧
    convert2BoolCoordNum (showExp neg a ds eneg k) = .ok (.float (expValue neg a ds eneg k)) ∧
    convert2StrBoolCoordNum (showExp neg a ds eneg k) = .ok (.float (expValue neg a ds eneg k)) ∧
    convert2PointNum (showExp neg a ds eneg k) = .ok (.float (expValue neg a ds eneg k)) ∧
    convert2CoordPointNum (showExp neg a ds eneg k) = .ok (.float (expValue neg a ds eneg k)) ∧
    convert2BoolCoordPointNum (showExp neg a ds eneg k) = .ok (.float (expValue neg a ds eneg k)) ∧
    convert2PathCoordPointNum (showExp neg a ds eneg k) = .ok (.float (expValue neg a ds eneg k)) ∧
    convert2BoolPathCoordPointNum (showExp neg a ds eneg k) = .ok (.float (expValue neg a ds eneg k)) ∧
    convert2StrBoolPathCoordPointNum (showExp neg a ds eneg k) = .ok (.float (expValue neg a ds eneg k)) := by
  have sub : ∀ (pre : List Recog), (∀ r ∈ pre, r ∈ ordStr ++ ordBool ++ ordPath ++ ordCoord ++ ordPoint) →
      firstOf (pre ++ ordNum) (showExp neg a ds eneg k) = .ok (.float (expValue neg a ds eneg k)) :=
    fun pre h => firstOf_showExp h neg a ds hds eneg k
  refine ⟨?_, ?_, ?_, ?_, ?_, ?_, ?_, ?_, ?_, ?_⟩
  · rw [order_num]; exact sub [] (by simp)
  · rw [order_coordNum]; exact sub _ (by intro r hr; simp only [List.mem_append]; simp [hr])
  · rw [order_boolCoordNum]; exact sub _ (by
      intro r hr; simp only [List.mem_append] at hr ⊢; rcases hr with h | h <;> simp [h])
  · rw [order_goal]; unfold orderGoal; exact sub _ (by
      intro r hr; simp only [List.mem_append] at hr ⊢; rcases hr with (h | h) | h <;> simp [h])
  · rw [order_pointNum]; exact sub _ (by intro r hr; simp only [List.mem_append]; simp [hr])
  · rw [order_coordPointNum]; exact sub _ (by
      intro r hr; simp only [List.mem_append] at hr ⊢; rcases hr with h | h <;> simp [h])
  · rw [order_boolCoordPointNum]; exact sub _ (by
      intro r hr; simp only [List.mem_append] at hr ⊢; rcases hr with (h | h) | h <;> simp [h])
  · rw [order_pathCoordPointNum]; exact sub _ (by
      intro r hr; simp only [List.mem_append] at hr ⊢; rcases hr with (h | h) | h <;> simp [h])
  · rw [order_boolPathCoordPointNum]; exact sub _ (by
      intro r hr; simp only [List.mem_append] at hr ⊢; rcases hr with ((h | h) | h) | h <;> simp [h])
  · rw [order_direct]; unfold orderDirect; exact sub _ (by intro r hr; exact hr)

example : showExp true 1 "50".toList true 7 = "-1.50e-7".toList ∧
    expValue true 1 "50".toList true 7 = .fin { neg := true, mant := 150, exp := -9 } := by decide +kernel

/-- **the exponent form without a dot**, `[-]digits e(+|-)digits` as Python writes large and small floats (`1e+16`,
`-5e-07`): in all ten converters the float with that exact value.  The explicit sign of the exponent is what keeps the
text from being an integer in base 16 (`1e5` without it is one: `C17_exponent_shadowed_by_hex`). -/
theorem C17_roundtrip_exponent_nodot (neg : Bool) (a : Nat) (eneg : Bool) (k : Nat) :
    convert2Num (showExpI neg a eneg k) = .ok (.float (expValueI neg a eneg k)) ∧
    convert2CoordNum (showExpI neg a eneg k) = .ok (.float (expValueI neg a eneg k)) ∧
    convert2BoolCoordNum (showExpI neg a eneg k) = .ok (.float (expValueI neg a eneg k)) ∧
    convert2StrBoolCoordNum (showExpI neg a eneg k) = .ok (.float (expValueI neg a eneg k)) ∧
    convert2PointNum (showExpI neg a eneg k) = .ok (.float (expValueI neg a eneg k)) ∧
    convert2CoordPointNum (showExpI neg a eneg k) = .ok (.float (expValueI neg a eneg k)) ∧
    convert2BoolCoordPointNum (showExpI neg a eneg k) = .ok (.float (expValueI neg a eneg k)) ∧
    convert2PathCoordPointNum (showExpI neg a eneg k) = .ok (.float (expValueI neg a eneg k)) ∧
    convert2BoolPathCoordPointNum (showExpI neg a eneg k) = .ok (.float (expValueI neg a eneg k)) ∧
    convert2StrBoolPathCoordPointNum (showExpI neg a eneg k) = .ok (.float (expValueI neg a eneg k)) := by
  have sub : ∀ (pre : List Recog), (∀ r ∈ pre, r ∈ ordStr ++ ordBool ++ ordPath ++ ordCoord ++ ordPoint) →
      firstOf (pre ++ ordNum) (showExpI neg a eneg k) = .ok (.float (expValueI neg a eneg k)) :=
    fun pre h => firstOf_showExpI h neg a eneg k
  refine ⟨?_, ?_, ?_, ?_, ?_, ?_, ?_, ?_, ?_, ?_⟩
  · rw [order_num]; exact sub [] (by simp)
  · rw [order_coordNum]; exact sub _ (by intro r hr; simp only [List.mem_append]; simp [hr])
  · rw [order_boolCoordNum]; exact sub _ (by
      intro r hr; simp only [List.mem_append] at hr ⊢; rcases hr with h | h <;> simp [h])
  · rw [order_goal]; unfold orderGoal; exact sub _ (by
      intro r hr; simp only [List.mem_append] at hr ⊢; rcases hr with (h | h) | h <;> simp [h])
  · rw [order_pointNum]; exact sub _ (by intro r hr; simp only [List.mem_append]; simp [hr])
  · rw [order_coordPointNum]; exact sub _ (by
      intro r hr; simp only [List.mem_append] at hr ⊢; rcases hr with h | h <;> simp [h])
  · rw [order_boolCoordPointNum]; exact sub _ (by
      intro r hr; simp only [List.mem_append] at hr ⊢; rcases hr with (h | h) | h <;> simp [h])
  · rw [order_pathCoordPointNum]; exact sub _ (by
      intro r hr; simp only [List.mem_append] at hr ⊢; rcases hr with (h | h) | h <;> simp [h])
  · rw [order_boolPathCoordPointNum]; exact sub _ (by
      intro r hr; simp only [List.mem_append] at hr ⊢; rcases hr with ((h | h) | h) | h <;> simp [h])
  · rw [order_direct]; unfold orderDirect; exact sub _ (by intro r hr; exact hr)

example : showExpI false 1 false 16 = "1e+16".toList ∧
    expValueI false 1 false 16 = .fin { neg := false, mant := 1, exp := 16 } := by decide +kernel

/-! ### points with fractional coordinates, `<dec>x<dec>y`, … (direct data): every coordinate a decimal numeral
`[-]digits.digits`, the value its exact decimal -/

theorem C17_roundtrip_point_xy_decimal (n1 n2 : Bool) (a1 a2 : Nat) (d1 d2 : Str)
    (h1 : ∀ c ∈ d1, isDigit c = true) (h2 : ∀ c ∈ d2, isDigit c = true) :
    convert2StrBoolPathCoordPointNum (showDec n1 a1 d1 ++ 'x' :: (showDec n2 a2 d2 ++ ['y']))
      = .ok (.point .xy [decValue n1 a1 d1, decValue n2 a2 d2]) := by
  have s1 : IsSep 'x' := sep_of (by decide) (by decide)
  have s2 : IsSep 'y' := sep_of (by decide) (by decide)
  rw [order_direct, direct_to_points (pre_declines_dec_head n1 a1 d1 _) (coord_declines_dec n1 a1 d1 _)]
  simp [ordPoint, firstOf_cons, rPoint2,
    point2_accept_dec true sX sY n1 n2 a1 a2 d1 d2 h1 h2 s1 s2 (by decide) (by decide)]

theorem C17_roundtrip_point_ne_decimal (n1 n2 : Bool) (a1 a2 : Nat) (d1 d2 : Str)
    (h1 : ∀ c ∈ d1, isDigit c = true) (h2 : ∀ c ∈ d2, isDigit c = true) :
    convert2StrBoolPathCoordPointNum (showDec n1 a1 d1 ++ 'n' :: (showDec n2 a2 d2 ++ ['e']))
      = .ok (.point .ne [decValue n1 a1 d1, decValue n2 a2 d2]) := by
  have s1 : IsSep 'n' := sep_of (by decide) (by decide)
  have s2 : IsSep 'e' := sep_of (by decide) (by decide)
  rw [order_direct, direct_to_points (pre_declines_dec_head n1 a1 d1 _) (coord_declines_dec n1 a1 d1 _)]
  simp [ordPoint, firstOf_cons, rPoint2,
    point2_decline_sep_dec true sX sY n1 a1 d1 h1 s1 _ (by decide),
    point2_accept_dec false sN sE n1 n2 a1 a2 d1 d2 h1 h2 s1 s2 (by decide) (by decide)]

theorem C17_roundtrip_point_fs_decimal (n1 n2 : Bool) (a1 a2 : Nat) (d1 d2 : Str)
    (h1 : ∀ c ∈ d1, isDigit c = true) (h2 : ∀ c ∈ d2, isDigit c = true) :
    convert2StrBoolPathCoordPointNum (showDec n1 a1 d1 ++ 'f' :: (showDec n2 a2 d2 ++ ['s']))
      = .ok (.point .fs [decValue n1 a1 d1, decValue n2 a2 d2]) := by
  have s1 : IsSep 'f' := sep_of (by decide) (by decide)
  have s2 : IsSep 's' := sep_of (by decide) (by decide)
  rw [order_direct, direct_to_points (pre_declines_dec_head n1 a1 d1 _) (coord_declines_dec n1 a1 d1 _)]
  simp [ordPoint, firstOf_cons, rPoint2,
    point2_decline_sep_dec true sX sY n1 a1 d1 h1 s1 _ (by decide),
    point2_decline_sep_dec false sN sE n1 a1 d1 h1 s1 _ (by decide),
    point2_accept_dec false sF sS n1 n2 a1 a2 d1 d2 h1 h2 s1 s2 (by decide) (by decide)]

theorem C17_roundtrip_point_xyz_decimal (n1 n2 n3 : Bool) (a1 a2 a3 : Nat) (d1 d2 d3 : Str)
    (h1 : ∀ c ∈ d1, isDigit c = true) (h2 : ∀ c ∈ d2, isDigit c = true) (h3 : ∀ c ∈ d3, isDigit c = true) :
    convert2StrBoolPathCoordPointNum
        (showDec n1 a1 d1 ++ 'x' :: (showDec n2 a2 d2 ++ 'y' :: (showDec n3 a3 d3 ++ ['z'])))
      = .ok (.point .xyz [decValue n1 a1 d1, decValue n2 a2 d2, decValue n3 a3 d3]) := by
  have s1 : IsSep 'x' := sep_of (by decide) (by decide)
  have s2 : IsSep 'y' := sep_of (by decide) (by decide)
  have s3 : IsSep 'z' := sep_of (by decide) (by decide)
  rw [order_direct, direct_to_points (pre_declines_dec_head n1 a1 d1 _) (coord_declines_dec n1 a1 d1 _)]
  simp [ordPoint, firstOf_cons, rPoint2, rPoint3,
    point2_decline_long_dec true sX sY n1 n2 n3 a1 a2 a3 d1 d2 d3 h1 h2 s1 s2 ['z'],
    point2_decline_sep_dec false sN sE n1 a1 d1 h1 s1 _ (by decide),
    point2_decline_sep_dec false sF sS n1 a1 d1 h1 s1 _ (by decide),
    point3_accept_dec sX sY sZ n1 n2 n3 a1 a2 a3 d1 d2 d3 h1 h2 h3 s1 s2 s3 (by decide) (by decide) (by decide)]

theorem C17_roundtrip_point_ned_decimal (n1 n2 n3 : Bool) (a1 a2 a3 : Nat) (d1 d2 d3 : Str)
    (h1 : ∀ c ∈ d1, isDigit c = true) (h2 : ∀ c ∈ d2, isDigit c = true) (h3 : ∀ c ∈ d3, isDigit c = true) :
    convert2StrBoolPathCoordPointNum
        (showDec n1 a1 d1 ++ 'n' :: (showDec n2 a2 d2 ++ 'e' :: (showDec n3 a3 d3 ++ ['d'])))
      = .ok (.point .ned [decValue n1 a1 d1, decValue n2 a2 d2, decValue n3 a3 d3]) := by
  have s1 : IsSep 'n' := sep_of (by decide) (by decide)
  have s2 : IsSep 'e' := sep_of (by decide) (by decide)
  have s3 : IsSep 'd' := sep_of (by decide) (by decide)
  rw [order_direct, direct_to_points (pre_declines_dec_head n1 a1 d1 _) (coord_declines_dec n1 a1 d1 _)]
  simp [ordPoint, firstOf_cons, rPoint2, rPoint3,
    point2_decline_sep_dec true sX sY n1 a1 d1 h1 s1 _ (by decide),
    point2_decline_long_dec false sN sE n1 n2 n3 a1 a2 a3 d1 d2 d3 h1 h2 s1 s2 ['d'],
    point2_decline_sep_dec false sF sS n1 a1 d1 h1 s1 _ (by decide),
    point3_decline_sep_dec sX sY sZ n1 a1 d1 h1 s1 _ (by decide),
    point3_accept_dec sN sE sD n1 n2 n3 a1 a2 a3 d1 d2 d3 h1 h2 h3 s1 s2 s3 (by decide) (by decide) (by decide)]

theorem C17_roundtrip_point_fsb_decimal (n1 n2 n3 : Bool) (a1 a2 a3 : Nat) (d1 d2 d3 : Str)
    (h1 : ∀ c ∈ d1, isDigit c = true) (h2 : ∀ c ∈ d2, isDigit c = true) (h3 : ∀ c ∈ d3, isDigit c = true) :
    convert2StrBoolPathCoordPointNum
        (showDec n1 a1 d1 ++ 'f' :: (showDec n2 a2 d2 ++ 's' :: (showDec n3 a3 d3 ++ ['b'])))
      = .ok (.point .fsb [decValue n1 a1 d1, decValue n2 a2 d2, decValue n3 a3 d3]) := by
  have s1 : IsSep 'f' := sep_of (by decide) (by decide)
  have s2 : IsSep 's' := sep_of (by decide) (by decide)
  have s3 : IsSep 'b' := sep_of (by decide) (by decide)
  rw [order_direct, direct_to_points (pre_declines_dec_head n1 a1 d1 _) (coord_declines_dec n1 a1 d1 _)]
  simp [ordPoint, firstOf_cons, rPoint2, rPoint3,
    point2_decline_sep_dec true sX sY n1 a1 d1 h1 s1 _ (by decide),
    point2_decline_sep_dec false sN sE n1 a1 d1 h1 s1 _ (by decide),
    point2_decline_long_dec false sF sS n1 n2 n3 a1 a2 a3 d1 d2 d3 h1 h2 s1 s2 ['b'],
    point3_decline_sep_dec sX sY sZ n1 a1 d1 h1 s1 _ (by decide),
    point3_decline_sep_dec sN sE sD n1 a1 d1 h1 s1 _ (by decide),
    point3_accept_dec sF sS sB n1 n2 n3 a1 a2 a3 d1 d2 d3 h1 h2 h3 s1 s2 s3 (by decide) (by decide) (by decide)]

example : showDec true 1 "5".toList ++ 'x' :: (showDec false 0 "25".toList ++ ['y']) = "-1.5x0.25y".toList := by
  decide +kernel

/-! ## the values Python treats as false

`0`, `0.0`, `-0.0`, `0j`, the empty string, `False`, `None`, points of zeros and a latitude / longitude of zero degrees
and zero minutes are ordinary values of the converters: the theorems above are stated for all integers, decimals,
strings and points, so they cover them; the instances are spelled out here, and the lat/lon form — which has no
round-trip theorem — is evaluated for all four hemispheres in both letter cases. -/

theorem showInt_zero : showInt 0 = ['0'] := by decide +kernel

example : convert2Num "0".toList = .ok (.int 0) ∧ convert2StrBoolPathCoordPointNum "0".toList = .ok (.int 0) := by
  have h := C17_roundtrip_int 0
  rw [showInt_zero] at h
  exact ⟨h.1, h.2.2.2.2.2.2.2.2.2⟩

example :
    convert2Num "0.0".toList = .ok (.float (.fin { neg := false, mant := 0, exp := -1 })) ∧
    convert2Num "-0.0".toList = .ok (.float (.fin { neg := true, mant := 0, exp := -1 })) ∧
    convert2StrBoolPathCoordPointNum "-0.0".toList = .ok (.float (.fin { neg := true, mant := 0, exp := -1 })) ∧
    convert2Num "0j".toList = .ok (.complex (.fin { neg := false, mant := 0, exp := 0 }) (.fin { neg := false, mant := 0, exp := 0 })) ∧
    convert2Num "0x0".toList = .ok (.int 0) ∧ convert2Num "-0".toList = .ok (.int 0) := by decide +kernel

example : convert2StrBoolPathCoordPointNum "\"\"".toList = .ok (.str []) ∧ convert2StrBoolCoordNum "''".toList = .ok (.str []) :=
  ⟨((C17_roundtrip_string []).1 (by simp)).1, ((C17_roundtrip_string []).2 (by simp)).2⟩

example :
    convert2StrBoolPathCoordPointNum "0x0y".toList = .ok (.point .xy [intF 0, intF 0]) ∧
    convert2StrBoolPathCoordPointNum "0n0e".toList = .ok (.point .ne [intF 0, intF 0]) ∧
    convert2StrBoolPathCoordPointNum "0f0s0b".toList = .ok (.point .fsb [intF 0, intF 0, intF 0]) := by
  have h1 := C17_roundtrip_point_xy 0 0
  have h2 := C17_roundtrip_point_ne 0 0
  have h3 := C17_roundtrip_point_fsb 0 0 0
  rw [showInt_zero] at h1 h2 h3
  exact ⟨h1, h2, h3⟩

/-- zero degrees, zero minutes: `neg` is the hemisphere (S, W), `e` the number of decimals of the minutes -/
def zeroCoord (neg : Bool) (e : Int) : Res :=
  .ok (.coord neg (.fin { neg := false, mant := 0, exp := 0 }) (.fin { neg := false, mant := 0, exp := e }))

example :
    convert2CoordNum "0N0.0".toList = zeroCoord false (-1) ∧ convert2CoordNum "0E0.0".toList = zeroCoord false (-1) ∧
    convert2CoordNum "0S0.0".toList = zeroCoord true (-1) ∧ convert2CoordNum "0W0.0".toList = zeroCoord true (-1) ∧
    convert2CoordNum "0n0.0".toList = zeroCoord false (-1) ∧ convert2CoordNum "0e0.0".toList = zeroCoord false (-1) ∧
    convert2CoordNum "0s0.0".toList = zeroCoord true (-1) ∧ convert2CoordNum "0w0.00".toList = zeroCoord true (-2) ∧
    convert2CoordNum "00n00.000".toList = zeroCoord false (-3) ∧
    convert2CoordPointNum "0S0.0".toList = zeroCoord true (-1) ∧
    convert2BoolCoordNum "0E0.0".toList = zeroCoord false (-1) ∧
    convert2StrBoolCoordNum "0w0.0".toList = zeroCoord true (-1) ∧
    convert2BoolCoordPointNum "0N0.0".toList = zeroCoord false (-1) ∧
    convert2PathCoordPointNum "0e0.0".toList = zeroCoord false (-1) ∧
    convert2BoolPathCoordPointNum "0s0.0".toList = zeroCoord true (-1) ∧
    convert2StrBoolPathCoordPointNum "0W0.0".toList = zeroCoord true (-1) := by decide +kernel

end Ioflo.Literal
