import IofloModel.Lemmas.Store
/-!
# C18 — the data store tree stays well formed under any operation sequence

Property theorems only.  Model: `Model/Store.lean` (transcription of `storing.Store` with the
repairs `fixes/D10-validate-levels-first.patch` and `fixes/D10b-fetch-through-share.patch`;
`lg = true` keeps the unrepaired order of `add`/`addNode`).  Specification: the flat map
`abs root : Path → Option Obj` and the tree-free functions `rejects`, `effect`, `result` of the
same file.  All theorems are for every tree `root` (not only reachable ones), every name, every
identity label.
-/
namespace Ioflo.Store

def isErr : Out → Bool
  | .err _ => true
  | _ => false

theorem isErr_outOpt (x : Option Obj) : isErr (outOpt x) = false := by
  cases x <;> rfl

theorem isShareAt_some {m : Abs} {q : Path} (h : isShareAt m q = true) : ∃ o, m q = some o := by
  unfold isShareAt at h
  cases hm : m q with
  | none => simp [hm] at h
  | some o => exact ⟨o, rfl⟩

theorem isNodeAt_some {m : Abs} {q : Path} (h : isNodeAt m q = true) : ∃ o, m q = some o := by
  unfold isNodeAt at h
  cases hm : m q with
  | none => simp [hm] at h
  | some o => exact ⟨o, rfl⟩

/-! ## lookups -/

/-- **Lookups are pure and read the flat map at the normalised path** (both code versions). -/
theorem C18_lookup_pure (lg : Bool) (root : Kids) (n : Str) :
    step lg root (.fetch n) = (root, outOpt (abs root (pathOf n))) ∧
    step lg root (.fetchShare n) =
      (root, outOpt (if isShareAt (abs root) (pathOf n) then abs root (pathOf n) else none)) ∧
    step lg root (.fetchNode n) =
      (root, outOpt (if isNodeAt (abs root) (pathOf n) then abs root (pathOf n) else none)) := by
  refine ⟨?_, ?_, ?_⟩
  · simp [step, fetch_eq]
  · simp [step, fetchShare_eq]
  · simp [step, fetchNode_eq]

/-- leading and trailing dots do not change the path a name denotes -/
theorem C18_dotted_path (a b : Nat) (n : Str) : pathOf (dots a ++ n ++ dots b) = pathOf n :=
  pathOf_dots a b n

/-- **Dotted variants**: every operation that takes a path name behaves identically (same new
store, same result) for the name with any number of leading and trailing dots. -/
theorem C18_dotted_variants (lg : Bool) (root : Kids) (a b : Nat) (n : Str) (tag : Nat) :
    step lg root (.fetch (dots a ++ n ++ dots b)) = step lg root (.fetch n) ∧
    step lg root (.fetchShare (dots a ++ n ++ dots b)) = step lg root (.fetchShare n) ∧
    step lg root (.fetchNode (dots a ++ n ++ dots b)) = step lg root (.fetchNode n) ∧
    step lg root (.addNode (dots a ++ n ++ dots b) tag) = step lg root (.addNode n tag) ∧
    step lg root (.create (dots a ++ n ++ dots b) tag) = step lg root (.create n tag) ∧
    step lg root (.createNode (dots a ++ n ++ dots b) tag) = step lg root (.createNode n tag) := by
  have hA : addNode lg root (dots a ++ n ++ dots b) tag = addNode lg root n tag := by
    unfold addNode; rw [levels_dots]
  have hF : fetch root (dots a ++ n ++ dots b) = fetch root n := by
    unfold fetch; rw [levels_dots]
  have hS : fetchShare root (dots a ++ n ++ dots b) = fetchShare root n := by
    unfold fetchShare; rw [hF]
  have hN : fetchNode root (dots a ++ n ++ dots b) = fetchNode root n := by
    unfold fetchNode; rw [hF]
  refine ⟨?_, ?_, ?_, ?_, ?_, ?_⟩ <;> simp only [step, hA, hF, hS, hN, strip_dots]

/-! ## rejection -/

/-- **Exactly when an operation is rejected**, in terms of the flat map only:
`add` — empty name, an empty level before the last, a share at a proper prefix, or an existing
entry at the path; `addNode` — an empty level or a share at a prefix or at the path; `change` —
an empty level before the last or no share at the path; `create`/`createNode` — the entry is
absent and `add`/`addNode` would reject; a non-Share argument. -/
theorem C18_rejects_iff (root : Kids) (op : Op) :
    isErr (step false root op).2 = rejects (abs root) op := by
  cases op with
  | fetch n => simp [step, isErr_outOpt, rejects]
  | fetchShare n => simp [step, isErr_outOpt, rejects]
  | fetchNode n => simp [step, isErr_outOpt, rejects]
  | addBad => rfl
  | changeBad => rfl
  | add n id tag =>
    have h := add_rejects root n id tag
    simp only [step, rejects]
    cases hr : add false root n id tag with
    | mk r e => cases e <;> simp [hr, isErr] at h ⊢ <;> exact h
  | addNode n tag =>
    have h := addNode_rejects root n tag
    simp only [step, rejects]
    cases hr : addNode false root n tag with
    | mk r e => cases e <;> simp [hr, isErr, isErrE] at h ⊢ <;> exact h
  | change n id =>
    have h := change_rejects root n id
    simp only [step, rejects]
    cases hr : change root n id with
    | mk r e => cases e <;> simp [hr, isErr] at h ⊢ <;> exact h
  | create n tag =>
    simp only [step, rejects, fetchShare_eq]
    by_cases hs : isShareAt (abs root) (pathOf n) = true
    · obtain ⟨o, ho⟩ := isShareAt_some hs
      simp [hs, ho, isErr]
    · have h := add_rejects root (strip n) ⟨tag, 0⟩ tag
      simp only [hs, Bool.false_eq_true, ↓reduceIte, Bool.not_false, Bool.true_and]
      cases hr : add false root (strip n) ⟨tag, 0⟩ tag with
      | mk r e => cases e <;> simp [hr, isErr] at h ⊢ <;> exact h
  | createNode n tag =>
    simp only [step, rejects, fetchNode_eq]
    by_cases hs : isNodeAt (abs root) (pathOf n) = true
    · obtain ⟨o, ho⟩ := isNodeAt_some hs
      simp [hs, ho, isErr]
    · have h := addNode_rejects root n tag
      simp only [hs, Bool.false_eq_true, ↓reduceIte, Bool.not_false, Bool.true_and]
      cases hr : addNode false root n tag with
      | mk r e => cases e <;> simp [hr, isErr, isErrE] at h ⊢ <;> exact h

/-- **A rejected operation leaves the store unchanged** — the identical tree, not merely the
same map (repaired code; the unrepaired order violates this, see `C18_legacy_counterexample`). -/
theorem C18_rejected_unchanged (root : Kids) (op : Op) (e : Err)
    (h : (step false root op).2 = .err e) : (step false root op).1 = root := by
  cases op with
  | fetch n => rfl
  | fetchShare n => rfl
  | fetchNode n => rfl
  | addBad => rfl
  | changeBad => rfl
  | add n id tag =>
    simp only [step] at h ⊢
    cases hr : add false root n id tag with
    | mk r e' =>
      cases e' with
      | none => simp [hr] at h
      | some e' => have := add_err_unchanged root n id tag e' (by rw [hr]); rw [hr] at this; exact this
  | addNode n tag =>
    simp only [step] at h ⊢
    cases hr : addNode false root n tag with
    | mk r e' =>
      cases e' with
      | ok o => simp [hr] at h
      | error e' =>
        have := addNode_err_unchanged root n tag (by rw [hr]; rfl); rw [hr] at this; exact this
  | change n id =>
    simp only [step] at h ⊢
    cases hr : change root n id with
    | mk r e' =>
      cases e' with
      | none => simp [hr] at h
      | some e' => have := change_err_unchanged root n id e' (by rw [hr]); rw [hr] at this; exact this
  | create n tag =>
    simp only [step] at h ⊢
    cases hf : fetchShare root n with
    | some o => rfl
    | none =>
      simp only [hf] at h ⊢
      cases hr : add false root (strip n) ⟨tag, 0⟩ tag with
      | mk r e' =>
        cases e' with
        | none => simp [hr] at h
        | some e' =>
          have := add_err_unchanged root (strip n) ⟨tag, 0⟩ tag e' (by rw [hr]); rw [hr] at this; exact this
  | createNode n tag =>
    simp only [step] at h ⊢
    cases hf : fetchNode root n with
    | some o => rfl
    | none =>
      simp only [hf] at h ⊢
      cases hr : addNode false root n tag with
      | mk r e' =>
        cases e' with
        | ok o => simp [hr] at h
        | error e' =>
          have := addNode_err_unchanged root n tag (by rw [hr]; rfl); rw [hr] at this; exact this

/-! ## accepted operations: refinement to the flat map -/

/-- **Refinement.**  An accepted operation changes the flat map exactly as the tree-free
specification says (`effect`: the placed share at its path plus new nodes at the missing
prefixes and nothing else; `change`: one point) and returns what it says (`result`). -/
theorem C18_step_refines (root : Kids) (op : Op) (h : rejects (abs root) op = false) :
    abs (step false root op).1 = effect (abs root) op ∧
    (step false root op).2 = outOpt (result (abs root) op) := by
  cases op with
  | fetch n => simp [step, effect, result, fetch_eq]
  | fetchShare n => simp [step, effect, result, fetchShare_eq]
  | fetchNode n => simp [step, effect, result, fetchNode_eq]
  | addBad => simp [rejects] at h
  | changeBad => simp [rejects] at h
  | add n id tag =>
    have hr := add_rejects root n id tag
    simp only [rejects] at h
    rw [h] at hr
    have he : (add false root n id tag).2 = none := by simpa using hr
    have hf := add_effect root n id tag he
    simp only [step, effect, result]
    cases hadd : add false root n id tag with
    | mk r e =>
      rw [hadd] at he hf
      simp only at he hf
      subst he
      exact ⟨hf, rfl⟩
  | addNode n tag =>
    have hr := addNode_rejects root n tag
    simp only [rejects] at h
    rw [h] at hr
    have hf := addNode_effect root n tag hr
    simp only [step, effect, result]
    cases hadd : addNode false root n tag with
    | mk r e =>
      cases e with
      | error e => rw [hadd] at hr; simp [isErrE] at hr
      | ok o =>
        have hres := addNode_result root n tag o (by rw [hadd])
        rw [hadd] at hf hres
        simp only at hf hres
        refine ⟨hf, ?_⟩
        rw [← hf, hres]; rfl
  | change n id =>
    have hr := change_rejects root n id
    simp only [rejects] at h
    rw [h] at hr
    have he : (change root n id).2 = none := by simpa using hr
    have hf := change_effect root n id he
    simp only [step, effect, result]
    cases hch : change root n id with
    | mk r e =>
      rw [hch] at he hf
      simp only at he hf
      subst he
      exact ⟨hf, rfl⟩
  | create n tag =>
    simp only [rejects] at h
    simp only [step, effect, result, fetchShare_eq]
    by_cases hs : isShareAt (abs root) (pathOf n) = true
    · obtain ⟨o, ho⟩ := isShareAt_some hs
      simp [hs, ho, outOpt]
    · simp only [hs, Bool.not_false, Bool.true_and, Bool.false_eq_true, ↓reduceIte] at h ⊢
      have hr := add_rejects root (strip n) ⟨tag, 0⟩ tag
      rw [h] at hr
      have he : (add false root (strip n) ⟨tag, 0⟩ tag).2 = none := by simpa using hr
      have hf := add_effect root (strip n) ⟨tag, 0⟩ tag he
      rw [pathOf_strip] at hf
      cases hadd : add false root (strip n) ⟨tag, 0⟩ tag with
      | mk r e =>
        rw [hadd] at he hf
        simp only at he hf
        subst he
        exact ⟨hf, rfl⟩
  | createNode n tag =>
    simp only [rejects] at h
    simp only [step, effect, result, fetchNode_eq]
    by_cases hs : isNodeAt (abs root) (pathOf n) = true
    · obtain ⟨o, ho⟩ := isNodeAt_some hs
      simp [hs, ho, outOpt]
    · simp only [hs, Bool.not_false, Bool.true_and, Bool.false_eq_true, ↓reduceIte] at h ⊢
      have hr := addNode_rejects root n tag
      rw [h] at hr
      have hf := addNode_effect root n tag hr
      cases hadd : addNode false root n tag with
      | mk r e =>
        cases e with
        | error e => rw [hadd] at hr; simp [isErrE] at hr
        | ok o =>
          have hres := addNode_result root n tag o (by rw [hadd])
          rw [hadd] at hf hres
          simp only at hf hres
          refine ⟨hf, ?_⟩
          rw [← hf, hres]; rfl

/-- the share-on-the-way test of the specification, spelled out: some proper, non-empty prefix
of the path holds a share -/
theorem C18_shareOnWay_iff (m : Abs) (k : Str) (ks : List Str) :
    shareOnWay m k ks = true ↔
      ∃ q, q ≠ [] ∧ q <+: k :: ks ∧ q ≠ k :: ks ∧ isShareAt m q = true := by
  induction ks generalizing m k with
  | nil =>
    simp only [shareOnWay, Bool.false_eq_true, false_iff]
    rintro ⟨q, h0, hp, hne, _⟩
    cases q with
    | nil => exact h0 rfl
    | cons j js =>
      rw [List.cons_prefix_cons] at hp
      obtain ⟨rfl, hjs⟩ := hp
      have : js = [] := List.prefix_nil.mp hjs
      exact hne (by rw [this])
  | cons k' ks ih =>
    simp only [shareOnWay, Bool.or_eq_true, ih]
    constructor
    · rintro (h | ⟨q, h0, hp, hne, hs⟩)
      · exact ⟨[k], by simp, by simp [List.cons_prefix_cons], by simp, h⟩
      · exact ⟨k :: q, by simp, by simpa [List.cons_prefix_cons] using hp, by simpa using hne, hs⟩
    · rintro ⟨q, h0, hp, hne, hs⟩
      cases q with
      | nil => exact absurd rfl h0
      | cons j js =>
        rw [List.cons_prefix_cons] at hp
        obtain ⟨rfl, hjs⟩ := hp
        cases js with
        | nil => exact Or.inl hs
        | cons j' js' =>
          exact Or.inr ⟨j' :: js', by simp, hjs, by simpa using hne, hs⟩

/-! ## every entry records its own path as its name -/

theorem namedByPath_effect (m : Abs) (op : Op) (h : NamedByPath m) : NamedByPath (effect m op) := by
  have hshare : ∀ (n nm : Str) (id : Oid) (tag : Nat), strip nm = strip n →
      NamedByPath (placeShare m (pathOf n) ⟨true, nm, id⟩ tag) := by
    intro n nm id tag hn q o ho
    simp only [placeShare] at ho
    split at ho
    · next hq =>
      simp only [Option.some.injEq] at ho
      subst ho; subst hq
      simp [hn, joinL_pathOf]
    · split at ho
      · simp only [Option.some.injEq] at ho
        subst ho; simp [newNode]
      · exact h q o ho
  have hnodes : ∀ (n : Str) (tag : Nat), NamedByPath (placeNodes m (pathOf n) tag) := by
    intro n tag q o ho
    simp only [placeNodes] at ho
    split at ho
    · simp only [Option.some.injEq] at ho
      subst ho; simp [newNode]
    · exact h q o ho
  cases op with
  | fetch n => exact h
  | fetchShare n => exact h
  | fetchNode n => exact h
  | addBad => exact h
  | changeBad => exact h
  | add n id tag => exact hshare n n id tag rfl
  | addNode n tag => exact hnodes n tag
  | change n id =>
    intro q o ho
    simp only [effect, replaceAt] at ho
    split at ho
    · next hq =>
      simp only [Option.some.injEq] at ho
      subst ho; subst hq
      simp [joinL_pathOf]
    · exact h q o ho
  | create n tag =>
    simp only [effect]
    split
    · exact h
    · exact hshare n (strip n) ⟨tag, 0⟩ tag (strip_strip n)
  | createNode n tag =>
    simp only [effect]
    split
    · exact h
    · exact hnodes n tag

theorem isErr_iff {o : Out} : isErr o = true ↔ ∃ e, o = .err e := by
  cases o <;> simp [isErr]

/-- **Names are paths, one step**: if every entry of the store is named by its path, the same
holds after any operation (accepted or rejected). -/
theorem C18_names_preserved (root : Kids) (op : Op) (h : NamedByPath (abs root)) :
    NamedByPath (abs (step false root op).1) := by
  cases hr : rejects (abs root) op with
  | true =>
    have : isErr (step false root op).2 = true := by rw [C18_rejects_iff, hr]
    obtain ⟨e, he⟩ := isErr_iff.mp this
    rw [C18_rejected_unchanged root op e he]
    exact h
  | false =>
    rw [(C18_step_refines root op hr).1]
    exact namedByPath_effect _ op h

theorem run_nil (lg : Bool) (root : Kids) : run lg root [] = (root, []) := rfl

theorem run_cons (lg : Bool) (root : Kids) (op : Op) (ops : List Op) :
    (run lg root (op :: ops)).1 = (run lg (step lg root op).1 ops).1 := rfl

/-- **Names are paths, every history**: in a store that started empty, after any sequence of
operations whatsoever, every node reachable at path `p` is named `'.'.join(p)` and every share
reachable at `p` has a name that strips to `'.'.join(p)`. -/
theorem C18_names_are_paths (ops : List Op) : NamedByPath (abs (run false [] ops).1) := by
  have : ∀ root, NamedByPath (abs root) → NamedByPath (abs (run false root ops).1) := by
    induction ops with
    | nil => intro root h; exact h
    | cons op ops ih =>
      intro root h
      rw [run_cons]
      exact ih _ (C18_names_preserved root op h)
  apply this
  intro q o ho
  cases q <;> simp [abs, find_nil] at ho

/-- the same for the store as `Store()` leaves it (its constructor runs four creations) -/
theorem C18_names_are_paths_init (ops : List Op) : NamedByPath (abs (run false init ops).1) := by
  have h := C18_names_are_paths (ctorOps ++ ops)
  have happ : ∀ (a b : List Op) (root : Kids),
      (run false root (a ++ b)).1 = (run false (run false root a).1 b).1 := by
    intro a
    induction a with
    | nil => intro b root; rfl
    | cons op a ih => intro b root; simp only [List.cons_append, run_cons, ih]
  rw [happ] at h
  exact h

/-! ## what was placed stays until it is replaced -/

/-- **Permanence**: an entry present at `p` is still there, identical, after any operation other
than an (accepted) `change` aimed at exactly `p`. -/
theorem C18_entry_stays (root : Kids) (op : Op) (p : Path) (o : Obj)
    (h : abs root p = some o) (hc : ∀ n id, op = .change n id → pathOf n ≠ p) :
    abs (step false root op).1 p = some o := by
  cases hr : rejects (abs root) op with
  | true =>
    have : isErr (step false root op).2 = true := by rw [C18_rejects_iff, hr]
    obtain ⟨e, he⟩ := isErr_iff.mp this
    rw [C18_rejected_unchanged root op e he]
    exact h
  | false =>
    rw [(C18_step_refines root op hr).1]
    have hshare : ∀ (n nm : Str) (id : Oid) (tag : Nat), addRejects (abs root) nm = false →
        pathOf nm = pathOf n → placeShare (abs root) (pathOf n) ⟨true, nm, id⟩ tag p = some o := by
      intro n nm id tag hrej hpath
      have hfree : abs root (pathOf n) = none := by
        simp only [addRejects, Bool.or_eq_false_iff] at hrej
        rw [hpath] at hrej
        simpa using hrej.2
      have hne : p ≠ pathOf n := by
        intro e; rw [e, hfree] at h; simp at h
      simp [placeShare, hne, h]
    have hnodes : ∀ (n : Str) (tag : Nat), placeNodes (abs root) (pathOf n) tag p = some o := by
      intro n tag; simp [placeNodes, h]
    cases op with
    | fetch n => exact h
    | fetchShare n => exact h
    | fetchNode n => exact h
    | addBad => exact h
    | changeBad => exact h
    | add n id tag => exact hshare n n id tag (by simpa [rejects] using hr) rfl
    | addNode n tag => exact hnodes n tag
    | change n id =>
      have := hc n id rfl
      simp [effect, replaceAt, Ne.symm this, h]
    | create n tag =>
      simp only [effect]
      split
      · exact h
      · next hs =>
        simp only [rejects, hs, Bool.not_false, Bool.true_and] at hr
        exact hshare n (strip n) ⟨tag, 0⟩ tag hr (pathOf_strip n)
    | createNode n tag =>
      simp only [effect]
      split
      · exact h
      · exact hnodes n tag

/-- an operation only ever makes entries appear at prefixes of its own path -/
def opPath : Op → Path
  | .add n _ _ | .addNode n _ | .change n _ | .create n _ | .createNode n _ => pathOf n
  | _ => []

/-- **Nothing appears unless placed**: a path that held nothing holds something after an
operation only if it is a prefix of (or equal to) the path that operation was aimed at. -/
theorem C18_only_placed_appears (root : Kids) (op : Op) (p : Path) (o : Obj)
    (h0 : abs root p = none) (h1 : abs (step false root op).1 p = some o) : p <+: opPath op := by
  cases hr : rejects (abs root) op with
  | true =>
    have : isErr (step false root op).2 = true := by rw [C18_rejects_iff, hr]
    obtain ⟨e, he⟩ := isErr_iff.mp this
    rw [C18_rejected_unchanged root op e he, h0] at h1
    simp at h1
  | false =>
    rw [(C18_step_refines root op hr).1] at h1
    have hshare : ∀ (pp : Path) (sh : Obj) (tag : Nat),
        placeShare (abs root) pp sh tag p = some o → p <+: pp := by
      intro pp sh tag hp
      simp only [placeShare] at hp
      split at hp
      · next e => rw [e]; exact List.prefix_refl _
      · split at hp
        · next c => exact c.2.1
        · rw [h0] at hp; simp at hp
    have hnodes : ∀ (pp : Path) (tag : Nat),
        placeNodes (abs root) pp tag p = some o → p <+: pp := by
      intro pp tag hp
      simp only [placeNodes] at hp
      split at hp
      · next c => exact c.2.1
      · rw [h0] at hp; simp at hp
    cases op with
    | fetch n => simp [effect, h0] at h1
    | fetchShare n => simp [effect, h0] at h1
    | fetchNode n => simp [effect, h0] at h1
    | addBad => simp [effect, h0] at h1
    | changeBad => simp [effect, h0] at h1
    | add n id tag => exact hshare _ _ _ h1
    | addNode n tag => exact hnodes _ _ h1
    | change n id =>
      simp only [effect, replaceAt] at h1
      split at h1
      · next e => rw [e]; exact List.prefix_refl _
      · rw [h0] at h1; simp at h1
    | create n tag =>
      simp only [effect] at h1
      split at h1
      · rw [h0] at h1; simp at h1
      · exact hshare _ _ _ h1
    | createNode n tag =>
      simp only [effect] at h1
      split at h1
      · rw [h0] at h1; simp at h1
      · exact hnodes _ _ h1

/-- **Last placed wins, over histories.**  After an accepted `add` of a share, any later history
that contains no `change` aimed at its path still finds exactly that share at that path — through
every dotted variant of the name (by `C18_lookup_pure` and `C18_dotted_path` the lookup reads
`abs … (pathOf n)`). -/
theorem C18_last_placed_wins (root : Kids) (n : Str) (id : Oid) (tag : Nat) (ops : List Op)
    (hacc : isErr (step false root (.add n id tag)).2 = false)
    (hc : ∀ op ∈ ops, ∀ n' id', op = .change n' id' → pathOf n' ≠ pathOf n) :
    abs (run false (step false root (.add n id tag)).1 ops).1 (pathOf n) = some ⟨true, n, id⟩ := by
  have hnow : abs (step false root (.add n id tag)).1 (pathOf n) = some ⟨true, n, id⟩ := by
    rw [C18_rejects_iff] at hacc
    rw [(C18_step_refines root _ hacc).1]
    simp [effect, placeShare]
  generalize (step false root (.add n id tag)).1 = r at hnow
  induction ops generalizing r with
  | nil => exact hnow
  | cons op ops ih =>
    rw [run_cons]
    apply ih (fun op' hm => hc op' (List.mem_cons_of_mem _ hm))
    exact C18_entry_stays r op _ _ hnow (hc op (List.mem_cons_self ..))

/-- the same for a share substituted by `change`: it is what lookups return until the next
`change` at that path -/
theorem C18_last_changed_wins (root : Kids) (n : Str) (id : Oid) (ops : List Op)
    (hacc : isErr (step false root (.change n id)).2 = false)
    (hc : ∀ op ∈ ops, ∀ n' id', op = .change n' id' → pathOf n' ≠ pathOf n) :
    abs (run false (step false root (.change n id)).1 ops).1 (pathOf n) = some ⟨true, n, id⟩ := by
  have hnow : abs (step false root (.change n id)).1 (pathOf n) = some ⟨true, n, id⟩ := by
    rw [C18_rejects_iff] at hacc
    rw [(C18_step_refines root _ hacc).1]
    simp [effect, replaceAt]
  generalize (step false root (.change n id)).1 = r at hnow
  induction ops generalizing r with
  | nil => exact hnow
  | cons op ops ih =>
    rw [run_cons]
    apply ih (fun op' hm => hc op' (List.mem_cons_of_mem _ hm))
    exact C18_entry_stays r op _ _ hnow (hc op (List.mem_cons_self ..))

/-! ## create / createNode are idempotent -/

/-- an accepted `create` followed by a `create` of the same path (any dotted variant, any
operation number) returns the same share and does not touch the store -/
theorem C18_create_idem (root : Kids) (n : Str) (tag tag' : Nat) (a b : Nat)
    (hacc : isErr (step false root (.create n tag)).2 = false) :
    step false (step false root (.create n tag)).1 (.create (dots a ++ n ++ dots b) tag') =
      ((step false root (.create n tag)).1, (step false root (.create n tag)).2) := by
  rw [(C18_dotted_variants false _ a b n tag').2.2.2.2.1]
  rw [C18_rejects_iff] at hacc
  obtain ⟨hm, hout⟩ := C18_step_refines root _ hacc
  generalize step false root (.create n tag) = r at hm hout
  have key : ∃ o, abs r.1 (pathOf n) = some o ∧ o.isShare = true ∧ r.2 = .obj o := by
    rw [hm, hout]
    simp only [effect, result]
    by_cases hs : isShareAt (abs root) (pathOf n) = true
    · obtain ⟨o, ho⟩ := isShareAt_some hs
      refine ⟨o, by simp [hs, ho], ?_, by simp [hs, ho, outOpt]⟩
      simpa [isShareAt, ho] using hs
    · exact ⟨⟨true, strip n, ⟨tag, 0⟩⟩, by simp [hs, placeShare], rfl, by simp [hs, outOpt]⟩
  obtain ⟨o, ho, hsh, hres⟩ := key
  simp only [step, fetchShare_eq, isShareAt, ho, hsh, if_true, hres]

theorem C18_createNode_idem (root : Kids) (n : Str) (tag tag' : Nat) (a b : Nat)
    (hacc : isErr (step false root (.createNode n tag)).2 = false) :
    step false (step false root (.createNode n tag)).1 (.createNode (dots a ++ n ++ dots b) tag') =
      ((step false root (.createNode n tag)).1, (step false root (.createNode n tag)).2) := by
  rw [(C18_dotted_variants false _ a b n tag').2.2.2.2.2]
  rw [C18_rejects_iff] at hacc
  obtain ⟨hm, hout⟩ := C18_step_refines root _ hacc
  generalize step false root (.createNode n tag) = r at hm hout
  have key : ∃ o, abs r.1 (pathOf n) = some o ∧ o.isShare = false ∧ r.2 = .obj o := by
    rw [hm, hout]
    simp only [effect, result]
    by_cases hs : isNodeAt (abs root) (pathOf n) = true
    · obtain ⟨o, ho⟩ := isNodeAt_some hs
      refine ⟨o, by simp [hs, ho], ?_, by simp [hs, ho, outOpt]⟩
      simpa [isNodeAt, ho] using hs
    · simp only [hs, Bool.false_eq_true, ↓reduceIte]
      simp only [rejects, hs, Bool.not_false, Bool.true_and, addNodeRejects,
        Bool.or_eq_false_iff] at hacc
      have hns : isShareAt (abs root) (pathOf n) = false := hacc.2
      cases hp : abs root (pathOf n) with
      | none =>
        have hne : pathOf n ≠ [] := by simp [pathOf]
        exact ⟨newNode (pathOf n) tag, by simp [placeNodes, hp, hne], rfl,
          by simp [placeNodes, hp, hne, outOpt]⟩
      | some o =>
        have h1 : o.isShare = false := by simpa [isShareAt, hp] using hns
        have h2 : (!o.isShare) = false := by simpa [isNodeAt, hp] using hs
        simp [h1] at h2
  obtain ⟨o, ho, hsh, hres⟩ := key
  simp only [step, fetchNode_eq, isNodeAt, ho, hsh, Bool.not_false, if_true, hres]

/-! ## the association lists really are dicts -/

/-- **Every dict of the tree has distinct keys, every history** (both code versions): the model's
`get?` (first match) therefore reads the tree exactly as a Python dict lookup does, and the flat
listing `flatKids` has one line per entry. -/
theorem C18_dicts_have_unique_keys (lg : Bool) (ops : List Op) : kidsOk (run lg [] ops).1 := by
  have : ∀ root, kidsOk root → kidsOk (run lg root ops).1 := by
    induction ops with
    | nil => intro root h; exact h
    | cons op ops ih => intro root h; exact ih _ (kidsOk_step lg root op h)
  exact this [] (by simp [kidsOk])

/-! ## the unrepaired code (D10) and non-vacuity -/

/-- **D10, unrepaired order (`lg = true`)**: `create("new..x")` on an empty store raises
`ValueError("Empty level")` *after* `setdefault` has created the node `new`: a rejected
operation that changed the store. -/
theorem C18_legacy_counterexample :
    ∃ (root : Kids) (op : Op) (e : Err), (step true root op).2 = .err e ∧
      flatKids [] (step true root op).1 ≠ flatKids [] root :=
  ⟨[], .create "new..x".toList 5, .emptyLevel, by decide, by decide⟩

/-- the same call on the repaired code: rejected, nothing created -/
example : (step false [] (.create "new..x".toList 5)).2 = .err .emptyLevel ∧
    flatKids [] (step false [] (.create "new..x".toList 5)).1 = [] := by decide

/-- non-vacuity of `C18_rejected_unchanged` / `C18_rejects_iff`: each kind of rejection occurs on
the store as `Store()` leaves it -/
example :
    (step false init (.add "time.x".toList ⟨9, 0⟩ 9)).2 = .err .levelIsShare ∧   -- share → node
    (step false init (.add ".meta.".toList ⟨9, 0⟩ 9)).2 = .err .tailExists ∧     -- over an entry
    (step false init (.addNode "time".toList 9)).2 = .err .levelIsShare ∧        -- share → node
    (step false init (.change "meta".toList ⟨9, 0⟩)).2 = .err .noShare ∧         -- node → share
    (step false init (.create "a..b".toList 9)).2 = .err .emptyLevel ∧           -- empty segment
    (step false init (.createNode "meta..b".toList 9)).2 = .err .emptyLevel ∧
    (step false init (.add "".toList ⟨9, 0⟩ 9)).2 = .err .emptyName := by decide

/-- non-vacuity of `C18_step_refines`, `C18_last_placed_wins`, `C18_create_idem`: accepted
operations exist, create nodes on the way, and are found again through dotted variants -/
example :
    rejects (abs init) (.create "a.b.c".toList 9) = false ∧
    flatKids [] (step false init (.create "a.b.c".toList 9)).1 =
      flatKids [] init ++
        [(["a".toList], ⟨false, "a".toList, ⟨9, 1⟩⟩),
         (["a".toList, "b".toList], ⟨false, "a.b".toList, ⟨9, 2⟩⟩),
         (["a".toList, "b".toList, "c".toList], ⟨true, "a.b.c".toList, ⟨9, 0⟩⟩)] ∧
    (step false (step false init (.create "a.b.c".toList 9)).1 (.fetchShare "..a.b.c.".toList)).2 =
      .obj ⟨true, "a.b.c".toList, ⟨9, 0⟩⟩ ∧
    (step false (step false init (.create "a.b.c".toList 9)).1 (.fetchNode "a.b.".toList)).2 =
      .obj ⟨false, "a.b".toList, ⟨9, 2⟩⟩ ∧
    (step false (step false init (.create "a.b.c".toList 9)).1 (.fetch "a.b.c.d".toList)).2 = .none ∧
    (step false (step false init (.add ".x.".toList ⟨7, 0⟩ 9)).1 (.change "x".toList ⟨8, 0⟩)).2 =
      .obj ⟨true, "x".toList, ⟨8, 0⟩⟩ := by decide

/-- `Store()` itself: the four entries its constructor makes -/
example : flatKids [] init =
    [(["meta".toList], ⟨false, "meta".toList, ⟨1, 1⟩⟩), (["time".toList], ⟨true, "time".toList, ⟨2, 0⟩⟩),
     (["realtime".toList], ⟨true, "realtime".toList, ⟨3, 0⟩⟩),
     (["datetime".toList], ⟨true, "datetime".toList, ⟨4, 0⟩⟩)] := by decide

/-- an oddity the code has and the model keeps: a share named `"."` is accepted and lives under
the empty key of the root dict; `fetch("")` and `fetch("..")` find it -/
example : (step false init (.add ".".toList ⟨9, 0⟩ 9)).2 = .obj ⟨true, ".".toList, ⟨9, 0⟩⟩ ∧
    (step false (step false init (.add ".".toList ⟨9, 0⟩ 9)).1 (.fetch "".toList)).2 =
      .obj ⟨true, ".".toList, ⟨9, 0⟩⟩ := by decide

/-! ## empty path segments -/

/-- **An empty path segment is always refused, on every tree**: `add` (and so `create` when it has
to add) with an empty level before the last, `addNode` (and so `createNode` when it has to add)
with any empty level, are rejected with ValueError and the identical tree — whatever else is in
the store, and for every dotted variant of the name (leading/trailing dots are stripped first,
so `"a..b"`, `".a..b."` are refused while `".a.b."` is `"a.b"`). -/
theorem C18_empty_segment_rejected (root : Kids) (n : Str) (id : Oid) (tag : Nat) :
    (n ≠ [] → initHasEmpty (levels n).1 (levels n).2 = true →
      step false root (.add n id tag) = (root, .err .emptyLevel)) ∧
    (anyEmpty (levels n).1 (levels n).2 = true →
      step false root (.addNode n tag) = (root, .err .emptyLevel)) := by
  constructor
  · intro hn h
    have : n.isEmpty = false := by cases n <;> simp_all
    simp [step, add, this, h]
  · intro h
    simp [step, addNode, h]

example : (step false init (.add "a..b".toList ⟨9, 0⟩ 9)) = (init, .err .emptyLevel) ∧
    (step false init (.addNode ".a..b.".toList 9)) = (init, .err .emptyLevel) ∧
    (step false init (.addNode "..".toList 9)) = (init, .err .emptyLevel) ∧
    (step false init (.fetch "meta..x".toList)).2 = .none ∧
    (step false init (.fetchNode "..meta..".toList)).2 = .obj ⟨false, "meta".toList, ⟨1, 1⟩⟩ := by
  constructor
  · exact (C18_empty_segment_rejected init _ _ _).1 (by decide) (by decide)
  constructor
  · exact (C18_empty_segment_rejected init _ ⟨0, 0⟩ _).2 (by decide)
  constructor
  · exact (C18_empty_segment_rejected init _ ⟨0, 0⟩ _).2 (by decide)
  · decide

end Ioflo.Store

#print axioms Ioflo.Store.C18_lookup_pure
#print axioms Ioflo.Store.C18_dotted_variants
#print axioms Ioflo.Store.C18_rejects_iff
#print axioms Ioflo.Store.C18_rejected_unchanged
#print axioms Ioflo.Store.C18_step_refines
#print axioms Ioflo.Store.C18_names_are_paths
#print axioms Ioflo.Store.C18_entry_stays
#print axioms Ioflo.Store.C18_only_placed_appears
#print axioms Ioflo.Store.C18_last_placed_wins
#print axioms Ioflo.Store.C18_create_idem
#print axioms Ioflo.Store.C18_createNode_idem
#print axioms Ioflo.Store.C18_legacy_counterexample
#print axioms Ioflo.Store.C18_dicts_have_unique_keys
#print axioms Ioflo.Store.C18_empty_segment_rejected
