import IofloModel.Lemmas.Share
/-!
# C19 — share stamps, fields and decks follow their documented rules

Property theorems only.  Model: `Model/Share.lean` (transcription of `storing.Share`, `Data`,
`Deck`, with the repairs D11, D11b, D11c, D11d, D11f of `/verif/fixes`; the known finding D11e is
reproduced; `setattrLegacy` keeps the unrepaired D11 behaviour for the record).
`w` ranges over all worlds (share + two stores), histories over all operation lists.
-/
namespace Ioflo.Share

/-! ## stamps -/

/-- no stamp without a store -/
theorem C19_no_store_no_stamp (w : World) (h : w.store = none) : storeStamp w = none := by
  simp [storeStamp, h]

/-- **Assigning the value** never raises and stamps the share with its store's current time
(`None` when there is no store). -/
theorem C19_value_stamp (w : World) (v : Val) :
    (step w (.setValue v)).2 = .unit ∧ (step w (.setValue v)).1.stamp = storeStamp w := by
  have h := setattr_public_none w.data (k := "value".toList) v (by decide)
  simp only [step]
  cases hr : setattr w.data "value".toList v with
  | mk d e =>
    rw [hr] at h
    simp only at h
    subst h
    exact ⟨rfl, rfl⟩

/-- **Updating fields**: a successful `update` stamps with the store's current time; one that
raises (a rejected field name) leaves the stamp alone. -/
theorem C19_update_stamp (w : World) (ps : List (Str × Val)) :
    ((step w (.update ps)).2 = .unit → (step w (.update ps)).1.stamp = storeStamp w) ∧
    ((step w (.update ps)).2 ≠ .unit → (step w (.update ps)).1.stamp = w.stamp) := by
  simp only [step]
  cases hr : changeLoop w.data ps with
  | mk d e => cases e <;> simp [restamp, storeStamp]

/-- both in one statement, as the property words it -/
theorem C19_value_update_stamp (w : World) :
    (∀ v, (step w (.setValue v)).1.stamp = storeStamp w) ∧
    (∀ ps, (step w (.update ps)).2 = .unit → (step w (.update ps)).1.stamp = storeStamp w) ∧
    (w.store = none → storeStamp w = none) :=
  ⟨fun v => (C19_value_stamp w v).2, fun ps => (C19_update_stamp w ps).1, C19_no_store_no_stamp w⟩

/-- **Changing fields never alters the stamp** (whether or not the call raises). -/
theorem C19_change_keeps_stamp (w : World) (ps : List (Str × Val)) :
    (step w (.change ps)).1.stamp = w.stamp := rfl

/-- the operations that may stamp -/
def stamper : Op → Bool
  | .setValue _ | .update _ | .create _ | .stampNow | .setData _ => true
  | _ => false

/-- **Only value, update, create, stampNow and assigning a whole data record touch the stamp**:
every other operation (item assignment, deletion, insert, reorder, reads, sift, copy, truth, the
unit record, deck traffic, the caller mutating its objects, the store's clock moving, attaching
another store) leaves it as it was. -/
theorem C19_only_stampers_stamp (w : World) (op : Op) (h : stamper op = false) :
    (step w op).1.stamp = w.stamp := by
  cases op with
  | sift fs => cases fs <;> (simp only [step]; split <;> rfl)
  | setValue v => simp [stamper] at h
  | update ps => simp [stamper] at h
  | create ps => simp [stamper] at h
  | stampNow => simp [stamper] at h
  | setData ps => simp [stamper] at h
  | _ =>
    simp only [step]
    all_goals (first | rfl | (split <;> first | rfl | (split <;> first | rfl | (split <;> rfl))))

/-- `stampNow` forces the stamp and returns it -/
theorem C19_stampNow (w : World) :
    (step w .stampNow).1.stamp = storeStamp w ∧ (step w .stampNow).2 = .stamp (storeStamp w) :=
  ⟨rfl, rfl⟩

/-- **`create` stamps exactly when a new field was added**: after a successful `create` the stamp
is the store's time if some listed name was not yet an attribute, and untouched otherwise. -/
theorem C19_create_stamps_iff_added (w : World) (ps : List (Str × Val))
    (h : (step w (.create ps)).2 = .unit) :
    (step w (.create ps)).1.stamp =
      if ps.any (fun p => !hasattr w.data p.1) then storeStamp w else w.stamp := by
  simp only [step] at h ⊢
  have hf := createLoop_flag ps w.data false
  cases hr : createLoop w.data false ps with
  | mk d r =>
    obtain ⟨upd, e⟩ := r
    rw [hr] at h hf
    cases e with
    | some e => simp at h
    | none =>
      have hu : upd = ps.any (fun p => !hasattr w.data p.1) := by simpa using hf rfl
      subst hu
      simp only
      split <;> simp [restamp, storeStamp]

/-- **`create` never overwrites**: whatever the call does (even if it raises half way), every
attribute that existed before reads exactly as before. -/
theorem C19_create_never_overwrites (w : World) (ps : List (Str × Val)) (k : Str)
    (h : hasattr w.data k = true) :
    getattr (step w (.create ps)).1.data k = getattr w.data k := by
  have hk := createLoop_keeps ps w.data false k h
  simp only [step]
  cases hr : createLoop w.data false ps with
  | mk d r =>
    obtain ⟨upd, e⟩ := r
    rw [hr] at hk
    cases e with
    | some e => exact hk
    | none => cases upd <;> exact hk

/-! ## fields: an insertion-ordered mapping whose keys are public identifiers -/

/-- **The dict and the odict key list stay in step, every history** (for all names, including the
class-attribute escape hatch): key list duplicate free, every listed key present in the dict,
every listed key a public identifier. -/
theorem C19_sync_invariant (ops : List Op) : Sync (run init ops).data :=
  sync_run sync_empty ops

/-- consequently `items()` never raises and `keys()` lists exactly its keys, every history -/
theorem C19_items_total (ops : List Op) :
    items (run init ops).data = .ok (view (run init ops).data) ∧
    (view (run init ops).data).map Prod.fst = (run init ops).data.keys :=
  ⟨items_eq_view (C19_sync_invariant ops), view_keys (C19_sync_invariant ops)⟩

/-- **Every name that `keys()` / `items()` show is a public identifier — every history, every
name tried** (full; D11 does not reach the key list). -/
theorem C19_keys_public (ops : List Op) (k : Str) (h : k ∈ (run init ops).data.keys) :
    identPub k = true :=
  (C19_sync_invariant ops).keysPublic k h

/-- **Ordered map, assignment**: in any state satisfying the invariant (every reachable one, by
`C19_sync_invariant`), assigning a public name never raises and acts on `items()` as on an
insertion-ordered map: value replaced in place, or `(k, v)` appended. -/
theorem C19_fields_ordered_map_set (w : World) (hs : Sync w.data) (k : Str) (v : Val)
    (hp : identPub k = true) :
    (step w (.setItem k v)).2 = .unit ∧
    view (step w (.setItem k v)).1.data = rawSet (view w.data) k v := by
  have h := view_setattr hs hp v
  simp only [step]
  refine ⟨?_, h.2⟩
  rw [h.1]; rfl

/-- **Ordered map, deletion**: deleting a field removes exactly it and keeps the order of the
rest; deleting a public name that is not a field raises `KeyError` and changes nothing. -/
theorem C19_fields_ordered_map_del (w : World) (hs : Sync w.data) (k : Str) (hp : identPub k = true) :
    (k ∈ w.data.keys → (step w (.delItem k)).2 = .unit ∧
      view (step w (.delItem k)).1.data = rawDel (view w.data) k) ∧
    (k ∉ w.data.keys → step w (.delItem k) = (w, .err .keyError)) := by
  have h := view_delattr hs hp
  constructor
  · intro hm
    have := h.1 hm
    simp only [step]
    refine ⟨?_, this.2⟩
    rw [this.1]; rfl
  · intro hm
    have := h.2 hm
    simp only [step]
    rw [this]
    rfl

theorem lookup_view_eq_raw {d : Data} (hs : Sync d) (k : Str) : lookup (view d) k = lookup d.raw k := by
  rw [lookup_view]
  by_cases hm : k ∈ d.keys
  · simp [hm]
  · simp only [hm, if_false]
    cases hl : lookup d.raw k with
    | none => rfl
    | some x => exact absurd (hs.rawInKeys k (by simp [hl])) hm

/-- **Ordered map, lookup**: item access, `in` and `get` read `items()` — for EVERY name, class
attribute names of `Data` included (D11 repair of the read side). -/
theorem C19_fields_ordered_map_get (w : World) (hs : Sync w.data) (k : Str) :
    (step w (.getItem k)).2 = (match lookup (view w.data) k with
      | some v => .val v
      | none => .err .keyError) ∧
    (step w (.contains k)).2 = .bool (lookup (view w.data) k).isSome ∧
    (step w (.get k)).2 = .val ((lookup (view w.data) k).getD .none) := by
  rw [lookup_view_eq_raw hs]
  simp only [step]
  cases lookup w.data.raw k <;> simp

/-- **Ordered map, positional insertion** (`Share.insert`, with the D11f repair): a name that is
not a public identifier, or that is already a field, is refused with KeyError and nothing
changes; otherwise the new key sits in `keys()` where Python's `list.insert(index, key)` puts it,
the other keys keep their order, and only the new key's value is new. -/
theorem C19_fields_ordered_map_insert (w : World) (hs : Sync w.data) (idx : Int) (k : Str) (v : Val) :
    (identPub k = false → step w (.insert idx k v) = (w, .err .keyError)) ∧
    (identPub k = true → k ∈ w.data.keys → step w (.insert idx k v) = (w, .err .keyError)) ∧
    (identPub k = true → k ∉ w.data.keys →
      (step w (.insert idx k v)).2 = .unit ∧
      (view (step w (.insert idx k v)).1.data).map Prod.fst = pyInsert w.data.keys idx k ∧
      ∀ j, lookup (view (step w (.insert idx k v)).1.data) j =
        if j = k then some v else lookup (view w.data) j) := by
  refine ⟨?_, ?_, ?_⟩
  · intro hp; simp [step, hp]
  · intro hp hm
    have := hs.keysInRaw k hm
    simp [step, hp, this]
  · intro hp hm
    have hn : lookup w.data.raw k = none := by
      cases hl : lookup w.data.raw k with
      | none => rfl
      | some x => exact absurd (hs.rawInKeys k (by simp [hl])) hm
    have hs' := sync_insert hs v idx hn hp
    have hstep : step w (.insert idx k v) =
        ({ w with data := ⟨rawSet w.data.raw k v, pyInsert w.data.keys idx k⟩ }, .unit) := by
      simp [step, hp, hn]
    rw [hstep]
    refine ⟨rfl, view_keys hs', ?_⟩
    intro j
    simp only [lookup_view, lookup_rawSet, mem_pyInsert]
    by_cases e : j = k
    · subst e; simp
    · have e' : ¬ k = j := fun x => e x.symm
      simp [e, e']

/-- the three statements above for every reachable state of a share -/
theorem C19_fields_ordered_map (ops : List Op) (k : Str) (v : Val) (hp : identPub k = true) :
    (step (run init ops) (.setItem k v)).2 = .unit ∧
    view (step (run init ops) (.setItem k v)).1.data = rawSet (view (run init ops).data) k v ∧
    (k ∈ (run init ops).data.keys →
      view (step (run init ops) (.delItem k)).1.data = rawDel (view (run init ops).data) k) ∧
    (k ∉ (run init ops).data.keys → step (run init ops) (.delItem k) = (run init ops, .err .keyError)) :=
  ⟨(C19_fields_ordered_map_set _ (C19_sync_invariant ops) k v hp).1,
   (C19_fields_ordered_map_set _ (C19_sync_invariant ops) k v hp).2,
   fun hm => ((C19_fields_ordered_map_del _ (C19_sync_invariant ops) k hp).1 hm).2,
   (C19_fields_ordered_map_del _ (C19_sync_invariant ops) k hp).2⟩

/-- **A name that is not a public identifier is never accepted** — whatever it is: a leading
underscore, a digit first, a method name of `Data`, `__class__`, `__dict__`, … : unless it
already is a field, `Data.__setattr__` raises and nothing changes. -/
theorem C19_rejects_nonpublic (d : Data) (k : Str) (v : Val) (hp : identPub k = false)
    (hn : lookup d.raw k = none) :
    (setattr d k v).1 = d ∧ (setattr d k v).2 ≠ none := by
  unfold setattr
  by_cases hh : hasattr d k = true
  · simp only [hh, if_true, hn, Option.isNone_none, Bool.true_and]
    cases hc : classAttr k with
    | none => simp
    | some c => cases c <;> simp
  · simp [hh, hn, hp]

/-- the claim about names: whatever the share holds (`in`, `[]`, `len` see the C-level dict)
is a public identifier — for every history -/
def C19_full : Prop :=
  ∀ (ops : List Op) (k : Str), (lookup (run init ops).data.raw k).isSome = true → identPub k = true

/-- **Field names are public identifiers, every history, every name tried** (full, with the D11
repair): everything the share holds is in the key list and is a public identifier. -/
theorem C19_field_names_public (ops : List Op) (k : Str)
    (h : (lookup (run init ops).data.raw k).isSome = true) :
    k ∈ (run init ops).data.keys ∧ identPub k = true := by
  have hs := C19_sync_invariant ops
  exact ⟨hs.rawInKeys k h, hs.keysPublic k (hs.rawInKeys k h)⟩

theorem C19_full_holds : C19_full := fun ops k h => (C19_field_names_public ops k h).2

/-- **D11, for the record**: `Data.__setattr__` as it was found accepted the method name `_sift`
as an attribute and wrote it behind the odict's back (in the C-level dict, not in the key list);
the repaired one refuses it and changes nothing. -/
theorem C19_legacy_sift :
    setattrLegacy ⟨[], []⟩ "_sift".toList (.int 5) = (⟨[("_sift".toList, .int 5)], []⟩, none) ∧
    identPub "_sift".toList = false ∧
    setattr ⟨[], []⟩ "_sift".toList (.int 5) = (⟨[], []⟩, some .attributeError) := by decide

/-- the same through the share: refused with KeyError, invisible to `in`, `[]`, `len`, `keys` -/
example :
    step init (.setItem "_sift".toList (.int 5)) = (init, .err .keyError) ∧
    (step init (.contains "_sift".toList)).2 = .bool false ∧
    (step init (.getItem "__doc__".toList)).2 = .err .keyError ∧
    (step init (.setItem "__class__".toList (.int 5))).2 = .err .keyError ∧
    (step init (.setItem "__dict__".toList (.int 5))).2 = .err .typeError ∧
    (step init (.create [("_show".toList, .int 1), ("q".toList, .int 2)])).1.data.keys = ["q".toList] := by
  decide

/-! ## deck -/

/-- what an operation puts on the deck -/
def enq : Op → List Val
  | .push v => [v]
  | .gulp v => if v = .none then [] else [v]
  | _ => []

/-- what an operation takes off the deck -/
def deq (w : World) : Op → List Val
  | .pull | .spew =>
    match w.deck with
    | [] => []
    | v :: _ => [v]
  | _ => []

def deqs : World → List Op → List Val
  | _, [] => []
  | w, op :: ops => deq w op ++ deqs (step w op).1 ops

theorem deck_step (w : World) (op : Op) : w.deck ++ enq op = deq w op ++ (step w op).1.deck := by
  rw [step_deck]
  cases op with
  | push v => simp [enq, deq]
  | pull => cases hd : w.deck <;> simp [enq, deq, hd]
  | gulp v => simp only [enq, deq, List.nil_append]; split <;> simp
  | spew => cases hd : w.deck <;> simp [enq, deq, hd]
  | _ => simp [enq, deq]

/-- **FIFO**: for every history, (what was on the deck) ++ (everything enqueued, in order)
= (everything dequeued, in order) ++ (what is on the deck now). -/
theorem C19_deck_fifo (w : World) (ops : List Op) :
    w.deck ++ ops.flatMap enq = deqs w ops ++ (run w ops).deck := by
  induction ops generalizing w with
  | nil => simp [deqs, run]
  | cons op ops ih =>
    simp only [List.flatMap_cons, deqs, run, List.append_assoc]
    rw [← ih (step w op).1, ← List.append_assoc, deck_step, List.append_assoc]

/-- what `pull` and `spew` hand back is the element taken off (the head), and `pull` on an empty
deck raises IndexError -/
theorem C19_deck_out (w : World) :
    (step w .pull).2 = (match w.deck with | [] => .err .indexError | v :: _ => .val v) ∧
    (step w .spew).2 = (match w.deck with | [] => .val .none | v :: _ => .val v) := by
  cases hd : w.deck <;> simp [step, hd]

/-- **gulp ignores None** -/
theorem C19_gulp_ignores_none (w : World) : step w (.gulp .none) = (w, .unit) := by
  simp [step]

/-- the full claim about spew -/
def C19_spew_full : Prop :=
  ∀ ops : List Op, (step (run init ops) .spew).2 = .val .none → (run init ops).deck = []

theorem no_none_step (w : World) (op : Op) (hop : op ≠ .push .none) (h : Val.none ∉ w.deck) :
    Val.none ∉ (step w op).1.deck := by
  have hd := deck_step w op
  intro hm
  have : Val.none ∈ deq w op ++ (step w op).1.deck := List.mem_append_right _ hm
  rw [← hd] at this
  rcases List.mem_append.mp this with h1 | h1
  · exact h h1
  · cases op <;> simp only [enq, List.not_mem_nil, List.mem_singleton] at h1
    · next v => subst h1; exact hop rfl
    · next v =>
      split at h1
      · simp at h1
      · next hv => simp only [List.mem_singleton] at h1; exact hv h1.symm

theorem no_none_run (ops : List Op) : ∀ w : World, Val.none ∉ w.deck → regionD11e ops = false →
    Val.none ∉ (run w ops).deck := by
  induction ops with
  | nil => intro w h _; exact h
  | cons op ops ih =>
    intro w h hr
    simp only [regionD11e, List.any_cons, Bool.or_eq_false_iff, decide_eq_false_iff_not] at hr
    exact ih (step w op).1 (no_none_step w op hr.1 h) (by simpa [regionD11e] using hr.2)

/-- **Partial (D11e excluded)**: in every history in which `None` was never put on the deck with
`push`, `spew` returns `None` exactly when the deck is empty. -/
theorem C19_spew_none_iff_empty_partial (ops : List Op) (hreg : regionD11e ops = false) :
    (step (run init ops) .spew).2 = .val .none ↔ (run init ops).deck = [] := by
  have hnn := no_none_run ops init (by simp [init]) hreg
  rw [(C19_deck_out _).2]
  cases hd : (run init ops).deck with
  | nil => simp
  | cons v rest =>
    rw [hd] at hnn
    simp only [List.mem_cons, not_or] at hnn
    simp only [Out.val.injEq, reduceCtorEq, iff_false]
    exact fun e => hnn.1 e.symm

/-- **D11e**: `push(None)` puts `None` on the deck; `spew` then returns `None` although the deck
is not empty. -/
theorem C19_counterexample_push_none : ¬ C19_spew_full := by
  intro h
  have := h [.push .none] (by decide)
  revert this
  decide

/-! ## non-vacuity -/

def demo1 : World := run init [.setClock 0 (some 16), .attach (some 0), .setValue (.int 1)]
def demo2 : World := run demo1 [.setClock 0 (some 24), .change [("a".toList, .int 2)]]
def demo3 : World := run demo2 [.create [("a".toList, .int 9), ("b".toList, .int 3)]]
def demo4 : World :=
  run demo3 [.setClock 0 (some 32), .create [("a".toList, .int 9), ("value".toList, .none)]]
def demo5 : World := run demo4 [.attach none, .update [("c".toList, .str [])]]

/-- a history that exercises the stamping rules: attach to a store at time 16, value, time
moves to 24, change (stamp stays 16), create with one old and one new field (stamp 24, old field
kept), create with only old fields (stamp stays), detach, update (stamp None) -/
example :
    demo1.stamp = some 16 ∧ demo2.stamp = some 16 ∧ demo3.stamp = some 24 ∧ demo4.stamp = some 24 ∧
    demo5.stamp = none ∧
    (step demo5 .items).2 = .pairs [("value".toList, .int 1), ("a".toList, .int 2),
                                    ("b".toList, .int 3), ("c".toList, .str [])] := by decide

def demo6 : World :=
  run init [.update [("a".toList, .int 1), ("b".toList, .int 2)], .delItem "a".toList,
            .setItem "a".toList (.int 3), .push (.int 7), .gulp .none, .gulp (.int 8)]

/-- deletion and re-insertion move a key to the end; rejected names; the deck -/
example :
    (step demo6 .items).2 = .pairs [("b".toList, .int 2), ("a".toList, .int 3)] ∧
    (step demo6 (.setItem "_x".toList (.int 1))) = (demo6, .err .keyError) ∧
    (step demo6 (.setItem "ab\n".toList (.int 1))) = (demo6, .err .keyError) ∧
    (step demo6 (.update [("c".toList, .int 1), ("9".toList, .int 1)])).2 = .err .attributeError ∧
    demo6.deck = [.int 7, .int 8] ∧ (step demo6 .spew).2 = .val (.int 7) := by decide

/-! ## sift, copy, reorder, the data record -/

theorem lookups_ok (raw : List (Str × Val)) (ks : List Str)
    (h : ∀ k ∈ ks, (lookup raw k).isSome = true) :
    ks.mapM (siftGet raw) = .ok (ks.filterMap (fun k => (lookup raw k).map (fun v => (k, v)))) := by
  induction ks with
  | nil => rfl
  | cons k ks ih =>
    have hk := h k (List.mem_cons_self ..)
    have ih' := ih (fun j hj => h j (List.mem_cons_of_mem _ hj))
    cases hl : lookup raw k with
    | none => rw [hl] at hk; simp at hk
    | some v =>
      have hg : siftGet raw k = .ok (k, v) := by simp [siftGet, hl]
      simp only [List.mapM_cons, hg, ih', List.filterMap_cons, hl, Option.map_some]
      rfl

/-- **`sift` and `copy` are reads of the ordered map**: they never change the share; `sift()` and
`copy()`/`copyDataDict()` return `items()`; `sift(fields)` returns the named fields in the order
asked (a repeated name once, at its first place) when all of them are fields. -/
theorem C19_sift_copy_read (w : World) (hs : Sync w.data) :
    step w (.sift none) = (w, .pairs (view w.data)) ∧
    step w .copy = (w, .pairs (view w.data)) ∧
    (∀ fs, (step w (.sift (some fs))).1 = w) ∧
    (∀ fs, (∀ k ∈ fs, k ∈ w.data.keys) →
      (step w (.sift (some fs))).2 =
        .pairs (fs.eraseDups.filterMap (fun k => (lookup w.data.raw k).map (fun v => (k, v))))) := by
  refine ⟨?_, ?_, ?_, ?_⟩
  · simp [step, items_eq_view hs]
  · simp [step, items_eq_view hs]
  · intro fs; simp only [step]; split <;> rfl
  · intro fs hfs
    have hin : ∀ k ∈ fs.eraseDups, (lookup w.data.raw k).isSome = true := by
      intro k hk
      exact hs.keysInRaw k (hfs k (List.mem_eraseDups.mp hk))
    have hl := lookups_ok w.data.raw fs.eraseDups hin
    simp only [step, hl]

/-- a name that is not a field makes `sift` raise AttributeError -/
example : (step demo6 (.sift (some ["b".toList, "zz".toList]))).2 = .err .attributeError ∧
    (step demo6 (.sift (some ["a".toList, "b".toList, "a".toList]))).2 =
      .pairs [("a".toList, .int 3), ("b".toList, .int 2)] ∧
    (step demo6 .copy).2 = .pairs [("b".toList, .int 2), ("a".toList, .int 3)] := by decide

/-- **Assigning a whole data record** (`share.data = Data(pairs)`): if every name is a public
identifier the fields become exactly the record built from the pairs and the share is stamped
with its store's time; otherwise the assignment raises before anything changes. -/
theorem C19_data_assignment_stamps (w : World) (ps : List (Str × Val)) :
    ((step w (.setData ps)).2 = .unit →
      (step w (.setData ps)).1.data = (changeLoop ⟨[], []⟩ ps).1 ∧
      (step w (.setData ps)).1.stamp = storeStamp w) ∧
    ((step w (.setData ps)).2 ≠ .unit → (step w (.setData ps)).1 = w) := by
  simp only [step]
  cases hr : changeLoop ⟨[], []⟩ ps with
  | mk d e => cases e <;> simp [restamp, storeStamp]

example : (step demo1 (.setData [("q".toList, .flt 5), ("r".toList, .tup [1, 2])])).1.stamp = some 16 ∧
    (step (step demo1 (.setData [("q".toList, .flt 5), ("r".toList, .tup [1, 2])])).1 .items).2 =
      .pairs [("q".toList, .flt 5), ("r".toList, .tup [1, 2])] ∧
    step demo1 (.setData [("q".toList, .int 1), ("_r".toList, .int 2)]) = (demo1, .err .attributeError) := by
  decide

/-- **`reorder` with one pair** (repair D11h): a name that is neither a field nor a public
identifier is refused and nothing changes; otherwise the key gets the value and moves to the end
of `keys()`, every other key keeps its place and value.  (Several pairs are this, pair after
pair — `sync_reorderFold`; the closed form for a list is not stated.) -/
theorem C19_fields_ordered_map_reorder_partial (w : World) (hs : Sync w.data) (k : Str) (v : Val) :
    ((lookup w.data.raw k).isNone = true → identPub k = false →
      step w (.reorder [(k, v)]) = (w, .err .keyError)) ∧
    (((lookup w.data.raw k).isSome = true ∨ identPub k = true) →
      (step w (.reorder [(k, v)])).2 = .unit ∧
      (step w (.reorder [(k, v)])).1.data.keys = w.data.keys.erase k ++ [k] ∧
      (∀ j, lookup (step w (.reorder [(k, v)])).1.data.raw j = if k = j then some v else lookup w.data.raw j) ∧
      Sync (step w (.reorder [(k, v)])).1.data) := by
  constructor
  · intro h1 h2
    simp [step, h1, h2]
  · intro h
    have hc : ([(k, v)].any fun p => (lookup w.data.raw p.1).isNone && !identPub p.1) = false := by
      rcases h with h1 | h1
      · cases hl : lookup w.data.raw k <;> simp_all
      · simp [h1]
    have hstep : step w (.reorder [(k, v)]) =
        ({ w with data := ⟨rawSet w.data.raw k v, w.data.keys.erase k ++ [k]⟩ }, .unit) := by
      simp only [step, hc, Bool.false_eq_true, if_false, List.foldl_cons, List.foldl_nil]
    rw [hstep]
    exact ⟨rfl, rfl, fun j => lookup_rawSet _ _ _ _, sync_moveToEnd hs k v h⟩

example : (step (step demo6 (.reorder [("b".toList, .int 9)])).1 .items).2 =
      .pairs [("a".toList, .int 3), ("b".toList, .int 9)] ∧
    step demo6 (.reorder [("a".toList, .int 1), ("_z".toList, .int 2)]) = (demo6, .err .keyError) := by decide

/-! ## values are aliased, never copied -/

/-- **The share keeps the object it was given.**  Store one of the caller's mutable objects
(`ref id`: a list, a dict) in a field; let the caller append to that object afterwards: the field
still holds that very object (`getItem` returns `ref id`), whose contents now include the new
element — `update/change/create/[]=` and the deck never copy a value.  `mutate` itself changes
nothing in the share. -/
theorem C19_values_are_aliased (w : World) (hs : Sync w.data) (k : Str) (hp : identPub k = true)
    (id : Nat) (n : Int) :
    (step (step (step w (.setItem k (.ref id))).1 (.mutate id n)).1 (.getItem k)).2 = .val (.ref id) ∧
    (step (step w (.setItem k (.ref id))).1 (.mutate id n)).1.data = (step w (.setItem k (.ref id))).1.data ∧
    (step w (.mutate id n)).1 =
      { w with pool := w.pool.mapIdx (fun i l => if i = id then l ++ [n] else l) } := by
  have h := view_setattr hs hp (.ref id)
  have hs' : Sync (setattr w.data k (.ref id)).1 := sync_setattr hs k _
  refine ⟨?_, rfl, rfl⟩
  simp only [step]
  have : lookup (setattr w.data k (.ref id)).1.raw k = some (.ref id) := by
    rw [← lookup_view_eq_raw hs', h.2, lookup_rawSet]; simp
  rw [this]

example :
    (run init [.setItem "a".toList (.ref 1), .push (.ref 1), .mutate 1 7, .update [("b".toList, .ref 1)],
               .mutate 1 8]).pool = [[], [7, 8], [], []] ∧
    (step (run init [.setItem "a".toList (.ref 1), .push (.ref 1), .mutate 1 7,
                     .update [("b".toList, .ref 1)], .mutate 1 8]) .items).2 =
      .pairs [("a".toList, .ref 1), ("b".toList, .ref 1)] ∧
    (step (run init [.setItem "a".toList (.ref 1), .push (.ref 1), .mutate 1 7]) .spew).2 = .val (.ref 1) := by
  decide

/-! ## truth and the unit record; deck and fields -/

/-- the operations on truth, the unit record, and the caller's objects -/
def sideOp : Op → Bool
  | .setTruth _ | .getTruth | .changeUnit _ | .createUnit _ | .fetchUnit _ | .ctorUnit _ | .mutate _ _ => true
  | _ => false

def deckOp : Op → Bool
  | .push _ | .pull | .gulp _ | .spew => true
  | _ => false

/-- **Truth, the unit record and deck traffic never touch fields or stamp; only deck operations
touch the deck.**  (Field updates and deck operations interleave freely: neither sees the other.) -/
theorem C19_frames (w : World) (op : Op) :
    ((sideOp op = true ∨ deckOp op = true) →
      (step w op).1.data = w.data ∧ (step w op).1.stamp = w.stamp) ∧
    (deckOp op = false → (step w op).1.deck = w.deck) := by
  constructor
  · intro h
    cases op <;> simp only [sideOp, deckOp, Bool.false_eq_true, or_self] at h
    all_goals (first | exact ⟨rfl, rfl⟩ |
      (simp only [step]; repeat' split) <;> (first | exact ⟨rfl, rfl⟩ | simp))
  · intro h
    rw [step_deck]
    cases op <;> simp only [deckOp, Bool.true_eq_false] at h <;> rfl

theorem unit_sync_step (w : World) (op : Op) (hw : ∀ u, w.unit = some u → Sync u) :
    ∀ u, (step w op).1.unit = some u → Sync u := by
  intro u hu
  have hbase : Sync (w.unit.getD ⟨[], []⟩) := by
    cases hx : w.unit with
    | none => exact sync_empty
    | some x => exact hw x hx
  cases op with
  | sift fs => cases fs <;> (simp only [step] at hu; split at hu <;> exact hw u hu)
  | changeUnit ps =>
    simp only [step, Option.some.injEq] at hu
    subst hu; exact sync_changeLoop hbase _
  | createUnit ps =>
    simp only [step, Option.some.injEq] at hu
    subst hu; exact sync_createLoop hbase _ _
  | _ =>
    simp only [step] at hu
    all_goals first
      | exact hw u hu
      | (split at hu <;> first | exact hw u hu | (split at hu <;> first | exact hw u hu | (split at hu <;> exact hw u hu)))

theorem unit_sync_run (ops : List Op) : ∀ (w : World), (∀ u, w.unit = some u → Sync u) →
    ∀ u, (run w ops).unit = some u → Sync u := by
  induction ops with
  | nil => intro w hw; exact hw
  | cons op ops ih => intro w hw; exact ih (step w op).1 (unit_sync_step w op hw)

/-- **The share's sub-objects keep their identity**: no operation rebinds the deck (a reference
to `share.deck` held by a caller — also one taken while the deck was empty — is the share's deck
for ever); the data record is rebound only by a successful assignment of a whole record
(`share.data = …`, the documented setter); the unit record, once made, stays. -/
theorem C19_subobjects_keep_identity (w : World) (op : Op) :
    (step w op).1.deckId = w.deckId ∧
    ((∀ ps, op ≠ .setData ps) → (step w op).1.dataId = w.dataId) ∧
    (∀ ps, ((step w (.setData ps)).2 = .unit → (step w (.setData ps)).1.dataId = w.dataId + 1) ∧
      ((step w (.setData ps)).2 ≠ .unit → (step w (.setData ps)).1.dataId = w.dataId)) ∧
    (w.unit.isSome = true → (step w op).1.unit.isSome = true) := by
  refine ⟨?_, ?_, ?_, ?_⟩
  · cases op with
    | sift fs => cases fs <;> (simp only [step]; split <;> rfl)
    | _ =>
      simp only [step]
      all_goals (first | rfl | (split <;> first | rfl | (split <;> first | rfl | (split <;> rfl))))
  · intro hne
    cases op with
    | sift fs => cases fs <;> (simp only [step]; split <;> rfl)
    | setData ps => exact absurd rfl (hne ps)
    | _ =>
      simp only [step]
      all_goals (first | rfl | (split <;> first | rfl | (split <;> first | rfl | (split <;> rfl))))
  · intro ps
    simp only [step]
    split <;> simp [restamp]
  · intro hu
    cases op with
    | sift fs => cases fs <;> (simp only [step]; split <;> exact hu)
    | changeUnit ps => rfl
    | createUnit ps => rfl
    | _ =>
      simp only [step]
      all_goals (first | exact hu | (split <;> first | exact hu | (split <;> first | exact hu | (split <;> exact hu))))

example : (run init [.push (.int 1), .pull, .push (.int 2), .setData [("a".toList, .int 1)], .setData [("_a".toList, .int 1)],
                     .changeUnit [], .clear]).deckId = 0 ∧
    (run init [.push (.int 1), .pull, .push (.int 2), .setData [("a".toList, .int 1)], .setData [("_a".toList, .int 1)],
               .changeUnit [], .clear]).dataId = 1 := by decide

/-- the unit record obeys the same name rule: every history, every name of the unit record is a
public identifier and its `items()` never raises -/
theorem C19_unit_names_public (ops : List Op) (u : Data) (h : (run init ops).unit = some u) : Sync u := by
  refine unit_sync_run ops init ?_ u h
  intro u hu
  simp [init] at hu

example :
    (run init [.changeUnit [("value".toList, .str "m".toList)], .createUnit [("value".toList, .none), ("x".toList, .int 1)]]).unit =
      some ⟨[("value".toList, .str "m".toList), ("x".toList, .int 1)], ["value".toList, "x".toList]⟩ ∧
    (step init (.ctorUnit [("_bad".toList, .int 1)])).2 = .err .attributeError ∧
    (step init (.ctorUnit [("value".toList, .str "m".toList)])).2 = .pairs [("value".toList, .str "m".toList)] := by
  decide

end Ioflo.Share

#print axioms Ioflo.Share.C19_value_update_stamp
#print axioms Ioflo.Share.C19_change_keeps_stamp
#print axioms Ioflo.Share.C19_only_stampers_stamp
#print axioms Ioflo.Share.C19_create_stamps_iff_added
#print axioms Ioflo.Share.C19_create_never_overwrites
#print axioms Ioflo.Share.C19_sync_invariant
#print axioms Ioflo.Share.C19_keys_public
#print axioms Ioflo.Share.C19_fields_ordered_map_set
#print axioms Ioflo.Share.C19_fields_ordered_map_del
#print axioms Ioflo.Share.C19_fields_ordered_map_get
#print axioms Ioflo.Share.C19_fields_ordered_map
#print axioms Ioflo.Share.C19_fields_ordered_map_insert
#print axioms Ioflo.Share.C19_field_names_public
#print axioms Ioflo.Share.C19_rejects_nonpublic
#print axioms Ioflo.Share.C19_legacy_sift
#print axioms Ioflo.Share.C19_deck_fifo
#print axioms Ioflo.Share.C19_gulp_ignores_none
#print axioms Ioflo.Share.C19_spew_none_iff_empty_partial
#print axioms Ioflo.Share.C19_counterexample_push_none
#print axioms Ioflo.Share.C19_sift_copy_read
#print axioms Ioflo.Share.C19_data_assignment_stamps
#print axioms Ioflo.Share.C19_fields_ordered_map_reorder_partial
#print axioms Ioflo.Share.C19_values_are_aliased
#print axioms Ioflo.Share.C19_frames
#print axioms Ioflo.Share.C19_unit_names_public
#print axioms Ioflo.Share.C19_subobjects_keep_identity
