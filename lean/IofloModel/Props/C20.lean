import IofloModel.Lemmas.Marks
/-!
# C20 — `is updated` / `is changed` report changes since the mark

Model: `Model/Marks.lean` (Mark, MarkerUpdate/MarkerChange, NeedUpdate/NeedChange,
`NeedMarker._resolve` placement, a flat reader framer between two writer framers).
Vocabulary (`Lemmas/Marks.lean`): `UEv` (`upd t`, `entry t`, `transit t`), `USorted` (times do not
decrease), `UpdatedSpec`; `CEv` (`write fs`, `snap`); `Log`, `projU`, `projC`, `Req`, `NeedOf`.

Part 1: history form, all histories.  Part 2: the machine — every need evaluation of every run is an
instance of part 1, and resolve places the markers where the property says the mark is set.
-/
namespace Ioflo.Marks

/-! ## Part 1a — `is updated`, all time-ordered histories of one share and one mark -/

/-- **`is updated` is true exactly when** the share has an update at or after every entry reset of
the mark and strictly after every taken-transition reset (`UpdatedSpec`).  In particular: before the
first reset any update counts; an update in the tick of an entry reset counts; one in the tick of a
taken-transition reset does not. -/
theorem C20_updated_iff (h : List UEv) (hs : USorted h) :
    updatedAfter h = true ↔ UpdatedSpec h := by
  have I := uinv h hs
  unfold updatedAfter needUpdate UpdatedSpec
  simp only [UState.share, UState.mark]
  cases hS : (urun h).sstamp with
  | none =>
    have := I.s_none hS
    simp only []
    constructor
    · intro h0; cases h0
    · rintro ⟨u, hu, _⟩; exact absurd hu (this u)
  | some u =>
    obtain ⟨hu, humax⟩ := I.s_some u hS
    cases hM : (urun h).mstamp with
    | none =>
      have hm := I.m_none hM
      simp only []
      refine ⟨fun _ => ⟨u, hu, fun m hm' => absurd hm' (hm m).1, fun m hm' => absurd hm' (hm m).2⟩, fun _ => trivial⟩
    | some m =>
      obtain ⟨hm, hmmax⟩ := I.m_some m hM
      simp only [Bool.or_eq_true, decide_eq_true_eq, Bool.and_eq_true, beq_iff_eq, bne_iff_ne, ne_eq]
      constructor
      · rintro (hgt | ⟨heq, hx⟩)
        · exact ⟨u, hu, fun m' h' => by have := hmmax m' (Or.inl h'); omega,
            fun m' h' => by have := hmmax m' (Or.inr h'); omega⟩
        · subst heq
          refine ⟨u, hu, fun m' h' => hmmax m' (Or.inl h'), fun m' h' => ?_⟩
          have h1 := hmmax m' (Or.inr h')
          cases hX : (urun h).mused with
          | none => exact absurd h' (I.x_none hX m')
          | some x =>
            obtain ⟨hxin, hxmax⟩ := I.x_some x hX
            have h2 := hxmax m' h'
            have h3 := hmmax x (Or.inr hxin)
            have : x ≠ u := by intro e; apply hx; rw [hX, e]
            omega
      · rintro ⟨u', hu', he, hx⟩
        have h1 := humax u' hu'
        rcases hm with hm | hm
        · have := he m hm
          by_cases hlt : u > m
          · exact Or.inl hlt
          · right
            refine ⟨by omega, ?_⟩
            intro hX
            obtain ⟨hxin, _⟩ := I.x_some m hX
            have := hx m hxin
            omega
        · have := hx m hm
          exact Or.inl (by omega)

/-- before the mark is first set, any update counts (no ordering hypothesis needed) -/
theorem C20_updated_before_first_mark (h : List UEv)
    (hm : ∀ t, UEv.entry t ∉ h ∧ UEv.transit t ∉ h) :
    updatedAfter h = true ↔ ∃ u, UEv.upd u ∈ h := by
  have key : ∀ (h : List UEv) (u0 : UState), (∀ t, UEv.entry t ∉ h ∧ UEv.transit t ∉ h) →
      (h.foldl ustep u0).mstamp = u0.mstamp ∧
      ((h.foldl ustep u0).sstamp = none ↔ (u0.sstamp = none ∧ ∀ u, UEv.upd u ∉ h)) := by
    intro h
    induction h with
    | nil => intro u0 _; simp
    | cons e h ih =>
      intro u0 hm
      have hm' : ∀ t, UEv.entry t ∉ h ∧ UEv.transit t ∉ h := fun t =>
        ⟨fun x => (hm t).1 (List.mem_cons_of_mem _ x), fun x => (hm t).2 (List.mem_cons_of_mem _ x)⟩
      cases e with
      | upd t =>
        have := ih (ustep u0 (.upd t)) hm'
        simp only [List.foldl_cons]
        refine ⟨this.1, ?_⟩
        rw [this.2]
        constructor
        · rintro ⟨h1, _⟩; simp [ustep] at h1
        · rintro ⟨_, h2⟩; exact absurd List.mem_cons_self (h2 t)
      | entry t => exact absurd List.mem_cons_self (hm t).1
      | transit t => exact absurd List.mem_cons_self (hm t).2
  have k := key h {} hm
  unfold updatedAfter needUpdate urun
  simp only [UState.share, UState.mark, k.1]
  cases hS : (h.foldl ustep {}).sstamp with
  | none =>
    have := k.2.1 hS
    simp only []
    constructor
    · intro x; cases x
    · rintro ⟨u, hu⟩; exact absurd hu (this.2 u)
  | some s =>
    simp only []
    refine ⟨fun _ => ?_, fun _ => trivial⟩
    apply Classical.byContradiction
    intro hne
    have : (h.foldl ustep {}).sstamp = none := k.2.2 ⟨rfl, fun u hu => hne ⟨u, hu⟩⟩
    rw [hS] at this; cases this

/-- an update in the same tick as an entry reset counts: `t` is the latest time in the history, the
share was updated at `t`, and no transition guarded by the mark was taken at `t` -/
theorem C20_same_tick_entry_counts (h : List UEv) (hs : USorted h) (t : Nat)
    (hu : UEv.upd t ∈ h) (hlast : ∀ e ∈ h, e.time ≤ t) (hx : UEv.transit t ∉ h) :
    updatedAfter h = true := by
  rw [C20_updated_iff h hs]
  refine ⟨t, hu, fun m hm => hlast _ hm, fun m hm => ?_⟩
  have h1 := hlast _ hm
  simp only [UEv.time] at h1
  have : m ≠ t := fun e => hx (e ▸ hm)
  omega

/-- an update in the same tick as a taken-transition reset does not count (nor does any earlier one) -/
theorem C20_same_tick_transit_does_not (h : List UEv) (hs : USorted h) (t : Nat)
    (hx : UEv.transit t ∈ h) (hu : ∀ u, UEv.upd u ∈ h → u ≤ t) :
    updatedAfter h = false := by
  have : ¬ UpdatedSpec h := by
    rintro ⟨u, hu', _, h2⟩
    have := h2 t hx
    have := hu u hu'
    omega
  rw [← C20_updated_iff h hs] at this
  simpa using this

/-- non-vacuity: entry reset at 3, update at 3 → true; then the transition is taken at 4 (reset),
an update arrives at 4 after the reader ran → false at 5; an update at 5 → true. -/
example : updatedAfter [.entry 3, .upd 3] = true
    ∧ updatedAfter [.entry 3, .upd 3, .transit 4, .upd 4] = false
    ∧ updatedAfter [.entry 3, .upd 3, .transit 4, .upd 4, .upd 5] = true
    ∧ USorted [.entry 3, .upd 3, .transit 4, .upd 4, .upd 5] := by
  refine ⟨by decide, by decide, by decide, ?_⟩
  unfold USorted; decide

/-! ## Part 1b — `is changed`, all histories of one share and one mark -/

/-- true before the first snapshot -/
theorem C20_changed_before_first_snapshot (init : Fields) (h : List CEv) (hp : CEv.snap ∉ h) :
    changedAfter init h = true := by
  unfold changedAfter needChange crun
  rw [cfold_snap _ _ hp]

/-- after a snapshot (taken when the history was `pre`) **`is changed` is true exactly when** some
field of the share now holds a value that differs from the snapshot's (Python `!=`) or was not in
the snapshot at all -/
theorem C20_changed_iff (init : Fields) (pre post : List CEv) (hp : CEv.snap ∉ post) :
    changedAfter init (pre ++ CEv.snap :: post) = true ↔
      ∃ f v, (f, v) ∈ (crun init (pre ++ post)).data ∧
        ∀ w, (crun init pre).data.lookup f = some w → pyEq w v = false := by
  unfold changedAfter needChange crun
  simp only [List.foldl_append, List.foldl_cons]
  rw [cfold_snap _ _ hp]
  simp only [cstep]
  have hd := cfold_data post
    { data := (List.foldl cstep { data := init } pre).data,
      snap := some (List.foldl cstep { data := init } pre).data }
    (List.foldl cstep { data := init } pre) rfl
  rw [hd]
  simp only [List.any_eq_true]
  constructor
  · rintro ⟨⟨f, v⟩, hmem, hc⟩
    exact ⟨f, v, hmem, (fieldChanged_iff _ (f, v)).1 hc⟩
  · rintro ⟨f, v, hmem, hc⟩
    exact ⟨(f, v), hmem, (fieldChanged_iff _ (f, v)).2 hc⟩

/-- right after a snapshot nothing is changed (field names of a Data record are unique) -/
theorem C20_not_changed_right_after_snapshot (init : Fields) (hi : KeysNodup init) (pre : List CEv) :
    changedAfter init (pre ++ [CEv.snap]) = false := by
  have h := C20_changed_iff init pre [] (by simp)
  cases hc : changedAfter init (pre ++ [CEv.snap]) with
  | false => rfl
  | true =>
    obtain ⟨f, v, hm, hw⟩ := h.1 hc
    simp only [List.append_nil] at hm
    have h1 := lookup_of_mem _ (crun_nodup init pre hi) f v hm
    have h2 := hw v h1
    rw [pyEq_refl] at h2; cases h2

/-- writing a value that is equal (Python `==`: `1 == 1.0 == True`) to the snapshot's is an update
but not a change; a different value, or a field the snapshot did not have, is a change -/
theorem C20_one_write_after_snapshot (init : Fields) (hi : KeysNodup init) (pre : List CEv)
    (f : String) (v' : PyVal) :
    changedAfter init (pre ++ [CEv.snap, CEv.write [(f, v')]]) =
      match (crun init pre).data.lookup f with
      | none => true
      | some v => !(pyEq v v') := by
  have h := C20_changed_iff init pre [CEv.write [(f, v')]] (by simp)
  have hd : (crun init (pre ++ [CEv.write [(f, v')]])).data = setField (crun init pre).data f v' := by
    simp [crun, List.foldl_append, cstep, setFields]
  rw [hd] at h
  have hnd := crun_nodup init pre hi
  cases hl : (crun init pre).data.lookup f with
  | none =>
    simp only []
    exact h.2 ⟨f, v', mem_setField_self _ _ _, fun w hw => by rw [hl] at hw; cases hw⟩
  | some v =>
    simp only []
    cases he : pyEq v v' with
    | false =>
      simp only [Bool.not_false]
      exact h.2 ⟨f, v', mem_setField_self _ _ _, fun w hw => by rw [hl] at hw; cases hw; exact he⟩
    | true =>
      simp only [Bool.not_true]
      cases hc : changedAfter init (pre ++ [CEv.snap, CEv.write [(f, v')]]) with
      | false => rfl
      | true =>
        obtain ⟨g, w, hm, hw⟩ := h.1 hc
        rcases mem_setField _ _ _ _ _ hm with ⟨rfl, rfl⟩ | hm'
        · have := hw v hl; rw [he] at this; cases this
        · have h1 := lookup_of_mem _ hnd g w hm'
          have := hw w h1
          rw [pyEq_refl] at this; cases this

example : changedAfter [("value", .int 0)] [.write [("value", .int 1)]] = true
    ∧ changedAfter [("value", .int 0)] [.snap, .write [("value", .flt 0 0)]] = false
    ∧ changedAfter [("value", .int 0)] [.snap, .write [("value", .int 1)]] = true
    ∧ changedAfter [("value", .int 0)] [.snap, .write [("z", .none)]] = true := by
  decide

/-! ## Part 2 — the machine: runs are logs, need evaluations are history queries -/

/-- the time of a projected event is the time of the act -/
theorem projU_time (s : Nat) (key : String) (ta : Nat × Act) (e : UEv) (h : projU s key ta = some e) :
    e.time = ta.1 := by
  obtain ⟨t, a⟩ := ta
  cases a with
  | write w =>
    cases w with
    | put s' fs => simp only [projU] at h; split at h <;> simp at h; subst h; rfl
    | chg s' fs => simp [projU] at h
  | marker tr r =>
    simp only [projU] at h
    split at h
    · cases tr <;> simp at h <;> subst h <;> rfl
    · simp at h

theorem projU_sorted (s : Nat) (key : String) (log : Log) (hs : LogSorted log) :
    USorted (log.filterMap (projU s key)) := by
  unfold USorted
  refine List.Pairwise.filterMap _ ?_ hs
  intro a a' hle b hb b' hb'
  rw [projU_time s key a b hb, projU_time s key a' b' hb']
  exact hle

/-- The world of a run is its log replayed on the initial world, and the log is time-ordered. -/
theorem C20_run_is_log (r : Resolved) (inits : List Fields) (sched : Schedule) :
    (run r inits sched).1.world = applyLog (initWorld r inits) (run r inits sched).2.2 ∧
      LogSorted (run r inits sched).2.2 :=
  ⟨runTicks_world r sched 0 true _, (runTicks_sorted r sched 0 true _).1⟩

/-- The reader of tick `now` decides on the world in which the earlier writer framer has already
run at `now` (`rfl`: this is how `tick` is defined). -/
theorem C20_decision_world (r : Resolved) (now : Nat) (first : Bool) (s : RState) (wb wa : List Write) :
    (tick r now first s wb wa).2.2 =
      wb.map Act.write ++
        (readerActs r first { world := applyActs now s.world (wb.map Act.write), active := s.active }).1 ++
        wa.map Act.write := rfl

/-- **Every evaluation of an `is updated` need, in any world reachable through a time-ordered log
from the initial world, answers the history question of part 1** for the events that touched its
share and its mark: updates of the share, enact markers (`entry`), tract markers (`transit`). -/
theorem C20_machine_updated (r : Resolved) (inits : List Fields) (log : Log) (hs : LogSorted log)
    (n : Need) (hk : n.kind = .update) (hsh : n.share < inits.length)
    (hkey : (n.share, n.key) ∈ r.keys) :
    evalNeed (applyLog (initWorld r inits) log) n = true ↔
      if n.neg then ¬ UpdatedSpec (log.filterMap (projU n.share n.key))
      else UpdatedSpec (log.filterMap (projU n.share n.key)) := by
  have hv0 : uview (initWorld r inits) n.share n.key = some {} := by
    unfold uview
    rw [initWorld_share r inits n.share hsh]
    simp only [initWorld, lookup_fresh r.keys _ hkey]
  have hv := uview_applyLog log _ _ _ _ hv0
  have hspec := C20_updated_iff _ (projU_sorted n.share n.key log hs)
  unfold updatedAfter urun at hspec
  generalize applyLog (initWorld r inits) log = w at hv ⊢
  unfold uview at hv
  unfold evalNeed
  cases hsh' : w.shares[n.share]? with
  | none => simp [hsh'] at hv
  | some sh =>
    cases hm : w.marks.lookup (n.share, n.key) with
    | none => simp [hsh', hm] at hv
    | some m =>
      simp only [hsh', hm, Option.some.injEq] at hv
      have hb : needUpdate sh m
          = needUpdate (List.foldl ustep {} (log.filterMap (projU n.share n.key))).share
              (List.foldl ustep {} (log.filterMap (projU n.share n.key))).mark := by
        rw [← hv]
        cases sh; cases m
        simp [needUpdate, UState.share, UState.mark]
      simp only [hk, hb]
      cases hn : n.neg with
      | false => simpa using hspec
      | true =>
        simp only [if_true, Bool.not_eq_true', ← hspec]
        simp

/-- the data side: an `is changed` need answers `changedAfter` for the writes to its share and the
snapshots of its mark (either marker act of kind change) -/
theorem C20_machine_changed (r : Resolved) (inits : List Fields) (log : Log)
    (n : Need) (hk : n.kind = .change) (hsh : n.share < inits.length)
    (hkey : (n.share, n.key) ∈ r.keys) :
    evalNeed (applyLog (initWorld r inits) log) n =
      (n.neg ^^ changedAfter inits[n.share] (log.filterMap (projC n.share n.key))) := by
  have hv0 : cview (initWorld r inits) n.share n.key = some { data := inits[n.share] } := by
    unfold cview
    rw [initWorld_share r inits n.share hsh]
    simp only [initWorld, lookup_fresh r.keys _ hkey]
  have hv := cview_applyLog log _ _ _ _ hv0
  generalize applyLog (initWorld r inits) log = w at hv ⊢
  unfold cview at hv
  unfold evalNeed changedAfter crun
  cases hsh' : w.shares[n.share]? with
  | none => simp [hsh'] at hv
  | some sh =>
    cases hm : w.marks.lookup (n.share, n.key) with
    | none => simp [hsh', hm] at hv
    | some m =>
      simp only [hsh', hm, Option.some.injEq] at hv
      rw [← hv]
      simp only [hk]
      have : needChange sh m = needChange { data := sh.data } { data := m.data } := by
        cases sh; cases m; simp [needChange]
      rw [this]
      cases n.neg <;> simp


/-! ### a mark is reset only by a transition that is taken -/

/-- a transition whose conditions hold but whose frames-to-enter refuse entry (`let me if …` false in
one of them) is passed over exactly like one whose conditions fail: the next transition is tried -/
theorem C20_refused_transition_skipped (w : World) (frames : List Frame) (actives : List Nat) (t : Trans)
    (ts : List Trans)
    (hrefused : enterOk w frames (exen actives (outline frames t.far) t.far).2 = false) :
    firstTrans w frames actives (t :: ts) = firstTrans w frames actives ts := by
  simp [firstTrans, admits, hrefused]

/-- the transition that is taken has its conditions true and every frame it enters admits entry -/
theorem C20_taken_transition_admitted (w : World) (frames : List Frame) (actives : List Nat)
    (ts : List Trans) (t : Trans) (h : firstTrans w frames actives ts = some t) :
    t ∈ ts ∧ evalNeeds w t.needs = true ∧
      enterOk w frames (exen actives (outline frames t.far) t.far).2 = true := by
  induction ts with
  | nil => simp [firstTrans] at h
  | cons x xs ih =>
    simp only [firstTrans] at h
    by_cases hc : admits w frames actives x = true
    · simp only [hc, if_true, Option.some.injEq] at h
      subst h
      simp only [admits, Bool.and_eq_true] at hc
      exact ⟨by simp, hc.1, hc.2⟩
    · simp only [hc] at h
      obtain ⟨a, b, c⟩ := ih h
      exact ⟨List.mem_cons_of_mem _ a, b, c⟩

theorem applyActs_writes_marks (now : Nat) (ws : List Write) (w : World) :
    (applyActs now w (ws.map Act.write)).marks = w.marks := by
  induction ws generalizing w with
  | nil => rfl
  | cons x xs ih =>
    simp only [List.map_cons, applyActs, List.foldl_cons]
    have : (applyAct now w (Act.write x)).marks = w.marks := by cases x <;> rfl
    rw [← this]
    exact ih _

theorem recurActs_writes (r : Resolved) (actives : List Nat) :
    ∃ ws : List Write, recurActs r actives = ws.map Act.write := by
  induction actives with
  | nil => exact ⟨[], rfl⟩
  | cons i rest ih =>
    obtain ⟨ws, h⟩ := ih
    refine ⟨((r.frames[i]?.map (·.recur)).getD []) ++ ws, ?_⟩
    unfold recurActs at h ⊢
    rw [List.flatMap_cons, h, List.map_append]

/-- **A refused transition keeps the mark.**  In a tick in which the reader takes no transition — every
transition of every frame of its active outline has a false condition or frames-to-enter that refuse
entry — the reader runs the recur acts of its outline only: no marker act at all, so every Mark (stamp,
used, snapshot) is what it was, and the reader stays where it is.  (With `C20_machine_updated`: a guarded
condition that was true stays true until the transition is really taken or the named frame is entered.) -/
theorem C20_refused_transition_keeps_mark (r : Resolved) (now : Nat) (s : RState)
    (hnone : firstOfOutline s.world r.frames (outline r.frames s.active) (outline r.frames s.active) = none) :
    readerActs r false s = (recurActs r (outline r.frames s.active), s.active, false) ∧
    (∀ a ∈ (readerActs r false s).1, ∀ tr m, a ≠ Act.marker tr m) ∧
    (applyActs now s.world (readerActs r false s).1).marks = s.world.marks := by
  have h1 : readerActs r false s = (recurActs r (outline r.frames s.active), s.active, false) := by
    simp [readerActs, hnone]
  obtain ⟨ws, hws⟩ := recurActs_writes r (outline r.frames s.active)
  refine ⟨h1, ?_, ?_⟩
  · rw [h1, hws]
    intro a ha tr m
    simp only [List.mem_map] at ha
    obtain ⟨w, _, rfl⟩ := ha
    intro e; cases e
  · rw [h1, hws]
    exact applyActs_writes_marks now ws s.world

/-- non-vacuity (refusal): `go B if .s0 is updated` with B guarded by `let me if value in .s1` (false):
the share is updated at tick 1, the transition is refused at ticks 1 and 2 and taken at tick 3 when the
guard share is set — the update still counts. -/
example :
    let nd : NeedSrc := ⟨.update, false, 0, .absent, ""⟩
    let p : Program := [⟨"A", none, [], [], [], [], [], [⟨.named "B", [nd]⟩]⟩,
                        ⟨"B", none, [⟨false, 1, "value"⟩], [], [], [], [], []⟩]
    let put0 : Write := .put 0 [("value", .int 1)]
    let put1 : Write := .put 1 [("value", .bool true)]
    (resolve p).toOption.map (fun r =>
      (run r [[("value", .int 0)], [("value", .bool false)]]
        [([], []), ([put0], []), ([], []), ([put1], []), ([], [])]).2.1)
      = some [(0, true), (0, false), (0, false), (1, true), (1, false)] := by
  decide

/-- non-vacuity (nested frames): over frame `O` holds `A` and `B`, which hand over to each other every
tick; `O` has `go Z if .s0 is updated in frame O`.  The share is updated at tick 2 (after the reader ran),
while the framer is shuttling between `A` and `B`.  Entering and leaving the inner frames does not re-arm
`O`'s mark (set on entry to `O` at tick 0), so at tick 3 the update counts and the framer goes to `Z`. -/
example :
    let nd : NeedSrc := ⟨.update, false, 0, .named "O", ""⟩
    let p : Program := [⟨"O", none, [], [], [], [], [], [⟨.named "Z", [nd]⟩]⟩,
                        ⟨"A", some "O", [], [], [], [], [], [⟨.named "B", []⟩]⟩,
                        ⟨"B", some "O", [], [], [], [], [], [⟨.named "A", []⟩]⟩,
                        ⟨"Z", none, [], [], [], [], [], []⟩]
    let put0 : Write := .put 0 [("value", .int 1)]
    (resolve p).toOption.map (fun r =>
      (run r [[("value", .int 0)]] [([], []), ([], []), ([], [put0]), ([], []), ([], [])]).2.1)
      = some [(0, true), (2, true), (1, true), (3, true), (3, false)] := by
  decide


/-! ### marker needs used as entry needs (`let me if share is updated …`) -/

/-- **An entry need never resets its mark by being evaluated or by a transition being taken**: the only
transit (tract) markers a taken transition runs are those of the transition's OWN needs — the tract
marker `NeedMarker._resolve` makes for an entry need stays on the need and is never collected — and the
entry markers it runs are the enact markers of the entered frames. -/
theorem C20_entry_need_has_no_tract (r : Resolved) (actives : List Nat) (t : Trans) (m : MarkRef)
    (h : Act.marker true m ∈ fireActs r actives t) : ∃ n ∈ t.needs, n.ref = m := by
  unfold fireActs at h
  simp only [List.mem_append, List.mem_map, List.mem_flatMap] at h
  rcases h with (⟨n, hn, he⟩ | ⟨j, _, hj⟩) | ⟨j, _, he⟩
  · injection he with _ h2; exact ⟨n, hn, h2⟩
  · simp [exitActs] at hj
  · simp only [enterActs, List.mem_append, List.mem_map] at he
    rcases he with ⟨m', _, e⟩ | ⟨w, _, e⟩
    · injection e with h1 _; cases h1
    · cases e

/-- an entry need without an `in frame` clause requests no enact marker at all: its mark is only ever
set through other needs that share the key; alone, it stays unset and "before the mark is first set any
update counts" (`C20_updated_before_first_mark`) -/
theorem C20_entry_need_without_clause_never_arms (names : List String) (home : Nat) (n : NeedSrc)
    (hc : n.clause = .absent) (i : Nat) (m : MarkRef) : ¬ Req names home n i m := by
  intro h; exact h.1 hc

/-- **A refused entry leaves the mark as armed.**  When the entry needs of a frame to be entered fail
(marker needs included), the transition is not taken (`C20_refused_transition_skipped`), and a tick
without a taken transition runs no marker act (`C20_refused_transition_keeps_mark`): evaluating
`let me if share is updated` changes nothing.  Here: `enterOk` is exactly "every frame to enter has all
its field needs and all its marker needs true". -/
theorem C20_entry_needs_all_hold (w : World) (frames : List Frame) (enters : List Nat)
    (h : enterOk w frames enters = true) (j : Nat) (hj : j ∈ enters) (f : Frame) (hf : frames[j]? = some f) :
    (∀ g ∈ f.guards, evalGuard w g = true) ∧ (∀ n ∈ f.gneeds, evalNeed w n = true) := by
  simp only [enterOk, Bool.and_eq_true, List.all_eq_true] at h
  have := h.2 j hj
  simp only [hf, Option.map_some, Option.getD_some] at this
  exact ⟨fun g hg => this.1 g hg, fun n hn => this.2 n hn⟩

/-- non-vacuity: frame B has `let me if .s0 is updated in frame A` (armed on every entry of A) and A has
`go B`.  The share is updated at tick 2: the unconditional `go B` is refused at ticks 1 and 2 (no update
since A was entered at tick 0) and taken at tick 3; nothing is reset by the refused attempts. -/
example :
    let g : NeedSrc := ⟨.update, false, 0, .named "A", ""⟩
    let p : Program := [⟨"A", none, [], [], [], [], [], [⟨.named "B", []⟩]⟩,
                        ⟨"B", none, [], [g], [], [], [], []⟩]
    let put0 : Write := .put 0 [("value", .int 1)]
    (resolve p).toOption.map (fun r =>
      ((run r [[("value", .int 0)]] [([], []), ([], []), ([], [put0]), ([], []), ([], [])]).2.1, r.enacts))
      = some ([(0, true), (0, false), (0, false), (1, true), (1, false)], [[⟨.update, 0, "A"⟩], []]) := by
  decide

/-! ### nested frames: which marks a taken transition sets -/

/-- the marker acts of a taken transition, in order: one tract marker per guarding need (transit
sub-context), then the enact markers of exactly the frames that are ENTERED (`ExEn`), top down; the
frames of the active outline that stay (the common over frames) run no marker -/
theorem C20_fire_markers (r : Resolved) (actives : List Nat) (t : Trans) :
    (fireActs r actives t).filterMap (fun a => match a with | .marker tr m => some (tr, m) | _ => none)
      = t.needs.map (fun n => (true, n.ref)) ++
        ((exen actives (outline r.frames t.far) t.far).2.flatMap (fun j => r.enacts.getD j [])).map (fun m => (false, m)) := by
  unfold fireActs
  simp only [List.filterMap_append, List.filterMap_map]
  have h1 : ∀ l : List Need, List.filterMap ((fun a => match a with | Act.marker tr m => some (tr, m) | _ => none) ∘
      fun n => Act.marker true n.ref) l = l.map (fun n => (true, n.ref)) := by
    intro l; induction l with
    | nil => rfl
    | cons a l ih => simp [ih]
  have hx : ∀ l : List Nat, List.filterMap (fun a => match a with | Act.marker tr m => some (tr, m) | _ => none)
      (l.flatMap (exitActs r)) = [] := by
    intro l; induction l with
    | nil => rfl
    | cons i l ih =>
      simp only [List.flatMap_cons, List.filterMap_append, ih, List.append_nil, exitActs, List.filterMap_map]
      generalize ((r.frames[i]?.map (·.exit)).getD []) = ws
      induction ws with
      | nil => rfl
      | cons a ws ih2 => simp [ih2]
  have he : ∀ l : List Nat, List.filterMap (fun a => match a with | Act.marker tr m => some (tr, m) | _ => none)
      (l.flatMap (enterActs r)) = (l.flatMap (fun j => r.enacts.getD j [])).map (fun m => (false, m)) := by
    intro l; induction l with
    | nil => rfl
    | cons i l ih =>
      simp only [List.flatMap_cons, List.filterMap_append, ih, List.map_append, enterActs, List.filterMap_map]
      congr 1
      have e1 : ∀ ms : List MarkRef, List.filterMap ((fun a => match a with | Act.marker tr m => some (tr, m) | _ => none) ∘
          Act.marker false) ms = ms.map (fun m => (false, m)) := by
        intro ms; induction ms with
        | nil => rfl
        | cons a ms ih3 => simp [ih3]
      have e2 : ∀ ws : List Write, List.filterMap ((fun a => match a with | Act.marker tr m => some (tr, m) | _ => none) ∘
          Act.write) ws = [] := by
        intro ws; induction ws with
        | nil => rfl
        | cons a ws ih3 => simp [ih3]
      rw [e1, e2]; simp
  rw [h1, hx, he]
  simp

/-- **An outer frame's mark is not disturbed by transitions below it.**  A taken transition whose
entered frames (`ExEn`) carry no enact marker for the mark `m`, and which is not itself guarded by `m`,
runs no marker act on `m` at all — entering and exiting inner frames leaves the `is updated` /
`is changed` condition of an over frame as it was armed on entry to that over frame. -/
theorem C20_outer_mark_undisturbed (r : Resolved) (actives : List Nat) (t : Trans) (m : MarkRef)
    (henters : ∀ j ∈ (exen actives (outline r.frames t.far) t.far).2, m ∉ r.enacts.getD j [])
    (hneeds : ∀ n ∈ t.needs, n.ref ≠ m) :
    ∀ tr, Act.marker tr m ∉ fireActs r actives t := by
  intro tr hmem
  unfold fireActs at hmem
  simp only [List.mem_append, List.mem_map, List.mem_flatMap] at hmem
  rcases hmem with (⟨n, hn, he⟩ | ⟨j, _, hj⟩) | ⟨j, hj, he⟩
  · injection he with _ h2; exact hneeds n hn h2
  · simp [exitActs] at hj
  · simp only [enterActs, List.mem_append, List.mem_map] at he
    rcases he with ⟨m', hm', e⟩ | ⟨w, _, e⟩
    · injection e with _ h2; subst h2; exact henters j hj hm'
    · cases e

/-- `ExEn` splits both outlines at one position: what is exited and what is entered are the tails, the
common over frames in front of them are neither exited nor entered — so their entry marks are not re-armed
by a transition between frames below them -/
theorem C20_exen_common_prefix (nears fars : List Nat) (far : Nat) :
    ∃ common, nears = common ++ (exen nears fars far).1 ∧ fars = common ++ (exen nears fars far).2 ∨
      ((exen nears fars far).1 = [] ∧ (exen nears fars far).2 = []) := by
  induction nears generalizing fars with
  | nil => exact ⟨[], Or.inr ⟨by simp [exen], by simp [exen]⟩⟩
  | cons n ns ih =>
    cases fars with
    | nil => exact ⟨[], Or.inr ⟨by simp [exen], by simp [exen]⟩⟩
    | cons f fs =>
      by_cases h : n = far ∨ n ≠ f
      · exact ⟨[], Or.inl ⟨by simp [exen, h], by simp [exen, h]⟩⟩
      · have hnf : n = f := by
          by_cases e : n = f
          · exact e
          · exact absurd (Or.inr e) h
        obtain ⟨c, hc⟩ := ih fs
        rcases hc with ⟨h1, h2⟩ | ⟨h1, h2⟩
        · refine ⟨n :: c, Or.inl ⟨?_, ?_⟩⟩
          · simp only [exen, h, if_false, List.cons_append]; rw [← h1]
          · simp only [exen, h, if_false, List.cons_append]; rw [← h2, hnf]
        · exact ⟨[], Or.inr ⟨by simp [exen, h, h1], by simp [exen, h, h2]⟩⟩

/-! ### where resolve puts the markers -/

/-- **The mark is set on entry to the named frame**: after a successful resolve the enact markers of
frame `i` are exactly the markers requested by the needs that carry an `in frame` clause naming `i`
(`Req`: own frame for `in frame` / `in frame me`, else the named one; key = `by` marker if given,
else the named frame's name), each once.  `needsOfFrame f` = the marker needs written in frame `f`: its
entry needs (`let me if …`) and the needs of its transitions — an entry need with an `in frame` clause
arms its mark on entry to the named frame exactly like a transition need does. -/
theorem C20_enact_placement (p : Program) (r : Resolved) (h : resolve p = .ok r) (i : Nat) (m : MarkRef) :
    (m ∈ r.enacts.getD i [] ↔
      ∃ home f, p[home]? = some f ∧ ∃ n ∈ needsOfFrame f, Req (p.map (·.name)) home n i m) ∧
    (r.enacts.getD i []).Nodup := by
  unfold resolve at h
  simp only [bind, Except.bind] at h
  cases h1 : resolveFrames (p.map (·.name)) 0 ⟨p.map (fun _ => []), []⟩ p with
  | error e => simp [h1] at h
  | ok res =>
    obtain ⟨fs, pl⟩ := res
    simp only [h1, pure, Except.pure, Except.ok.injEq] at h
    subst h
    obtain ⟨e, _, _, _⟩ := resolveFrames_ext (names := p.map (·.name)) (j := 0) (by simp) (by simp) h1
    have h0 : ∀ i, (List.map (fun _ => ([] : List MarkRef)) p).getD i [] = [] := by
      intro i
      simp only [List.getD_eq_getElem?_getD, List.getElem?_map]
      cases p[i]? <;> rfl
    constructor
    · rw [e.mem]
      simp only [h0, List.not_mem_nil, false_or, Nat.zero_add]
    · exact e.nodup (fun i => by simp only [h0]; exact List.nodup_nil) i

/-- **…and whenever a transition guarded by that mark is taken**: the resolved transitions carry, in
order, one need per source need with the same kind / negation / share and the key of `NeedOf`; the
tract markers run by `fireActs` are exactly these needs' marks.  Every such mark exists (`keys`). -/
theorem C20_tract_placement (p : Program) (r : Resolved) (h : resolve p = .ok r) :
    r.frames.length = p.length ∧
    (∀ k f f', p[k]? = some f → r.frames[k]? = some f' → FrameOf (p.map (·.name)) k f f') ∧
    (∀ f' ∈ r.frames, (∀ nd ∈ f'.gneeds, (nd.share, nd.key) ∈ r.keys) ∧
      ∀ t' ∈ f'.trans, ∀ nd ∈ t'.needs, (nd.share, nd.key) ∈ r.keys) := by
  unfold resolve at h
  simp only [bind, Except.bind] at h
  cases h1 : resolveFrames (p.map (·.name)) 0 ⟨p.map (fun _ => []), []⟩ p with
  | error e => simp [h1] at h
  | ok res =>
    obtain ⟨fs, pl⟩ := res
    simp only [h1, pure, Except.pure, Except.ok.injEq] at h
    subst h
    obtain ⟨_, l, o, k⟩ := resolveFrames_ext (names := p.map (·.name)) (j := 0) (by simp) (by simp) h1
    exact ⟨l, fun k f f' a b => by simpa using o k f f' a b, k⟩


/-- **Shared `by` markers**: needs of one framer that name the same `by` marker on the same share — in
whatever frames they stand, with or without an `in frame` clause — resolve to the same Mark
(same `(share, key)`), so they all see and reset one mark; without a `by` marker the key is the name of
the frame the need names (its own frame when there is no clause). -/
theorem C20_shared_by_marker (names : List String) (h1 h2 : Nat) (n1 n2 : NeedSrc) (d1 d2 : Need)
    (r1 : NeedOf names h1 n1 d1) (r2 : NeedOf names h2 n2 d2)
    (hs : n1.share = n2.share) (hb : n1.by_ = n2.by_) (hne : n1.by_ ≠ "") :
    (d1.share, d1.key) = (d2.share, d2.key) ∧ d1.key = n1.by_ := by
  obtain ⟨f1, _, e1⟩ := r1
  obtain ⟨f2, _, e2⟩ := r2
  subst e1; subst e2
  have hne2 : n2.by_ ≠ "" := hb ▸ hne
  simp [srcKey, hne, hne2, hs, hb]

theorem C20_default_marker_key (names : List String) (home : Nat) (n : NeedSrc) (d : Need)
    (r : NeedOf names home n d) (hb : n.by_ = "") :
    ∃ fi, needFrame names home n.clause = .ok fi ∧ d.key = names.getD fi "" := by
  obtain ⟨fi, hf, e⟩ := r
  subst e
  exact ⟨fi, hf, by simp [srcKey, hb]⟩

/-- non-vacuity / shared `by` marker: two needs in different frames naming the same `by` marker on
the same share resolve to one Mark key; the `in frame B` clause of the first puts one enact marker
into `B`, and a second identical request does not add another. -/
example :
    let nd : NeedSrc := ⟨.update, false, 0, .named "B", "m1"⟩
    let p : Program := [⟨"A", none, [], [], [], [], [], [⟨.named "B", [nd]⟩]⟩,
                        ⟨"B", none, [], [], [], [], [], [⟨.named "A", [nd, { nd with clause := .absent }]⟩]⟩]
    (resolve p).toOption.map (fun r => (r.enacts, r.keys))
      = some ([[], [⟨.update, 0, "m1"⟩]], [(0, "m1")]) := by
  decide

end Ioflo.Marks
