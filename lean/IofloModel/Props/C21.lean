import IofloModel.Model.Need
/-!
# C21 — comparison conditions evaluate exactly the written comparison

All statements are for every Python value (`None`, bool, number, string) in every position.
A `TypeError` of an ordering operator is an error, not `false`.
-/
namespace Ioflo.Need

/-! ## `==` and `!=` -/

/-- on numbers (bools count as 0/1) `==` means `goal − |tol| ≤ state ≤ goal + |tol|` -/
theorem C21_check_eq_numbers (state goal tol : PyVal Rat) (s g t : Rat)
    (hs : state.toNum? = some s) (hg : goal.toNum? = some g) (ht : tol.toNum? = some t) :
    check state .eq goal tol = .ok (decide (g - qabs t ≤ s ∧ s ≤ g + qabs t)) := by
  simp only [check, window?, hs, hg, ht]
  by_cases h : g - qabs t ≤ s <;> simp [h]

/-- the same window as a distance: `|state − goal| ≤ |tol|` -/
theorem C21_check_eq_distance (state goal tol : PyVal Rat) (s g t : Rat)
    (hs : state.toNum? = some s) (hg : goal.toNum? = some g) (ht : tol.toNum? = some t) :
    check state .eq goal tol = .ok (decide (qabs (s - g) ≤ qabs t)) := by
  rw [C21_check_eq_numbers state goal tol s g t hs hg ht]
  congr 1
  apply decide_eq_decide.mpr
  unfold qabs; grind

/-- zero tolerance on numbers is equality of values -/
theorem C21_check_eq_zero_tolerance (state goal : PyVal Rat) (s g : Rat)
    (hs : state.toNum? = some s) (hg : goal.toNum? = some g) :
    check state .eq goal (.num 0) = .ok (decide (s = g)) := by
  rw [C21_check_eq_numbers state goal (.num 0) s g 0 hs hg rfl]
  congr 1
  apply decide_eq_decide.mpr
  unfold qabs; grind

/-- when the window raises `TypeError` (a string or `None` anywhere) `==` is Python equality -/
theorem C21_check_eq_otherwise (state goal tol : PyVal Rat)
    (h : state.toNum? = none ∨ goal.toNum? = none ∨ tol.toNum? = none) :
    check state .eq goal tol = .ok (pyEq goal state) := by
  have : window? state goal tol = none := by
    unfold window?
    cases ht : tol.toNum? with
    | none => rfl
    | some t =>
      cases hg : goal.toNum? with
      | none => rfl
      | some g =>
        cases hs : state.toNum? with
        | none => rfl
        | some s => simp [ht, hg, hs] at h
  simp only [check, this]

/-- Python equality on these values: identical, or numerically equal (`True == 1`, `1 == 1.0`) -/
theorem C21_pyEq_iff (a b : PyVal Rat) :
    pyEq a b = true ↔ (a = b ∨ ∃ x, a.toNum? = some x ∧ b.toNum? = some x) := by
  cases a <;> cases b <;> simp [pyEq, PyVal.toNum?] <;> grind

/-- strings: `==` is string equality whatever the tolerance -/
theorem C21_check_eq_strings (a b : List Nat) (tol : PyVal Rat) :
    check (.str a) .eq (.str b) tol = .ok (decide (b = a)) := by
  rw [C21_check_eq_otherwise _ _ _ (Or.inl rfl)]
  simp [pyEq]

/-- `!=` is the complement of `==`, for all values -/
theorem C21_check_ne_complement (state goal tol : PyVal Rat) :
    check state .ne goal tol = (check state .eq goal tol).map (! ·) := by
  simp only [check]
  cases window? state goal tol <;> rfl

/-- `==`/`!=` never raise -/
theorem C21_check_eq_ne_total (state goal tol : PyVal Rat) :
    (∃ r, check state .eq goal tol = .ok r) ∧ (∃ r, check state .ne goal tol = .ok r) := by
  simp only [check]
  cases window? state goal tol <;> exact ⟨⟨_, rfl⟩, ⟨_, rfl⟩⟩

/-! ## ordering operators -/

/-- numbers: the written comparison of state with goal -/
theorem C21_check_order_numbers (state goal tol : PyVal Rat) (s g : Rat)
    (hs : state.toNum? = some s) (hg : goal.toNum? = some g) :
    check state .lt goal tol = .ok (decide (s < g)) ∧
    check state .le goal tol = .ok (decide (s ≤ g)) ∧
    check state .ge goal tol = .ok (decide (g ≤ s)) ∧
    check state .gt goal tol = .ok (decide (g < s)) := by
  cases state <;> cases goal <;> simp [PyVal.toNum?] at hs hg <;>
    simp [check, pyLt?, pyLe?, PyVal.toNum?, hs, hg]

/-- `lexLt` is the lexicographic order -/
theorem lexLt_iff (a b : List Nat) : lexLt a b = true ↔ a < b := by
  induction a generalizing b with
  | nil => cases b <;> simp [lexLt]
  | cons x xs ih =>
    cases b with
    | nil => simp [lexLt]
    | cons y ys =>
      simp only [lexLt, List.cons_lt_cons_iff]
      by_cases h1 : x < y
      · simp [h1]
      · by_cases h2 : y < x
        · have : x ≠ y := by omega
          simp [h1, h2, this]
        · have : x = y := by omega
          simp [this, ih]

/-- strings: lexicographic by code point -/
theorem C21_check_order_strings (a b : List Nat) (tol : PyVal Rat) :
    check (.str a) .lt (.str b) tol = .ok (decide (a < b)) ∧
    check (.str a) .le (.str b) tol = .ok (decide (¬ b < a)) ∧
    check (.str a) .ge (.str b) tol = .ok (decide (¬ a < b)) ∧
    check (.str a) .gt (.str b) tol = .ok (decide (b < a)) := by
  have h1 := lexLt_iff a b
  have h2 := lexLt_iff b a
  simp only [check, pyLt?, pyLe?]
  refine ⟨?_, ?_, ?_, ?_⟩ <;> congr 1 <;> grind

/-- what Python can order: two numbers or two strings -/
def Comparable (a b : PyVal Rat) : Prop :=
  (a.toNum?.isSome ∧ b.toNum?.isSome) ∨ (∃ x y, a = .str x ∧ b = .str y)

/-- everything else (`None` anywhere, a string against a number) raises `TypeError` -/
theorem C21_check_order_type_error (state goal tol : PyVal Rat) (c : Cmp)
    (hc : c = .lt ∨ c = .le ∨ c = .ge ∨ c = .gt) :
    check state c goal tol = .error .typeError ↔ ¬ Comparable state goal := by
  rcases hc with rfl | rfl | rfl | rfl <;>
    cases state <;> cases goal <;> simp [check, pyLt?, pyLe?, PyVal.toNum?, Comparable]

/-- the tolerance plays no role in the ordering operators -/
theorem C21_check_order_ignores_tolerance (state goal tol tol' : PyVal Rat) (c : Cmp)
    (hc : c = .lt ∨ c = .le ∨ c = .ge ∨ c = .gt) :
    check state c goal tol = check state c goal tol' := by
  rcases hc with rfl | rfl | rfl | rfl <;> rfl

/-- `>=` / `>` are `<=` / `<` with the operands swapped -/
theorem C21_check_ge_gt_swap (state goal tol : PyVal Rat) :
    check state .ge goal tol = check goal .le state tol ∧
    check state .gt goal tol = check goal .lt state tol := ⟨rfl, rfl⟩

/-- an unknown comparison string is false -/
theorem C21_check_unknown_false (state goal tol : PyVal Rat) : check state .other goal tol = .ok false := rfl

/-! ## bare `if state`, `not`, `and` -/

/-- a bare `if state` is the truthiness of the field -/
theorem C21_boolean_need_truthiness (e : Env Rat) (k : Nat) :
    (Need.boolean k).eval e = .ok (truthy (e.get k)) := rfl

/-- Python truthiness of these values -/
theorem C21_truthy_iff (v : PyVal Rat) :
    truthy v = false ↔ (v = .none ∨ v = .bool false ∨ v = .num 0 ∨ v = .str []) := by
  cases v with
  | none => simp [truthy]
  | bool b => cases b <;> simp [truthy]
  | num q => simp [truthy]
  | str s => cases s <;> simp [truthy]

/-- an indirect goal is the direct goal with the other share's current value -/
theorem C21_indirect_is_direct (e : Env Rat) (k j : Nat) (c : Cmp) (tol : PyVal Rat) :
    (Need.compare k c (.ref j) tol).eval e = (Need.compare k c (.lit (e.get j)) tol).eval e := rfl

/-- `not need` negates the result and passes a `TypeError` on -/
theorem C21_nact_negates (e : Env Rat) (n : Need Rat) :
    Clause.eval e ({ negate := true, need := n } : Clause Rat) =
      (Clause.eval e ({ negate := false, need := n } : Clause Rat)).map (! ·) := by
  simp only [Clause.eval]
  cases n.eval e <;> rfl

/-- a list of needs is their conjunction … -/
theorem C21_conj_all (e : Env Rat) (cs : List (Clause Rat)) :
    evalAll e cs = .ok true ↔ ∀ c ∈ cs, c.eval e = .ok true := by
  induction cs with
  | nil => simp [evalAll]
  | cons c rest ih =>
    simp only [evalAll, List.mem_cons, forall_eq_or_imp]
    cases h : c.eval e with
    | error x => simp
    | ok r => cases r <;> simp [ih]

/-- … evaluated left to right, stopping at the first false (needs after it are not evaluated,
whatever they would do) … -/
theorem C21_conj_first_false (e : Env Rat) (cs : List (Clause Rat)) :
    evalAll e cs = .ok false ↔
      ∃ pre c post, cs = pre ++ c :: post ∧ (∀ d ∈ pre, d.eval e = .ok true) ∧ c.eval e = .ok false := by
  induction cs with
  | nil => simp [evalAll]
  | cons c rest ih =>
    simp only [evalAll]
    cases h : c.eval e with
    | error x =>
      simp only [reduceCtorEq, false_iff]
      rintro ⟨pre, d, post, hcs, hpre, hd⟩
      cases pre with
      | nil => simp at hcs; rw [← hcs.1, h] at hd; try cases hd
      | cons p ps => simp at hcs; have := hpre p (by simp); rw [← hcs.1, h] at this; try cases this
    | ok r =>
      cases r with
      | false =>
        simp only [true_iff]
        exact ⟨[], c, rest, rfl, by simp, h⟩
      | true =>
        simp only [ih]
        constructor
        · rintro ⟨pre, d, post, hcs, hpre, hd⟩
          refine ⟨c :: pre, d, post, by simp [hcs], ?_, hd⟩
          intro x hx; simp at hx; rcases hx with rfl | hx
          · exact h
          · exact hpre x hx
        · rintro ⟨pre, d, post, hcs, hpre, hd⟩
          cases pre with
          | nil => simp at hcs; rw [← hcs.1, h] at hd; try cases hd
          | cons p ps =>
            simp at hcs
            exact ⟨ps, d, post, hcs.2, fun x hx => hpre x (by simp [hx]), hd⟩

/-- … and an error is the error of the first need that is reached and raises -/
theorem C21_conj_error (e : Env Rat) (cs : List (Clause Rat)) (x : Err) :
    evalAll e cs = .error x ↔
      ∃ pre c post, cs = pre ++ c :: post ∧ (∀ d ∈ pre, d.eval e = .ok true) ∧ c.eval e = .error x := by
  induction cs with
  | nil => simp [evalAll]
  | cons c rest ih =>
    simp only [evalAll]
    cases h : c.eval e with
    | error y =>
      constructor
      · intro hy; cases hy
        exact ⟨[], c, rest, rfl, by simp, h⟩
      · rintro ⟨pre, d, post, hcs, hpre, hd⟩
        cases pre with
        | nil => simp at hcs; rw [← hcs.1, h] at hd; try exact hd
        | cons p ps => simp at hcs; have := hpre p (by simp); rw [← hcs.1, h] at this; try cases this
    | ok r =>
      cases r with
      | false =>
        simp only [reduceCtorEq, false_iff]
        rintro ⟨pre, d, post, hcs, hpre, hd⟩
        cases pre with
        | nil => simp at hcs; rw [← hcs.1, h] at hd; try cases hd
        | cons p ps => simp at hcs; have := hpre p (by simp); rw [← hcs.1, h] at this; try cases this
      | true =>
        simp only [ih]
        constructor
        · rintro ⟨pre, d, post, hcs, hpre, hd⟩
          refine ⟨c :: pre, d, post, by simp [hcs], ?_, hd⟩
          intro y hy; simp at hy; rcases hy with rfl | hy
          · exact h
          · exact hpre y hy
        · rintro ⟨pre, d, post, hcs, hpre, hd⟩
          cases pre with
          | nil => simp at hcs; rw [← hcs.1, h] at hd; try cases hd
          | cons p ps =>
            simp at hcs
            exact ⟨ps, d, post, hcs.2, fun y hy => hpre y (by simp [hy]), hd⟩

/-! ## a frame re-evaluating its transition on the framer clocks -/

theorem runFrom_hit_iff (period : Rat) (e : Env Rat) (cs : List (Clause Rat)) (fuel j0 j : Nat) :
    runFrom period e cs fuel j0 = .hit j ↔
      (j0 ≤ j ∧ j < j0 + fuel ∧ evalAll (envAt period e j) cs = .ok true ∧
        ∀ i, j0 ≤ i → i < j → evalAll (envAt period e i) cs = .ok false) := by
  induction fuel generalizing j0 with
  | zero => simp [runFrom]; omega
  | succ n ih =>
    simp only [runFrom]
    cases h : evalAll (envAt period e j0) cs with
    | error x =>
      simp only [reduceCtorEq, false_iff]
      rintro ⟨h1, _, h3, h4⟩
      by_cases hj : j = j0
      · subst hj; rw [h] at h3; cases h3
      · have := h4 j0 (Nat.le_refl _) (by omega); rw [h] at this; cases this
    | ok r =>
      cases r with
      | true =>
        simp only [Outcome.hit.injEq]
        constructor
        · rintro rfl; exact ⟨Nat.le_refl _, by omega, h, fun i h1 h2 => by omega⟩
        · rintro ⟨h1, _, _, h4⟩
          by_cases hj : j = j0
          · exact hj.symm
          · have := h4 j0 (Nat.le_refl _) (by omega); rw [h] at this; cases this
      | false =>
        simp only [ih]
        constructor
        · rintro ⟨h1, h2, h3, h4⟩
          refine ⟨by omega, by omega, h3, ?_⟩
          intro i hi1 hi2
          by_cases hi : i = j0
          · subst hi; exact h
          · exact h4 i (by omega) hi2
        · rintro ⟨h1, h2, h3, h4⟩
          have hne : j ≠ j0 := by rintro rfl; rw [h] at h3; cases h3
          exact ⟨by omega, by omega, h3, fun i hi1 hi2 => h4 i (by omega) hi2⟩

/-- **transition taken or not**: the transition fires at evaluation `j` exactly when its needs hold
on the clocks of evaluation `j` (`elapsed = j·period`, `recurred = j`) and were false at every
earlier evaluation -/
theorem C21_frame_hit_iff (period : Rat) (limit : Nat) (e : Env Rat) (cs : List (Clause Rat)) (j : Nat) :
    runFrame period limit e cs = .hit j ↔
      (1 ≤ j ∧ j ≤ limit ∧ evalAll (envAt period e j) cs = .ok true ∧
        ∀ i, 1 ≤ i → i < j → evalAll (envAt period e i) cs = .ok false) := by
  unfold runFrame; rw [runFrom_hit_iff]
  constructor <;> rintro ⟨h1, h2, h3, h4⟩ <;> exact ⟨h1, by omega, h3, h4⟩

/-- non-vacuity: `go … if elapsed >= 1/4 and not .s == "bye"` with period 1/8 fires at the 2nd
evaluation -/
example : runFrame (1/8 : Rat) 6 [(7, .str [104, 105])]
    [⟨false, .compare 0 .ge (.lit (.num (1/4))) (.num 0)⟩,
     ⟨true, .compare 7 .eq (.lit (.str [98, 121, 101])) (.num 0)⟩] = .hit 2 := by decide +kernel

/-- the clocks of the `j`-th evaluation are `j·period` and `j` -/
theorem C21_clocks (period : Rat) (e : Env Rat) (j : Nat) :
    (envAt period e j).get 0 = .num (period * (j : Rat)) ∧ (envAt period e j).get 1 = .num (j : Rat) := by
  have h : ∀ n : Nat, (natTo n : Rat) = (n : Rat) := by
    intro n
    induction n with
    | zero => simp [natTo]
    | succ k ih => simp only [natTo, ih]; grind
  simp [envAt, Env.get, List.lookup, h]

/-- an entry guard in front of the frame: blocked iff the guard is false, otherwise the transition's
needs decide; errors of the guard come first -/
theorem C21_guarded (e : Env Rat) (guard cs : List (Clause Rat)) :
    (runGuarded e guard cs = .blocked ↔ evalAll e guard = .ok false) ∧
    (runGuarded e guard cs = .hit ↔ evalAll e guard = .ok true ∧ evalAll e cs = .ok true) ∧
    (runGuarded e guard cs = .miss ↔ evalAll e guard = .ok true ∧ evalAll e cs = .ok false) := by
  unfold runGuarded
  cases hg : evalAll e guard with
  | error x => simp
  | ok b =>
    cases b with
    | false => simp
    | true =>
      cases hc : evalAll e cs with
      | error x => simp
      | ok c => cases c <;> simp

/-- non-vacuity for the error clauses: `"hi" < 3` raises, `not ("hi" == 3)` is true -/
example : check (.str [104, 105]) .lt (.num (3 : Rat)) (.num 0) = .error .typeError ∧
    Clause.eval ([] : Env Rat) ⟨true, .compare 7 .eq (.lit (.str [104])) (.num 0)⟩ = .ok true := by
  constructor <;> rfl

/-! ## no memory -/

/-- **stateless**: what a need, a clause or a need list evaluates to depends only on the CURRENT
contents of the fields (two stores that hold the same values give the same result, whatever was
there or was evaluated before) -/
theorem C21_stateless (e e' : Env Rat) (h : ∀ k, e.get k = e'.get k) (n : Need Rat) (c : Clause Rat)
    (cs : List (Clause Rat)) :
    n.eval e = n.eval e' ∧ c.eval e = c.eval e' ∧ evalAll e cs = evalAll e' cs := by
  have hn : ∀ n : Need Rat, n.eval e = n.eval e' := by
    intro n
    cases n with
    | boolean k => simp only [Need.eval, h k]
    | compare k cmp g tol =>
      cases g with
      | lit v => simp only [Need.eval, Goal.val, h k]
      | ref j => simp only [Need.eval, Goal.val, h k, h j]
  have hc : ∀ c : Clause Rat, c.eval e = c.eval e' := by
    intro c; simp only [Clause.eval, hn c.need]
  refine ⟨hn n, hc c, ?_⟩
  induction cs with
  | nil => rfl
  | cons c rest ih => simp only [evalAll, hc c, ih]

/-- only the fields a need mentions matter -/
theorem C21_reads_only_its_fields (e e' : Env Rat) (k : Nat) (cmp : Cmp) (g : Goal Rat) (tol : PyVal Rat)
    (hk : e.get k = e'.get k) (hg : ∀ j, g = .ref j → e.get j = e'.get j) :
    (Need.compare k cmp g tol).eval e = (Need.compare k cmp g tol).eval e' := by
  cases g with
  | lit v => simp only [Need.eval, Goal.val, hk]
  | ref j => simp only [Need.eval, Goal.val, hk, hg j rfl]

end Ioflo.Need
