import IofloModel.Lemmas.LogRules
/-!
# C22 — each log rule records exactly the runs and updates it promises

Model: `Model/LogRules.lean` (transcription of `ioflo/base/logging.py`: the `Log` rule actions,
`prepare`, `reopen`, and the START / RUN / STOP / READY / ABORT branches of `Logger.makeRunner`,
with the fix patches D51, D52 and D53 applied).  `S1` is a logger with one log; `Sys` (what the driver
runs) is a logger with any number of logs.

Standing hypotheses of the history theorems (all decidable on a concrete history):
* `Fresh s`    — a well-formed log (`cfgOk`) in a logger that has not been started;
* `proto`      — RUN is sent only to a started / running logger, STOP only to a started / running /
                 stopped one (what the `Skedder` does);
* `timed`      — the store stamp is a number and never decreases (needed by `once`, `update`, `change`,
                 whose code tests `self.stamp is None` / compares stamps).
Property theorems only; helper lemmas are in `Lemmas/LogRules.lean`.
-/
namespace Ioflo.LogRules

/-- The multi-log model the driver runs, restricted to one log, is `S1`. -/
theorem C22_single_log_refines (s : S1) (h : List Op) : s.toSys.exec h = (s.exec h).toSys :=
  toSys_exec s h

/-- **logs of one logger do not interfere** (rules that do not drain a queue: never, once, always,
update, change): in a logger with any number of such logs, every log ends up exactly as it would
alone in its own logger, for every protocol-respecting history.  This carries the single-log
theorems below over to the multi-log loggers that the correspondence check runs. -/
theorem C22_logs_independent (s : Sys) (h : List Op) (ha : s.alive = true) (hs : s.status = .stopped)
    (hall : ∀ l ∈ s.logs, Fresh (s.single l) ∧ nodrain l) (hp : proto .stopped h = true) :
    (s.exec h).logs = s.logs.map (fun l => ((s.single l).exec h).log) :=
  multi_exec s h ⟨ha, fun l hl => ⟨(hall l hl).1.inv, (hall l hl).2⟩⟩ (by rw [hs]; exact hp)

/-! ## never, always, once -/

/-- **never writes nothing**: whatever the state of the logger and whatever the history
(no hypothesis at all), a `never` log's file gets no record. -/
theorem C22_never_nothing (s : S1) (h : List Op) (hr : s.log.rule = .never) :
    (s.exec h).recs = s.recs :=
  never_exec s h hr

/-- **always: one record per logger run.** -/
theorem C22_always_one_per_run (s : S1) (h : List Op) (hf : Fresh s) (hr : s.log.rule = .always)
    (hp : proto .stopped h = true) :
    (s.exec h).recs.length = s.recs.length + nRuns .stopped h := by
  have := always_exec s h hf.inv hr (by rw [hf.status]; exact hp)
  rw [hf.status] at this
  exact this

/-- … and the record written by a run is stamped with the store stamp and shows the current
values of the logged fields (`actLog` = the log as START has just prepared it, or the log itself). -/
theorem C22_always_record_is_current (s : S1) (c : Ctl) (hi : Inv s) (hr : s.log.rule = .always)
    (hc : ctlOk s.status c = true) (hrun : isRun s.status c = true) :
    (s.send c).1.recs = s.recs ++ [⟨s.world.stamp, (recCells s.world (actLog s c).formats s.log.loggees).1⟩] := by
  rw [always_step s c hi hr hc]
  simp only [hrun, if_true, curRec, (actLog_facts s c hi hc hrun).2.2.2.2.2.2]

/-- **once: exactly one record** as soon as the logger has run (numeric store stamp), none before. -/
theorem C22_once_exactly_one (s : S1) (h : List Op) (hf : Fresh s) (hr : s.log.rule = .once)
    (hp : proto .stopped h = true) (ht : timed s.world.stamp h = true) :
    (s.exec h).recs.length = s.recs.length + (if 0 < nRuns .stopped h then 1 else 0) := by
  have := once_exec s h hf.inv hr (by rw [hf.status]; exact hp) ht
  rw [hf.status] at this
  simpa [hf.stamp] using this

/-! non-vacuity: a fresh log on share 0 and a protocol-respecting history with three runs -/

def exLog (r : Rule) : Log :=
  { rule := r, base := "t", loggees := [("x", 0)], fields := [("x", [])] }
def exS (r : Rule) : S1 := { world := { stamp := some 0 }, log := exLog r }
def exH : List Op :=
  [.w (.poke 0 "value" (.atom (.int 0))), .ctl .start, .w (.advance 1),
   .w (.write 0 "value" (.atom (.int 1))), .ctl .run, .ctl .stop]

example : Fresh (exS .always) := ⟨rfl, rfl, rfl, rfl, rfl, rfl⟩
example : proto .stopped exH = true ∧ timed (exS .always).world.stamp exH = true ∧ nRuns .stopped exH = 3 := by
  decide
example : ((exS .always).exec exH).recs =
    [⟨some 0, [some (.atom (.int 0))]⟩, ⟨some 1, [some (.atom (.int 1))]⟩, ⟨some 1, [some (.atom (.int 1))]⟩] := by
  decide
example : ((exS .once).exec exH).recs = [⟨some 0, [some (.atom (.int 0))]⟩] := by decide
example : ((exS .never).exec exH).recs = [] := by decide

/-- two logs (always, update) on the same share in one logger: each file is what the log writes alone -/
example : ((({ world := { stamp := some 0 }, logs := [exLog .always, exLog .update] } : Sys).exec exH).logs.map (·.disk)) =
    [((exS .always).exec exH).log.disk, ((exS .update).exec exH).log.disk] := by decide

/-! ## update

The property: *a record at its first run and then a record reflecting every update made after the
previous record*.  `Ideal` is that sentence as a logger: a dirty flag set by every stamped write
to a loggee and cleared by every record; a run writes a record iff nothing was logged yet or the
flag is set. -/

/-- the clock is numeric and no share is stamped in the future -/
def World.sane (w : World) : Prop :=
  ∃ t, w.stamp = some t ∧ ∀ sid σ, (w.shares sid).stamp = some σ → σ ≤ t

/-- full statement: the update log's file is the ideal logger's file, for every history -/
def C22_update_full : Prop :=
  ∀ (s : S1) (h : List Op), Fresh s → s.log.rule = .update → s.world.sane →
    proto .stopped h = true → timed s.world.stamp h = true →
    (s.exec h).log.disk = ((Ideal.ofS1 s).exec h).s.log.disk

/-- **update, outside the D12 region**: if no stamped write reaches a loggee after the log has
already logged at the same store stamp (`lateWrite`, the region predicate the harness evaluates),
the code and the ideal logger are in the same state after every history — in particular the
files are equal. -/
theorem C22_update_partial (s : S1) (h : List Op) (hf : Fresh s) (hr : s.log.rule = .update)
    (hw : s.world.sane) (hp : proto .stopped h = true) (ht : timed s.world.stamp h = true)
    (hl : lateWrite s.toSys h = false) :
    ((Ideal.ofS1 s).exec h).s = s.exec h :=
  U_exec (Ideal.ofS1 s) h hf.inv (InvU_fresh s hf hw) hr (by rw [show (Ideal.ofS1 s).s.status = .stopped from hf.status]; exact hp) ht hl

/-- D12 witness: START at t=0 logs 0; the write of 1 in the same tick *after* the run gets
`share.stamp = log.stamp = 0`; the RUN at t=1 sees no newer stamp and writes nothing. -/
def d12S : S1 := exS .update
def d12H : List Op :=
  [.w (.poke 0 "value" (.atom (.int 0))), .ctl .start,
   .w (.write 0 "value" (.atom (.int 1))), .w (.advance 1), .ctl .run, .ctl .stop]

/-- **the full statement is false of the code as it is** (known finding D12) -/
theorem C22_update_counterexample : ¬ C22_update_full := by
  intro hfull
  have := hfull d12S d12H ⟨rfl, rfl, rfl, rfl, rfl, rfl⟩ rfl
    ⟨0, rfl, by intro sid σ h; simp [d12S, exS] at h⟩ (by decide) (by decide)
  revert this
  decide

/-- the witness lies in the region, and what each side writes -/
example : lateWrite d12S.toSys d12H = true := by decide
example : (d12S.exec d12H).recs = [⟨some 0, [some (.atom (.int 0))]⟩] := by decide
example : (((Ideal.ofS1 d12S).exec d12H).s).recs =
    [⟨some 0, [some (.atom (.int 0))]⟩, ⟨some 1, [some (.atom (.int 1))]⟩] := by decide
/-- non-vacuity of the partial theorem: `exH` (write *before* the run of its tick) is outside the region -/
example : lateWrite (exS .update).toSys exH = false ∧
    ((exS .update).exec exH).recs = [⟨some 0, [some (.atom (.int 0))]⟩, ⟨some 1, [some (.atom (.int 1))]⟩] := by
  decide

/-! ## change

*A record at its first run and then whenever a logged field differs from its last logged value.*
The ideal logger keeps the values shown by the last record (`Ideal.last`, replaced wholesale at
every record) and writes iff nothing was logged yet or `differs`.  The code keeps `.lasts`, built
at `prepare` and updated field by field inside the comparison loop. -/

/-- **change (full, on the code with fix patches D51 + D52)**: same file — and same store, status —
as the ideal logger, for every history, restarts included. -/
theorem C22_change_iff_differs (s : S1) (h : List Op) (hf : Fresh s) (hr : s.log.rule = .change)
    (hl : s.log.lasts = []) (hnd : (dkeys s.log.loggees).Nodup)
    (hp : proto .stopped h = true) (ht : timed s.world.stamp h = true) :
    ((Ideal.ofS1 s).exec h).s.log.disk = (s.exec h).log.disk ∧
    ((Ideal.ofS1 s).exec h).s.world = (s.exec h).world ∧
    ((Ideal.ofS1 s).exec h).s.status = (s.exec h).status := by
  have hw : ∃ t, s.world.stamp = some t := by
    cases hs : s.world.stamp with
    | none => rw [hs] at ht; cases h <;> simp [timed] at ht
    | some t => exact ⟨t, rfl⟩
  have := C_exec s (Ideal.ofS1 s) h (RelC_fresh s hf hl hw) hf.inv hr hnd (by rw [hf.status]; exact hp) ht
  exact ⟨this.log.facts.2.2.2.2.2.2.2.1, this.world, this.status⟩

def chH : List Op :=
  [.w (.poke 0 "value" (.atom (.int 0))), .ctl .start, .w (.advance 1),
   .w (.write 0 "value" (.atom (.int 0))), .ctl .run,                      -- same value: no record
   .w (.write 0 "value" (.atom (.bool false))), .ctl .run,                -- False == 0: no record
   .w (.poke 0 "value" (.atom (.int 2))), .ctl .stop,                      -- unstamped change: record
   .w (.poke 0 "value" (.atom (.int 3))), .ctl .start, .ctl .stop]         -- changed while stopped: record
example : Fresh (exS .change) ∧ proto .stopped chH = true ∧ timed (exS .change).world.stamp chH = true := by
  exact ⟨⟨rfl, rfl, rfl, rfl, rfl, rfl⟩, by decide, by decide⟩
example : ((exS .change).exec chH).recs =
    [⟨some 0, [some (.atom (.int 0))]⟩, ⟨some 1, [some (.atom (.int 2))]⟩, ⟨some 1, [some (.atom (.int 3))]⟩] := by
  decide

/-! ## streak and deck: every queued element exactly once, in FIFO order, queue left empty -/

/-- **deck**: cells of the records written so far, followed by what is still queued, is what was
queued at the start followed by every mapping pushed by the history — for *every* history (only
`push` touches a deck); non-mapping entries are dropped (`entryCells`). -/
theorem C22_deck_fifo_once (s : S1) (h : List Op) (hf : Fresh s) (hr : s.log.rule = .deck)
    (hp : proto .stopped h = true) (tag : String) (sid : Nat) (rest : Dict Nat) (f : String)
    (fs : List String) (hl : s.log.loggees = (tag, sid) :: rest)
    (hfl : dget s.log.fields tag = some (f :: fs)) :
    (s.exec h).recs.map (·.cells) ++ entryCells (f :: fs) ((s.exec h).world.shares sid).deck =
      s.recs.map (·.cells) ++ entryCells (f :: fs) ((s.world.shares sid).deck ++ pushed sid h) := by
  have := deck_exec s h hf.inv hr (by rw [hf.status]; exact hp) tag sid rest f fs hl hfl
  simp only [deckPhi] at this
  rw [this, entryCells_append, List.append_assoc]

/-- … and a run leaves the deck empty -/
theorem C22_deck_empty_after_run (s : S1) (c : Ctl) (hi : Inv s) (hr : s.log.rule = .deck)
    (hc : ctlOk s.status c = true) (hrun : isRun s.status c = true)
    (tag : String) (sid : Nat) (rest : Dict Nat) (f : String) (fs : List String)
    (hl : s.log.loggees = (tag, sid) :: rest) (hfl : dget s.log.fields tag = some (f :: fs)) :
    ((s.step (.ctl c)).1.world.shares sid).deck = [] :=
  (deck_step s (.ctl c) hi hr (by intro c' h; cases h; exact hc) tag sid rest f fs hl hfl).2.2 c rfl hrun

/-- **streak** (queue = the list in field `q` of the first loggee, named in the log's field list;
histories that do not rebind it): records so far ++ pending = initial queue ++ queued, where `queued`
are the elements appended through the share (`share[q].append(e)`) and those appended through a
reference to the list object that a producer took once and that is live (the object it names is
still the field's value) — each logged exactly once, in order. -/
theorem C22_streak_fifo_once (s : S1) (h : List Op) (hf : Fresh s) (hr : s.log.rule = .streak)
    (hp : proto .stopped h = true) (tag : String) (sid : Nat) (rest : Dict Nat) (q : String)
    (qs : List String) (dq : Bool) (items : List Elem) (hl : s.log.loggees = (tag, sid) :: rest)
    (hfl : dget s.log.fields tag = some (q :: qs))
    (hq : dget (s.world.shares sid).data q = some (.list dq items))
    (hno : noOverwrite sid q h = true) :
    (s.exec h).recs.map (·.cells) ++ (pending (s.exec h).world sid q).map (fun e => [some e.toVal]) =
      s.recs.map (·.cells) ++ (items ++ queued s sid q h).map (fun e => [some e.toVal]) := by
  have := streak_exec s h hf.inv hr (by rw [hf.status]; exact hp) tag sid rest q qs dq items hl hfl hq hno
  simp only [streakPhi] at this
  rw [this]
  simp [pending, hq, List.append_assoc]

/-- … and a run leaves the queue empty -/
theorem C22_streak_empty_after_run (s : S1) (c : Ctl) (hi : Inv s) (hr : s.log.rule = .streak)
    (hc : ctlOk s.status c = true) (hrun : isRun s.status c = true)
    (tag : String) (sid : Nat) (rest : Dict Nat) (q : String) (qs : List String) (dq : Bool) (items : List Elem)
    (hl : s.log.loggees = (tag, sid) :: rest) (hfl : dget s.log.fields tag = some (q :: qs))
    (hq : dget (s.world.shares sid).data q = some (.list dq items)) :
    pending (s.step (.ctl c)).1.world sid q = [] :=
  (streak_step s (.ctl c) hi hr (by intro c' h; cases h; exact hc) tag sid rest q qs dq items hl hfl hq rfl).2.2.2
    c rfl hrun

/-- **streak on a mapping-valued queue** (`dict` / `odict` in the named field): a run logs one
record per `(key, value)` item — the 2-tuple as ONE value — in insertion order and leaves the
mapping empty. -/
theorem C22_streak_mapping_once (s : S1) (c : Ctl) (hi : Inv s) (hr : s.log.rule = .streak)
    (hc : ctlOk s.status c = true) (hrun : isRun s.status c = true)
    (tag : String) (sid : Nat) (rest : Dict Nat) (q : String) (qs : List String) (o : Bool) (d : Dict Atom)
    (hl : s.log.loggees = (tag, sid) :: rest) (hfl : dget s.log.fields tag = some (q :: qs))
    (hq : dget (s.world.shares sid).data q = some (.dict o d)) :
    (s.step (.ctl c)).1.recs.map (·.cells) =
      s.recs.map (·.cells) ++ d.map (fun kv => [some (.tuple [.str kv.1, kv.2])]) ∧
    dget ((s.step (.ctl c)).1.world.shares sid).data q = some (.dict o []) := by
  have := streak_dict_run s c hi hr hc hrun tag sid rest q qs o d hl hfl hq
  refine ⟨?_, this.2⟩
  rw [this.1]
  simp [dictItems, List.map_map, Function.comp, Elem.toVal]

/-- `share[q][k] = a` with a new key queues the item `(k, a)` behind the waiting ones -/
theorem C22_mapping_setitem_queues (d : Dict Atom) (k : String) (a : Atom) (hk : k ∉ dkeys d) :
    dictItems (dset d k a) = dictItems d ++ [.tuple [.str k, a]] := by
  induction d with
  | nil => rfl
  | cons kv r ih =>
    obtain ⟨k', v'⟩ := kv
    simp only [dkeys, List.map_cons, List.mem_cons, not_or] at hk
    have hne : ¬ k' = k := fun e => hk.1 e.symm
    simp only [dset, hne, if_false, dictItems, List.map_cons, List.cons_append]
    congr 1
    exact ih hk.2

/-- **the logger never rebinds a queue**: a control (a logger run: drain with `pop()` / `popitem()` /
`pull()` in place) leaves every reference a producer holds exactly as it was — a live reference
still names the field's own value, which the run has emptied
(`C22_streak_empty_after_run`, `C22_streak_mapping_once`, `C22_deck_empty_after_run`). -/
theorem C22_run_keeps_held_objects (s : S1) (c : Ctl) (hi : Inv s) (hc : ctlOk s.status c = true) :
    (s.step (.ctl c)).1.world.held = s.world.held :=
  ctl_held s c hi hc

/-- **a mapping-valued queue over a whole history** (a streak log whose field list names field `q`
holding a `dict` / `odict`; histories that do not rebind the field): the records written are exactly
those of the reference queue `mapQueue` — an item assignment `share[q][k] = a`, through the share or
through a live reference to the mapping, queues `(k, a)` behind the waiting items (new key) or
replaces the value of the waiting item (`C22_mapping_setitem_queues`); every logger run logs each
waiting item once, in insertion order, and leaves none — and the field holds what still waits. -/
theorem C22_streak_mapping_history (s : S1) (h : List Op) (hf : Fresh s) (hr : s.log.rule = .streak)
    (hp : proto .stopped h = true) (tag : String) (sid : Nat) (rest : Dict Nat) (q : String)
    (qs : List String) (o : Bool) (d : Dict Atom) (hl : s.log.loggees = (tag, sid) :: rest)
    (hfl : dget s.log.fields tag = some (q :: qs))
    (hq : dget (s.world.shares sid).data q = some (.dict o d))
    (hno : noOverwrite sid q h = true) :
    (s.exec h).recs.map (·.cells) =
      s.recs.map (·.cells) ++ (mapQueue s sid q d h).1.map (fun e => [some e.toVal]) ∧
    dget ((s.exec h).world.shares sid).data q = some (.dict o (mapQueue s sid q d h).2) :=
  mapping_exec s h hf.inv hr (by rw [hf.status]; exact hp) tag sid rest q qs o d hl hfl hq hno

/-- **held references stay live**: over any history that follows the runner protocol and in which
the producer does not rebind field `q` of share `sid` (no `write` / `poke` of it), every reference a
producer holds to that field's container — taken before or during the history — still names the
field's own value at the end: no logger run, of whatever rule, ever binds the field to another
object (so what is appended through the reference is seen by the next run, `C22_streak_fifo_once`). -/
theorem C22_held_refs_stay_live (s : S1) (h : List Op) (hf : Fresh s) (hp : proto .stopped h = true)
    (sid : Nat) (q : String) (hno : noOverwrite sid q h = true) (hl : refsLive s.world sid q) :
    refsLive (s.exec h).world sid q :=
  refsLive_exec s h hf.inv (by rw [hf.status]; exact hp) sid q hno hl

def qLog (r : Rule) : Log :=
  { rule := r, base := "q", loggees := [("x", 3)], fields := [("x", ["q"])] }
def qS (r : Rule) : S1 :=
  { world := ({ stamp := some 0 } : World).apply (.poke 3 "q" (.list false [.atom (.int 7)])), log := qLog r }
def qH : List Op :=
  [.w (.append 3 "q" (.tuple [.int 1, .str "x"])), .w (.push 3 (.map [("q", .tuple [.int 5, .none])])),
   .w (.push 3 (.other (.atom .none))), .w (.push 3 (.other (.tuple []))), .ctl .start,
   .w (.append 3 "q" (.tuple [])), .w (.append 3 "q" (.tuple [.int 2])),
   .w (.push 3 (.map [("p", .atom (.int 6))])), .w (.advance 1), .ctl .run,
   .w (.append 3 "q" (.list [.int 3, .int 3])), .ctl .stop, .w (.append 3 "q" (.atom (.int 4)))]
example : Fresh (qS .streak) ∧ proto .stopped qH = true ∧ noOverwrite 3 "q" qH = true := by
  exact ⟨⟨rfl, rfl, rfl, rfl, rfl, rfl⟩, by decide, by decide⟩
/-- tuples of length 2, 0 and 1 and a nested list are each logged once, as one value -/
example : ((qS .streak).exec qH).recs.map (·.cells) =
    [[some (.atom (.int 7))], [some (.tuple [.int 1, .str "x"])], [some (.tuple [])], [some (.tuple [.int 2])],
     [some (.list false [.atom (.int 3), .atom (.int 3)])]] ∧
    pending ((qS .streak).exec qH).world 3 "q" = [.atom (.int 4)] := by decide
/-- a tuple-valued deck field is one value (fix D54) -/
example : ((qS .deck).exec qH).recs.map (·.cells) = [[some (.tuple [.int 5, .none])], [none]] := by decide

/-- a `deque`-valued queue behaves as the list: FIFO, each element once, emptied in place (it stays a deque) -/
def dqS : S1 :=
  { world := ({ stamp := some 0 } : World).apply (.poke 3 "q" (.list true [.atom (.int 7), .tuple [.int 8]])),
    log := qLog .streak }
example : (dqS.exec qH).recs.map (·.cells) =
    [[some (.atom (.int 7))], [some (.tuple [.int 8])], [some (.tuple [.int 1, .str "x"])], [some (.tuple [])],
     [some (.tuple [.int 2])], [some (.list false [.atom (.int 3), .atom (.int 3)])]] ∧
    dget ((dqS.exec qH).world.shares 3).data "q" = some (.list true [.atom (.int 4)]) := by decide

/-- a mapping-valued queue: the items come out as `(key, value)` tuples, in insertion order -/
def mS : S1 :=
  { world := ({ stamp := some 0 } : World).apply
      (.poke 3 "q" (.dict true [("b", .int 1), ("a", .none)])), log := qLog .streak }
def mH : List Op :=
  [.ctl .start, .w (.setitem 3 "q" "c" (.str "x")), .w (.setitem 3 "q" "a" (.int 9)), .w (.advance 1), .ctl .run,
   .ctl .stop]
example : (mS.exec mH).recs.map (·.cells) =
    [[some (.tuple [.str "b", .int 1])], [some (.tuple [.str "a", .none])],
     [some (.tuple [.str "c", .str "x"])], [some (.tuple [.str "a", .int 9])]] ∧
    dget ((mS.exec mH).world.shares 3).data "q" = some (.dict true []) := by decide

/-- a producer that took the queue list once (`hold`) and keeps appending through it, next to one
that goes through the share; after rebinding the field (`poke`) the old reference is stale and what
goes through it is lost to the logger (the producer's own doing), a fresh reference works again -/
def hH : List Op :=
  [.w (.hold 3 "q"), .ctl .start, .w (.happend 0 (.atom (.int 1))), .w (.append 3 "q" (.atom (.int 2))),
   .w (.advance 1), .ctl .run, .w (.happend 0 (.tuple [.int 3])), .w (.advance 1), .ctl .run,
   .ctl .stop]
example : ((qS .streak).exec hH).recs.map (·.cells) =
    [[some (.atom (.int 7))], [some (.atom (.int 1))], [some (.atom (.int 2))], [some (.tuple [.int 3])]] ∧
    ((qS .streak).exec hH).world.held = [{ sid := 3, f := "q" }] ∧
    pending ((qS .streak).exec hH).world 3 "q" = [] := by decide
example : queued (qS .streak) 3 "q" hH = [.atom (.int 1), .atom (.int 2), .tuple [.int 3]] := by decide
example : (((qS .streak).exec
    [.w (.hold 3 "q"), .ctl .start, .w (.poke 3 "q" (.list false [])), .w (.happend 0 (.atom (.int 1))),
     .w (.hold 3 "q"), .w (.happend 1 (.atom (.int 2))), .ctl .run]).recs.map (·.cells)) =
    [[some (.atom (.int 7))], [some (.atom (.int 2))]] := by decide

/-- the reference mapping queue on a history with assignments through the share and through a held
reference, a replaced waiting item (`a`) and a key queued again after it was logged (`b`) -/
def mH2 : List Op :=
  [.w (.hold 3 "q"), .ctl .start, .w (.setitem 3 "q" "c" (.str "x")), .w (.hsetitem 0 "a" (.int 9)),
   .w (.hsetitem 0 "c" (.int 0)), .w (.advance 1), .ctl .run, .w (.hsetitem 0 "b" (.int 2)), .ctl .stop,
   .w (.setitem 3 "q" "z" .none)]
example : Fresh mS ∧ proto .stopped mH2 = true ∧ noOverwrite 3 "q" mH2 = true ∧ refsLive mS.world 3 "q" :=
  ⟨⟨rfl, rfl, rfl, rfl, rfl, rfl⟩, by decide, by decide, by intro h hm; cases hm⟩
example : mapQueue mS 3 "q" [("b", .int 1), ("a", .none)] mH2 =
    ([.tuple [.str "b", .int 1], .tuple [.str "a", .none], .tuple [.str "c", .int 0], .tuple [.str "a", .int 9],
      .tuple [.str "b", .int 2]], [("z", .none)]) := by decide
example : (mS.exec mH2).recs.map (·.cells) =
    [[some (.tuple [.str "b", .int 1])], [some (.tuple [.str "a", .none])], [some (.tuple [.str "c", .int 0])],
     [some (.tuple [.str "a", .int 9])], [some (.tuple [.str "b", .int 2])]] := by decide

/-! ## one header per new file -/

/-- **a new file starts with exactly one header**: if the file did not exist — or existed but was
still empty (fix D53) — then after any history it is still empty / absent (never started), or it is
one header line followed by record lines only — whatever the rule, restarts included. -/
theorem C22_one_header_per_new_file (s : S1) (h : List Op) (hf : Fresh s) (hd : fileLines s.log.disk = [])
    (hp : proto .stopped h = true) :
    fileLines (s.exec h).log.disk = [] ∨
    ∃ cols, fileLines (s.exec h).log.disk =
      .header s.log.rule s.log.base cols :: (s.exec h).recs.map Line.record := by
  have hh : HeaderInv s s.log.rule s.log.base :=
    ⟨rfl, rfl, fun _ => ⟨hf.stamp, hf.first, hf.closed⟩, fun c hc hne => by
      rw [hc] at hd; exact absurd hd hne⟩
  have := header_exec s h hf.inv (by rw [hf.status]; exact hp) _ _ hh
  cases hdk : (s.exec h).log.disk with
  | none => exact Or.inl rfl
  | some c =>
    by_cases hne : c = []
    · exact Or.inl (by rw [hne]; rfl)
    · obtain ⟨cols, rs, hc⟩ := this.present c hdk hne
      refine Or.inr ⟨cols, ?_⟩
      simp only [S1.recs, hdk, fileLines_some, hc, recsOf, recsOf_records]

/-- a file that was there before with something in it is only appended to, with records (no second header) -/
theorem C22_existing_file_no_header (s : S1) (h : List Op) (hf : Fresh s) (old : List Line) (hne : old ≠ [])
    (hd : s.log.disk = some old) (hp : proto .stopped h = true) :
    ∃ rs : List Rec, (s.exec h).log.disk = some (old ++ rs.map Line.record) :=
  old_exec s h hf.inv (by rw [hf.status]; exact hp) old hne ⟨[], by simp [hd]⟩

example : fileLines ((exS .always).exec exH).log.disk =
    .header .always "t" ["x"] :: ((exS .always).exec exH).recs.map Line.record := by decide
example : ((exS .never).exec [.ctl .start, .ctl .stop, .ctl .start, .ctl .stop]).log.disk =
    some [.header .never "t" ["x"]] := by decide

end Ioflo.LogRules
