import IofloModel.Lemmas.LogRules
/-!
# C22 — each log rule records exactly the runs and updates it promises

Model: `Model/LogRules.lean` (transcription of `ioflo/base/logging.py`: the `Log` rule actions,
`prepare`, `reopen`, and the START / RUN / STOP / READY / ABORT branches of `Logger.makeRunner`,
with the fix patches D51 and D52 applied).  `S1` is a logger with one log; `Sys` (what the driver
runs) is a logger with any number of logs.

Standing hypotheses of the history theorems (all decidable on a concrete history):
* `Fresh s`    — a well-formed log (`cfgOk`) in a logger that has not been started;
* `proto`      — RUN is sent only to a started / running logger, STOP only to a started / running /
                 stopped one (what the `Skedder` does);
* `timed`      — the store stamp is a number and never decreases (needed by `once`, `update`, `change`,
                 whose code tests `self.stamp is None` / compares stamps).
Property theorems only; helper lemmas are in `Lemmas/LogRules.lean`.
-/
namespace Ioflo.LogRules

/-- The multi-log model the driver runs, restricted to one log, is `S1`. -/
theorem C22_single_log_refines (s : S1) (h : List Op) : s.toSys.exec h = (s.exec h).toSys :=
  toSys_exec s h

/-! ## never, always, once -/

/-- **never writes nothing**: whatever the state of the logger and whatever the history
(no hypothesis at all), a `never` log's file gets no record. -/
theorem C22_never_nothing (s : S1) (h : List Op) (hr : s.log.rule = .never) :
    (s.exec h).recs = s.recs :=
  never_exec s h hr

/-- **always: one record per logger run.** -/
theorem C22_always_one_per_run (s : S1) (h : List Op) (hf : Fresh s) (hr : s.log.rule = .always)
    (hp : proto .stopped h = true) :
    (s.exec h).recs.length = s.recs.length + nRuns .stopped h := by
  have := always_exec s h hf.inv hr (by rw [hf.status]; exact hp)
  rw [hf.status] at this
  exact this

/-- … and the record written by a run is stamped with the store stamp and shows the current
values of the logged fields (`actLog` = the log as START has just prepared it, or the log itself). -/
theorem C22_always_record_is_current (s : S1) (c : Ctl) (hi : Inv s) (hr : s.log.rule = .always)
    (hc : ctlOk s.status c = true) (hrun : isRun s.status c = true) :
    (s.send c).1.recs = s.recs ++ [⟨s.world.stamp, (recCells s.world (actLog s c).formats s.log.loggees).1⟩] := by
  rw [always_step s c hi hr hc]
  simp only [hrun, if_true, curRec, (actLog_facts s c hi hc hrun).2.2.2.2.2.2]

/-- **once: exactly one record** as soon as the logger has run (numeric store stamp), none before. -/
theorem C22_once_exactly_one (s : S1) (h : List Op) (hf : Fresh s) (hr : s.log.rule = .once)
    (hp : proto .stopped h = true) (ht : timed s.world.stamp h = true) :
    (s.exec h).recs.length = s.recs.length + (if 0 < nRuns .stopped h then 1 else 0) := by
  have := once_exec s h hf.inv hr (by rw [hf.status]; exact hp) ht
  rw [hf.status] at this
  simpa [hf.stamp] using this

/-! non-vacuity: a fresh `always` log on share 0 and a protocol-respecting history with three runs -/

def exLog (r : Rule) : Log :=
  { rule := r, base := "t", loggees := [("x", 0)], fields := [("x", [])] }
def exS (r : Rule) : S1 := { world := { stamp := some 0 }, log := exLog r }
def exH : List Op :=
  [.w (.poke 0 "value" (.atom (.int 0))), .ctl .start, .w (.advance 1),
   .w (.write 0 "value" (.atom (.int 1))), .ctl .run, .ctl .stop]

example : Fresh (exS .always) := ⟨rfl, rfl, rfl, rfl, rfl, rfl⟩
example : proto .stopped exH = true ∧ timed (exS .always).world.stamp exH = true ∧ nRuns .stopped exH = 3 := by
  decide
example : ((exS .always).exec exH).recs =
    [⟨some 0, [some (.atom (.int 0))]⟩, ⟨some 1, [some (.atom (.int 1))]⟩, ⟨some 1, [some (.atom (.int 1))]⟩] := by
  decide
example : ((exS .once).exec exH).recs = [⟨some 0, [some (.atom (.int 0))]⟩] := by decide
example : ((exS .never).exec exH).recs = [] := by decide

end Ioflo.LogRules
