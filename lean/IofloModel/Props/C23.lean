import IofloModel.Lemmas.Rotate
/-!
# C23 — log rotation and flushing never lose or duplicate retained records

Model: `Model/Rotate.lean` — `Log.reopen / close / flush / cycle`, `Logger.log` with its flush and
cycle timers, the runner's START / RUN / STOP, for one `always` log.  A history yields the ordered
trace of file-system primitives the code performs; **every prefix of the trace is a crash point**.

All theorems are about `s := (St.init cfg).exec h` for *every* configuration `cfg` (keep, cycle
period, size threshold, flush period, reuse), every history `h` that respects the runner protocol
(`proto`) from an empty directory, and **every** crash point `n` (`tr := s.trace.take n`):
`files n` are the files and the buffer after the first `n` primitives, `acctOf tr` says which
records the code had written / flushed / written since the last rotation by then.
Property theorems only; the invariant and the per-primitive lemmas are in `Lemmas/Rotate.lean`.
-/
namespace Ioflo.Rotate

/-- files and buffer after the first `n` primitives of the run -/
def filesAt (cfg : Cfg) (h : List Op) (n : Nat) : FS :=
  ({} : FS).applyAll (((St.init cfg).exec h).trace.take n)

/-- the record accounts after the first `n` primitives -/
def acctAt (cfg : Cfg) (h : List Op) (n : Nat) : Acct := acctOf (((St.init cfg).exec h).trace.take n)

/-- `St.crashAt` is `filesAt` without the buffer -/
theorem C23_crashAt_eq (cfg : Cfg) (h : List Op) (hp : proto .stopped h = true) (n : Nat) :
    ((St.init cfg).exec h).crashAt n = (filesAt cfg h n).crash := by
  have := (exec_spec (St.init cfg) h (init_inv cfg) hp).2.2
  simp only [St.crashAt, filesAt, this]
  rfl

/-- **contiguous, in order, at most once.**  At every crash point the retained files read oldest
to newest (headers dropped), followed by the buffer, are the record stream minus a prefix `k`
(what fell off the oldest copy). -/
theorem C23_rotation_contiguous (cfg : Cfg) (h : List Op) (hp : proto .stopped h = true) (n : Nat) :
    ∃ k, recsOf ((filesAt cfg h n).view cfg.keep) ++ recsOf (filesAt cfg h n).buf =
      (acctAt cfg h n).written.drop k := by
  obtain ⟨k, _, hk⟩ := (crash_points cfg h hp n).contig
  exact ⟨k, hk⟩

/-- **a kill loses only what was not flushed.**  Whatever the crash point, the files the dead
process leaves hold — contiguously, in order — every record written before the most recent flush,
minus the prefix that rotation had already dropped (`k`, which never reaches into unflushed records). -/
theorem C23_crash_keeps_flushed (cfg : Cfg) (h : List Op) (hp : proto .stopped h = true) (n : Nat) :
    ∃ k, k ≤ (acctAt cfg h n).flushed.length ∧
      recsOf ((((St.init cfg).exec h).crashAt n).view cfg.keep) = (acctAt cfg h n).flushed.drop k := by
  have hP := crash_points cfg h hp n
  obtain ⟨k, hk, hc⟩ := hP.contig
  refine ⟨k, hk, ?_⟩
  rw [C23_crashAt_eq cfg h hp n]
  have hb := hP.buf
  have hv : (filesAt cfg h n).crash.view cfg.keep = (filesAt cfg h n).view cfg.keep := rfl
  rw [hv]
  have hc' : recsOf ((filesAt cfg h n).view cfg.keep) ++ recsOf (filesAt cfg h n).buf =
      (acctAt cfg h n).written.drop k := hc
  have hb' : recsOf (filesAt cfg h n).buf = (acctAt cfg h n).pend := hb
  have hk' : k ≤ (acctAt cfg h n).flushed.length := hk
  have hw : (acctAt cfg h n).written.drop k = (acctAt cfg h n).flushed.drop k ++ (acctAt cfg h n).pend := by
    show ((acctAt cfg h n).flushed ++ (acctAt cfg h n).pend).drop k = _
    exact List.drop_append_of_le_length hk'
  rw [hb', hw] at hc'
  exact List.append_cancel_right hc'

/-- **each file starts with the header**: after a kill at any point every retained file is empty
(a rotate copy not yet used) or one header followed by records only. -/
theorem C23_each_file_header (cfg : Cfg) (h : List Op) (hp : proto .stopped h = true) (n j : Nat) :
    Shape (content ((((St.init cfg).exec h).crashAt n).slots j)) := by
  have hP := crash_points cfg h hp n
  rw [C23_crashAt_eq cfg h hp n]
  show Shape (content ((filesAt cfg h n).slots j))
  cases j with
  | zero => exact Shape_prefix _ _ hP.shape0
  | succ j => exact hP.shapes (j + 1) (by omega)

/-- **the newest file holds every record since the last rotation** (with what is still buffered). -/
theorem C23_newest_since_rotation (cfg : Cfg) (h : List Op) (hp : proto .stopped h = true) (n : Nat) :
    recsOf (content ((filesAt cfg h n).slots 0)) ++ recsOf (filesAt cfg h n).buf = (acctAt cfg h n).since :=
  (crash_points cfg h hp n).newest

/-- **rotated only at the size threshold**: whenever the main file is renamed away, `fileSize` is
`0` (always rotate) or the file has at least that many bytes. -/
theorem C23_rotate_only_at_size (cfg : Cfg) (h : List Op) (hp : proto .stopped h = true) (n : Nat)
    (hr : ((St.init cfg).exec h).trace[n]? = some (.rename 0))
    (he : ((filesAt cfg h n).slots 0).isSome = true) :
    cfg.fileSize = 0 ∨ cfg.fileSize ≤ bytes cfg (content ((filesAt cfg h n).slots 0)) :=
  rotation_points cfg h hp n _ hr rfl he

/-- **each record at most once**: the records written up to any crash point carry the numbers
`0, 1, 2, …` in order, so the suffix of `C23_rotation_contiguous` is a run of consecutive, distinct
record numbers. -/
theorem C23_records_numbered (cfg : Cfg) (h : List Op) (n : Nat) :
    (acctAt cfg h n).written.map (·.n) = List.range (acctAt cfg h n).written.length := by
  have hnum : Numbered ((St.init cfg).exec h) := exec_numbered _ h rfl
  obtain ⟨rest, hr⟩ := recW_take_prefix ((St.init cfg).exec h).trace n
  unfold Numbered at hnum
  rw [hr, List.map_append] at hnum
  have hw : (acctAt cfg h n).written = recW (((St.init cfg).exec h).trace.take n) := written_acctOf _
  rw [hw]
  -- a prefix of `range m` is `range` of its length
  have key : ∀ (l r : List Nat) (m : Nat), l ++ r = List.range m → l = List.range l.length := by
    intro l r m hlr
    have h1 : l = (List.range m).take l.length := by rw [← hlr]; simp
    have hlen : l.length ≤ m := by
      have := congrArg List.length hlr; simp at this; omega
    rw [List.take_range, Nat.min_eq_left hlen] at h1
    exact h1
  have := key _ _ _ hnum
  simpa using this

/-! non-vacuity: keep 2, rotate every second whatever the size, flush every second -/

def exCfg : Cfg := Cfg.ofArgs 2 8 0 8 true 20
def exH : List Op :=
  [.ctl .start, .advance 8, .ctl .run, .advance 4, .ctl .run, .advance 4, .ctl .run, .advance 8, .ctl .run, .ctl .stop]

example : proto .stopped exH = true := by decide
example : ((St.init exCfg).exec exH).trace.length = 55 := by decide
/-- killed in the middle of the third rotation (after `rename 1`, before `rename 0`): copy 1 is
missing, records 0 and 1 fell off the oldest copy, everything flushed since is there -/
example : recsOf ((((St.init exCfg).exec exH).crashAt 36).view 2) = [⟨2, 8⟩, ⟨3, 8⟩, ⟨4, 8⟩] ∧
    (((St.init exCfg).exec exH).crashAt 36).slots 1 = none ∧
    (acctAt exCfg exH 36).flushed = [⟨0, 8⟩, ⟨1, 8⟩, ⟨2, 8⟩, ⟨3, 8⟩, ⟨4, 8⟩] := by decide
/-- at the end (STOP rotated once more because `keep` and `reuse`) -/
example : recsOf (((St.init exCfg).exec exH).fs.view 2) = [⟨4, 8⟩, ⟨5, 8⟩] := by decide
/-- a rotation did happen in this run -/
example : ((St.init exCfg).exec exH).trace[11]? = some (.rename 0) := by decide

end Ioflo.Rotate
