import IofloModel.Lemmas.Rotate
import IofloModel.Lemmas.RotateMulti
/-!
# C23 — log rotation and flushing never lose or duplicate retained records

Model: `Model/Rotate.lean` — `Log.reopen / close / flush / cycle`, `Logger.log` with its flush and
cycle timers, the runner's START / RUN / STOP, for one log of any rule (a run writes a batch of
records in one `file.write`, or nothing), over **several process lives** on the same directory
(`reboot`: the process is killed or exits, a new one builds fresh `Logger` / `Log` objects; with
`reuse` on the surviving files, without it in a new directory).  A history yields the ordered
trace of file-system primitives the code performs; **every prefix of the trace is a crash point**.

All theorems are about `s := (St.init cfg).exec h` for *every* configuration `cfg` (keep, cycle
period, size threshold, flush period, reuse), every history `h` that respects the runner protocol
(`proto`) from an empty directory, and **every** crash point `n`: `filesAt … n` are the files and
the buffer after the first `n` primitives, `acctAt … n` says which records the code had written /
flushed / written since the last rotation by then (records lost with a killed process leave the
accounts).  `cfg.emptyIsNew = true` selects the code with fix patch D53 (`Cfg.ofArgs` sets it).
Property theorems only; the invariant and the per-primitive lemmas are in
`Lemmas/Rotate.lean`.
-/
namespace Ioflo.Rotate

/-- files and buffer after the first `n` primitives of the run -/
def filesAt (cfg : Cfg) (h : List Op) (n : Nat) : FS :=
  ({} : FS).applyAll (((St.init cfg).exec h).trace.take n)

/-- the record accounts after the first `n` primitives -/
def acctAt (cfg : Cfg) (h : List Op) (n : Nat) : Acct := acctOf (((St.init cfg).exec h).trace.take n)

/-- `St.crashAt` is `filesAt` without the buffer -/
theorem C23_crashAt_eq (cfg : Cfg) (hfix : cfg.emptyIsNew = true) (h : List Op) (hp : proto .stopped h = true)
    (n : Nat) : ((St.init cfg).exec h).crashAt n = (filesAt cfg h n).crash := by
  have := (exec_spec (b := true) (St.init cfg) h rfl (init_inv cfg hfix) hp).2.2
  simp only [St.crashAt, filesAt, this]
  rfl

/-- **contiguous, in order, at most once.**  At every crash point of every life the retained files
read oldest to newest (headers dropped), followed by the buffer, are the surviving record stream
minus a prefix `k` (what fell off the oldest copy). -/
theorem C23_rotation_contiguous (cfg : Cfg) (hfix : cfg.emptyIsNew = true) (h : List Op)
    (hp : proto .stopped h = true) (n : Nat) :
    ∃ k, recsOf ((filesAt cfg h n).view cfg.keep) ++ recsOf (filesAt cfg h n).buf =
      (acctAt cfg h n).written.drop k := by
  obtain ⟨k, _, hk⟩ := (crash_points cfg hfix h hp n).contig
  exact ⟨k, hk⟩

/-- **a kill loses only what was not flushed.**  Whatever the crash point, the files the dead
process leaves hold — contiguously, in order — every record written before the most recent flush,
minus the prefix that rotation had already dropped (`k`, which never reaches into unflushed records). -/
theorem C23_crash_keeps_flushed (cfg : Cfg) (hfix : cfg.emptyIsNew = true) (h : List Op)
    (hp : proto .stopped h = true) (n : Nat) :
    ∃ k, k ≤ (acctAt cfg h n).flushed.length ∧
      recsOf ((((St.init cfg).exec h).crashAt n).view cfg.keep) = (acctAt cfg h n).flushed.drop k := by
  have hP := crash_points cfg hfix h hp n
  obtain ⟨k, hk, hc⟩ := hP.contig
  refine ⟨k, hk, ?_⟩
  rw [C23_crashAt_eq cfg hfix h hp n]
  have hb := hP.buf
  have hv : (filesAt cfg h n).crash.view cfg.keep = (filesAt cfg h n).view cfg.keep := rfl
  rw [hv]
  have hc' : recsOf ((filesAt cfg h n).view cfg.keep) ++ recsOf (filesAt cfg h n).buf =
      (acctAt cfg h n).written.drop k := hc
  have hb' : recsOf (filesAt cfg h n).buf = (acctAt cfg h n).pend := hb
  have hk' : k ≤ (acctAt cfg h n).flushed.length := hk
  have hw : (acctAt cfg h n).written.drop k = (acctAt cfg h n).flushed.drop k ++ (acctAt cfg h n).pend := by
    show ((acctAt cfg h n).flushed ++ (acctAt cfg h n).pend).drop k = _
    exact List.drop_append_of_le_length hk'
  rw [hb', hw] at hc'
  exact List.append_cancel_right hc'

/-- **the newest file holds every record since the last rotation** (with what is still buffered). -/
theorem C23_newest_since_rotation (cfg : Cfg) (hfix : cfg.emptyIsNew = true) (h : List Op)
    (hp : proto .stopped h = true) (n : Nat) :
    recsOf (content ((filesAt cfg h n).slots 0)) ++ recsOf (filesAt cfg h n).buf = (acctAt cfg h n).since :=
  (crash_points cfg hfix h hp n).newest

/-- **rotated only at the size threshold**: whenever the main file is renamed away, `fileSize` is
`0` (always rotate) or the file has at least that many bytes. -/
theorem C23_rotate_only_at_size (cfg : Cfg) (hfix : cfg.emptyIsNew = true) (h : List Op)
    (hp : proto .stopped h = true) (n : Nat)
    (hr : ((St.init cfg).exec h).trace[n]? = some (.rename 0))
    (he : ((filesAt cfg h n).slots 0).isSome = true) :
    cfg.fileSize = 0 ∨ cfg.fileSize ≤ bytes cfg (content ((filesAt cfg h n).slots 0)) :=
  rotation_points cfg hfix h hp n _ hr rfl he

/-- **each record at most once**: the records in the accounts at any crash point are, in order,
among the records written, and those carry the numbers `0, 1, 2, …`; so the suffix of
`C23_rotation_contiguous` is strictly increasing in record number (records lost with a killed
process leave gaps, nothing is repeated). -/
theorem C23_records_numbered (cfg : Cfg) (h : List Op) (n : Nat) :
    ((acctAt cfg h n).written.map (·.n)).Sublist (List.range ((St.init cfg).exec h).seq) := by
  have hnum : Numbered ((St.init cfg).exec h) := exec_numbered _ h rfl
  obtain ⟨rest, hr⟩ := recW_take_prefix ((St.init cfg).exec h).trace n
  unfold Numbered at hnum
  rw [← hnum, hr, List.map_append]
  exact ((written_acctOf _).map _).trans (List.sublist_append_left _ _)

/-! ## headers -/

/-- **each file starts with the header** (full, across process lives, on the code with fix D53):
after a kill at any point every retained file is empty (a rotate copy not yet used, or a main file
whose header is still in the buffer) or one header followed by records only. -/
theorem C23_each_file_header (cfg : Cfg) (hfix : cfg.emptyIsNew = true) (h : List Op)
    (hp : proto .stopped h = true) (n j : Nat) :
    Shape (content ((((St.init cfg).exec h).crashAt n).slots j)) := by
  have hP := crash_points cfg hfix h hp n
  rw [C23_crashAt_eq cfg hfix h hp n]
  show Shape (content ((filesAt cfg h n).slots j))
  cases j with
  | zero => exact Shape_prefix _ _ (hP.shape0 rfl)
  | succ j => exact hP.shapes rfl (j + 1) (by omega)

/-- D53 witness: life 1 is killed right after START (file created, header still in the buffer);
life 2 starts, logs, stops. -/
def d53Cfg : Cfg := Cfg.ofArgs 0 0 0 8 true 20
def d53H : List Op := [.ctl .start, .reboot, .ctl .start, .ctl .stop]

/-- **the code before fix D53** (`emptyIsNew := false`: `Log.reopen` cleared `.first` for any existing
file): life 2 finds the empty file, writes no header, and leaves a file that starts with a record. -/
theorem C23_D53_orig_headerless_after_empty_kill :
    content ((((St.init { d53Cfg with emptyIsNew := false }).exec d53H).crashAt 9).slots 0) =
      [.rec_ ⟨1, 8⟩, .rec_ ⟨2, 8⟩] ∧
    emptyKill (St.init { d53Cfg with emptyIsNew := false }) d53H = true := by decide

/-- … and with the fix the same history gives the header first -/
example : content ((((St.init d53Cfg).exec d53H).crashAt 10).slots 0) =
    [.header, .rec_ ⟨1, 8⟩, .rec_ ⟨2, 8⟩] := by decide

/-! non-vacuity: keep 2, rotate every second whatever the size, flush every second; three lives -/

def exCfg : Cfg := Cfg.ofArgs 2 8 0 8 true 20
def exH : List Op :=
  [.ctl .start, .advance 8, .ctl .run, .advance 4, .batch (some [9, 9]), .ctl .run,
   .advance 8, .batch none, .ctl .run, .ctl .stop,
   .reboot, .batch (some [7]), .ctl .start, .advance 2, .ctl .run, .reboot, .ctl .start, .ctl .stop]

set_option maxRecDepth 8000 in
example : proto .stopped exH = true ∧ exCfg.emptyIsNew = true := by decide
set_option maxRecDepth 8000 in
/-- the second life was killed with records 4 and 5 still in the buffer: they are gone for good,
the third life continues with records 6 and 7; the STOP rotations dropped everything older -/
example : recsOf (((St.init exCfg).exec exH).fs.view 2) = [⟨6, 7⟩, ⟨7, 7⟩] ∧
    ((St.init exCfg).exec exH).seq = 8 := by decide
set_option maxRecDepth 8000 in
/-- a rotation did happen in this run -/
example : ((St.init exCfg).exec exH).trace[11]? = some (.rename 0) := by decide

/-! ## a process killed in the middle of a control

`Op.die c k`: the process performs the first `k` primitives of control `c` and is killed (between
the renames of a rotation, between `create` and the header write, between the header write and the
flush, between the trial opens of a reopen, …); a new process starts on the files left.  Histories
`h` of all theorems above range over these operations too, so: at every crash point of every later
life nothing flushed is missing from the contiguous retained suffix (`C23_crash_keeps_flushed`), the
files are contiguous (`C23_rotation_contiguous`) and every file is empty or one header followed by
records (`C23_each_file_header`).  The step that makes this work is `cut_spec`
(`Lemmas/Rotate.lean`): `P` holds at every prefix of the control's primitives, and that is all the
next process needs. -/

/-- the state a new process starts from after its predecessor was killed inside a control: the
files are closed, nothing is buffered, the crash-point invariant holds (headers included), the
records are still numbered in the order written, and the runner protocol starts over -/
theorem C23_restart_after_kill_inside_control (cfg : Cfg) (hfix : cfg.emptyIsNew = true) (h : List Op)
    (c : Ctl) (k : Nat) (hp : proto .stopped (h ++ [Op.die c k]) = true) :
    let s := (St.init cfg).exec (h ++ [Op.die c k])
    P cfg.keep true s.fs (acctOf s.trace) ∧ s.fs.isOpen = false ∧ s.fs.buf = [] ∧ s.status = .stopped ∧
    (recW s.trace).map (·.n) = List.range s.seq := by
  intro s
  obtain ⟨i, cc, f⟩ := exec_spec (b := true) (St.init cfg) (h ++ [Op.die c k]) rfl (init_inv cfg hfix) hp
  have hn : Numbered s := exec_numbered (St.init cfg) _ rfl
  have hP := i.si.good.now
  rw [cc] at hP
  have hst : s.status = .stopped := by
    have : ∀ (s0 : St) (l : List Op), (s0.exec (l ++ [Op.die c k])).status = .stopped := by
      intro s0 l
      induction l generalizing s0 with
      | nil => rfl
      | cons op r ih => exact ih _
    exact this _ _
  have hcl : s.fs.isOpen = false := by
    cases ho : s.fs.isOpen with
    | false => rfl
    | true =>
      have := i.running
      by_cases hs : s.status = .stopped
      · have : ∀ (s0 : St) (l : List Op), ((s0.exec (l ++ [Op.die c k])).fs.isOpen) = false := by
          intro s0 l
          induction l generalizing s0 with
          | nil =>
            show ((s0.die c k).fs.isOpen) = false
            simp only [St.die, St.cut, St.reboot, St.emit, FS.applyAll]
            split <;> rfl
          | cons op r ih => exact ih _
        rw [this] at ho; cases ho
      · exact absurd hst hs
  exact ⟨hP, hcl, hP.closed hcl, hst, hn⟩

/-- killed between the renames of a rotation (after `rename 1`, before `rename 0`): the next life
fills the hole with an empty copy and carries on; nothing flushed is lost, every file has its header -/
def dieH : List Op :=
  [.ctl .start, .advance 8, .die .run 6, .batch (some [7]), .ctl .start, .advance 8, .ctl .run, .ctl .stop]
set_option maxRecDepth 8000 in
example : proto .stopped dieH = true := by decide
set_option maxRecDepth 8000 in
example : ((St.init exCfg).exec [.ctl .start, .advance 8, .die .run 6]).trace.drop 5 =
    [.write [.rec_ ⟨1, 8⟩], .sync, .sync, .sync, .closeF, .rename 1, .reboot] := by decide
set_option maxRecDepth 8000 in
example : ((St.init exCfg).exec [.ctl .start, .advance 8, .die .run 6]).fs.slots 1 = none ∧
    recsOf (((St.init exCfg).exec [.ctl .start, .advance 8, .die .run 6]).fs.view 2) = [⟨0, 8⟩, ⟨1, 8⟩] := by decide
set_option maxRecDepth 8000 in
/-- … all five records are still there after the restart, a run and a STOP (records 0, 1 in the copy
that had been moved up before the kill) -/
example : recsOf (((St.init exCfg).exec dieH).fs.view 2) = [⟨0, 8⟩, ⟨1, 8⟩, ⟨2, 7⟩, ⟨3, 7⟩, ⟨4, 7⟩] ∧
    ((St.init exCfg).exec dieH).seq = 5 := by decide
set_option maxRecDepth 8000 in
/-- killed between the header write and the flush of a first START: the header dies in the buffer,
the file exists and is empty, and (fix D53) the next life writes the header again -/
example : ((St.init exCfg).exec [.die .start 4]).fs.slots 0 = some [] ∧
    ((St.init exCfg).exec [.die .start 4, .ctl .start, .ctl .stop]).fs.slots 1 =
      some [.header, .rec_ ⟨0, 8⟩, .rec_ ⟨1, 8⟩] := by
  decide

/-! ## `os.rename` failing inside a rotation

`Op.fault n`: the `n`-th `os.rename` call from now raises `OSError` although its source exists
(`Prim.renameErr`); a missing source raises by itself.  The code (`Log.cycle`) stops the chain at
the first failure (`break`), reopens the main file for append and reports failure.  The history
theorems above are stated for runs without injected faults (`proto` rejects `fault`); what the
unchanged code guarantees when a rename fails is the chain theorem below, for ANY pattern of
existing copies and ANY failing call; whole histories with faults are tied to the code by the
correspondence runs.  Observation (`decide` examples below): after one failed rename the hole it
leaves makes every later chain of the same process fail at once (`rename` of a missing source), so
rotation does not resume until the next process start refills the hole — the main file grows past
`fileSize`; and a chain that fails after it has overwritten the oldest copy has dropped one retained
generation without rotating. Nothing that is retained is ever overwritten in the middle. -/

/-- **a rename chain in which `os.rename` fails**: from a closed, flushed log whose slot `k` is the
hole the chain made (or the oldest copy), whatever copies exist and whichever call raises: every
crash point up to and through the chain satisfies the invariant `P` — the retained files hold a
contiguous suffix of the record stream with only flushed records dropped (only the oldest copy is
ever overwritten), every file is empty or one header followed by records, the newest file holds the
records since the last rotation — the files end closed with nothing buffered, and a chain that
failed has left the main file exactly as it was (the code then reopens it for append: it keeps its
header). -/
theorem C23_failed_rename_keeps_invariant (s : St) (k : Nat) (h : ChainF true s k) :
    (∀ n, P s.cfg.keep true ((s.renames k).1.fs0.applyAll ((s.renames k).1.trace.take n))
        (acctOf ((s.renames k).1.trace.take n))) ∧
    (s.renames k).1.fs.buf = [] ∧ (s.renames k).1.fs.isOpen = false ∧
    ((s.renames k).2 = false → (s.renames k).1.fs.slots 0 = s.fs.slots 0) := by
  obtain ⟨g, r2, r3, r4, _, r6⟩ := renames_fault_spec s k h
  refine ⟨fun n => ?_, r2, r3, r6⟩
  have := AllP_take g.all n
  rw [r4] at this
  exact this

/-- rename 0 (main → 01) fails in the first rotation: nothing is lost, the main file keeps its header
and its records, but the hole at 01 stops every later rotation of this life; the next life rotates again -/
def faultH : List Op :=
  [.ctl .start, .advance 8, .fault 1, .ctl .run, .advance 8, .ctl .run, .advance 8, .ctl .run]
set_option maxRecDepth 8000 in
example : ((St.init exCfg).exec faultH).trace.drop 5 =
    [.write [.rec_ ⟨1, 8⟩], .sync, .sync, .sync, .closeF, .rename 1, .renameErr 0, .openA,
     .write [.rec_ ⟨2, 8⟩], .sync, .sync, .sync, .closeF, .rename 1, .openA,
     .write [.rec_ ⟨3, 8⟩], .sync, .sync, .sync, .closeF, .rename 1, .openA] := by decide
set_option maxRecDepth 8000 in
example : ((St.init exCfg).exec faultH).fs.slots 0 =
      some [.header, .rec_ ⟨0, 8⟩, .rec_ ⟨1, 8⟩, .rec_ ⟨2, 8⟩, .rec_ ⟨3, 8⟩] ∧
    ((St.init exCfg).exec faultH).fs.slots 1 = none ∧ ((St.init exCfg).exec faultH).failAt = none := by decide
set_option maxRecDepth 8000 in
example : recsOf (((St.init exCfg).exec (faultH ++ [.reboot, .ctl .start, .advance 8, .ctl .run])).fs.view 2) =
      [⟨0, 8⟩, ⟨1, 8⟩, ⟨2, 8⟩, ⟨3, 8⟩, ⟨4, 8⟩, ⟨5, 8⟩] ∧
    ((St.init exCfg).exec (faultH ++ [.reboot, .ctl .start, .advance 8, .ctl .run])).fs.slots 0 = some [.header] := by
  decide

/-! ## loggers with several logs

`Logger.reopen / prepare / log / flush / cycle / close` loop over the logs; the flush and cycle
timers are the logger's (`Model/RotateMulti.lean`).  Each log has its own files and its own
primitive trace; a kill at any global point leaves every log at some prefix of its own trace, so
the single-log theorems, applied to every log and every prefix, cover every global crash point. -/

/-- **lockstep**: in a fresh logger with `n` logs, log `i` is after every multi-log history exactly
where the single-log logger is after the history as log `i` sees it (`proj i h`: its own batches). -/
theorem C23_logs_lockstep (cfg : Cfg) (hs : List Nat) (h : List MOp) (i : Nat) (hz : Nat) (hi : hs[i]? = some hz) :
    (MSt.exec (MSt.init cfg hs) h)[i]? = some ((St.init { cfg with hsize := hz }).exec (proj i h)) :=
  lockstep (MSt.init cfg hs) h (init_coherent cfg hs) i _ (by simp [MSt.init, hi])

/-- **a kill loses, for every log, only what that log had not flushed**: for each log `i` of the
logger and each crash point `m` of its trace, the files it leaves hold the records written before
its most recent flush minus the rotated-away prefix. -/
theorem C23_multi_crash_keeps_flushed (cfg : Cfg) (hfix : cfg.emptyIsNew = true) (hs : List Nat) (h : List MOp)
    (hp : mproto .stopped h = true) (i : Nat) (hz : Nat) (hi : hs[i]? = some hz) (m : Nat) :
    ∃ s, (MSt.exec (MSt.init cfg hs) h)[i]? = some s ∧
      ∃ k, k ≤ (acctOf (s.trace.take m)).flushed.length ∧
        recsOf ((s.crashAt m).view cfg.keep) = (acctOf (s.trace.take m)).flushed.drop k := by
  refine ⟨_, C23_logs_lockstep cfg hs h i hz hi, ?_⟩
  exact C23_crash_keeps_flushed { cfg with hsize := hz } hfix (proj i h) (proto_proj i _ h hp) m

/-- … and every log's files are contiguous and start with their header, at every crash point. -/
theorem C23_multi_contiguous_and_headers (cfg : Cfg) (hfix : cfg.emptyIsNew = true) (hs : List Nat) (h : List MOp)
    (hp : mproto .stopped h = true) (i : Nat) (hz : Nat) (hi : hs[i]? = some hz) (m : Nat) :
    ∃ s, (MSt.exec (MSt.init cfg hs) h)[i]? = some s ∧
      (∃ k, recsOf ((({} : FS).applyAll (s.trace.take m)).view cfg.keep) ++
              recsOf (({} : FS).applyAll (s.trace.take m)).buf = (acctOf (s.trace.take m)).written.drop k) ∧
      ∀ j, Shape (content ((s.crashAt m).slots j)) := by
  refine ⟨_, C23_logs_lockstep cfg hs h i hz hi, ?_, ?_⟩
  · exact C23_rotation_contiguous { cfg with hsize := hz } hfix (proj i h) (proto_proj i _ h hp) m
  · exact fun j => C23_each_file_header { cfg with hsize := hz } hfix (proj i h) (proto_proj i _ h hp) m j

/-- two logs, deck and always, one flush tick: both are flushed -/
example : ((MSt.exec (MSt.init (Cfg.ofArgs 0 0 0 8 true 20) [20, 22])
    [.batch 0 (some [5, 5]), .ctl .start, .advance 8, .batch 0 none, .ctl .run]).map
      fun s => recsOf (content (s.fs.crash.slots 0))) =
    [[⟨0, 5⟩, ⟨1, 5⟩], [⟨0, 8⟩, ⟨1, 8⟩]] := by decide

end Ioflo.Rotate
