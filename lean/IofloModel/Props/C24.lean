import IofloModel.Lemmas.TxQueue
/-!
# C24 — stream transports deliver queued bytes exactly once and in order

Property theorems only.  Model: `Model/TxQueue.lean` (transcription of `serviceTxes`,
`send`, `serviceReceives`, `receive` of `Client`, `ClientTls`, `Incomer`, `IncomerTls` and of
the serial `Driver`, with the wire log's `writeTx`/`writeRx`).  All theorems are for every
transport kind, every history of operations and every script of socket answers.

`sent`  = what the socket accepted (recorded by the environment),
`queued` = everything ever handed to `tx`, `txes` = the deque,
`recvd` = what the socket returned, `rxbs` = the receive buffer, `taken` = what `clearRxbs` removed,
`wtx`/`wrx` = the data parts of the wire log's records.
-/
namespace Ioflo.TxQueue

/-- an operation of the history is *benign* for transport kind `k` when the socket answers it
feeds are accept / would-block / (for sockets) connection-loss — i.e. no `send` will raise.
This is the quantifier of the property: "any pattern of partial sends and would-block results". -/
def Op.benign (k : Kind) : Op → Bool
  | .feedTx rs => rs.all (SendRes.benign k)
  | _ => true

/-- transmit-side invariant -/
def TxInv (s : State) : Prop :=
  (∀ r ∈ s.sendScript, SendRes.benign s.kind r = true) ∧ s.sent ++ s.txes.flatten = s.queued

theorem step_kind (s : State) (op : Op) : (step s op).state.kind = s.kind := by
  cases op <;> simp only [step, Res.state]
  · exact (txLoop_frame s s.txes).kind
  · exact (serviceTxOnce_frame s).kind
  · exact (rxLoop_frame s s.recvScript).kind
  · exact (serviceReceiveOnce_frame s).kind

theorem step_txinv (s : State) (op : Op) (h : TxInv s) (hop : op.benign s.kind = true) :
    TxInv (step s op).state := by
  obtain ⟨hb, hc⟩ := h
  cases op with
  | tx d =>
    refine ⟨hb, ?_⟩
    simp only [step, Res.state, List.flatten_append, List.flatten_cons, List.flatten_nil,
      List.append_nil, ← List.append_assoc, hc]
  | feedTx rs =>
    refine ⟨?_, hc⟩
    intro r hr
    simp only [step, Res.state, List.mem_append] at hr
    rcases hr with hr | hr
    · exact hb r hr
    · exact (List.all_eq_true.mp hop) r hr
  | feedRx rs => exact ⟨hb, hc⟩
  | serviceTxes =>
    simp only [step, serviceTxes]
    obtain ⟨hnr, hb'⟩ := txLoop_benign s s.txes hb
    obtain ⟨d, hd, hd0⟩ := txLoop_conserve s s.txes
    have hf := txLoop_frame s s.txes
    refine ⟨by rw [hf.kind]; exact hb', ?_⟩
    rw [hd0 hnr, List.append_nil] at hd
    rw [hd, hf.queued, hc]
  | serviceTxOnce =>
    simp only [step]
    obtain ⟨hnr, hb'⟩ := serviceTxOnce_benign s hb
    obtain ⟨d, hd, hd0⟩ := serviceTxOnce_conserve s
    have hf := serviceTxOnce_frame s
    refine ⟨by rw [hf.kind]; exact hb', ?_⟩
    rw [hd0 hnr, List.append_nil] at hd
    rw [hd, hf.queued, hc]
  | serviceReceives =>
    simp only [step, serviceReceives]
    have hf := rxLoop_frame s s.recvScript
    exact ⟨by rw [hf.kind, hf.sendScript]; exact hb, by rw [hf.sent, hf.txes, hf.queued]; exact hc⟩
  | serviceReceiveOnce =>
    simp only [step]
    have hf := serviceReceiveOnce_frame s
    exact ⟨by rw [hf.kind, hf.sendScript]; exact hb, by rw [hf.sent, hf.txes, hf.queued]; exact hc⟩
  | clearRxbs => exact ⟨hb, hc⟩
  | catRxbs => exact ⟨hb, hc⟩
  | setLive b => exact ⟨hb, hc⟩

theorem run_kind (s : State) (ops : List Op) : (run s ops).kind = s.kind := by
  induction ops generalizing s with
  | nil => rfl
  | cons op ops ih => simp only [run]; rw [ih, step_kind]

theorem run_wlogOn (s : State) (ops : List Op) : (run s ops).wlogOn = s.wlogOn := by
  induction ops generalizing s with
  | nil => rfl
  | cons op ops ih =>
    simp only [run]; rw [ih]
    cases op <;> simp only [step, Res.state]
    · exact (txLoop_frame s s.txes).wlogOn
    · exact (serviceTxOnce_frame s).wlogOn
    · exact (rxLoop_frame s s.recvScript).wlogOn
    · exact (serviceReceiveOnce_frame s).wlogOn

theorem run_txinv (s : State) (ops : List Op) (h : TxInv s)
    (hops : ∀ op ∈ ops, op.benign s.kind = true) : TxInv (run s ops) := by
  induction ops generalizing s with
  | nil => exact h
  | cons op ops ih =>
    simp only [run]
    apply ih
    · exact step_txinv s op h (hops op List.mem_cons_self)
    · intro o ho; rw [step_kind]; exact hops o (List.mem_cons_of_mem _ ho)

/-- **C24, conservation.** For every transport, every history of `tx`, service calls, receives,
`clearRxbs`, connect/disconnect, and every pattern of full, partial, zero, would-block and
connection-loss answers of the socket: the bytes the socket accepted followed by the bytes
still in the deque are exactly the bytes that were queued, in queue order. -/
theorem C24_sent_plus_queue_const (k : Kind) (wlog : Bool) (ops : List Op)
    (hops : ∀ op ∈ ops, op.benign k = true) :
    (run (init k wlog) ops).sent ++ (run (init k wlog) ops).txes.flatten
      = (run (init k wlog) ops).queued :=
  (run_txinv (init k wlog) ops ⟨fun _ hr => absurd hr List.not_mem_nil, rfl⟩ hops).2

/-- what was accepted is a prefix of what was queued: nothing repeated, nothing reordered,
nothing from a later message before an earlier one -/
theorem C24_sent_is_prefix (k : Kind) (wlog : Bool) (ops : List Op)
    (hops : ∀ op ∈ ops, op.benign k = true) :
    (run (init k wlog) ops).sent <+: (run (init k wlog) ops).queued :=
  ⟨_, C24_sent_plus_queue_const k wlog ops hops⟩

/-- byte for byte: the i-th byte the socket accepted is the i-th byte that was queued; and
once the deque is drained everything queued has been accepted exactly once -/
theorem C24_no_loss_no_dup_no_reorder (k : Kind) (wlog : Bool) (ops : List Op)
    (hops : ∀ op ∈ ops, op.benign k = true) :
    let s := run (init k wlog) ops
    (∀ i (h : i < s.sent.length), s.queued[i]? = some s.sent[i]) ∧
    s.sent.length + s.txes.flatten.length = s.queued.length ∧
    (s.txes.flatten = [] → s.sent = s.queued) := by
  intro s
  have h := C24_sent_plus_queue_const k wlog ops hops
  refine ⟨fun i hi => ?_, ?_, fun h0 => ?_⟩
  · show (run (init k wlog) ops).queued[i]? = _
    rw [← h, List.getElem?_append_left hi, List.getElem?_eq_getElem hi]
  · show _ = (run (init k wlog) ops).queued.length
    rw [← h, List.length_append]
  · show _ = (run (init k wlog) ops).queued
    rw [← h]; show s.sent = s.sent ++ s.txes.flatten; rw [h0, List.append_nil]

example : Op.benign .incomer (.feedTx [.acc 2, .wouldBlock, .lost, .acc 0]) = true := by decide
/-- non-vacuity: a history with partial sends, a would-block and an exhausted script -/
example :
    let s := run (init .incomerTls true)
      [.tx [1, 2, 3], .tx [], .tx [4, 5], .feedTx [.acc 2, .wouldBlock, .acc 9, .acc 0, .acc 1],
       .serviceTxes, .serviceTxes, .serviceTxes, .serviceTxes]
    s.sent = [1, 2, 3, 4] ∧ s.txes = [[5]] ∧ s.queued = [1, 2, 3, 4, 5] ∧ s.wtx = [[1, 2], [3], [4]] := by
  decide

/-! ### with exceptions: still no duplication and no reordering -/

/-- weaker invariant that survives a raising `send` (which drops the popped message) -/
def SubInv (s : State) : Prop := (s.sent ++ s.txes.flatten).Sublist s.queued

theorem step_subinv (s : State) (op : Op) (h : SubInv s) : SubInv (step s op).state := by
  unfold SubInv at *
  cases op with
  | tx d =>
    simp only [step, Res.state, List.flatten_append, List.flatten_cons, List.flatten_nil,
      List.append_nil, ← List.append_assoc]
    exact List.Sublist.append h (List.Sublist.refl d)
  | feedTx rs => exact h
  | feedRx rs => exact h
  | serviceTxes =>
    simp only [step, serviceTxes]
    obtain ⟨d, hd, _⟩ := txLoop_conserve s s.txes
    rw [(txLoop_frame s s.txes).queued]
    refine List.Sublist.trans ?_ h
    rw [← hd, List.append_assoc]
    exact List.Sublist.append (List.Sublist.refl _)
      (List.sublist_append_right _ _)
  | serviceTxOnce =>
    simp only [step]
    obtain ⟨d, hd, _⟩ := serviceTxOnce_conserve s
    rw [(serviceTxOnce_frame s).queued]
    refine List.Sublist.trans ?_ h
    rw [← hd, List.append_assoc]
    exact List.Sublist.append (List.Sublist.refl _)
      (List.sublist_append_right _ _)
  | serviceReceives =>
    simp only [step, serviceReceives]
    have hf := rxLoop_frame s s.recvScript
    rw [hf.sent, hf.txes, hf.queued]; exact h
  | serviceReceiveOnce =>
    simp only [step]
    have hf := serviceReceiveOnce_frame s
    rw [hf.sent, hf.txes, hf.queued]; exact h
  | clearRxbs => exact h
  | catRxbs => exact h
  | setLive b => exact h

/-- **C24, any answers at all** (including errors that make `send` raise, after which the
caller keeps using the object): accepted bytes followed by the deque are always a
subsequence of the queued bytes — an exception can lose the message in flight, but no
history makes the transport send a byte twice or out of order. -/
theorem C24_in_order_even_with_errors (k : Kind) (wlog : Bool) (ops : List Op) :
    ((run (init k wlog) ops).sent ++ (run (init k wlog) ops).txes.flatten).Sublist
      (run (init k wlog) ops).queued := by
  have : ∀ s, SubInv s → SubInv (run s ops) := by
    induction ops with
    | nil => intro s h; exact h
    | cons op ops ih => intro s h; exact ih _ (step_subinv s op h)
  exact this _ (List.Sublist.refl _)

/-- the loss is real (and outside the property's quantifier): an error that is not a
connection loss makes `serviceTxes` raise with the popped message gone -/
example :
    let s := run (init .client false) [.tx [1, 2], .tx [3], .feedTx [.fail, .acc 5], .serviceTxes, .serviceTxes]
    s.sent = [3] ∧ s.txes = [] ∧ s.queued = [1, 2, 3] := by decide

/-! ### wire log -/

theorem step_wtx (s : State) (op : Op) (h : WTx s) : WTx (step s op).state := by
  cases op with
  | tx d => exact h
  | feedTx rs => exact h
  | feedRx rs => exact h
  | serviceTxes => exact txLoop_wtx s s.txes h
  | serviceTxOnce => exact serviceTxOnce_wtx s h
  | serviceReceives =>
    simp only [step, serviceReceives]
    have hf := rxLoop_frame s s.recvScript
    unfold WTx; rw [hf.wlogOn, hf.kind, hf.wtx, hf.sent]; exact h
  | serviceReceiveOnce =>
    simp only [step]
    have hf := serviceReceiveOnce_frame s
    unfold WTx; rw [hf.wlogOn, hf.kind, hf.wtx, hf.sent]; exact h
  | clearRxbs => exact h
  | catRxbs => exact h
  | setLive b => exact h

/-- **C24, wire log.** On a socket transport with a wire log the data parts of the tx records,
concatenated in record order, are exactly the bytes the socket accepted; no record is empty;
without a wire log nothing is recorded.  Every history, every script (errors included). -/
theorem C24_wirelog_equals_sent (k : Kind) (wlog : Bool) (ops : List Op) :
    let s := run (init k wlog) ops
    (wlog = true ∧ k.isSerial = false → s.wtx.flatten = s.sent) ∧ (∀ c ∈ s.wtx, c ≠ []) ∧
    (¬ (wlog = true ∧ k.isSerial = false) → s.wtx = []) := by
  have : ∀ s, WTx s → WTx (run s ops) := by
    induction ops with
    | nil => intro s h; exact h
    | cons op ops ih => intro s h; exact ih _ (step_wtx s op h)
  have h := this (init k wlog) ⟨fun _ => rfl, fun c hc => absurd hc List.not_mem_nil, fun _ => rfl⟩
  have hk : (run (init k wlog) ops).kind = k := run_kind _ _
  have hw : (run (init k wlog) ops).wlogOn = wlog := run_wlogOn _ _
  unfold WTx at h
  rw [hk, hw] at h
  exact h

/-! ### receive side -/

theorem step_rxinv (s : State) (op : Op) (h : RxInv s) : RxInv (step s op).state := by
  cases op with
  | tx d => exact h
  | feedTx rs => exact h
  | feedRx rs => exact h
  | serviceTxes =>
    simp only [step, serviceTxes]
    have hf := txLoop_frame s s.txes
    unfold RxInv; rw [hf.wlogOn, hf.kind, hf.wrx, hf.recvd, hf.taken, hf.rxbs]; exact h
  | serviceTxOnce =>
    simp only [step]
    have hf := serviceTxOnce_frame s
    unfold RxInv; rw [hf.wlogOn, hf.kind, hf.wrx, hf.recvd, hf.taken, hf.rxbs]; exact h
  | serviceReceives => exact rxLoop_rxinv s s.recvScript h
  | serviceReceiveOnce => exact serviceReceiveOnce_rxinv s h
  | clearRxbs =>
    obtain ⟨h0, h1, h2, h3⟩ := h
    exact ⟨by simpa [step, Res.state] using h0, h1, h2, h3⟩
  | catRxbs =>
    obtain ⟨h0, h1, h2, h3⟩ := h
    exact ⟨by simpa [step, Res.state] using h0, h1, h2, h3⟩
  | setLive b => exact h

/-- **C24, receive side.** For every transport, history and script of `recv` answers (chunks,
end of stream, would-block, connection loss, errors): the receive buffer — preceded by what the
application cleared out of it — is exactly the concatenation of the chunks the socket returned,
in arrival order; and the wire log's rx records concatenate to the same bytes. -/
theorem C24_rx_append_in_order (k : Kind) (wlog : Bool) (ops : List Op) :
    let s := run (init k wlog) ops
    s.taken ++ s.rxbs = s.recvd ∧
    (wlog = true ∧ k.isSerial = false → s.wrx.flatten = s.recvd) ∧ (∀ c ∈ s.wrx, c ≠ []) := by
  have : ∀ s, RxInv s → RxInv (run s ops) := by
    induction ops with
    | nil => intro s h; exact h
    | cons op ops ih => intro s h; exact ih _ (step_rxinv s op h)
  have h := this (init k wlog) ⟨rfl, fun _ => rfl, fun c hc => absurd hc List.not_mem_nil, fun _ => rfl⟩
  have hk : (run (init k wlog) ops).kind = k := run_kind _ _
  have hw : (run (init k wlog) ops).wlogOn = wlog := run_wlogOn _ _
  unfold RxInv at h
  rw [hk, hw] at h
  exact ⟨h.1, h.2.1, h.2.2.1⟩

/-- non-vacuity: chunks, a would-block in between, a clear, then end of stream -/
example :
    let s := run (init .client true)
      [.feedRx [.data [1, 2], .data [3], .wouldBlock, .data [4], .data [], .data [9]],
       .serviceReceives, .catRxbs, .serviceReceiveOnce, .serviceReceives, .serviceReceives]
    s.taken = [1, 2, 3] ∧ s.rxbs = [4] ∧ s.recvd = [1, 2, 3, 4] ∧ s.cutoff = true ∧
      s.wrx = [[1, 2], [3], [4]] ∧ s.recvScript = [.data [9]] := by decide

/-! ### progress -/

theorem serviceN_drained (n : Nat) (s : State) (h : s.txes = []) : (serviceN n s).txes = [] := by
  induction n generalizing s with
  | zero => exact h
  | succ n ih => simp only [serviceN]; apply ih; simp [serviceTxes, h, txLoop, Res.state]

/-- **C24, progress.** If the transport may send (connected / not cut off / port open) and the
socket accepts at least one byte on every call, then after at most
`pending = bytes queued + messages queued` calls of `serviceTxes` the deque is empty
(each call makes at least one `send` call; a partial send ends the call, the next call resumes
with the unsent suffix). -/
theorem C24_progress (s : State) (hg : guard s = true)
    (he : ∀ r ∈ s.sendScript, SendRes.eager r = true)
    (hl : pending s.txes ≤ s.sendScript.length) (n : Nat) (hn : pending s.txes ≤ n) :
    (serviceN n s).txes = [] := by
  induction n generalizing s with
  | zero =>
    have : s.txes = [] := by
      cases hq : s.txes with
      | nil => rfl
      | cons d q => rw [hq, pending_cons] at hn; omega
    exact this
  | succ n ih =>
    simp only [serviceN]
    obtain ⟨_, hg', he', hl', hp⟩ := txLoop_progress s s.txes hg he hl
    rcases hp with hp | hp
    · exact serviceN_drained n _ hp
    · exact ih _ hg' he' hl' (by unfold serviceTxes; omega)

/-- and then everything queued has been accepted by the socket, exactly once, in order -/
theorem C24_progress_delivers (k : Kind) (wlog : Bool) (ops : List Op)
    (hops : ∀ op ∈ ops, op.benign k = true)
    (hg : guard (run (init k wlog) ops) = true)
    (he : ∀ r ∈ (run (init k wlog) ops).sendScript, SendRes.eager r = true)
    (hl : pending (run (init k wlog) ops).txes ≤ (run (init k wlog) ops).sendScript.length) :
    (serviceN (pending (run (init k wlog) ops).txes) (run (init k wlog) ops)).sent
      = (run (init k wlog) ops).queued := by
  have hrun : ∀ n s, serviceN n s = run s (List.replicate n Op.serviceTxes) := by
    intro n
    induction n with
    | zero => intro s; rfl
    | succ n ih => intro s; simp only [serviceN, List.replicate_succ, run, step]; exact ih _
  have hd := C24_progress _ hg he hl _ (Nat.le_refl _)
  have hrr : ∀ (s : State) (a b : List Op), run s (a ++ b) = run (run s a) b := by
    intro s a
    induction a generalizing s with
    | nil => intro b; rfl
    | cons o a ih => intro b; simp only [List.cons_append, run]; exact ih _ b
  have hall := C24_no_loss_no_dup_no_reorder k wlog
    (ops ++ List.replicate (pending (run (init k wlog) ops).txes) Op.serviceTxes)
    (by
      intro op hop
      rcases List.mem_append.mp hop with h | h
      · exact hops op h
      · rw [(List.mem_replicate.mp h).2]; rfl)
  simp only [hrr, ← hrun] at hall
  have hq : (serviceN (pending (run (init k wlog) ops).txes) (run (init k wlog) ops)).queued
      = (run (init k wlog) ops).queued := by
    generalize pending (run (init k wlog) ops).txes = n
    generalize run (init k wlog) ops = s
    induction n generalizing s with
    | zero => rfl
    | succ n ih => simp only [serviceN]; rw [ih]; exact (txLoop_frame s s.txes).queued
  rw [← hq]
  exact hall.2.2 (by rw [hd]; rfl)

/-- non-vacuity of the progress hypotheses: 3 + 0 + 2 bytes in 3 messages, 8 one-byte answers -/
example :
    let s := run (init .device false)
      [.tx [1, 2, 3], .tx [], .tx [4, 5], .feedTx (List.replicate 8 (.acc 1))]
    guard s = true ∧ (∀ r ∈ s.sendScript, SendRes.eager r = true) ∧
      pending s.txes = 8 ∧ (serviceN 8 s).sent = [1, 2, 3, 4, 5] ∧ (serviceN 8 s).txes = [] := by
  decide

/-! ### would-block and cut-off change nothing -/

/-- a `serviceTxes` call that meets only "would block" (or an exhausted script) sends nothing
and leaves the queued bytes as they were -/
theorem C24_would_block_keeps_queue (s : State) (h : ∀ r ∈ s.sendScript, r = SendRes.wouldBlock) :
    (serviceTxes s).isRaised = false ∧ (serviceTxes s).state.sent = s.sent ∧
      (serviceTxes s).state.txes.flatten = s.txes.flatten ∧ (serviceTxes s).state.cutoff = s.cutoff := by
  unfold serviceTxes
  generalize s.txes = q
  induction q generalizing s with
  | nil => exact ⟨rfl, rfl, rfl, rfl⟩
  | cons data rest ih =>
    unfold txLoop
    split
    · have hhead : s.sendScript.headD .wouldBlock = .wouldBlock := by
        cases hs : s.sendScript with
        | nil => rfl
        | cons r t => rw [List.headD_cons]; exact h r (by rw [hs]; exact List.mem_cons_self)
      have hsend : send s data = ({ s with sendScript := s.sendScript.tail }, some 0) := by
        unfold send; rw [hhead]; rfl
      rw [hsend]
      simp only
      split
      · exact ⟨rfl, rfl, by simp [Res.state], rfl⟩
      · next hlt =>
        have hd : data = [] := by
          cases data with
          | nil => rfl
          | cons a l => simp at hlt
        have := ih { s with sendScript := s.sendScript.tail }
          (fun r hr => h r (List.mem_of_mem_tail hr))
        obtain ⟨a, b, c, d⟩ := this
        exact ⟨a, b, by rw [c, hd]; rfl, d⟩
    · exact ⟨rfl, rfl, rfl, rfl⟩

/-- once a socket transport is cut off, `serviceTxes` makes no `send` call at all -/
theorem C24_cutoff_sends_nothing (s : State) (hk : s.kind.isSerial = false) (hc : s.cutoff = true) :
    serviceTxes s = .ok s := by
  have hg : guard s = false := by
    unfold guard
    cases hkk : s.kind <;> simp [hc] <;> simp [hkk, Kind.isSerial] at hk
  unfold serviceTxes
  cases hq : s.txes with
  | nil => simp only [txLoop]; congr; exact hq.symm ▸ rfl
  | cons d q => simp only [txLoop, hg]; congr; simp [← hq]

end Ioflo.TxQueue
