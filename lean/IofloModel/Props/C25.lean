import IofloModel.Lemmas.Errno
/-!
# C25 — transport errors are classified: connection loss cuts off, others raise

Property theorems only.  Model: `Model/Errno.lean` (the `except` ladders of every socket operation of
`Client`, `ClientTls`, `Incomer`, `IncomerTls`, `Acceptor`, `SocketUdpNb`, `GramStack`), in the
version with `fixes/D13-*`, `fixes/D26-*` and `fixes/D26b-*` applied (`Version.fixed2`); what the code
did before each repair (`Version.orig`, and `Version.fixed` = before D26b) is stated in the `…_orig_…`
theorems.
Specification predicates (`isLoss`, `isBlock`, `lossErrnos`, `Err.wf`) are in `Lemmas/Errno.lean`;
the errno universe is all of `Nat`.
-/
namespace Ioflo.Errno

/-! ## connection loss cuts off -/

theorem plainLadder_loss {n : Nat} (h : lossErrnos.contains n = true) :
    plainLadder ⟨.osError, n⟩ = .cutoff := by
  have hb := (loss_not_block n (mem_of_contains h)).1
  simp only [plainLadder, ExcClass.isOs, hb, inTuple_streamLoss, h, Bool.not_true, Bool.false_eq_true,
    if_false, if_true]

theorem tlsLadder_loss {n : Nat} (h : lossErrnos.contains n = true) :
    tlsLadder .fixed2 ⟨.osError, n⟩ = .cutoff := by
  have hb := (loss_not_block n (mem_of_contains h)).2
  simp only [tlsLadder, ExcClass.isOs, ExcClass.isSsl, hb, inTuple_streamLoss, h, Bool.not_true,
    Bool.false_eq_true, if_false, if_true, Bool.or_true, Bool.false_and]

theorem tlsLadder_eof : tlsLadder .fixed2 ⟨.sslEof, SSL_ERROR_EOF⟩ = .cutoff := by decide

/-- the full statement of the loss clause: on every stream-transport site — data operations *and*
the TLS handshake — a connection-loss error cuts off instead of raising -/
def C25_full : Prop :=
  ∀ site : Site, site.isStream = true → ∀ e : Err, e.wf = true → isLoss site e = true →
    classify .fixed2 site e = .cutoff

/-- **C25, loss clause, for `receive` and `send` of all eight stream transports' ladders** (with the
D26 repair): every connection-loss errno, and on TLS transports a TLS EOF, marks the connection cut
off and returns empty data (receive) / 0 (send) — no exception, nothing else changed.  Hypothesis `site.isData`
excludes the handshake (finding D26c, counterexample below). -/
theorem C25_loss_cuts_off_partial (site : Site) (hd : site.isData = true) (e : Err)
    (hw : e.wf = true) (hl : isLoss site e = true) (s : St) :
    classify .fixed2 site e = .cutoff ∧
      effect .fixed2 site s e = ({ s with cutoff := true }, cutRet site) := by
  have hc : classify .fixed2 site e = .cutoff := by
    obtain ⟨cls, n⟩ := e
    simp only [isLoss, Bool.or_eq_true, Bool.and_eq_true, beq_iff_eq] at hl
    rcases hl with ⟨hcls, hn⟩ | ⟨htls, hcls⟩
    · subst hcls
      cases site <;> first
        | exact plainLadder_loss hn
        | exact tlsLadder_loss hn
        | exact absurd hd (by decide)
    · subst hcls
      have hn : n = SSL_ERROR_EOF := by simpa [Err.wf] using hw
      subst hn
      cases site <;> first
        | exact tlsLadder_eof
        | exact absurd htls (by decide)
        | exact absurd hd (by decide)
  exact ⟨hc, by simp [effect, hc]⟩

/-- non-vacuity: ECONNRESET on a plain receive, TLS EOF on a TLS send -/
example : isLoss .incomerRecv ⟨.osError, ECONNRESET⟩ = true ∧
    effect .fixed2 .incomerRecv ⟨false, true⟩ ⟨.osError, ECONNRESET⟩ = (⟨true, true⟩, .emptyBytes) ∧
    isLoss .clientTlsSend ⟨.sslEof, 8⟩ = true ∧ Err.wf ⟨.sslEof, 8⟩ = true ∧
    effect .fixed2 .clientTlsSend ⟨false, true⟩ ⟨.sslEof, 8⟩ = (⟨true, true⟩, .zero) := by decide

/-- **Finding D26c**: the full statement fails on the handshake — a connection reset (or TLS EOF)
during `do_handshake` closes the socket and re-raises ("should give up here nicely"). -/
theorem C25_counterexample_handshake : ¬ C25_full := by
  intro h
  have := h .incomerTlsHandshake rfl ⟨.osError, ECONNRESET⟩ rfl (by decide)
  exact absurd this (by decide)

theorem handshakeLadder_close {e : Err} (h : ¬ (e.cls.isSsl = true ∧ inTuple e.arg0 tlsBlock = true)) :
    handshakeLadder e = .closeRaise := by
  unfold handshakeLadder
  split
  · next h1 =>
    split
    · next h2 => exact absurd ⟨h1, h2⟩ h
    · split <;> rfl
  · rfl

/-- what the handshake does with every error that is not want-read / want-write: close and re-raise -/
theorem C25_handshake_other_closes_and_raises (site : Site) (hh : site.isHandshake = true) (e : Err)
    (hw : e.wf = true) (hb : isBlock site e = false) (s : St) :
    effect .fixed2 site s e = ({ s with sockOpen := false }, .raised) := by
  have hc : classify .fixed2 site e = .closeRaise := by
    have key : handshakeLadder e = .closeRaise := by
      apply handshakeLadder_close
      obtain ⟨cls, n⟩ := e
      have htls : site.isTls = true := by cases site <;> simp_all [Site.isHandshake, Site.isTls]
      simp only [isBlock, htls, if_true] at hb
      rw [inTuple_tlsBlock]
      cases cls <;> simp_all [ExcClass.isSsl, Err.wf] <;> decide
    cases site <;> first
      | exact key
      | exact absurd hh (by decide)
  simp [effect, hc]

/-! ## would-block never changes state -/

/-- sites whose operation has a would-block answer handled by the ladder
(`SocketUdpNb.send` / `GramStack._serviceOneTxPkt` re-raise everything but the transient set) -/
def Site.handlesBlock : Site → Bool
  | .udpSend | .gramSend => false
  | _ => true

/-- **C25, would-block clause**: on every stream operation, the handshake, `accept` and the datagram
receive, a would-block answer returns the "nothing yet" value; cutoff flag and socket stay as they were. -/
theorem C25_would_block_no_state_change (v : Version) (site : Site) (hs : site.handlesBlock = true)
    (e : Err) (hw : e.wf = true) (hb : isBlock site e = true) (s : St) :
    effect v site s e = (s, blockRet site) := by
  have hc : classify v site e = .wouldBlock := by
    obtain ⟨cls, n⟩ := e
    by_cases htls : site.isTls = true
    · have : (cls = .sslWantRead ∧ n = 2) ∨ (cls = .sslWantWrite ∧ n = 3) := by
        simp only [isBlock, htls, if_true, Bool.or_eq_true, beq_iff_eq] at hb
        rcases hb with h | h <;> subst h <;>
          simp [Err.wf, SSL_ERROR_WANT_READ, SSL_ERROR_WANT_WRITE] at hw <;> simp [hw]
      rcases this with ⟨rfl, rfl⟩ | ⟨rfl, rfl⟩ <;> cases site <;> cases v <;>
        first | decide | exact absurd htls (by decide)
    · simp only [isBlock, htls, Bool.false_eq_true, if_false, Bool.and_eq_true, beq_iff_eq] at hb
      obtain ⟨hcls, hn⟩ := hb
      subst hcls
      cases site <;> first
        | exact absurd rfl htls
        | exact absurd hs (by decide)
        | (cases v <;>
           simp only [classify, plainLadder, acceptLadder, udpRecvLadder, gramRecvLadder, ExcClass.isOs,
             inTuple_plainBlock, hn, Bool.not_true, Bool.false_eq_true, if_false, if_true])
  simp [effect, hc]

/-- non-vacuity -/
example : isBlock .clientRecv ⟨.osError, EAGAIN⟩ = true ∧
    isBlock .incomerTlsSend ⟨.sslWantWrite, 3⟩ = true ∧ Err.wf ⟨.sslWantWrite, 3⟩ = true ∧
    isBlock .incomerTlsHandshake ⟨.sslWantRead, 2⟩ = true ∧
    effect .fixed2 .incomerTlsHandshake ⟨false, true⟩ ⟨.sslWantRead, 2⟩ = (⟨false, true⟩, .falseVal) := by
  decide

/-! ## any other error propagates -/

/-- **C25, third clause** (with the D26b repair): an error that is neither would-block nor connection
loss is re-raised by `receive` / `send` of all eight stream ladders with the transport unchanged —
every exception class, every `args[0] : Nat`. -/
theorem C25_other_raises (site : Site) (hd : site.isData = true) (e : Err)
    (hw : e.wfAt site = true) (hnl : isLoss site e = false) (hnb : isBlock site e = false) (s : St) :
    effect .fixed2 site s e = (s, .raised) := by
  have hc : classify .fixed2 site e = .raise := by
    obtain ⟨cls, n⟩ := e
    have hplain : site.isTls = false → plainLadder ⟨cls, n⟩ = .raise := by
      intro htls
      simp only [isLoss, isBlock, Err.wfAt, htls, Bool.false_eq_true, if_false, Bool.false_and,
        Bool.or_false, Bool.false_or] at hnl hnb hw
      simp only [plainLadder, inTuple_plainBlock, inTuple_streamLoss]
      cases cls <;> simp_all [ExcClass.isOs, ExcClass.isSsl]
    have htlsl : site.isTls = true → tlsLadder .fixed2 ⟨cls, n⟩ = .raise := by
      intro htls
      simp only [isLoss, isBlock, Err.wfAt, htls, if_true, Bool.true_and,
        Bool.and_true, Bool.true_or] at hnl hnb hw
      simp only [tlsLadder, inTuple_tlsBlock, inTuple_streamLoss]
      cases cls
      · simp_all [ExcClass.isOs, ExcClass.isSsl]
      · have h10 : n ≤ 10 := by simp [Err.wf] at hw; exact hw.1
        have := small_not_loss n h10
        simp_all [ExcClass.isOs, ExcClass.isSsl, Err.wf]
      · simp_all [ExcClass.isOs]
      · simp_all [ExcClass.isOs]
      · simp_all [ExcClass.isOs]
      · have h6 : n = SSL_ERROR_ZERO_RETURN := by simpa [Err.wf] using hw
        subst h6; decide
      · simp_all [ExcClass.isOs]
    cases site <;> first
      | exact absurd hd (by decide)
      | exact hplain rfl
      | exact htlsl rfl
  simp [effect, hc]

/-- non-vacuity: EPIPE on a plain send, a protocol error and a clean TLS shutdown on TLS receives, and
the former D26b case: ENOENT out of a TLS receive now propagates -/
example : effect .fixed2 .clientSend ⟨false, true⟩ ⟨.osError, 32⟩ = (⟨false, true⟩, .raised) ∧
    isLoss .clientSend ⟨.osError, 32⟩ = false ∧ isBlock .clientSend ⟨.osError, 32⟩ = false ∧
    effect .fixed2 .incomerTlsRecv ⟨false, true⟩ ⟨.sslError, 1⟩ = (⟨false, true⟩, .raised) ∧
    Err.wfAt .incomerTlsRecv ⟨.sslError, 1⟩ = true ∧
    effect .fixed2 .incomerTlsRecv ⟨false, true⟩ ⟨.sslZeroReturn, 6⟩ = (⟨false, true⟩, .raised) ∧
    effect .fixed2 .clientTlsRecv ⟨false, true⟩ ⟨.osError, 2⟩ = (⟨false, true⟩, .raised) := by
  decide

/-- **D26b before the repair**: the TLS data ladders recognised would-block by the *number* in
`ex.args[0]` whatever the class — `OSError(ENOENT)` / `OSError(ESRCH)` out of a TLS `recv` / `send` was
answered like a want-read (nothing raised) on all four ladders. -/
theorem C25_D26b_orig_swallows_oserror :
    ∀ site ∈ [Site.clientTlsRecv, .clientTlsSend, .incomerTlsRecv, .incomerTlsSend],
      ∀ n ∈ [2, 3], classify .fixed site ⟨.osError, n⟩ = .wouldBlock ∧
        isBlock site ⟨.osError, n⟩ = false ∧ isLoss site ⟨.osError, n⟩ = false := by decide

/-! ## exact characterisation over the whole errno universe -/

/-- on a plain transport an `OSError` cuts off **iff** its errno is one of the eight loss errnos,
is swallowed **iff** it is EAGAIN/EWOULDBLOCK, and is re-raised otherwise — for every `n : Nat` -/
theorem C25_plain_exact (v : Version) (site : Site)
    (hp : site = .clientRecv ∨ site = .clientSend ∨ site = .incomerRecv ∨ site = .incomerSend)
    (n : Nat) :
    (classify v site ⟨.osError, n⟩ = .cutoff ↔ n ∈ lossErrnos) ∧
    (classify v site ⟨.osError, n⟩ = .wouldBlock ↔ (n = EAGAIN ∨ n = EWOULDBLOCK)) ∧
    (classify v site ⟨.osError, n⟩ = .raise ↔ (n ∉ lossErrnos ∧ n ≠ EAGAIN ∧ n ≠ EWOULDBLOCK)) := by
  have key : (plainLadder ⟨.osError, n⟩ = .cutoff ↔ n ∈ lossErrnos) ∧
      (plainLadder ⟨.osError, n⟩ = .wouldBlock ↔ (n = EAGAIN ∨ n = EWOULDBLOCK)) ∧
      (plainLadder ⟨.osError, n⟩ = .raise ↔ (n ∉ lossErrnos ∧ n ≠ EAGAIN ∧ n ≠ EWOULDBLOCK)) := by
    have hval : plainLadder ⟨.osError, n⟩ =
        if (n == EAGAIN || n == EWOULDBLOCK) = true then .wouldBlock
        else if lossErrnos.contains n = true then .cutoff else .raise := by
      simp only [plainLadder, ExcClass.isOs, Bool.not_true, Bool.false_eq_true, if_false,
        inTuple_plainBlock, inTuple_streamLoss]
    rw [hval]
    by_cases hb : (n == EAGAIN || n == EWOULDBLOCK) = true
    · have hb' : n = EAGAIN ∨ n = EWOULDBLOCK := by simpa using hb
      have hnl : n ∉ lossErrnos := by
        intro hm
        have := (loss_not_block n hm).1
        rw [inTuple_plainBlock, hb] at this; exact absurd this (by decide)
      rw [if_pos hb]
      refine ⟨⟨fun h => (nomatch h), fun h => absurd h hnl⟩, ⟨fun _ => hb', fun _ => rfl⟩,
        ⟨fun h => (nomatch h), fun h => ?_⟩⟩
      rcases hb' with h' | h'
      · exact absurd h' h.2.1
      · exact absurd h' h.2.2
    · have hb' : ¬ (n = EAGAIN ∨ n = EWOULDBLOCK) := by simpa using hb
      rw [if_neg hb]
      by_cases hl : lossErrnos.contains n = true
      · have hm : n ∈ lossErrnos := mem_of_contains hl
        rw [if_pos hl]
        exact ⟨⟨fun _ => hm, fun _ => rfl⟩, ⟨fun h => (nomatch h), fun h => absurd h hb'⟩,
          ⟨fun h => (nomatch h), fun h => absurd hm h.1⟩⟩
      · have hm : n ∉ lossErrnos := fun hm => hl (by simpa using hm)
        rw [if_neg hl]
        exact ⟨⟨fun h => (nomatch h), fun h => absurd h hm⟩,
          ⟨fun h => (nomatch h), fun h => absurd h hb'⟩,
          ⟨fun _ => ⟨hm, fun h => hb' (Or.inl h), fun h => hb' (Or.inr h)⟩, fun _ => rfl⟩⟩
  rcases hp with rfl | rfl | rfl | rfl <;> exact key

/-! ## datagram stacks: transient destination errors are retried -/

/-- **C25, datagram clause** (with the D13 repair): every connection-loss errno coming out of
`sendto` *and* out of `recvfrom` is absorbed by `GramStack` — the packet is kept for a later try,
the receive reports "no data" — and nothing is raised. -/
theorem C25_gram_transient_retry (e : Err) (hc : e.cls = .osError) (hl : e.arg0 ∈ lossErrnos) (s : St) :
    effect .fixed2 .gramSend s e = (s, .kept) ∧ effect .fixed2 .gramRecv s e = (s, .falseVal) := by
  obtain ⟨cls, n⟩ := e
  simp only at hc hl; subst hc
  have ht := loss_sub_gramTransient n hl
  have hb := (loss_not_block n hl).1
  have h1 : classify .fixed2 .gramSend ⟨.osError, n⟩ = .retry := by
    simp [classify, gramSendLadder, udpSendLadder, ExcClass.isOs, ht]
  have h2 : classify .fixed2 .gramRecv ⟨.osError, n⟩ = .retry := by
    simp [classify, gramRecvLadder, udpRecvLadder, acceptLadder, ExcClass.isOs, ht, hb]
  exact ⟨by simp [effect, h1, Site.isSend], by simp [effect, h2, Site.isSend]⟩

example : ECONNREFUSED ∈ lossErrnos ∧
    effect .fixed2 .gramRecv ⟨false, true⟩ ⟨.osError, ECONNREFUSED⟩ = (⟨false, true⟩, .falseVal) := by decide

/-- other errors out of `sendto` / `recvfrom` propagate through the stack -/
theorem C25_gram_other_raises (v : Version) (n : Nat) (hn : inTuple n gramTransient = false)
    (hb : inTuple n plainBlock = false) (s : St) :
    effect v .gramSend s ⟨.osError, n⟩ = (s, .raised) ∧ effect v .gramRecv s ⟨.osError, n⟩ = (s, .raised) := by
  have h1 : classify v .gramSend ⟨.osError, n⟩ = .raise := by
    simp [classify, gramSendLadder, udpSendLadder, ExcClass.isOs, hn]
  have h2 : classify v .gramRecv ⟨.osError, n⟩ = .raise := by
    cases v <;> simp [classify, gramRecvLadder, udpRecvLadder, acceptLadder, ExcClass.isOs, hn, hb]
  exact ⟨by simp [effect, h1], by simp [effect, h2]⟩

/-! ## … through every transmit entry point of the stack, nothing is lost -/

/-- every `sendto` answer in the script is "sent" or a transient destination error (loss errno) -/
def TransientScript (script : List (Option Err)) : Prop :=
  ∀ a ∈ script, a = none ∨ ∃ n, a = some ⟨.osError, n⟩ ∧ n ∈ lossErrnos

theorem gramSend_retry {n : Nat} (hl : n ∈ lossErrnos) (v : Version) :
    classify v .gramSend ⟨.osError, n⟩ = .retry := by
  have ht := loss_sub_gramTransient n hl
  simp [classify, gramSendLadder, udpSendLadder, ExcClass.isOs, ht]

theorem gramOne_transient (v : Version) (p : Pkt) (script : List (Option Err)) (sent laters : List Pkt)
    (bl : List Nat) (hs : TransientScript script) :
    ∃ sent' laters' bl' script', gramOne v p script sent laters bl = some (sent', laters', bl', script') ∧
      TransientScript script' ∧ (sent' ++ laters').Perm (sent ++ laters ++ [p]) := by
  unfold gramOne
  split
  · exact ⟨_, _, _, _, rfl, hs, by rw [List.append_assoc]⟩
  · have htail : TransientScript script.tail := fun a ha => hs a (List.mem_of_mem_tail ha)
    cases hsc : script with
    | nil =>
      refine ⟨_, _, _, _, rfl, by simpa [hsc] using htail, ?_⟩
      simp only [List.append_assoc]
      exact List.Perm.append_left sent List.perm_append_comm
    | cons a t =>
      have ha := hs a (by rw [hsc]; exact List.mem_cons_self)
      have htail' : TransientScript t := by rw [hsc] at htail; exact htail
      rcases ha with rfl | ⟨n, rfl, hn⟩
      · refine ⟨_, _, _, _, rfl, htail', ?_⟩
        simp only [List.headD_cons, List.append_assoc]
        exact List.Perm.append_left sent List.perm_append_comm
      · simp only [List.headD_cons, gramSend_retry hn v, List.tail_cons]
        exact ⟨_, _, _, _, rfl, htail', by rw [List.append_assoc]⟩

theorem gramLoop_transient (v : Version) (q : List Pkt) (script : List (Option Err)) (sent laters : List Pkt)
    (bl : List Nat) (hs : TransientScript script) :
    ∃ sent' queue', gramLoop v q script sent laters bl = .ok sent' queue' ∧
      (sent' ++ queue').Perm (sent ++ laters ++ q) := by
  induction q generalizing script sent laters bl with
  | nil => exact ⟨sent, laters, rfl, by simp⟩
  | cons p rest ih =>
    obtain ⟨s1, l1, b1, sc1, h1, hs1, hp1⟩ := gramOne_transient v p script sent laters bl hs
    obtain ⟨s2, q2, h2, hp2⟩ := ih sc1 s1 l1 b1 hs1
    refine ⟨s2, q2, by simp only [gramLoop, h1]; exact h2, ?_⟩
    refine hp2.trans ?_
    have : (s1 ++ l1 ++ rest).Perm (sent ++ laters ++ [p] ++ rest) := List.Perm.append_right rest hp1
    simpa [List.append_assoc] using this

/-- **C25, datagram clause at every service entry point.** Whatever entry point drives the transmit
side (`serviceTxPkts`, `serviceTxPktsOnce`, `serviceAllTx`, `serviceAllTxOnce`, `serviceAll`), whatever
the queue, if every `sendto` either succeeds or fails with a transient destination error then nothing
is raised and every queued packet has either been sent or is still queued — none lost, none duplicated. -/
theorem C25_gram_service_never_loses (v : Version) (entry : GramEntry) (q : List Pkt)
    (script : List (Option Err)) (hs : TransientScript script) :
    ∃ sent queue, gramService v entry q script = .ok sent queue ∧ (sent ++ queue).Perm q := by
  have hloop := gramLoop_transient v q script [] [] [] hs
  have honce : ∃ sent queue, gramOnce v q script = .ok sent queue ∧ (sent ++ queue).Perm q := by
    unfold gramOnce
    cases q with
    | nil => exact ⟨[], [], rfl, List.Perm.refl _⟩
    | cons p rest =>
      obtain ⟨s1, l1, b1, sc1, h1, _, hp1⟩ := gramOne_transient v p script [] [] [] hs
      refine ⟨s1, rest ++ l1, by simp only [h1], ?_⟩
      have hp1' : (s1 ++ l1).Perm [p] := by simpa using hp1
      have : (s1 ++ (rest ++ l1)).Perm ((s1 ++ l1) ++ rest) := by
        rw [List.append_assoc]; exact List.Perm.append_left s1 List.perm_append_comm
      exact this.trans (by simpa using List.Perm.append_right rest hp1')
  cases entry <;> first
    | (simpa [gramService] using hloop)
    | (simpa [gramService] using honce)

/-- non-vacuity: three packets to two destinations, the first `sendto` is refused; one-at-a-time and
whole-queue entry points both keep packet 1 -/
example :
    gramService .fixed2 .allTxOnce [(1, 7), (2, 8), (3, 7)] [some ⟨.osError, ECONNREFUSED⟩]
      = .ok [] [(2, 8), (3, 7), (1, 7)] ∧
    gramService .fixed2 .all [(1, 7), (2, 8), (3, 7)] [some ⟨.osError, ECONNREFUSED⟩]
      = .ok [(2, 8)] [(1, 7), (3, 7)] := by decide

/-! ## … over several passes: a transient error stays transient -/

theorem gramOne_script {v : Version} {p : Pkt} {sc sc' : List (Option Err)} {sent laters s' l' : List Pkt}
    {bl bl' : List Nat} (h : gramOne v p sc sent laters bl = some (s', l', bl', sc')) :
    sc' = sc ∨ sc' = sc.tail := by
  unfold gramOne at h
  split at h
  · cases h; exact Or.inl rfl
  · split at h
    · cases h; exact Or.inr rfl
    · split at h
      · cases h; exact Or.inr rfl
      · cases h

theorem gramLoopRest_subset (v : Version) (q : List Pkt) (sc : List (Option Err)) (bl : List Nat) :
    ∀ a ∈ gramLoopRest v q sc bl, a ∈ sc := by
  induction q generalizing sc bl with
  | nil => intro a ha; exact ha
  | cons p rest ih =>
    intro a ha
    unfold gramLoopRest at ha
    split at ha
    · next s' l' bl' sc' h =>
      have := ih sc' bl' a ha
      rcases gramOne_script h with rfl | rfl
      · exact this
      · exact List.mem_of_mem_tail this
    · exact List.mem_of_mem_tail ha

theorem gramRest_subset (v : Version) (entry : GramEntry) (q : List Pkt) (sc : List (Option Err)) :
    ∀ a ∈ gramRest v entry q sc, a ∈ sc := by
  have hloop := gramLoopRest_subset v q sc []
  have honce : ∀ a ∈ (match q with
      | [] => sc
      | p :: _ => match gramOne v p sc [] [] [] with
        | some (_, _, _, sc') => sc'
        | none => sc.tail), a ∈ sc := by
    intro a ha
    cases q with
    | nil => exact ha
    | cons p rest =>
      simp only at ha
      split at ha
      · next s' l' bl' sc' h =>
        rcases gramOne_script h with rfl | rfl
        · exact ha
        · exact List.mem_of_mem_tail ha
      · exact List.mem_of_mem_tail ha
  cases entry <;> first | exact hloop | exact honce

/-- the queue after a sequence of passes -/
def finalQueue (v : Version) : List GramEntry → List Pkt → List (Option Err) → List Pkt
  | [], q, _ => q
  | en :: rest, q, sc => finalQueue v rest (gramService v en q sc).queue (gramRest v en q sc)

/-- **C25, datagram clause over histories.** Any sequence of service passes through any of the five
entry points, any queue: as long as every `sendto` succeeds or fails with a transient destination
error, no pass raises, and the packets sent over all passes together with the packets still queued at
the end are exactly the packets that were queued. -/
theorem C25_gram_passes_never_lose (v : Version) (entries : List GramEntry) (q : List Pkt)
    (script : List (Option Err)) (hs : TransientScript script) :
    (∀ r ∈ gramPasses v entries q script, r.1.isOk = true) ∧
    (((gramPasses v entries q script).map (·.1.sent)).flatten ++ finalQueue v entries q script).Perm q := by
  induction entries generalizing q script with
  | nil => exact ⟨fun _ h => (nomatch h), by simp [gramPasses, finalQueue]⟩
  | cons en rest ih =>
    obtain ⟨sent, queue, hr, hp⟩ := C25_gram_service_never_loses v en q script hs
    have hs' : TransientScript (gramRest v en q script) := fun a ha => hs a (gramRest_subset v en q script a ha)
    obtain ⟨h1, h2⟩ := ih queue (gramRest v en q script) hs'
    simp only [gramPasses, finalQueue, hr, GramRes.queue, List.map_cons, List.flatten_cons, GramRes.sent]
    constructor
    · intro r hmem
      rcases List.mem_cons.mp hmem with rfl | hmem
      · rfl
      · exact h1 r hmem
    · rw [List.append_assoc]
      exact (List.Perm.append_left sent h2).trans hp

theorem gramLoop_no_error (v : Version) (q sent : List Pkt) :
    gramLoop v q [] sent [] [] = .ok (sent ++ q) [] := by
  induction q generalizing sent with
  | nil => simp [gramLoop]
  | cons p rest ih =>
    have h1 : gramOne v p [] sent [] [] = some (sent ++ [p], [], [], []) := by
      simp [gramOne]
    simp only [gramLoop, h1]
    rw [ih]; simp

/-- **C25, recovery.** A whole-queue pass in which no `sendto` fails sends every queued packet — also the
ones a transient error held back on an earlier pass: nothing a previous pass saw (blocked destinations,
deferred packets) is carried over. -/
theorem C25_gram_recovers (v : Version) (entry : GramEntry)
    (hfull : entry = .txPkts ∨ entry = .allTx ∨ entry = .all) (q : List Pkt) :
    gramService v entry q [] = .ok q [] := by
  have := gramLoop_no_error v q []
  rcases hfull with rfl | rfl | rfl <;> simpa [gramService] using this

/-- non-vacuity: destination 7 refuses on the first pass, answers on the second -/
example :
    gramPasses .fixed2 [.all, .all] [(1, 7), (2, 8), (3, 7)] [some ⟨.osError, ECONNREFUSED⟩]
      = [(.ok [(2, 8)] [(1, 7), (3, 7)], 1), (.ok [(1, 7), (3, 7)] [], 0)] := by decide

/-! ## stream clients through close / re-open: the ladder is applied on the socket that is current -/

/-- number of `reopen` operations in a history -/
def reopens : List SessOp → Nat
  | [] => 0
  | .reopen :: ops => reopens ops + 1
  | _ :: ops => reopens ops

/-- **C25, re-opened clients.** `Client` and `ClientTls`, any history of receives, sends, closes and
re-opens with any answers: every `receive` / `send` that reaches a socket reaches the one opened by the
most recent `reopen` (never a socket of an earlier connection), and an error answer is classified by the
ladder of that call's site starting from the cutoff flag `open()` reset. -/
theorem C25_io_uses_current_socket (v : Version) (tls : Bool) (ops : List SessOp) :
    ∀ i (h : i < (sessRun v { tls := tls } ops).length),
      (∀ k, (sessRun v { tls := tls } ops)[i] = .done k → k + 1 = reopens (ops.take i)) ∧
      (∀ k r c, (sessRun v { tls := tls } ops)[i] = .classified k r c → k + 1 = reopens (ops.take i)) := by
  have key : ∀ (s : Sess) (ops : List SessOp), (∀ k, s.cur = some k → k + 1 = s.next) →
      ∀ i (h : i < (sessRun v s ops).length),
        (∀ k, (sessRun v s ops)[i] = .done k → k + 1 = s.next + reopens (ops.take i)) ∧
        (∀ k r c, (sessRun v s ops)[i] = .classified k r c → k + 1 = s.next + reopens (ops.take i)) := by
    intro s ops
    induction ops generalizing s with
    | nil => intro _ i h; simp [sessRun] at h
    | cons op rest ih =>
      intro hinv i h
      cases i with
      | zero =>
        simp only [sessRun, List.getElem_cons_zero, List.take_zero, reopens, Nat.add_zero]
        cases op with
        | io isSend ans =>
          simp only [sessStep]
          cases hc : s.cur with
          | none => exact ⟨fun k hk => by simp at hk, fun k r c hk => by simp at hk⟩
          | some k0 =>
            cases ans with
            | none =>
              refine ⟨fun k hk => ?_, fun k r c hk => by simp at hk⟩
              simp only [SessOut.done.injEq] at hk
              subst hk; exact hinv k0 hc
            | some e =>
              refine ⟨fun k hk => by simp at hk, fun k r c hk => ?_⟩
              simp only [SessOut.classified.injEq] at hk
              obtain ⟨rfl, _, _⟩ := hk; exact hinv k0 hc
        | close => exact ⟨fun k hk => by simp [sessStep] at hk, fun k r c hk => by simp [sessStep] at hk⟩
        | reopen => exact ⟨fun k hk => by simp [sessStep] at hk, fun k r c hk => by simp [sessStep] at hk⟩
      | succ j =>
        have hj : j < (sessRun v (sessStep v s op).1 rest).length := by
          simp only [sessRun, List.length_cons] at h; omega
        have hinv' : ∀ k, (sessStep v s op).1.cur = some k → k + 1 = (sessStep v s op).1.next := by
          cases op with
          | io isSend ans =>
            simp only [sessStep]
            cases hc : s.cur with
            | none => intro k hk; simp [hc] at hk
            | some k0 =>
              cases ans with
              | none => intro k hk; simp only [hc] at hk; exact hinv k (by rw [hc]; exact hk)
              | some e => intro k hk; simp only [hc] at hk; exact hinv k (by rw [hc]; exact hk)
          | close => intro k hk; simp [sessStep] at hk
          | reopen => intro k hk; simp only [sessStep, Option.some.injEq] at hk; subst hk; rfl
        have := ih (sessStep v s op).1 hinv' j hj
        have hnext : (sessStep v s op).1.next + reopens (rest.take j) = s.next + reopens ((op :: rest).take (j + 1)) := by
          cases op with
          | io isSend ans =>
            simp only [sessStep, List.take_succ_cons, reopens]
            cases s.cur with
            | none => rfl
            | some k0 => cases ans <;> rfl
          | close => simp [sessStep, reopens]
          | reopen => simp only [sessStep, List.take_succ_cons, reopens]; omega
        simp only [sessRun, List.getElem_cons_succ]
        rw [← hnext]
        exact this
  intro i h
  have := key { tls := tls } ops (fun k hk => by simp at hk) i h
  simpa using this

/-- non-vacuity: a TLS client uses socket 0, is cut off by a reset, closes, re-opens, and the would-block of
socket 1 is answered from a clean state -/
example :
    sessRun .fixed2 { tls := true }
      [.reopen, .io true none, .io false (some ⟨.osError, ECONNRESET⟩), .close, .io false none, .reopen,
       .io false (some ⟨.sslWantRead, 2⟩), .io true none]
    = [.opened 0, .done 0, .classified 0 .emptyBytes true, .closed, .noSocket, .opened 1,
       .classified 1 .noneVal false, .done 1] := by decide

/-! ## the code as found (what the two patches change) -/

/-- D26 as found: `ssl.SSLEOFError` sits in the tuple as a class, `ex.args[0]` is the number 8, so a
TLS EOF is re-raised by all four TLS data ladders -/
theorem C25_D26_orig_reraises_tls_eof :
    ∀ site ∈ [Site.clientTlsRecv, .clientTlsSend, .incomerTlsRecv, .incomerTlsSend],
      classify .orig site ⟨.sslEof, SSL_ERROR_EOF⟩ = .raise := by decide

/-- D13 as found: `ex.args[0] == (tuple)` is never true, so every loss errno out of `recvfrom` is fatal -/
theorem C25_D13_orig_receive_fatal :
    ∀ n ∈ lossErrnos, classify .orig .gramRecv ⟨.osError, n⟩ = .raise := by decide

/-- outside those three places the repaired and the original ladders agree, for every exception -/
theorem C25_fix_changes_nothing_else (site : Site) (e : Err)
    (h1 : ¬ (site.isTls = true ∧ site.isData = true ∧ e.cls = .sslEof))
    (h2 : site ≠ .gramRecv) (h3 : tlsNumberClash site e = false) :
    classify .fixed2 site e = classify .orig site e := by
  obtain ⟨cls, n⟩ := e
  cases site <;> first
    | rfl
    | exact absurd rfl h2
    | (simp only [classify, tlsLadder, tlsLossOrig, inTuple, List.any_append, List.any_cons,
         List.any_nil, Item.eqInt, Bool.or_false]
       simp only [tlsNumberClash, Site.isTls, Site.isData, Bool.true_and] at h3
       cases cls <;> simp_all [Site.isTls, Site.isData, ExcClass.isSsl, ExcClass.isOs, tlsBlock, inTuple, Item.eqInt])

/-! ## connect -/

/-- `Client.accept`: a `connect_ex` result is never raised; only 0 and EISCONN count as connected;
EINVAL and ECONNREFUSED reopen the socket -/
theorem C25_connect_classified (code : Nat) :
    (connect code = .accepted ↔ (code = 0 ∨ code = EISCONN)) ∧
    (connect code = .reopenRetry ↔ (code = EINVAL ∨ code = ECONNREFUSED)) := by
  simp only [connect, inTuple, List.any_cons, List.any_nil, Item.eqInt, Bool.or_false]
  by_cases h0 : code = 0
  · subst h0; decide
  · by_cases h1 : code = EISCONN
    · subst h1; decide
    · by_cases h2 : code = EINVAL
      · subst h2; decide
      · by_cases h3 : code = ECONNREFUSED
        · subst h3; decide
        · simp [h0, h1, h2, h3]

end Ioflo.Errno
