import IofloModel.Lemmas.Server
/-!
# C26 — a TCP server keeps one live connection entry per peer address

Property theorems only.  Model: `Model/Server.lean` (`Server` / `ServerTls` accept queue, `.axes`,
`.ixes`, `.cxes`, `removeIx` / `closeIx` / `shutdownIx`, TLS handshake move), version `fixed2` = with
`fixes/D14-*.patch` (`self.shutdownIx(ca)`) and `fixes/D14b-*.patch` (ServerTls shuts a stale incomer
down before replacing it); `orig` = the code as found, `fixed` = with D14 only.
-/
namespace Ioflo.Server

/-! ## the table, over all histories -/

/-- **C26, one entry per address.** For every history of arrivals (repeated peers included),
accept / handshake / service calls, closes, shutdowns and removals, on `Server` and `ServerTls`, in
both versions: no address occurs twice in `.ixes` (nor in `.cxes`). -/
theorem C26_ixes_keys_unique (v : Version) (tls : Bool) (eha : Addr) (ops : List Op) :
    ((run v (init tls eha) ops).ixes.map (·.1)).Nodup ∧
    ((run v (init tls eha) ops).cxes.map (·.1)).Nodup :=
  let h := inv_run v _ ops (inv_init tls eha)
  ⟨h.ixKeys, h.cxKeys⟩

/-- **C26, the entry under an address is a connection to that address**: its incomer's `.ca` is the
key and `getpeername()` of the socket it was built around is the key. -/
theorem C26_entries_match_peer (v : Version) (tls : Bool) (eha : Addr) (ops : List Op) :
    ∀ e ∈ (run v (init tls eha) ops).ixes ++ (run v (init tls eha) ops).cxes,
      e.2.ca = e.1 ∧ ((run v (init tls eha) ops).socks[e.2.sock]?).map (·.peer) = some e.1 := by
  intro e he
  have h := inv_run v _ ops (inv_init tls eha)
  rcases List.mem_append.mp he with he | he
  · exact h.ixEnt e he
  · exact h.cxEnt e he

/-- **C26, one entry per connection**: two entries of the table never wrap the same socket — if they
do they are the same entry. -/
theorem C26_no_shared_socket (v : Version) (tls : Bool) (eha : Addr) (ops : List Op) :
    ∀ e1 ∈ (run v (init tls eha) ops).ixes, ∀ e2 ∈ (run v (init tls eha) ops).ixes,
      e1.2.sock = e2.2.sock → e1 = e2 := by
  intro e1 h1 e2 h2 hs
  have h := inv_run v _ ops (inv_init tls eha)
  have p1 := (h.ixEnt e1 h1).2
  have p2 := (h.ixEnt e2 h2).2
  rw [hs] at p1
  have hk : e1.1 = e2.1 := Option.some.inj (p1.symm.trans p2)
  have g1 := get?_of_mem_nodup h.ixKeys (show (e1.1, e1.2) ∈ _ from h1)
  have g2 := get?_of_mem_nodup h.ixKeys (show (e2.1, e2.2) ∈ _ from h2)
  rw [hk] at g1
  have hv : e1.2 = e2.2 := Option.some.inj (g1.symm.trans g2)
  exact Prod.ext hk hv

/-- non-vacuity: three arrivals from two addresses, the repeated one replaced -/
example :
    let s := run .fixed2 (init false 9)
      [.arrive 5 9 5 [], .arrive 6 9 6 [], .serviceConnects, .arrive 5 9 5 [], .serviceConnects]
    s.ixes = [(5, { sock := 2, ca := 5 }), (6, { sock := 1, ca := 6 })] ∧
      (s.socks.map (·.shutdowns)) = [1, 0, 0] := by decide

/-! ## accepting from an address that still has an entry -/

/-- `admitOne` on a plain `Server` for a well-formed accepted socket, unfolded -/
theorem admit_plain (v : Version) (s : State) (cs : Nat) (k : Sock)
    (htls : s.tls = false) (hk : s.socks[cs]? = some k) :
    admitOne v s cs k.peer =
      match get? s.ixes k.peer with
      | some old =>
        match v with
        | .orig => .raised .typeError s
        | _ => .ok { s with socks := shutdownIncomer s.socks old,
                                 ixes := put s.ixes k.peer { sock := cs, ca := k.peer },
                                 admitted := s.admitted ++ [cs] }
      | none => .ok { s with ixes := put s.ixes k.peer { sock := cs, ca := k.peer },
                             admitted := s.admitted ++ [cs] } := by
  have hchk : ¬ (k.peer ≠ k.peer ∨ (s.tls = true ∧ s.eha ≠ k.sockname)) := by simp [htls]
  unfold admitOne
  simp only [hk]
  rw [if_neg hchk]
  cases hg : get? s.ixes k.peer <;> cases v <;> simp [htls]

/-- **C26, replacement** (`Server`, with the D14 repair): when the accepted socket `cs` reports the
address `ca` it was accepted from and `.ixes` still holds an entry `old` for `ca`, then nothing is
raised, `old`'s socket gets a `shutdown()` (if `old` still had one), the entry under `ca` now wraps
`cs`, `ca` keeps its place in the table and every other entry is untouched. -/
theorem C26_accept_replaces_stale (s : State) (cs : Nat) (ca : Addr) (k : Sock) (old : Incomer)
    (htls : s.tls = false) (hk : s.socks[cs]? = some k) (hpeer : k.peer = ca)
    (hold : get? s.ixes ca = some old) :
    (admitOne .fixed2 s cs ca).exc = none ∧
      get? (admitOne .fixed2 s cs ca).state.ixes ca = some { sock := cs, ca := ca } ∧
      (admitOne .fixed2 s cs ca).state.ixes.map (·.1) = s.ixes.map (·.1) ∧
      (∀ ca', ca' ≠ ca → get? (admitOne .fixed2 s cs ca).state.ixes ca' = get? s.ixes ca') ∧
      (old.hasCs = true → ∀ j : Nat,
        ((admitOne .fixed2 s cs ca).state.socks[j]?).map (fun x : Sock => x.shutdowns) =
          if j = old.sock then (s.socks[j]?).map (fun x : Sock => x.shutdowns + 1)
          else (s.socks[j]?).map (fun x : Sock => x.shutdowns)) ∧
      (∀ j : Nat, ((admitOne .fixed2 s cs ca).state.socks[j]?).map (fun x : Sock => x.closed)
        = (s.socks[j]?).map (fun x : Sock => x.closed)) := by
  subst hpeer
  rw [admit_plain .fixed2 s cs k htls hk, hold]
  refine ⟨rfl, get?_put_self _ _ _, ?_, fun ca' hne => get?_put_ne _ _ hne, ?_, ?_⟩
  · show (put s.ixes k.peer _).map (·.1) = _
    rw [keys_put]
    have : k.peer ∈ s.ixes.map (·.1) := List.mem_map.mpr ⟨(k.peer, old), get?_some_mem hold, rfl⟩
    simp [this]
  · intro hcs j
    show ((shutdownIncomer s.socks old)[j]?).map _ = _
    simp only [shutdownIncomer, hcs, if_true, getElem?_upd]
    split
    · cases s.socks[j]? <;> rfl
    · rfl
  · intro j
    show ((shutdownIncomer s.socks old)[j]?).map _ = _
    unfold shutdownIncomer
    split
    · rw [getElem?_upd]; split
      · cases s.socks[j]? <;> rfl
      · rfl
    · rfl

/-- non-vacuity of the hypotheses -/
example :
    let s := run .fixed2 (init false 9) [.arrive 5 9 5 [], .serviceConnects, .arrive 5 9 5 [], .serviceAccepts]
    s.tls = false ∧ s.socks[1]? = some { peer := 5, sockname := 9 } ∧
      get? s.ixes 5 = some { sock := 0, ca := 5 } ∧ s.axes = [(1, 5)] := by decide

/-- **D14 as found**: in the same situation the unrepaired `serviceAxes` raises `TypeError`
(`self.shutdownIx[ca]` subscripts a bound method); the new connection is neither entered nor closed. -/
theorem C26_D14_orig_raises (s : State) (cs : Nat) (ca : Addr) (k : Sock) (old : Incomer)
    (htls : s.tls = false) (hk : s.socks[cs]? = some k) (hpeer : k.peer = ca)
    (hold : get? s.ixes ca = some old) :
    admitOne .orig s cs ca = .raised .typeError s := by
  subst hpeer
  rw [admit_plain .orig s cs k htls hk, hold]

/-- a first connection from an address is simply entered (both versions, nothing else touched) -/
theorem C26_accept_new (v : Version) (s : State) (cs : Nat) (ca : Addr) (k : Sock)
    (htls : s.tls = false) (hk : s.socks[cs]? = some k) (hpeer : k.peer = ca)
    (hnew : get? s.ixes ca = none) :
    (admitOne v s cs ca).exc = none ∧
      get? (admitOne v s cs ca).state.ixes ca = some { sock := cs, ca := ca } ∧
      (admitOne v s cs ca).state.ixes.map (·.1) = s.ixes.map (·.1) ++ [ca] ∧
      (admitOne v s cs ca).state.socks = s.socks := by
  subst hpeer
  rw [admit_plain v s cs k htls hk, hnew]
  refine ⟨rfl, get?_put_self _ _ _, ?_, rfl⟩
  show (put s.ixes k.peer _).map (·.1) = _
  rw [keys_put]; simp [get?_none_not_mem hnew]

/-- an accepted socket whose reported address is not its peer address is refused with `ValueError`
and changes nothing -/
theorem C26_malformed_refused (v : Version) (s : State) (cs : Nat) (ca : Addr) (k : Sock)
    (hk : s.socks[cs]? = some k) (hbad : ca ≠ k.peer) : admitOne v s cs ca = .raised .valueError s := by
  simp only [admitOne, hk, hbad, ne_eq, not_false_eq_true, true_or, if_true]

/-! ## removing, closing -/

/-- **C26, removal closes.** `removeIx(ca)` on a present address: the entry is gone, its socket has
been shut down and closed (if the incomer still had it), every other entry and socket is untouched;
on an absent address: `ValueError`, nothing changed. -/
theorem C26_remove_closes (s : State) (ca : Addr) (hn : (s.ixes.map (·.1)).Nodup) :
    (∀ ix, get? s.ixes ca = some ix →
      (removeIx s ca true).exc = none ∧ get? (removeIx s ca true).state.ixes ca = none ∧
        (∀ ca', ca' ≠ ca → get? (removeIx s ca true).state.ixes ca' = get? s.ixes ca') ∧
        (ix.hasCs = true → ∀ j : Nat,
          ((removeIx s ca true).state.socks[j]?).map (fun x : Sock => x.closed) =
            if j = ix.sock then (s.socks[j]?).map (fun _ => true)
            else (s.socks[j]?).map (fun x : Sock => x.closed))) ∧
    (get? s.ixes ca = none → ∀ sc, removeIx s ca sc = .raised .valueError s) := by
  constructor
  · intro ix hix
    have hr : removeIx s ca true =
        .ok { s with socks := (shutcloseIncomer s.socks ix).1, ixes := del s.ixes ca } := by
      simp only [removeIx, hix, if_true]
    rw [hr]
    refine ⟨rfl, get?_del_self ca hn, fun ca' hne => get?_del_ne _ hne, ?_⟩
    intro hcs j
    show ((shutcloseIncomer s.socks ix).1[j]?).map _ = _
    simp only [shutcloseIncomer, hcs, if_true, getElem?_upd]
    split
    · cases s.socks[j]? <;> rfl
    · rfl
  · intro hnone sc
    simp only [removeIx, hnone]

/-- `closeIx(ca)` closes the socket but leaves the (now stale) entry in the table, in place -/
theorem C26_close_keeps_entry (s : State) (ca : Addr) (ix : Incomer) (hix : get? s.ixes ca = some ix) :
    (closeIx s ca).exc = none ∧ (closeIx s ca).state.ixes.map (·.1) = s.ixes.map (·.1) ∧
      (∃ ix', get? (closeIx s ca).state.ixes ca = some ix' ∧ ix'.sock = ix.sock ∧ ix'.hasCs = false) := by
  have hr : closeIx s ca = .ok { s with
      socks := (shutcloseIncomer s.socks ix).fst,
      ixes := put s.ixes ca (shutcloseIncomer s.socks ix).snd } := by
    simp only [closeIx, hix]
  rw [hr]
  refine ⟨rfl, ?_, _, get?_put_self _ _ _, (shutcloseIncomer_ix _ _).1, (shutcloseIncomer_ix _ _).2.2⟩
  show (put s.ixes ca _).map (·.1) = _
  rw [keys_put]
  have : ca ∈ s.ixes.map (·.1) := List.mem_map.mpr ⟨(ca, ix), get?_some_mem hix, rfl⟩
  simp [this]

example :
    let s := run .fixed2 (init false 9) [.arrive 5 9 5 [], .arrive 6 9 6 [], .serviceConnects, .removeIx 5 true]
    s.ixes = [(6, { sock := 1, ca := 6 })] ∧ s.socks.map (·.closed) = [true, false] := by decide

/-! ## TLS: the handshake moves an entry from `.cxes` to `.ixes` -/

/-- **C26, TLS move.** One `serviceHandshake` on the pending entry `(ca, cx)`: if `do_handshake`
completes, `cx` (now connected) is the entry of `.ixes` under `ca` and `.cxes` has no entry for `ca`;
if it wants more I/O nothing moves. -/
theorem C26_tls_handshake_moves (v : Version) (s : State) (ca : Addr) (cx : Incomer) (k : Sock)
    (hn : (s.cxes.map (·.1)).Nodup) (hc : cx.connected = false) (hcs : cx.hasCs = true)
    (hk : s.socks[cx.sock]? = some k) :
    (k.hs.headD .want = .done →
      (shakeOne v s ca cx).exc = none ∧
        get? (shakeOne v s ca cx).state.ixes ca = some { cx with connected := true } ∧
        get? (shakeOne v s ca cx).state.cxes ca = none) ∧
    (k.hs.headD .want = .want →
      (shakeOne v s ca cx).exc = none ∧ (shakeOne v s ca cx).state.ixes = s.ixes ∧
        (shakeOne v s ca cx).state.cxes = s.cxes) := by
  constructor
  · intro hd
    have hr : shakeOne v s ca cx = .ok { s with
        socks := shutStale v (upd s.socks cx.sock (fun k => { k with hs := k.hs.tail })) s.ixes ca,
        ixes := put s.ixes ca { cx with connected := true }, cxes := del s.cxes ca } := by
      simp only [shakeOne, hc, hcs, hk, hd, Bool.false_eq_true, if_false, Bool.not_true]
    rw [hr]
    exact ⟨rfl, get?_put_self _ _ _, get?_del_self ca hn⟩
  · intro hw
    have hr : shakeOne v s ca cx = .ok { s with
        socks := upd s.socks cx.sock (fun k => { k with hs := k.hs.tail }) } := by
      simp only [shakeOne, hc, hcs, hk, hw, Bool.false_eq_true, if_false, Bool.not_true]
    rw [hr]
    exact ⟨rfl, rfl, rfl⟩

example :
    let s := run .fixed2 (init true 9)
      [.arrive 5 9 5 [.want, .done], .arrive 6 9 6 [], .serviceConnects, .serviceConnects]
    s.ixes = [(5, { sock := 0, ca := 5, connected := true })] ∧
      s.cxes = [(6, { sock := 1, ca := 6 })] := by decide

/-! ## no connection leaves the table without being shut down -/

/-- **C26, stale connections are shut down** (with the D14 and D14b repairs) — `Server` and `ServerTls`,
every history (arrivals with repeated addresses, accepts, handshakes that complete, stall or fail,
closes, shutdowns, removals, service calls): every socket that was ever entered into `.ixes` or `.cxes`
is still the socket of a live entry, or has received `shutdown()` / `close()`, or was handed back by
`removeIx(ca, shutclose=False)`. -/
theorem C26_displaced_are_shut (tls : Bool) (eha : Addr) (ops : List Op) :
    ∀ id ∈ (run .fixed2 (init tls eha) ops).admitted,
      heldBy ((run .fixed2 (init tls eha) ops).ixes ++ (run .fixed2 (init tls eha) ops).cxes) id ∨
      isShut (run .fixed2 (init tls eha) ops).socks id ∨
      id ∈ (run .fixed2 (init tls eha) ops).released :=
  (acc_run (init tls eha) ops ⟨inv_init tls eha, fun _ h => (nomatch h)⟩).acc

/-- non-vacuity (plain): socket 0 was displaced by socket 2 and is shut; 1 and 2 are live entries -/
example :
    let s := run .fixed2 (init false 9)
      [.arrive 5 9 5 [], .arrive 6 9 6 [], .serviceConnects, .arrive 5 9 5 [], .serviceConnects]
    s.admitted = [0, 1, 2] ∧ (s.socks.map (·.shutdowns)) = [1, 0, 0] ∧
      s.ixes.map (·.2.sock) = [2, 1] := by decide

/-- non-vacuity (TLS): the stale established connection 0 is shut down when 1 completes its handshake;
the stalled handshake 2 is shut down when 3 arrives from the same address -/
example :
    let s := run .fixed2 (init true 9)
      [.arrive 5 9 5 [.done], .serviceConnects, .arrive 5 9 5 [.done], .serviceConnects,
       .arrive 6 9 6 [.want, .want], .serviceConnects, .arrive 6 9 6 [.want], .serviceConnects]
    s.ixes.map (·.2.sock) = [1] ∧ s.cxes.map (·.2.sock) = [3] ∧
      (s.socks.map (·.shutdowns)) = [1, 0, 1, 0] := by decide

/-- **D14b before the repair** (version `fixed` = D14 only): `ServerTls` entered the handshaked
connection with `self.ixes[ca] = cx` and nothing else — the stale entry's socket 0 is dropped from the
table neither shut down nor closed nor released. -/
theorem C26_D14b_orig_tls_stale_not_shut :
    let s := run .fixed (init true 9)
      [.arrive 5 9 5 [.done], .serviceConnects, .arrive 5 9 5 [.done], .serviceConnects]
    0 ∈ s.admitted ∧ s.ixes = [(5, { sock := 1, ca := 5, connected := true })] ∧ s.cxes = [] ∧
      s.socks[0]? = some { peer := 5, sockname := 9 } ∧ s.released = [] := by decide

end Ioflo.Server
