import IofloModel.Lemmas.Reconnect
/-!
# C27 — reconnectable clients and stacks eventually reconnect

Property theorems only.  Model: `Model/Reconnect.lean` (connection management of `tcp/clienting.Client`,
`TcpClientStack.serviceConnect`, the connection part of http `Patron.serviceAll`; exact time).

The environment (hypotheses, not proved): `Listening k ansOf` — the server listens and the `k`-th
`connect_ex` on any one socket succeeds, none before is refused; `Paced slack dts` — the first `k-1`
service calls after a reopen come before the reconnect timer fires again.  Under them the bounded
liveness is proved (`C27_reconnects_within_partial`, `C27_stack_…`, `C27_patron_…`).  Without pacing
the statement is false on this code (`C27_counterexample_livelock`, known finding D28).  Before fix D27 a
bare `Client` that was cut off was never reopened by `Client.serviceConnect`
(`C27_counterexample_asis_bare_stays_cut_off`); the model describes the repaired call
(`C27_bare_reconnects_after_cutoff`).
-/
namespace Ioflo.Reconnect

/-! ## bounded liveness -/

/-- **Reconnects within `k` service calls of a timer-driven reopen** (bare client, stack, patron).
From the state such a reopen leaves — fresh socket `id`, timer restarted now — with a listening server
of latency `k` and a paced schedule of `k` rounds, the client is connected (and not cut off) on that
socket, reports that socket's address, and the stack's `local.ha` is that address. -/
theorem C27_reconnects_within_partial (kind : Kind) (k : Nat) (ansOf : Nat → Nat) (c : Client) (id : Nat)
    (dts : List Int) (hL : Listening k ansOf) (hJ : JustReopened c id) (hlen : dts.length = k)
    (hP : Paced c.timer.duration dts) :
    (runListening ansOf kind c dts).accepted = true ∧ (runListening ansOf kind c dts).cutoff = false ∧
    (runListening ansOf kind c dts).sock = some id ∧ (runListening ansOf kind c dts).ca = some id ∧
    (kind = .stack → (runListening ansOf kind c dts).localHa = some id) := by
  obtain ⟨h1, h2, h3, h4, h5⟩ := hJ
  apply reconnect_core k ansOf kind hL id dts c h1 h3 h4 (by rw [h2, hlen]; omega) (by rw [hlen]; exact hL.1)
  intro _ _
  have : c.timer.stop - c.now = c.timer.duration := by omega
  rw [this]; exact hP

/-- non-vacuity: timeout 0.2 s, server latency 3 calls, a call every 0.05 s -/
example :
    let c := (reopenRestart (Client.init 205 true) none).1
    JustReopened c 1 ∧ Paced c.timer.duration [51, 51, 51] ∧
    (runListening (fun n => if n + 1 ≥ 3 then 0 else 115) .bare c [51, 51, 51]).live = true := by
  refine ⟨by decide, by decide, by decide⟩

/-- The call at which the reconnect timer is found expired leaves exactly that state (bare client:
the attempt of this call is still in progress or times out, the timer has fired). -/
theorem C27_timer_reopen_restarts (c : Client) (ans : Nat → Nat) (id : Nat)
    (hs : c.sock = some id) (ha : c.accepted = false) (hx : c.cutoff = false) (hr : c.reconnectable = true)
    (hn : ¬ isOk (ans c.attempts)) (hnr : notRefused (ans c.attempts)) (hf : timerFired c = true) :
    JustReopened (serviceConnect c ans).1 c.fresh ∧ (serviceConnect c ans).1.now = c.now ∧
    (serviceConnect c ans).1.timer.duration = c.timer.duration ∧
    (serviceConnect c ans).1.reconnectable = true ∧ (serviceConnect c ans).1.timeout = c.timeout := by
  have hacc := accept_open c ans id hs
  have h1 : ¬ (ans c.attempts = 0 ∨ ans c.attempts = EISCONN) := hn
  have h2 : ¬ (ans c.attempts = EINVAL ∨ ans c.attempts = ECONNREFUSED) := by
    intro h; rcases h with h | h
    · exact hnr.1 h
    · exact hnr.2 h
  rw [if_neg h1, if_neg h2] at hacc
  have hna : (!c.accepted) = true := by simp [ha]
  rw [serviceConnect_not_cutoff c ans hx]
  unfold serviceConnectAsIs
  rw [if_pos hna]
  generalize accept c ans = r at hacc
  obtain ⟨c1, e1⟩ := r
  simp only at hacc
  subst hacc
  have hcond : (!({ c with attempts := c.attempts + 1 } : Client).accepted &&
      ({ c with attempts := c.attempts + 1 } : Client).reconnectable &&
      timerFired { c with attempts := c.attempts + 1 }) = true := by
    show (!c.accepted && c.reconnectable && timerFired { c with attempts := c.attempts + 1 }) = true
    rw [show timerFired { c with attempts := c.attempts + 1 } = timerFired c from rfl, hf, ha, hr]; rfl
  simp only []
  rw [if_pos hcond]
  obtain ⟨j, n, rr, tt, _, d⟩ := reopenRestart_spec { c with attempts := c.attempts + 1 } none
  exact ⟨j, n, d, by rw [rr]; exact hr, tt⟩

/-- **The first service call at which the reconnect timer has expired and the connection attempt does
not succeed leaves the just-reopened state** — from *any* unconnected state of a reconnectable client
(socket open or closed, attempt refused, in progress or timed out). -/
theorem C27_timer_reopen_restarts_any (c : Client) (ans : Nat → Nat)
    (ha : c.accepted = false) (hx : c.cutoff = false) (hr : c.reconnectable = true)
    (hn : ¬ isOk (ans (nextAttempt c))) (hf : timerFired c = true) :
    ∃ id, JustReopened (serviceConnect c ans).1 id ∧ (serviceConnect c ans).1.now = c.now ∧
      (serviceConnect c ans).1.timer.duration = c.timer.duration ∧
      (serviceConnect c ans).1.reconnectable = true ∧ (serviceConnect c ans).1.timeout = c.timeout := by
  obtain ⟨a1, a2, a3, a4, a5⟩ := accept_not_ok c ans hn ha
  have hna : (!c.accepted) = true := by simp [ha]
  rw [serviceConnect_not_cutoff c ans hx]
  unfold serviceConnectAsIs
  rw [if_pos hna]
  generalize accept c ans = r at a1 a2 a3 a4 a5
  obtain ⟨c1, e1⟩ := r
  simp only at a1 a2 a3 a4 a5 ⊢
  have hf1 : timerFired c1 = true := by
    rw [timerFired_iff] at hf ⊢
    rw [a2, a3, a4]; exact hf
  have hcond : (!c1.accepted && c1.reconnectable && timerFired c1) = true := by
    rw [a1, a5, hr, hf1]; rfl
  rw [if_pos hcond]
  obtain ⟨j, n, rr, tt, _, d⟩ := reopenRestart_spec c1 none
  exact ⟨c1.fresh, j, by rw [n, a2], by rw [d, a4], by rw [rr, a5]; exact hr, by rw [tt, a3]⟩

/-- **End to end, bare client that failed to connect**: reconnectable, not connected (whatever its
socket's state), a listening server of latency `k`; at the first call at which the reconnect timer has
expired (round `d0`) the client either connects or reopens, and the next `k` paced calls connect it:
live after `k + 1` calls. -/
theorem C27_bare_reconnects_after_timer (k : Nat) (ansOf : Nat → Nat) (c : Client) (d0 : Int) (dts : List Int)
    (hL : Listening k ansOf) (ha : c.accepted = false) (hx : c.cutoff = false) (hr : c.reconnectable = true)
    (ht : 0 < c.timeout) (he : c.timer.stop ≤ c.now + d0) (hlen : dts.length = k)
    (hP : Paced c.timer.duration dts) :
    (runListening ansOf .bare c (d0 :: dts)).live = true := by
  let c0 : Client := { c with now := c.now + d0 }
  have hfire : timerFired c0 = true := (timerFired_iff c0).mpr ⟨ht, he⟩
  have ha0 : c0.accepted = false := ha
  have hx0 : c0.cutoff = false := hx
  unfold runListening
  simp only [Kind.service]
  rw [show ({ c with now := c.now + d0 } : Client) = c0 from rfl]
  by_cases hok : isOk (ansOf (nextAttempt c0))
  · obtain ⟨h1, h2⟩ := serviceConnect_ok c0 ansOf ha0 hok
    rw [← serviceConnect_not_cutoff c0 ansOf hx0] at h1 h2
    obtain ⟨l1, l2, _⟩ := runListening_live ansOf .bare dts (serviceConnect c0 ansOf).1 h1 h2
    simp [Client.live, l1, l2]
  · obtain ⟨id, hj, _, hd, _, _⟩ := C27_timer_reopen_restarts_any c0 ansOf ha0 hx0 hr hok hfire
    have := C27_reconnects_within_partial .bare k ansOf (serviceConnect c0 ansOf).1 id dts hL hj hlen
      (by rw [hd]; exact hP)
    simp [Client.live, this.1, this.2.1]


/-- a listening server of latency two (EINPROGRESS, then success) -/
def twoCallServer' (n : Nat) : Nat := if n + 1 ≥ 2 then 0 else 115

/-- non-vacuity: the server was down (refused), comes up; timeout 0.2 s, latency 2 calls, a call every 0.05 s -/
example :
    let c := (run (Client.init 205 true) [.clientServiceConnect 111, .advance 100, .clientServiceConnect 111]).1
    c.accepted = false ∧ (runListening twoCallServer' .bare c [110, 51, 51]).live = true := by decide

/-- **A cut off stack reconnects**: reconnectable handler, cut off; the first call at which the timer
has expired reopens (round `d0`), the next `k` paced calls connect: `k + 1` calls in all. -/
theorem C27_stack_reconnects_after_cutoff (k : Nat) (ansOf : Nat → Nat) (c : Client) (d0 : Int) (dts : List Int)
    (hL : Listening k ansOf) (hx : c.cutoff = true) (hr : c.reconnectable = true) (ht : 0 < c.timeout)
    (he : c.timer.stop ≤ c.now + d0) (hlen : dts.length = k) (hP : Paced c.timer.duration dts) :
    (runListening ansOf .stack c (d0 :: dts)).accepted = true ∧
    (runListening ansOf .stack c (d0 :: dts)).cutoff = false ∧
    (runListening ansOf .stack c (d0 :: dts)).sock = some c.fresh ∧
    (runListening ansOf .stack c (d0 :: dts)).ca = some c.fresh ∧
    (runListening ansOf .stack c (d0 :: dts)).localHa = some c.fresh := by
  let c0 : Client := { c with now := c.now + d0 }
  have hfire : timerFired c0 = true := (timerFired_iff c0).mpr ⟨ht, he⟩
  have hx0 : c0.cutoff = true := hx
  have hr0 : c0.reconnectable = true := hr
  have hstep : (Kind.service .stack c0 ansOf).1 = (reopenRestart c0 none).1 := by
    show (stackServiceConnect c0 ansOf).1 = _
    unfold stackServiceConnect cutoffPart
    rw [if_pos hx0, if_pos (by rw [hx0, hr0, hfire]; rfl)]
  obtain ⟨hj, _, _, _, _, hd⟩ := reopenRestart_spec c0 none
  unfold runListening
  rw [show ({ c with now := c.now + d0 } : Client) = c0 from rfl, hstep]
  have := C27_reconnects_within_partial .stack k ansOf (reopenRestart c0 none).1 c0.fresh dts hL hj hlen
    (by rw [hd]; exact hP)
  exact ⟨this.1, this.2.1, this.2.2.1, this.2.2.2.1, this.2.2.2.2 rfl⟩

example :
    let c : Client := { Client.init 205 true with accepted := true, cutoff := true, ca := some 0, now := 5000 }
    (runListening (fun n => if n + 1 ≥ 2 then 0 else 115) .stack c [10, 100, 100]).live = true ∧
    (runListening (fun n => if n + 1 ≥ 2 then 0 else 115) .stack c [10, 100, 100]).localHa = some 1 := by
  decide

/-- **A cut off http client (Patron) reconnects**: `serviceAll` reopens and tries in the same call, so
`k` calls from the first one at which the timer has expired (`dts` = the `k - 1` later rounds). -/
theorem C27_patron_reconnects_after_cutoff (k : Nat) (ansOf : Nat → Nat) (c : Client) (d0 : Int) (dts : List Int)
    (hL : Listening k ansOf) (hx : c.cutoff = true) (hr : c.reconnectable = true) (ht : 0 < c.timeout)
    (he : c.timer.stop ≤ c.now + d0) (hlen : dts.length + 1 = k)
    (hP : Paced (match c.retry with | some x => iabs x | none => c.timer.duration) (0 :: dts)) :
    (runListening ansOf .patron c (d0 :: dts)).accepted = true ∧
    (runListening ansOf .patron c (d0 :: dts)).cutoff = false ∧
    (runListening ansOf .patron c (d0 :: dts)).sock = some c.fresh ∧
    (runListening ansOf .patron c (d0 :: dts)).ca = some c.fresh := by
  let c0 : Client := { c with now := c.now + d0 }
  have hfire : timerFired c0 = true := (timerFired_iff c0).mpr ⟨ht, he⟩
  obtain ⟨hj, hnow, _, _, _, hd⟩ := reopenRestart_spec c0 c0.retry
  -- the cut-off part of this call
  have hx0 : c0.cutoff = true := hx
  have hr0 : c0.reconnectable = true := hr
  have hcp : cutoffPart c0 c0.retry = reopenRestart c0 c0.retry := by
    unfold cutoffPart
    rw [if_pos (by rw [hx0, hr0, hfire]; rfl)]
  -- this call = cut-off part, then an ordinary patron call on the reopened client at the same time
  have hsplit : (Kind.service .patron c0 ansOf).1 =
      (Kind.service .patron { (reopenRestart c0 c0.retry).1 with now := (reopenRestart c0 c0.retry).1.now + 0 } ansOf).1 := by
    have e0 : ({ (reopenRestart c0 c0.retry).1 with now := (reopenRestart c0 c0.retry).1.now + 0 } : Client)
        = (reopenRestart c0 c0.retry).1 := by simp
    rw [e0]
    simp only [Kind.service]
    rw [patron_not_cutoff _ ansOf hj.2.2.2.1 hj.2.2.1]
    unfold patronConnect
    rw [hcp]
    generalize reopenRestart c0 c0.retry = r at hj
    obtain ⟨c1, e1⟩ := r
    simp only at hj ⊢
    simp [hj.2.2.1, serviceConnect_not_cutoff c1 ansOf hj.2.2.2.1]
  have hrun : runListening ansOf .patron c (d0 :: dts) =
      runListening ansOf .patron (reopenRestart c0 c0.retry).1 (0 :: dts) := by
    conv => lhs; unfold runListening
    conv => rhs; unfold runListening
    rw [show ({ c with now := c.now + d0 } : Client) = c0 from rfl, hsplit]
  rw [hrun]
  have := C27_reconnects_within_partial .patron k ansOf (reopenRestart c0 c0.retry).1 c0.fresh (0 :: dts) hL hj
    (by simp [hlen]) (by rw [hd]; exact hP)
  exact ⟨this.1, this.2.1, this.2.2.1, this.2.2.2.1⟩

example :
    let c : Client := { Client.init 205 true (some 512) with accepted := true, cutoff := true, ca := some 0, now := 900 }
    (runListening (fun n => if n + 1 ≥ 3 then 0 else 115) .patron c [0, 200, 200]).live = true := by
  decide

/-! ## what a connected client reports -/

/-- **It reports the live socket's address**: in every reachable state (any history of service calls,
losses, owner close/reopen, any answers) a connected client holds a socket and `.ca` is that socket's
address. -/
theorem C27_reports_live_addresses (timeout : Int) (rec : Bool) (retry : Option Int) (ops : List Op) :
    (run (Client.init timeout rec retry) ops).1.accepted = true →
      (run (Client.init timeout rec retry) ops).1.sock.isSome = true ∧
      (run (Client.init timeout rec retry) ops).1.ca = (run (Client.init timeout rec retry) ops).1.sock :=
  run_addr ops (Client.init timeout rec retry) (by intro h; cases h)

/-- the stack copies it: when `TcpClientStack.serviceConnect` connects, `local.ha` is that address -/
theorem C27_stack_local_ha (c : Client) (ans : Nat → Nat) (hx : c.cutoff = false) (ha : c.accepted = false)
    (hc : (stackServiceConnect c ans).1.accepted = true) :
    (stackServiceConnect c ans).1.localHa = (stackServiceConnect c ans).1.ca := by
  rw [stack_not_cutoff c ans hx ha] at hc ⊢
  by_cases h : (serviceConnectAsIs c ans).1.accepted = true
  · simp [h]
  · simp only [h] at hc
    exact absurd hc h

/-! ## not reconnectable -/

def Op.isService : Op → Bool
  | .advance _ | .clientServiceConnect _ | .stackServiceConnect _ | .patronConnect _ | .loss => true
  | _ => false

/-- **A client that is not reconnectable never reopens on its own after a cut off**: over every
history of service calls (of all three kinds), passing time and further loss reports, no socket is
opened or closed and the client stays as it is. -/
theorem C27_non_reconnectable_stays_closed (ops : List Op) : ∀ (c : Client),
    c.reconnectable = false → c.accepted = true → c.cutoff = true → ops.all Op.isService = true →
    (run c ops).2 = [] ∧ (run c ops).1.sock = c.sock ∧ (run c ops).1.cutoff = true ∧
    (run c ops).1.accepted = true := by
  induction ops with
  | nil => intro c _ ha hx _; exact ⟨rfl, rfl, hx, ha⟩
  | cons op ops ih =>
    intro c hr ha hx hs
    simp only [List.all_cons, Bool.and_eq_true] at hs
    have hstep : ∃ c', step c op = (c', []) ∧ c'.sock = c.sock ∧ c'.reconnectable = c.reconnectable ∧
        c'.accepted = c.accepted ∧ c'.cutoff = c.cutoff := by
      cases op with
      | advance dt => exact ⟨{ c with now := c.now + dt }, rfl, rfl, rfl, rfl, rfl⟩
      | clientServiceConnect code =>
        exact ⟨c, by simp [step, serviceConnect, serviceConnectAsIs, cutoffPart, hr, ha], rfl, rfl, rfl, rfl⟩
      | stackServiceConnect code =>
        exact ⟨c, by simp [step, stackServiceConnect, cutoffPart, hx, hr], rfl, rfl, rfl, rfl⟩
      | patronConnect code =>
        exact ⟨c, by simp [step, patronConnect, cutoffPart, hx, hr, ha], rfl, rfl, rfl, rfl⟩
      | loss =>
        exact ⟨c, by simp [step, hx], rfl, rfl, rfl, rfl⟩
      | close => simp [Op.isService] at hs
      | reopen => simp [Op.isService] at hs
    obtain ⟨c', hst, e1, e2, e3, e4⟩ := hstep
    obtain ⟨i1, i2, i3, i4⟩ := ih c' (by rw [e2]; exact hr) (by rw [e3]; exact ha) (by rw [e4]; exact hx) hs.2
    simp only [run, hst]
    exact ⟨by rw [i1]; rfl, by rw [i2, e1], i3, i4⟩

example : (run { Client.init 205 false with accepted := true, cutoff := true, ca := some 0 }
    [.advance 5000, .stackServiceConnect 0, .patronConnect 0, .clientServiceConnect 0]).2 = [] := by decide

/-- **D27 on the tree before the fix**: the old `Client.serviceConnect` did not look at `.cutoff`.  A client
that was connected and is cut off — reconnectable or not, whatever its timer says — was left exactly as
it is, without any socket activity: it was never reopened by its own service call. -/
theorem C27_counterexample_asis_bare_stays_cut_off (c : Client) (ans : Nat → Nat)
    (ha : c.accepted = true) (_hx : c.cutoff = true) : serviceConnectAsIs c ans = (c, []) := by
  simp [serviceConnectAsIs, ha]

/-- **A cut off bare client reconnects** (fix D27): reconnectable, cut off (still flagged connected or
already closed by its owner); `serviceConnect` reopens at the first call at which the timer has expired
and tries in the same call, so `k` calls from that one (`dts` = the `k - 1` later rounds). -/
theorem C27_bare_reconnects_after_cutoff (k : Nat) (ansOf : Nat → Nat) (c : Client) (d0 : Int) (dts : List Int)
    (hL : Listening k ansOf) (hx : c.cutoff = true) (hr : c.reconnectable = true) (ht : 0 < c.timeout)
    (he : c.timer.stop ≤ c.now + d0) (hlen : dts.length + 1 = k) (hP : Paced c.timer.duration (0 :: dts)) :
    (runListening ansOf .bare c (d0 :: dts)).accepted = true ∧
    (runListening ansOf .bare c (d0 :: dts)).cutoff = false ∧
    (runListening ansOf .bare c (d0 :: dts)).sock = some c.fresh ∧
    (runListening ansOf .bare c (d0 :: dts)).ca = some c.fresh := by
  let c0 : Client := { c with now := c.now + d0 }
  have hfire : timerFired c0 = true := (timerFired_iff c0).mpr ⟨ht, he⟩
  obtain ⟨hj, hnow, _, _, _, hd⟩ := reopenRestart_spec c0 none
  have hx0 : c0.cutoff = true := hx
  have hr0 : c0.reconnectable = true := hr
  have hcp : cutoffPart c0 none = reopenRestart c0 none := by
    unfold cutoffPart
    rw [if_pos (by rw [hx0, hr0, hfire]; rfl)]
  have hsplit : (Kind.service .bare c0 ansOf).1 =
      (Kind.service .bare { (reopenRestart c0 none).1 with now := (reopenRestart c0 none).1.now + 0 } ansOf).1 := by
    have e0 : ({ (reopenRestart c0 none).1 with now := (reopenRestart c0 none).1.now + 0 } : Client)
        = (reopenRestart c0 none).1 := by simp
    rw [e0]
    simp only [Kind.service]
    rw [serviceConnect_not_cutoff _ ansOf hj.2.2.2.1]
    unfold serviceConnect
    rw [hcp]
  have hrun : runListening ansOf .bare c (d0 :: dts) =
      runListening ansOf .bare (reopenRestart c0 none).1 (0 :: dts) := by
    conv => lhs; unfold runListening
    conv => rhs; unfold runListening
    rw [show ({ c with now := c.now + d0 } : Client) = c0 from rfl, hsplit]
  rw [hrun]
  have := C27_reconnects_within_partial .bare k ansOf (reopenRestart c0 none).1 c0.fresh (0 :: dts) hL hj
    (by simp [hlen]) (by rw [hd]; exact hP)
  exact ⟨this.1, this.2.1, this.2.2.1, this.2.2.2.1⟩

/-- the old witness of D27, now reconnecting: connected, the far side closes, the timeout passes -/
example : (run (Client.init 205 true) [.clientServiceConnect 0, .loss, .advance 300, .clientServiceConnect 115,
    .advance 50, .clientServiceConnect 0]).1.live = true ∧
    (serviceConnectAsIs (run (Client.init 205 true) [.clientServiceConnect 0, .loss, .advance 300]).1 (fun _ => 0)).2 = [] := by
  decide

/-! ## the TLS subclass (`ClientTls`): the same connection management with a handshake phase -/

/-- **Reusing a TLS client: `reopen` always starts from scratch** — whatever the state (connected after a
completed handshake, cut off, closed), after `reopen()` the client is neither connected nor accepted
nor cut off and holds a fresh socket.  (This is what lets `serviceConnect` connect again.) -/
theorem C27_tls_reopen_clears_connected (t : Tls) :
    (tlsReopen t).1.connected = false ∧ (tlsReopen t).1.c.accepted = false ∧ (tlsReopen t).1.c.cutoff = false ∧
    (∃ id, (tlsReopen t).1.c.sock = some id) ∧ TlsInv (tlsReopen t).1 :=
  tlsReopen_clears t

/-- **TLS client: connected means accepted on the live socket** — over every history of service calls
(with any answers of `connect_ex` and `do_handshake`, handshake failures included), losses and owner
close/reopen: `connected` implies `accepted`, a socket is held and `.ca` is that socket's address. -/
theorem C27_tls_connected_implies_accepted (timeout : Int) (rec : Bool) (retry : Option Int) (ops : List TOp) :
    (trun (Tls.init timeout rec retry) ops).1.connected = true →
      (trun (Tls.init timeout rec retry) ops).1.c.accepted = true ∧
      (trun (Tls.init timeout rec retry) ops).1.c.sock.isSome = true ∧
      (trun (Tls.init timeout rec retry) ops).1.c.ca = (trun (Tls.init timeout rec retry) ops).1.c.sock := by
  intro hc
  obtain ⟨h1, h2⟩ := trun_inv ops (Tls.init timeout rec retry) (tlsInv_of_not _ rfl rfl)
  exact ⟨h1 hc, h2 (h1 hc)⟩

/-- a TLS client reused after a completed handshake: connected, the server closes, the timeout passes,
`serviceConnect` against a server that answers at once → connected again on the new socket -/
example : (trun (Tls.init 205 true)
    [.clientServiceConnect 0 .ok, .loss, .advance 300, .clientServiceConnect 0 .ok]).1.connected = true ∧
    (trun (Tls.init 205 true)
    [.clientServiceConnect 0 .ok, .loss, .advance 300, .clientServiceConnect 0 .ok]).1.c.ca = some 1 ∧
    (trun (Tls.init 205 true)
    [.clientServiceConnect 0 .ok, .loss, .advance 300, .clientServiceConnect 115 .ok]).1.connected = false := by
  decide

/-- **A cut off TLS client reconnects** (the seeded-change scenario, immediate server): reconnectable
`ClientTls`, cut off after a completed handshake (or in any other state), reconnect timer expired; the
server accepts the connection and completes the handshake at once.  One `serviceConnect` call reopens,
connects and shakes hands: the client is connected, not cut off, on the fresh socket, and reports that
socket's address. -/
theorem C27_tls_reconnects_after_cutoff (t : Tls) (ans : Nat → Nat) (hs : Nat → Shake)
    (hx : t.c.cutoff = true) (hr : t.c.reconnectable = true) (hf : timerFired t.c = true)
    (hans : isOk (ans 0)) (hhs : hs 0 = .ok) :
    (tlsServiceConnect t ans hs).1.connected = true ∧ (tlsServiceConnect t ans hs).1.c.accepted = true ∧
    (tlsServiceConnect t ans hs).1.c.cutoff = false ∧ (tlsServiceConnect t ans hs).1.c.sock = some t.c.fresh ∧
    (tlsServiceConnect t ans hs).1.c.ca = some t.c.fresh := by
  have hcp : (tlsCutoffPart t none) = tlsReopenRestart t none := by
    unfold tlsCutoffPart
    rw [if_pos (by rw [hx, hr, hf]; rfl)]
  have hrr : (tlsReopenRestart t none).1 =
      ⟨{ t.c with accepted := false, cutoff := false, sock := some t.c.fresh, fresh := t.c.fresh + 1, attempts := 0,
                  opened := true, timer := t.c.timer.restart t.c.now none }, false, 0⟩ := by
    unfold tlsReopenRestart
    have := tlsReopen_fst t
    generalize tlsReopen t = r at this
    obtain ⟨t1, e1⟩ := r
    simp only at this
    subst this
    rfl
  unfold tlsServiceConnect
  rw [hcp]
  generalize hgen : tlsReopenRestart t none = r at hrr
  obtain ⟨t0, e0⟩ := r
  simp only at hrr
  subst hrr
  have hok : ans 0 = 0 ∨ ans 0 = EISCONN := hans
  simp [tlsConnect, accept, hok, hhs]

example :
    let t : Tls := ⟨{ Client.init 205 true with accepted := true, cutoff := true, ca := some 0, now := 900 }, true, 1⟩
    (tlsServiceConnect t (fun _ => 0) (fun _ => .ok)).1.connected = true ∧
    (tlsServiceConnect t (fun _ => 0) (fun _ => .ok)).1.c.ca = some 1 := by decide


/-- **TLS client reconnects within `a + b - 1` service calls of a timer-driven reopen**: the server
answers the `a`-th `connect_ex` on a socket and completes the TLS handshake at its `b`-th `do_handshake`
(arbitrary finite latencies; the first handshake call is made in the call that connects), the schedule is
paced like in `C27_reconnects_within_partial`.  Then the `ClientTls` is connected, accepted and not cut off
on that very socket and reports its address. -/
theorem C27_tls_reconnects_within_partial (a b : Nat) (ansOf : Nat → Nat) (hsOf : Nat → Shake) (t : Tls) (id : Nat)
    (dts : List Int) (hL : Listening a ansOf) (hS : Shaking b hsOf) (hJ : TlsJustReopened t id)
    (hlen : dts.length = a + b - 1) (hP : Paced t.c.timer.duration dts) :
    (trunListening ansOf hsOf .bare t dts).connected = true ∧ (trunListening ansOf hsOf .bare t dts).c.cutoff = false ∧
    (trunListening ansOf hsOf .bare t dts).c.accepted = true ∧
    (trunListening ansOf hsOf .bare t dts).c.sock = some id ∧ (trunListening ansOf hsOf .bare t dts).c.ca = some id := by
  obtain ⟨⟨h1, h2, h3, h4, h5⟩, hc, hsh⟩ := hJ
  have ha0 := hL.1
  have hb0 := hS.1
  apply tls_reconnect_core a b ansOf hsOf hL hS id dts t h1 hc h4
  · intro _; exact ⟨hsh, by rw [h2]; exact ha0⟩
  · intro h; rw [h3] at h; cases h
  · simp only [tlsNeed, h3, Bool.false_eq_true, if_false, h2]; omega
  · omega
  · intro _ _
    have : t.c.timer.stop - t.c.now = t.c.timer.duration := by omega
    rw [this]; exact hP

/-- connect latency 3, handshake latency 2, a call every 0.04 s, timeout 0.2 s: connected after 4 calls -/
example :
    let t := (tlsReopenRestart (Tls.init 205 true) none).1
    (trunListening (fun n => if n + 1 ≥ 3 then 0 else 115) (fun n => if n + 1 ≥ 2 then .ok else .want) .bare t
      [41, 41, 41, 41]).connected = true ∧
    (trunListening (fun n => if n + 1 ≥ 3 then 0 else 115) (fun n => if n + 1 ≥ 2 then .ok else .want) .bare t
      [41, 41, 41]).connected = false := by decide

/-- **A cut off TLS client reconnects, arbitrary server latency**: reconnectable `ClientTls`, cut off (after
a completed handshake or in any other state); at the first call at which the reconnect timer has expired
(round `d0`) `serviceConnect` reopens and makes the first attempt; with connect latency `a`, handshake
latency `b` and a paced schedule the client is connected after `a + b - 1` calls in all. -/
theorem C27_tls_reconnects_after_cutoff_within (a b : Nat) (ansOf : Nat → Nat) (hsOf : Nat → Shake) (t : Tls)
    (d0 : Int) (dts : List Int) (hL : Listening a ansOf) (hS : Shaking b hsOf)
    (hx : t.c.cutoff = true) (hr : t.c.reconnectable = true) (ht : 0 < t.c.timeout)
    (he : t.c.timer.stop ≤ t.c.now + d0) (hlen : dts.length + 1 = a + b - 1)
    (hP : Paced t.c.timer.duration (0 :: dts)) :
    (trunListening ansOf hsOf .bare t (d0 :: dts)).connected = true ∧
    (trunListening ansOf hsOf .bare t (d0 :: dts)).c.cutoff = false ∧
    (trunListening ansOf hsOf .bare t (d0 :: dts)).c.sock = some t.c.fresh ∧
    (trunListening ansOf hsOf .bare t (d0 :: dts)).c.ca = some t.c.fresh := by
  let t0 : Tls := { t with c := { t.c with now := t.c.now + d0 } }
  have hfire : timerFired t0.c = true := (timerFired_iff t0.c).mpr ⟨ht, he⟩
  obtain ⟨hj, _, _, _, hd⟩ := tlsReopenRestart_just t0 none
  have hrun : trunListening ansOf hsOf .bare t (d0 :: dts) =
      trunListening ansOf hsOf .bare (tlsReopenRestart t0 none).1 (0 :: dts) := by
    conv => lhs; unfold trunListening
    conv => rhs; unfold trunListening
    simp only [Kind.tlsService]
    rw [show ({ t with c := { t.c with now := t.c.now + d0 } } : Tls) = t0 from rfl,
      tls_cutoff_split t0 ansOf hsOf hx hr hfire]
    have e0 : ({ (tlsReopenRestart t0 none).1 with
        c := { (tlsReopenRestart t0 none).1.c with now := (tlsReopenRestart t0 none).1.c.now + 0 } } : Tls)
        = (tlsReopenRestart t0 none).1 := by simp
    rw [e0]
  rw [hrun]
  have := C27_tls_reconnects_within_partial a b ansOf hsOf (tlsReopenRestart t0 none).1 t0.c.fresh (0 :: dts) hL hS hj
    (by simp; omega) (by rw [hd]; exact hP)
  exact ⟨this.1, this.2.1, this.2.2.2.1, this.2.2.2.2⟩


/-! ## the full statement and why it fails on this code -/

/-- what the property asks for, without assumptions about the schedule: from the state a timer-driven
reopen leaves, a listening server of latency `k` reconnects the client within `k` service calls -/
def C27_full (kind : Kind) : Prop :=
  ∀ (k : Nat) (ansOf : Nat → Nat) (c : Client) (id : Nat) (dts : List Int),
    Listening k ansOf → JustReopened c id → c.reconnectable = true → dts.length = k → (∀ d ∈ dts, 0 ≤ d) →
    (runListening ansOf kind c dts).live = true

/-- a listening server that needs two `connect_ex` calls: EINPROGRESS, then success -/
def twoCallServer (n : Nat) : Nat := if n + 1 ≥ 2 then 0 else 115

theorem twoCallServer_listening : Listening 2 twoCallServer := by
  refine ⟨by decide, ?_, by decide⟩
  intro m hm
  have : m = 0 := by omega
  subst this; decide

/-- **D28 (known finding)**: when a service period is not shorter than the reconnect timeout the
timer fires at every call and discards the socket whose connection is in progress: with a server
that needs two `connect_ex` calls the client never gets to the second one. -/
theorem C27_counterexample_livelock : ¬ C27_full .bare := by
  intro h
  have := h 2 twoCallServer (reopenRestart (Client.init 200 true) none).1 1 [250, 250]
    twoCallServer_listening (by decide) (by decide) (by decide) (by decide)
  revert this
  decide

/-- … and it goes on for ever: after any number of such rounds the client is still not connected -/
theorem C27_livelock_forever (n : Nat) : ∀ (c : Client), c.accepted = false → c.cutoff = false →
    c.reconnectable = true → c.timeout = 200 → c.timer.duration = 200 → c.timer.stop ≤ c.now + 200 →
    c.attempts = 0 → c.sock.isSome = true →
    (runListening twoCallServer .bare c (List.replicate n 250)).accepted = false := by
  induction n with
  | zero => intro c ha _ _ _ _ _ _ _; exact ha
  | succ n ih =>
    intro c ha hx hr ht hd hs hat hsk
    obtain ⟨id, hid⟩ := Option.isSome_iff_exists.mp hsk
    let c0 : Client := { c with now := c.now + 250 }
    have hf : timerFired c0 = true :=
      (timerFired_iff c0).mpr ⟨by show 0 < c.timeout; omega, by show c.timer.stop ≤ c.now + 250; omega⟩
    have hans : twoCallServer c0.attempts = 115 := by
      show twoCallServer c.attempts = 115
      rw [hat]; rfl
    obtain ⟨hj, hnow, hdur, hrec, hto⟩ := C27_timer_reopen_restarts c0 twoCallServer
      id hid ha hx hr (by rw [hans]; decide) (by rw [hans]; decide) hf
    simp only [List.replicate_succ]
    unfold runListening
    simp only [Kind.service]
    rw [show ({ c with now := c.now + 250 } : Client) = c0 from rfl]
    apply ih _ hj.2.2.1 hj.2.2.2.1 hrec (by rw [hto]; exact ht) (by rw [hdur]; exact hd)
    · rw [hj.2.2.2.2, hdur]
      have : c0.timer.duration = 200 := hd
      omega
    · exact hj.2.1
    · rw [hj.1]; rfl

end Ioflo.Reconnect
