import IofloModel.Lemmas.Idle
/-!
# C28 — idle timeouts drop only idle connections

Property theorems only.  Model: `Model/Idle.lean` (Incomer / IncomerTls timer and refresh, Valet /
Porter `serviceConnects`, `Requestant.checkPersisted`), version `fixed` = with `fixes/D15-*.patch`
(IncomerTls.receive / send refresh the timer like Incomer's).  Time is exact (`Nat` ticks).
`refreshes s` ⇔ plain server, or TLS server with the repair.
-/
namespace Ioflo.Idle

/-- **C28, closed only if idle.** Plain server (either version) or TLS server with the D15 repair,
Valet or Porter, every history of clock advances, arrivals, service calls, receptions, transmissions
(moving bytes or blocked), end-of-stream and parsed request heads: every connection the server ever
closed was either cut off by the peer (Valet's cutoff branch), or — closed by the timer — had its
idle check on (`timeout > 0`), had moved no byte during the last `T` ticks
(`last + T ≤ time of closing`) and was not kept alive by HTTP persistence. -/
theorem C28_closed_only_if_idle (v : Version) (tls : Bool) (front : Front) (T : Nat) (ops : List Op)
    (hgood : (!tls || v == .fixed) = true) :
    ∀ e ∈ (run (init v tls front T) ops).closedLog,
      (e.cutoff = true ∧ front = .valet) ∨
      (0 < e.timeout ∧ e.last + T ≤ e.at_ ∧ e.persisted ≠ some true) := by
  have h := invT_run (init v tls front T) ops hgood (invP_init v tls front T) (invT_init v tls front T)
  obtain ⟨_, _, hf, hT⟩ := run_params (init v tls front T) ops
  intro e he
  have := h.log e he
  rw [hf, hT] at this
  exact this

/-- non-vacuity: one connection busy until tick 7, idle afterwards, closed at 7 + 8 = 15; one cut off -/
example :
    let s := run (init .fixed true .valet 8)
      [.arrive, .arrive, .serviceConnects, .tick 7, .rx 0 100, .eof 1, .serviceConnects, .tick 7,
       .serviceConnects, .tick 1, .serviceConnects]
    s.closedLog = [{ id := 1, at_ := 7, cutoff := true, last := 0, persisted := none, timeout := 8 },
                   { id := 0, at_ := 15, cutoff := false, last := 7, persisted := none, timeout := 8 }] ∧
      s.conns = [] := by decide

/-- **C28, activity restarts the idle period.** In every reachable state of such a server, a
connection that moved a byte (or was accepted) less than `T` ticks ago survives `serviceConnects`
(unless the peer cut it off, on a Valet) — however long ago its timer was first started. -/
theorem C28_activity_restarts (v : Version) (tls : Bool) (front : Front) (T : Nat) (ops : List Op)
    (hgood : (!tls || v == .fixed) = true) (d : Nat) :
    let s := run (init v tls front T) ops
    ∀ c ∈ s.conns, s.now + d < c.last + T → (c.cutoff = false ∨ front = .porter) →
      c ∈ (serviceConnects (step s (.tick d))).conns := by
  intro s c hc hlt hcut
  have h := invT_run (init v tls front T) ops hgood (invP_init v tls front T) (invT_init v tls front T)
  obtain ⟨_, _, hf, hT⟩ := run_params (init v tls front T) ops
  have hf' : s.front = front := hf
  have hT' : s.T = T := hT
  obtain ⟨_, hstop, _⟩ := h.conns c hc
  show c ∈ List.filter _ _
  rw [List.mem_filter]
  refine ⟨List.mem_append_left _ hc, ?_⟩
  have hcl : closes s.front (s.now + d) c = false :=
    closes_false (by rw [hf']; exact hcut) (Or.inr (by rw [hstop]; show s.now + d < c.last + s.T; omega))
  show (!closes s.front (s.now + d) c) = true
  rw [hcl]; rfl

/-- non-vacuity: accepted at 0, byte at 7, still there at 14 (T = 8), though the first timer ran out at 8 -/
example :
    let s := run (init .fixed true .valet 8) [.arrive, .serviceConnects, .tick 7, .tx 0 3]
    (∃ c ∈ s.conns, s.now + 7 < c.last + 8 ∧ c.cutoff = false) ∧
      (serviceConnects (step s (.tick 7))).conns.length = 1 := by decide

/-- **C28, persistence switches the idle timer off** (both versions, plain and TLS): in every reachable
state, a connection whose request head asked for persistence is never closed by the timer, however
long it stays silent; only a cutoff (Valet) ends it. -/
theorem C28_persisted_never_idled (v : Version) (tls : Bool) (front : Front) (T : Nat) (ops : List Op)
    (d : Nat) :
    let s := run (init v tls front T) ops
    ∀ c ∈ s.conns, c.persisted = some true → (c.cutoff = false ∨ front = .porter) →
      c ∈ (serviceConnects (step s (.tick d))).conns := by
  intro s c hc hper hcut
  have h := invP_run (init v tls front T) ops (invP_init v tls front T)
  obtain ⟨_, _, hf, _⟩ := run_params (init v tls front T) ops
  have hf' : s.front = front := hf
  have hto : c.timeout = 0 := h.conns c hc hper
  show c ∈ List.filter _ _
  rw [List.mem_filter]
  refine ⟨List.mem_append_left _ hc, ?_⟩
  have hcl : closes s.front (s.now + d) c = false :=
    closes_false (by rw [hf']; exact hcut) (Or.inl hto)
  show (!closes s.front (s.now + d) c) = true
  rw [hcl]; rfl

/-- … and the parsed head decides persistence by exactly the documented rules -/
theorem C28_persist_rule (old : Option Bool) (cl ka ch ln : Bool) :
    (persistRule old .v11 cl ka ch ln = some true ↔ (cl = false ∧ (ch = true ∨ ln = true))) ∧
    (persistRule old .v10 cl ka ch ln = some true ↔ ka = true) ∧
    persistRule old .other cl ka ch ln = old := by
  cases cl <;> cases ka <;> cases ch <;> cases ln <;> simp [persistRule]

example :
    let s := run (init .orig true .porter 8)
      [.arrive, .serviceConnects, .checkPersisted 0 .v11 false false false true, .tick 1000, .serviceConnects]
    s.conns.map (·.persisted) = [some true] ∧ s.closedLog = [] := by decide

/-- **C28, the idle timer does fire**: in every reachable state of such a server a connection whose
idle check is on and that has moved no byte for `T` ticks is closed by the next `serviceConnects`. -/
theorem C28_idle_is_closed (v : Version) (tls : Bool) (front : Front) (T : Nat) (ops : List Op)
    (hgood : (!tls || v == .fixed) = true) :
    let s := run (init v tls front T) ops
    ∀ c ∈ s.conns, 0 < c.timeout → c.last + T ≤ s.now →
      c ∉ (serviceConnects s).conns ∧ c.toClosed s.now ∈ (serviceConnects s).closedLog := by
  intro s c hc hto hidle
  have h := invT_run (init v tls front T) ops hgood (invP_init v tls front T) (invT_init v tls front T)
  obtain ⟨_, _, _, hT⟩ := run_params (init v tls front T) ops
  have hT' : s.T = T := hT
  obtain ⟨_, hstop, _⟩ := h.conns c hc
  have hcl : closes s.front s.now c = true := by
    simp only [closes, Bool.or_eq_true, Bool.and_eq_true, decide_eq_true_eq]
    exact Or.inr ⟨hto, by rw [hstop]; show c.last + s.T ≤ s.now; rw [hT']; exact hidle⟩
  constructor
  · intro hmem
    have : c ∈ List.filter (fun c => !closes s.front s.now c) (s.conns ++ s.pending.map (newConn s.T s.now)) := hmem
    rw [List.mem_filter, hcl] at this
    exact absurd this.2 (by decide)
  · show _ ∈ s.closedLog ++ _
    exact List.mem_append_right _
      (List.mem_map.mpr ⟨c, List.mem_filter.mpr ⟨List.mem_append_left _ hc, hcl⟩, rfl⟩)

/-- **D15 as found**: on a TLS server `IncomerTls.receive` / `send` do not refresh the timer — a
connection that moved a byte one tick ago is closed for idleness `T` ticks after it was accepted.
(The statement of `C28_closed_only_if_idle` fails for `orig` + TLS on this history.) -/
theorem C28_D15_orig_tls_drops_busy :
    let s := run (init .orig true .valet 8)
      [.arrive, .serviceConnects, .tick 7, .rx 0 100, .tx 0 100, .tick 1, .serviceConnects]
    s.closedLog = [{ id := 0, at_ := 8, cutoff := false, last := 7, persisted := none, timeout := 8 }] ∧
      ¬ (7 + 8 ≤ 8) := by decide

/-- with the repair a TLS server's timer runs exactly as a plain server's: same table, same closings,
for every history -/
theorem C28_tls_like_plain (front : Front) (T : Nat) (ops : List Op) :
    (run (init .fixed true front T) ops).conns = (run (init .fixed false front T) ops).conns ∧
    (run (init .fixed true front T) ops).closedLog = (run (init .fixed false front T) ops).closedLog := by
  have key : ∀ (s : State) (ops : List Op), s.v = .fixed →
      run { s with tls := true } ops = { run { s with tls := false } ops with tls := true } := by
    intro s ops hv
    induction ops generalizing s with
    | nil => rfl
    | cons op ops ih =>
      simp only [run]
      have hstep : step { s with tls := true } op = { step { s with tls := false } op with tls := true } := by
        cases op <;> simp [step, serviceConnects, onConn, refreshes, hv]
      rw [hstep]
      have := ih (step { s with tls := false } op) (by rw [(step_params _ op).1]; exact hv)
      have hf : (step { s with tls := false } op).tls = false := (step_params _ op).2.1
      have e1 : ({ step { s with tls := false } op with tls := false } : State) = step { s with tls := false } op := by
        cases hs : step { s with tls := false } op
        rw [hs] at hf
        simp only at hf
        subst hf
        rfl
      rw [e1] at this
      exact this
  have := key (init .fixed false front T) ops rfl
  have h0 : ({ init .fixed false front T with tls := true } : State) = init .fixed true front T := rfl
  have h1 : ({ init .fixed false front T with tls := false } : State) = init .fixed false front T := rfl
  rw [h0, h1] at this
  rw [this]
  exact ⟨rfl, rfl⟩

end Ioflo.Idle
