import IofloModel.Lemmas.HttpScript
import IofloModel.Lemmas.HttpCanon
import IofloModel.Lemmas.HttpCanonMsg
/-!
# C29 — HTTP messages parse the same however their bytes arrive

Property theorems only.  Model: `Model/HttpLex.lean`, `Model/HttpMsg.lean` (`Requestant` /
`Respondent` with `parseLine`, `parseLeader`, `parseChunk`, as repaired by the patches
D19, D16, D29a, D29b under `fixes/`).

* `init kind m0 max` — a fresh `Requestant` (`kind = .req`) or `Respondent` (`.rsp`, for a request
  with method `m0`), `max = MAX_LINE_SIZE`;  `feedAll s ps` — `msg.extend(p); parse()` for each piece.
* A well-formed message is given by its lines and data as written on the wire together with what
  the parser's own *line* functions read in each line (`ReqHead`, `RspHead`, `Chunk.wf`): start line
  tokens, the header dictionary `H` (`foldHdr`), chunk sizes and extensions.  The theorems say that
  the *message* machine — resumable across receives — delivers exactly these, for **every** way of
  cutting the stream into receives, and leaves the bytes after the message in the buffer.
  `C29_header_ows`, `C29_request_line` show what the line functions read in canonically written lines
  (optional white space after the colon included).
-/
namespace Ioflo.Http

/-! ## fixed length -/

/-- **Request with a body of announced length** (`Content-Length: n`, or no body at all): for every
split of `head ++ data ++ rest` into receives the request line tokens, the headers, the body are the
content, the message is complete without error, and `rest` is left unconsumed. -/
theorem C29_request_fixed_length {c0 : Core} (hfr : Fresh .req c0) (hmax : 0 < c0.max) {sl m u v : Bytes} {ls : List Bytes}
    {H : Hdrs} (w : ReqHead c0.max sl ls m u v H) (hch : isChunked H = false)
    (data rest : Bytes) (hn : reqLen H = some data.length) (ps : List Bytes)
    (hps : ps.flatten = headBytes sl ls ++ (data ++ rest)) :
    (feedAll { core := c0, msg := [] } ps).msg = rest ∧
    (feedAll { core := c0, msg := [] } ps).core.gen = .none ∧
    (feedAll { core := c0, msg := [] } ps).core.ended = some true ∧
    (feedAll { core := c0, msg := [] } ps).core.errored = false ∧
    (feedAll { core := c0, msg := [] } ps).core.escaped = none ∧
    (feedAll { core := c0, msg := [] } ps).core.method = m ∧
    (feedAll { core := c0, msg := [] } ps).core.url = strip u ∧
    (feedAll { core := c0, msg := [] } ps).core.version = reqVersion v ∧
    (feedAll { core := c0, msg := [] } ps).core.headers = some H ∧
    (feedAll { core := c0, msg := [] } ps).core.body = data ∧
    (feedAll { core := c0, msg := [] } ps).core.trails = none := by
  rw [request_length_any_split hfr hmax w hch data rest hn ps hps]
  simp [doneCore, reqHeadCore, reqAtHeadEnd, reqAfterStart, cStarted, cWait, resetOf, hfr.resetPT, hfr.escaped]

/-- **Response with a body of announced length** (`Content-Length`, or 204 / 304 / answer to
HEAD), preceded by any number `pre` of interim `100 Continue` responses, which are skipped. -/
theorem C29_response_fixed_length {c0 : Core} (hfr : Fresh .rsp c0) (hmax : 0 < c0.max) {sl reason : Bytes} {ver : Nat × Nat}
    {status : Nat} {ls : List Bytes} {H : Hdrs} (pre : List Interim) (hpre : ∀ i ∈ pre, i.ok c0.max)
    (w : RspHead c0.max sl ls ver status reason H)
    (hch : isChunked H = false) (data rest : Bytes)
    (hn : rspLen (rspAtHeadEnd c0 ver status reason H) H = some data.length) (ps : List Bytes)
    (hps : ps.flatten = interimBytes pre ++ (headBytes sl ls ++ (data ++ rest))) :
    (feedAll { core := c0, msg := [] } ps).msg = rest ∧
    (feedAll { core := c0, msg := [] } ps).core.gen = .none ∧
    (feedAll { core := c0, msg := [] } ps).core.ended = some true ∧
    (feedAll { core := c0, msg := [] } ps).core.errored = false ∧
    (feedAll { core := c0, msg := [] } ps).core.escaped = none ∧
    (feedAll { core := c0, msg := [] } ps).core.version = some ver ∧
    (feedAll { core := c0, msg := [] } ps).core.status = some status ∧
    (feedAll { core := c0, msg := [] } ps).core.reason = some (strip reason) ∧
    (feedAll { core := c0, msg := [] } ps).core.headers = some H ∧
    (feedAll { core := c0, msg := [] } ps).core.body = data ∧
    (feedAll { core := c0, msg := [] } ps).core.trails = none := by
  rw [response_length_any_split hfr hmax pre hpre w hch data rest hn ps hps]
  simp [doneCore, rspHeadCore', rspHeadCore, rspAtHeadEnd, rspAfterStart, cStarted, cWait, resetOf, hfr.resetPT, hfr.escaped]

/-! ## chunked, with extensions and trailers -/

/-- **Chunked request**: any number of chunks (size lines with extensions), a last chunk, trailer
lines.  Body = the chunk data concatenated, `parms` = the extensions merged in order, `trails` = the
trailer dictionary (`None` when there is none), `rest` unconsumed — for every split. -/
theorem C29_request_chunked {c0 : Core} (hfr : Fresh .req c0) (hmax : 0 < c0.max) {sl m u v : Bytes} {ls : List Bytes}
    {H : Hdrs} (w : ReqHead c0.max sl ls m u v H) (hch : isChunked H = true)
    (ks : List Chunk) (hks : ∀ k ∈ ks, k.wf c0.max)
    (ll : Bytes) (pm0 : Parms) (hll : cleanLine ll) (hlls : ll.length < c0.max) (hl0 : chunkLine ll = .ok (0, pm0))
    (ts : List Bytes) (Tr : Hdrs) (hts : ∀ l ∈ ts, goodLine c0.max l) (hTr : foldHdr [] ts = some Tr)
    (rest : Bytes) (ps : List Bytes)
    (hps : ps.flatten = headBytes sl ls ++ (chunksBytes ks ++ (lastBytes ll ts ++ rest))) :
    (feedAll { core := c0, msg := [] } ps).msg = rest ∧
    (feedAll { core := c0, msg := [] } ps).core.gen = .none ∧
    (feedAll { core := c0, msg := [] } ps).core.ended = some true ∧
    (feedAll { core := c0, msg := [] } ps).core.errored = false ∧
    (feedAll { core := c0, msg := [] } ps).core.escaped = none ∧
    (feedAll { core := c0, msg := [] } ps).core.method = m ∧
    (feedAll { core := c0, msg := [] } ps).core.url = strip u ∧
    (feedAll { core := c0, msg := [] } ps).core.version = reqVersion v ∧
    (feedAll { core := c0, msg := [] } ps).core.headers = some H ∧
    (feedAll { core := c0, msg := [] } ps).core.body = chunksData ks ∧
    (feedAll { core := c0, msg := [] } ps).core.parms = updParms (chunksParms (some []) ks) pm0 ∧
    (feedAll { core := c0, msg := [] } ps).core.trails = (if Tr = [] then none else some Tr) := by
  rw [request_chunked_any_split hfr hmax w hch ks hks ll pm0 hll hlls hl0 ts Tr hts hTr rest ps hps]
  simp [chunkedDone, doneCore, reqHeadCore, reqAtHeadEnd, reqAfterStart, cStarted, cWait, trailsOf, resetOf, hfr.resetPT, hfr.escaped]

/-- **Chunked response**. -/
theorem C29_response_chunked {c0 : Core} (hfr : Fresh .rsp c0) (hmax : 0 < c0.max) {sl reason : Bytes} {ver : Nat × Nat}
    {status : Nat} {ls : List Bytes} {H : Hdrs} (pre : List Interim) (hpre : ∀ i ∈ pre, i.ok c0.max)
    (w : RspHead c0.max sl ls ver status reason H)
    (hch : isChunked H = true)
    (ks : List Chunk) (hks : ∀ k ∈ ks, k.wf c0.max)
    (ll : Bytes) (pm0 : Parms) (hll : cleanLine ll) (hlls : ll.length < c0.max) (hl0 : chunkLine ll = .ok (0, pm0))
    (ts : List Bytes) (Tr : Hdrs) (hts : ∀ l ∈ ts, goodLine c0.max l) (hTr : foldHdr [] ts = some Tr)
    (rest : Bytes) (ps : List Bytes)
    (hps : ps.flatten = interimBytes pre ++ (headBytes sl ls ++ (chunksBytes ks ++ (lastBytes ll ts ++ rest)))) :
    (feedAll { core := c0, msg := [] } ps).msg = rest ∧
    (feedAll { core := c0, msg := [] } ps).core.gen = .none ∧
    (feedAll { core := c0, msg := [] } ps).core.ended = some true ∧
    (feedAll { core := c0, msg := [] } ps).core.errored = false ∧
    (feedAll { core := c0, msg := [] } ps).core.escaped = none ∧
    (feedAll { core := c0, msg := [] } ps).core.version = some ver ∧
    (feedAll { core := c0, msg := [] } ps).core.status = some status ∧
    (feedAll { core := c0, msg := [] } ps).core.reason = some (strip reason) ∧
    (feedAll { core := c0, msg := [] } ps).core.headers = some H ∧
    (feedAll { core := c0, msg := [] } ps).core.body = chunksData ks ∧
    (feedAll { core := c0, msg := [] } ps).core.parms = updParms (chunksParms (some []) ks) pm0 ∧
    (feedAll { core := c0, msg := [] } ps).core.trails = (if Tr = [] then none else some Tr) := by
  rw [response_chunked_any_split hfr hmax pre hpre w hch ks hks ll pm0 hll hlls hl0 ts Tr hts hTr rest ps hps]
  simp [chunkedDone, doneCore, rspHeadCore', rspHeadCore, rspAtHeadEnd, rspAfterStart, cStarted, cWait, trailsOf, resetOf, hfr.resetPT, hfr.escaped]

/-! ## read until close -/

/-- **Response without length, not chunked**: every byte after the head is body, for every split;
`close()` then `parse()` completes the message with that body. -/
theorem C29_response_until_close {c0 : Core} (hfr : Fresh .rsp c0) (hmax : 0 < c0.max) {sl reason : Bytes} {ver : Nat × Nat}
    {status : Nat} {ls : List Bytes} {H : Hdrs} (pre : List Interim) (hpre : ∀ i ∈ pre, i.ok c0.max)
    (w : RspHead c0.max sl ls ver status reason H)
    (hch : isChunked H = false)
    (hn : rspLen (rspAtHeadEnd c0 ver status reason H) H = none) (body : Bytes) (ps : List Bytes)
    (hps : ps.flatten = interimBytes pre ++ (headBytes sl ls ++ body)) :
    (feedAll { core := c0, msg := [] } ps).msg = [] ∧
    (feedAll { core := c0, msg := [] } ps).core.body = body ∧
    (feedAll { core := c0, msg := [] } ps).core.headers = some H ∧
    (feedAll { core := c0, msg := [] } ps).core.status = some status ∧
    (parse (close (feedAll { core := c0, msg := [] } ps))).core.gen = .none ∧
    (parse (close (feedAll { core := c0, msg := [] } ps))).core.ended = some true ∧
    (parse (close (feedAll { core := c0, msg := [] } ps))).core.errored = false ∧
    (parse (close (feedAll { core := c0, msg := [] } ps))).core.escaped = none ∧
    (parse (close (feedAll { core := c0, msg := [] } ps))).core.body = body ∧
    (parse (close (feedAll { core := c0, msg := [] } ps))).core.length = some body.length := by
  obtain ⟨h1, h2⟩ := response_close_any_split hfr hmax pre hpre w hch hn body ps hps
  rw [h2, h1]
  simp [doneCore, close, rspHeadCore', rspHeadCore, rspAtHeadEnd, rspAfterStart, cStarted, cWait, resetOf, hfr.resetPT, hfr.escaped]

/-! ## any two splits -/

/-- the streams covered above: a well-formed message of one of the four self-delimiting shapes
followed by arbitrary bytes -/
inductive WfStream (c0 : Core) : Kind → Bytes → Prop
  | reqLength {sl m u v ls H} (w : ReqHead c0.max sl ls m u v H) (hch : isChunked H = false)
      (data rest : Bytes) (hn : reqLen H = some data.length) :
      WfStream c0 .req (headBytes sl ls ++ (data ++ rest))
  | reqChunked {sl m u v ls H} (w : ReqHead c0.max sl ls m u v H) (hch : isChunked H = true)
      (ks : List Chunk) (hks : ∀ k ∈ ks, k.wf c0.max)
      (ll : Bytes) (pm0 : Parms) (hll : cleanLine ll) (hlls : ll.length < c0.max) (hl0 : chunkLine ll = .ok (0, pm0))
      (ts : List Bytes) (Tr : Hdrs) (hts : ∀ l ∈ ts, goodLine c0.max l) (hTr : foldHdr [] ts = some Tr)
      (rest : Bytes) :
      WfStream c0 .req (headBytes sl ls ++ (chunksBytes ks ++ (lastBytes ll ts ++ rest)))
  | rspLength {sl reason ver status ls H} (pre : List Interim) (hpre : ∀ i ∈ pre, i.ok c0.max)
      (w : RspHead c0.max sl ls ver status reason H)
      (hch : isChunked H = false) (data rest : Bytes)
      (hn : rspLen (rspAtHeadEnd c0 ver status reason H) H = some data.length) :
      WfStream c0 .rsp (interimBytes pre ++ (headBytes sl ls ++ (data ++ rest)))
  | rspChunked {sl reason ver status ls H} (pre : List Interim) (hpre : ∀ i ∈ pre, i.ok c0.max)
      (w : RspHead c0.max sl ls ver status reason H)
      (hch : isChunked H = true)
      (ks : List Chunk) (hks : ∀ k ∈ ks, k.wf c0.max)
      (ll : Bytes) (pm0 : Parms) (hll : cleanLine ll) (hlls : ll.length < c0.max) (hl0 : chunkLine ll = .ok (0, pm0))
      (ts : List Bytes) (Tr : Hdrs) (hts : ∀ l ∈ ts, goodLine c0.max l) (hTr : foldHdr [] ts = some Tr)
      (rest : Bytes) :
      WfStream c0 .rsp (interimBytes pre ++ (headBytes sl ls ++ (chunksBytes ks ++ (lastBytes ll ts ++ rest))))
  | rspClose {sl reason ver status ls H} (pre : List Interim) (hpre : ∀ i ∈ pre, i.ok c0.max)
      (w : RspHead c0.max sl ls ver status reason H)
      (hch : isChunked H = false)
      (hn : rspLen (rspAtHeadEnd c0 ver status reason H) H = none) (body : Bytes) :
      WfStream c0 .rsp (interimBytes pre ++ (headBytes sl ls ++ body))

/-- **However the bytes arrive**: two ways of cutting the same well-formed stream into receives
leave the parser in the same state — every field and the unconsumed buffer. -/
theorem C29_split_independent {c0 : Core} {kind : Kind} (hfr : Fresh kind c0) (hmax : 0 < c0.max) {stream : Bytes}
    (h : WfStream c0 kind stream) (ps ps' : List Bytes)
    (hps : ps.flatten = stream) (hps' : ps'.flatten = stream) :
    feedAll { core := c0, msg := [] } ps = feedAll { core := c0, msg := [] } ps' := by
  cases h with
  | reqLength w hch data rest hn =>
    rw [request_length_any_split hfr hmax w hch data rest hn ps hps,
      request_length_any_split hfr hmax w hch data rest hn ps' hps']
  | reqChunked w hch ks hks ll pm0 hll hlls hl0 ts Tr hts hTr rest =>
    rw [request_chunked_any_split hfr hmax w hch ks hks ll pm0 hll hlls hl0 ts Tr hts hTr rest ps hps,
      request_chunked_any_split hfr hmax w hch ks hks ll pm0 hll hlls hl0 ts Tr hts hTr rest ps' hps']
  | rspLength pre hpre w hch data rest hn =>
    rw [response_length_any_split hfr hmax pre hpre w hch data rest hn ps hps,
      response_length_any_split hfr hmax pre hpre w hch data rest hn ps' hps']
  | rspChunked pre hpre w hch ks hks ll pm0 hll hlls hl0 ts Tr hts hTr rest =>
    rw [response_chunked_any_split hfr hmax pre hpre w hch ks hks ll pm0 hll hlls hl0 ts Tr hts hTr rest ps hps,
      response_chunked_any_split hfr hmax pre hpre w hch ks hks ll pm0 hll hlls hl0 ts Tr hts hTr rest ps' hps']
  | rspClose pre hpre w hch hn body =>
    rw [(response_close_any_split hfr hmax pre hpre w hch hn body ps hps).1,
      (response_close_any_split hfr hmax pre hpre w hch hn body ps' hps').1]

/-! ## the next message on the same connection -/

/-- **A reused parser is a fresh parser**: after a message is complete, `makeParser()` (what the
Valet does on a persistent connection) puts the parser into a state to which every theorem above
applies (`Fresh`) — the fields of the previous message do not leak into the next one (in particular
`parms` and `trails` are reset, fixes/D29c) — and parsing what was left in the buffer is the first
receive of the next message. -/
theorem C29_reused_parser_is_fresh (s : St) (h1 : s.core.started = false) (h2 : s.core.resetPT = true)
    (h3 : s.core.escaped = none) (ps : List Bytes) :
    Fresh s.core.kind (makeParser s).core ∧
    feedAll (parse (makeParser s)) ps = feedAll { core := (makeParser s).core, msg := [] } (s.msg :: ps) :=
  ⟨⟨rfl, rfl, h1, h2, h3⟩, rfl⟩

/-- … hence the next message is parsed the same however its bytes arrive, including those that
arrived together with the end of the previous message -/
theorem C29_next_message_split_independent (s : St) (h1 : s.core.started = false) (h2 : s.core.resetPT = true)
    (h3 : s.core.escaped = none) (hmax : 0 < s.core.max) {stream : Bytes}
    (h : WfStream (makeParser s).core s.core.kind stream) (ps ps' : List Bytes)
    (hps : s.msg ++ ps.flatten = stream) (hps' : s.msg ++ ps'.flatten = stream) :
    feedAll (parse (makeParser s)) ps = feedAll (parse (makeParser s)) ps' := by
  obtain ⟨hf, e⟩ := C29_reused_parser_is_fresh s h1 h2 h3 ps
  obtain ⟨_, e'⟩ := C29_reused_parser_is_fresh s h1 h2 h3 ps'
  rw [e, e']
  exact C29_split_independent hf hmax h _ _ (by simpa using hps) (by simpa using hps')

/-! ## what the line functions read in canonically written lines -/

/-- **Header line with or without white space after the colon**: `name ":" OWS value OWS` is read
as (lower-case name ↦ value) for every amount of blanks/tabs around the value. -/
theorem C29_header_ows {h : Hdrs} {name ows1 value ows2 : Bytes}
    (hn : ∀ b ∈ name, b ≠ 58) (h1 : ∀ x ∈ ows1, isWs x = true) (h2 : ∀ x ∈ ows2, isWs x = true)
    (hv : trimmed isWs value) (hmax : (h.set name value).length ≤ MAX_HEADERS) :
    headerLine h (name ++ 58 :: (ows1 ++ (value ++ ows2))) = .ok (h.set name value) :=
  headerLine_ows hn h1 h2 hv hmax

/-- non-vacuity: `Host:a`, `Host: a`, `Host:\t a ` all give `host ↦ a` -/
example : headerLine [] [72, 111, 115, 116, 58, 97] = .ok [([104, 111, 115, 116], [97])] ∧
    headerLine [] [72, 111, 115, 116, 58, 32, 97] = .ok [([104, 111, 115, 116], [97])] ∧
    headerLine [] [72, 111, 115, 116, 58, 9, 32, 97, 32] = .ok [([104, 111, 115, 116], [97])] :=
  ⟨by rfl, by rfl, by rfl⟩

/-- **Request line**: `METHOD SP target SP version` is read as its three tokens. -/
theorem C29_request_line {m u v : Bytes} (hm : methods.contains m = true) (hu : token u) (hv : token v)
    (hver : startsWith sHTTP v = true) :
    parseRequestLine (m ++ 32 :: (u ++ 32 :: v)) = .ok (m, u, v) :=
  parseRequestLine_canon hm hu hv hver

/-- **Chunk size line**: a size written in lower-case hexadecimal digits is read as that number,
without extensions. -/
theorem C29_chunk_size_line {ds : List Nat} (hne : ds ≠ []) (hd : ∀ d ∈ ds, d < 16) :
    chunkLine (ds.map hexChar) = .ok ((hexValue ds : Int), []) :=
  chunkLine_hex hne hd

/-- non-vacuity: `1f` is 31 -/
example : [1, 15].map hexChar = [49, 102] ∧ hexValue [1, 15] = 31 := by decide

/-- **Status line**: `version SP code SP reason` — version a token starting with `HTTP/`, code a
decimal numeral with value 100…999, reason ANY bytes — is read as (version, code, the words of the
reason joined by single blanks); without reason phrase the reason is empty. -/
theorem C29_status_line {v reason : Bytes} {ds : List Nat} (hv : token v) (hver : startsWith sHTTP v = true)
    (hne : ds ≠ []) (hd : ∀ d ∈ ds, d < 10) (hlen : ds.length ≤ maxStrDigits)
    (hlo : 100 ≤ decValue ds) (hhi : decValue ds ≤ 999) :
    parseStatusLine (v ++ 32 :: (ds.map decChar ++ 32 :: reason)) = .ok (v, decValue ds, joinSp (splitWs reason)) ∧
    parseStatusLine (v ++ 32 :: ds.map decChar) = .ok (v, decValue ds, []) :=
  ⟨parseStatusLine_canon hv hver hne hd hlen hlo hhi, parseStatusLine_canon_noreason hv hver hne hd hlen hlo hhi⟩

/-- non-vacuity: `HTTP/1.1 404 Not  Found` (two blanks) is (HTTP/1.1, 404, `Not Found`) -/
example : parseStatusLine [72, 84, 84, 80, 47, 49, 46, 49, 32, 52, 48, 52, 32, 78, 111, 116, 32, 32, 70, 111, 117, 110, 100]
    = .ok ([72, 84, 84, 80, 47, 49, 46, 49], 404, [78, 111, 116, 32, 70, 111, 117, 110, 100]) := by rfl

/-- **Chunk size line with extensions**: `hex ";" ext` is read as the size `hex` whatever the
extension text is; the extensions are the parser's reading (`parseExts`) of that text. -/
theorem C29_chunk_ext {ds : List Nat} (hne : ds ≠ []) (hd : ∀ d ∈ ds, d < 16) (ext : Bytes) :
    chunkLine (ds.map hexChar ++ 59 :: ext) = .ok ((hexValue ds : Int), if ext = [] then [] else parseExts ext) :=
  chunkLine_ext hne hd ext

/-- non-vacuity: `1f;a=b;c` is size 31 with parameters a=b, c -/
example : chunkLine ([1, 15].map hexChar ++ 59 :: [97, 61, 98, 59, 99]) = .ok (31, [([97], some [98]), ([99], none)]) := by rfl

/-! ## canonically written messages: no reading hypotheses -/

/-- A message as it is WRITTEN: method / origin-form target / `HTTP/1.x`, or `HTTP/1.x` / three digit
code (not 1xx, 204, 304) / reason; the framing header first (`Content-Length: <decimal>` or
`Transfer-Encoding: chunked`, any spelling, any blanks around the value), then header lines that do
not touch framing or content type; the body of the announced length, or chunks `hex[;ext] CRLF data
CRLF`, a last chunk `0…[;ext]`, trailer lines, an empty line; then arbitrary bytes.  Every condition
is about the bytes of the message (and the size limits `MAX_LINE_SIZE`, `MAX_HEADERS`), none about
what a parser function returns. -/
inductive Canonical (c0 : Core) : Kind → Bytes → Prop
  | reqLength (m u : Bytes) (v11 : Bool) (f : HLine) (ds : List Nat) (hs : List HLine) (data rest : Bytes)
      (hm : methods.contains m = true) (hu : originForm u)
      (hsl : (m ++ 32 :: (u ++ 32 :: verBytes v11)).length < c0.max)
      (hok : ∀ h ∈ f :: hs, h.ok ∧ h.bytes.length < c0.max) (hn : hs.length < MAX_HEADERS)
      (hf : isCLLine f ds) (hp : plainLines hs) (hlen : decValue ds = data.length) :
      Canonical c0 .req (headBytes (m ++ 32 :: (u ++ 32 :: verBytes v11)) ((f :: hs).map HLine.bytes) ++ (data ++ rest))
  | reqChunked (m u : Bytes) (v11 : Bool) (f : HLine) (hs : List HLine) (ks : List CChunk) (last : CChunk)
      (ts : List HLine) (rest : Bytes)
      (hm : methods.contains m = true) (hu : originForm u)
      (hsl : (m ++ 32 :: (u ++ 32 :: verBytes v11)).length < c0.max)
      (hok : ∀ h ∈ f :: hs, h.ok ∧ h.bytes.length < c0.max) (hn : hs.length < MAX_HEADERS)
      (hf : isTELine f) (hp : plainLines hs)
      (hks : ∀ k ∈ ks, k.ok c0.max ∧ k.data ≠ []) (hlast : last.ok c0.max ∧ last.data = [])
      (hts : ∀ h ∈ ts, h.ok ∧ h.bytes.length < c0.max) (htn : ts.length ≤ MAX_HEADERS) :
      Canonical c0 .req (headBytes (m ++ 32 :: (u ++ 32 :: verBytes v11)) ((f :: hs).map HLine.bytes) ++
        (chunksBytes (ks.map CChunk.toChunk) ++ (lastBytes last.sizeLine (ts.map HLine.bytes) ++ rest)))
  | rspLength (v11 : Bool) (code : List Nat) (reason : Bytes) (f : HLine) (ds : List Nat) (hs : List HLine)
      (data rest : Bytes)
      (hc : code.length = 3 ∧ (∀ d ∈ code, d < 10) ∧ 200 ≤ decValue code ∧ decValue code ≠ 204 ∧ decValue code ≠ 304)
      (hr : cleanLine reason) (hmeth : c0.method ≠ sHEAD)
      (hsl : (verBytes v11 ++ 32 :: (code.map decChar ++ 32 :: reason)).length < c0.max)
      (hok : ∀ h ∈ f :: hs, h.ok ∧ h.bytes.length < c0.max) (hn : hs.length < MAX_HEADERS)
      (hf : isCLLine f ds) (hp : plainLines hs) (hlen : decValue ds = data.length) :
      Canonical c0 .rsp (headBytes (verBytes v11 ++ 32 :: (code.map decChar ++ 32 :: reason)) ((f :: hs).map HLine.bytes) ++
        (data ++ rest))
  | rspChunked (v11 : Bool) (code : List Nat) (reason : Bytes) (f : HLine) (hs : List HLine) (ks : List CChunk)
      (last : CChunk) (ts : List HLine) (rest : Bytes)
      (hc : code.length = 3 ∧ (∀ d ∈ code, d < 10) ∧ 200 ≤ decValue code)
      (hr : cleanLine reason)
      (hsl : (verBytes v11 ++ 32 :: (code.map decChar ++ 32 :: reason)).length < c0.max)
      (hok : ∀ h ∈ f :: hs, h.ok ∧ h.bytes.length < c0.max) (hn : hs.length < MAX_HEADERS)
      (hf : isTELine f) (hp : plainLines hs)
      (hks : ∀ k ∈ ks, k.ok c0.max ∧ k.data ≠ []) (hlast : last.ok c0.max ∧ last.data = [])
      (hts : ∀ h ∈ ts, h.ok ∧ h.bytes.length < c0.max) (htn : ts.length ≤ MAX_HEADERS) :
      Canonical c0 .rsp (headBytes (verBytes v11 ++ 32 :: (code.map decChar ++ 32 :: reason)) ((f :: hs).map HLine.bytes) ++
        (chunksBytes (ks.map CChunk.toChunk) ++ (lastBytes last.sizeLine (ts.map HLine.bytes) ++ rest)))

theorem code3 {code : List Nat} (h : code.length = 3) (hd : ∀ d ∈ code, d < 10) : decValue code ≤ 999 := by
  match code, h with
  | [a, b, c], _ =>
    have ha := hd a (by simp); have hb := hd b (by simp); have hc := hd c (by simp)
    simp [decValue]; omega

theorem rspHead_canon {c0 : Core} (v11 : Bool) {code : List Nat} {reason : Bytes} (f : HLine) (hs : List HLine)
    (hlen : code.length = 3) (hd : ∀ d ∈ code, d < 10) (hlo : 200 ≤ decValue code) (hr : cleanLine reason)
    (hsl : (verBytes v11 ++ 32 :: (code.map decChar ++ 32 :: reason)).length < c0.max)
    (hok : ∀ h ∈ f :: hs, h.ok ∧ h.bytes.length < c0.max) (hn : hs.length < MAX_HEADERS)
    (hev : isEvented (hdrsOf [] (f :: hs)) = false) :
    RspHead c0.max (verBytes v11 ++ 32 :: (code.map decChar ++ 32 :: reason)) ((f :: hs).map HLine.bytes)
      (if v11 then (1, 1) else (1, 0)) (decValue code) (joinSp (splitWs reason)) (hdrsOf [] (f :: hs)) := by
  obtain ⟨hvt, hv1, _, hv3, _⟩ := verBytes_facts v11
  have hne : code ≠ [] := by intro e; rw [e] at hlen; simp at hlen
  obtain ⟨hl1, hl2⟩ := head_lines f hs hok hn
  refine ⟨rspLine_clean v11 hd hne hr, hsl, ⟨verBytes v11, ?_, hv3⟩, by omega, hl1, hl2, hev⟩
  exact parseStatusLine_canon hvt hv1 hne hd (by rw [hlen]; decide) (by omega) (code3 hlen hd)

theorem chunks_canon {max : Nat} (ks : List CChunk) (hks : ∀ k ∈ ks, k.ok max ∧ k.data ≠ []) :
    ∀ k ∈ ks.map CChunk.toChunk, k.wf max := by
  intro k hk
  obtain ⟨c, hc, rfl⟩ := List.mem_map.mp hk
  exact CChunk.wf (hks c hc).1 (hks c hc).2

theorem last_canon {max : Nat} {last : CChunk} (h : last.ok max ∧ last.data = []) :
    cleanLine last.sizeLine ∧ last.sizeLine.length < max ∧ chunkLine last.sizeLine = .ok (0, last.pm) := by
  obtain ⟨h1, h2⟩ := CChunk.line h.1
  refine ⟨h1, h.1.2.2.2.2, ?_⟩
  rw [h2, h.2]; rfl

theorem trailers_canon {max : Nat} (ts : List HLine) (hts : ∀ h ∈ ts, h.ok ∧ h.bytes.length < max)
    (htn : ts.length ≤ MAX_HEADERS) :
    (∀ l ∈ ts.map HLine.bytes, goodLine max l) ∧ foldHdr [] (ts.map HLine.bytes) = some (hdrsOf [] ts) := by
  constructor
  · intro l hl
    obtain ⟨h, hh, rfl⟩ := List.mem_map.mp hl
    exact goodLine_canon (hts h hh).1 (hts h hh).2
  · exact foldHdr_canon ts [] (fun h hh => (hts h hh).1) (by simpa using htn)

/-- a canonically written message satisfies the reading hypotheses of the theorems above -/
theorem canonical_wf {c0 : Core} {kind : Kind} {stream : Bytes} (h : Canonical c0 kind stream) :
    WfStream c0 kind stream := by
  cases h with
  | reqLength m u v11 f ds hs data rest hm hu hsl hok hn hf hp hlen =>
    obtain ⟨hl1, hl2⟩ := head_lines f hs hok hn
    obtain ⟨hch, hrl, _, _⟩ := framing_length hf hp
    exact WfStream.reqLength (reqLine_canon v11 hm hu hsl _ _ hl1 hl2) hch data rest (by rw [hrl, hlen])
  | reqChunked m u v11 f hs ks last ts rest hm hu hsl hok hn hf hp hks hlast hts htn =>
    obtain ⟨hl1, hl2⟩ := head_lines f hs hok hn
    obtain ⟨hch, _⟩ := framing_chunked hf hp
    obtain ⟨a1, a2, a3⟩ := last_canon hlast
    obtain ⟨t1, t2⟩ := trailers_canon ts hts htn
    exact WfStream.reqChunked (reqLine_canon v11 hm hu hsl _ _ hl1 hl2) hch _ (chunks_canon ks hks) _ _ a1 a2 a3 _ _ t1 t2 rest
  | rspLength v11 code reason f ds hs data rest hc hr hmeth hsl hok hn hf hp hlen =>
    obtain ⟨hch, hrl, hcl, hev⟩ := framing_length hf hp
    have w := rspHead_canon (c0 := c0) v11 f hs hc.1 hc.2.1 hc.2.2.1 hr hsl hok hn hev
    have hrsp : rspLen (rspAtHeadEnd c0 (if v11 then (1, 1) else (1, 0)) (decValue code) (joinSp (splitWs reason))
        (hdrsOf [] (f :: hs))) (hdrsOf [] (f :: hs)) = some data.length := by
      have h204 := hc.2.2.2.1
      have h304 := hc.2.2.2.2
      have hlo := hc.2.2.1
      have hst : ¬ (decValue code = 204 ∨ decValue code = 304 ∨ (100 ≤ decValue code ∧ decValue code < 200) ∨
          c0.method = sHEAD) := by
        intro h; rcases h with h | h | h | h
        · exact h204 h
        · exact h304 h
        · omega
        · exact hmeth h
      unfold reqLen at hrl
      rw [hcl] at hrl
      simp only [rspLen, rspAtHeadEnd, rspAfterStart, cStarted, cWait, Option.getD, hst, if_false, hcl, hch]
      simpa [hlen] using hrl
    exact WfStream.rspLength [] (by simp) w hch data rest hrsp
  | rspChunked v11 code reason f hs ks last ts rest hc hr hsl hok hn hf hp hks hlast hts htn =>
    obtain ⟨hch, hev⟩ := framing_chunked hf hp
    have w := rspHead_canon (c0 := c0) v11 f hs hc.1 hc.2.1 hc.2.2 hr hsl hok hn hev
    obtain ⟨a1, a2, a3⟩ := last_canon hlast
    obtain ⟨t1, t2⟩ := trailers_canon ts hts htn
    exact WfStream.rspChunked [] (by simp) w hch _ (chunks_canon ks hks) _ _ a1 a2 a3 _ _ t1 t2 rest

/-- **Canonically written messages, however the bytes arrive, with no hypothesis about what the
parser reads**: any two ways of cutting a canonical request or response (fixed length or chunked with
extensions and trailers) followed by arbitrary bytes into receives — empty receives included — leave
a fresh or reused parser in the same complete state. -/
theorem C29_canonical_message_split_independent {c0 : Core} {kind : Kind} (hfr : Fresh kind c0) (hmax : 0 < c0.max)
    {stream : Bytes} (h : Canonical c0 kind stream) (ps ps' : List Bytes)
    (hps : ps.flatten = stream) (hps' : ps'.flatten = stream) :
    feedAll { core := c0, msg := [] } ps = feedAll { core := c0, msg := [] } ps' :=
  C29_split_independent hfr hmax (canonical_wf h) ps ps' hps hps'

/-- non-vacuity of `Canonical`: `POST /x HTTP/1.1`, `Content-Length:3` (no blank after the colon),
`Host: h`, body `abc`, then `NEXT` — two different ways of cutting it give the same state -/
example :
    let c0 := (init .req [71, 69, 84] 65536).core
    feedAll { core := c0, msg := [] } [[80, 79, 83, 84, 32, 47, 120, 32, 72, 84, 84, 80, 47, 49, 46, 49], [88, 88].drop 2, [13, 10] ++ [67, 111, 110, 116, 101, 110, 116, 45, 76, 101, 110, 103, 116, 104, 58, 51] ++ [13, 10] ++ [72, 111, 115, 116, 58, 32, 104] ++ [13, 10, 13, 10] ++ [97, 98, 99, 78, 69, 88, 84]]
      = feedAll { core := c0, msg := [] } [[80, 79, 83, 84, 32, 47, 120, 32, 72, 84, 84, 80, 47, 49, 46, 49] ++ [13, 10] ++ [67, 111, 110, 116, 101, 110, 116, 45, 76, 101, 110, 103, 116, 104, 58, 51] ++ [13, 10] ++ [72, 111, 115, 116, 58, 32, 104] ++ [13, 10, 13, 10] ++ [97, 98, 99, 78, 69, 88, 84]] := by
  intro c0
  have hcan : Canonical c0 .req (headBytes ([80, 79, 83, 84] ++ 32 :: ([47, 120] ++ 32 :: verBytes true))
      (([⟨[67, 111, 110, 116, 101, 110, 116, 45, 76, 101, 110, 103, 116, 104], [], [51], []⟩, ⟨[72, 111, 115, 116], [32], [104], []⟩] : List HLine).map HLine.bytes) ++
      ([97, 98, 99] ++ [78, 69, 88, 84])) :=
    Canonical.reqLength [80, 79, 83, 84] [47, 120] true ⟨[67, 111, 110, 116, 101, 110, 116, 45, 76, 101, 110, 103, 116, 104], [], [51], []⟩ [3]
      [⟨[72, 111, 115, 116], [32], [104], []⟩] [97, 98, 99] [78, 69, 88, 84] (by decide)
      ⟨⟨by simp, by decide⟩, [120], rfl, by simp⟩ (by decide)
      (by intro h hh
          simp only [List.mem_cons, List.not_mem_nil, or_false] at hh
          rcases hh with rfl | rfl <;>
            exact ⟨⟨by decide, by intro x hx; simp at hx <;> simp [hx], by intro x hx; simp at hx, by decide,
              ⟨by intro x hx; simp at hx; subst hx; decide, by intro x hx; simp at hx; subst hx; decide⟩⟩, by decide⟩)
      (by decide) ⟨by decide, rfl, by simp, by decide, by decide⟩
      (by intro h hh; simp only [List.mem_cons, List.not_mem_nil, or_false] at hh; subst hh; decide) (by decide)
  exact C29_canonical_message_split_independent (fresh_init _ _ _) (by decide) hcan _ _ (by decide) (by decide)

/-! ## non-vacuity: concrete messages -/

/-- `POST /x HTTP/1.1`, `Host:a` (no blank after the colon), `Transfer-Encoding: chunked` -/
theorem exReqHead : ReqHead 65536 [80, 79, 83, 84, 32, 47, 120, 32, 72, 84, 84, 80, 47, 49, 46, 49]
    [[72, 111, 115, 116, 58, 97], [84, 114, 97, 110, 115, 102, 101, 114, 45, 69, 110, 99, 111, 100, 105, 110, 103, 58, 32, 99, 104, 117, 110, 107, 101, 100]]
    [80, 79, 83, 84] [47, 120] [72, 84, 84, 80, 47, 49, 46, 49]
    [([104, 111, 115, 116], [97]), ([116, 114, 97, 110, 115, 102, 101, 114, 45, 101, 110, 99, 111, 100, 105, 110, 103], [99, 104, 117, 110, 107, 101, 100])] where
  clean := by decide
  short := by decide
  parsed := by rfl
  version := by rfl
  url := by rfl
  lines := by
    intro l hl
    simp only [List.mem_cons, List.not_mem_nil, or_false] at hl
    rcases hl with rfl | rfl <;> exact ⟨by decide, by simp, by decide⟩
  hdrs := by rfl

/-- the chunk `3;foo=bar` CRLF `abc` CRLF -/
theorem exChunk : Chunk.wf 65536 ⟨[51, 59, 102, 111, 111, 61, 98, 97, 114], [([102, 111, 111], some [98, 97, 114])], [97, 98, 99]⟩ :=
  ⟨by decide, by decide, by rfl, by simp⟩

/-- the whole chunked request with a trailer `X-T: 1`, followed by `NEXT`, cut into three receives in
the middle of the head, of a CRLF and of the chunk data: body `abc`, parms `foo=bar`, trailer
`x-t: 1`, `NEXT` left in the buffer -/
example :
    let ps : List Bytes := [[80, 79, 83, 84, 32, 47, 120, 32, 72, 84, 84, 80, 47, 49, 46, 49, 13, 10, 72, 111, 115, 116, 58, 97, 13],
      [10, 84, 114, 97, 110, 115, 102, 101, 114, 45, 69, 110, 99, 111, 100, 105, 110, 103, 58, 32, 99, 104, 117, 110, 107, 101, 100, 13, 10, 13, 10, 51, 59, 102, 111, 111, 61, 98, 97, 114, 13, 10, 97],
      [98, 99, 13, 10, 48, 13, 10, 88, 45, 84, 58, 32, 49, 13, 10, 13, 10, 78, 69, 88, 84]]
    (feedAll (init .req [71, 69, 84] 65536) ps).msg = [78, 69, 88, 84] ∧
    (feedAll (init .req [71, 69, 84] 65536) ps).core.body = [97, 98, 99] ∧
    (feedAll (init .req [71, 69, 84] 65536) ps).core.parms = some [([102, 111, 111], some [98, 97, 114])] ∧
    (feedAll (init .req [71, 69, 84] 65536) ps).core.trails = some [([120, 45, 116], [49])] := by
  intro ps
  have h := C29_request_chunked (c0 := (init .req [71, 69, 84] 65536).core) (fresh_init _ _ _) (by decide)
    exReqHead (by rfl)
    [⟨[51, 59, 102, 111, 111, 61, 98, 97, 114], [([102, 111, 111], some [98, 97, 114])], [97, 98, 99]⟩]
    (by intro k hk; simp only [List.mem_cons, List.not_mem_nil, or_false] at hk; subst hk; exact exChunk)
    [48] [] (by decide) (by decide) (by rfl)
    [[88, 45, 84, 58, 32, 49]] [([120, 45, 116], [49])]
    (by intro l hl; simp only [List.mem_cons, List.not_mem_nil, or_false] at hl; subst hl
        exact ⟨by decide, by simp, by decide⟩)
    (by rfl) [78, 69, 88, 84] ps (by decide)
  exact ⟨h.1, h.2.2.2.2.2.2.2.2.2.1.trans (by decide), h.2.2.2.2.2.2.2.2.2.2.1.trans (by decide),
    h.2.2.2.2.2.2.2.2.2.2.2.trans (by decide)⟩

/-- the model computes the same directly (no theorem involved) -/
example : (feedAll (init .req [71, 69, 84] 65536)
    [[80, 79, 83, 84, 32, 47, 120, 32, 72, 84, 84, 80, 47, 49, 46, 49, 13, 10, 72, 111, 115, 116, 58, 97, 13], [10, 84, 114, 97, 110, 115, 102, 101, 114, 45, 69, 110, 99, 111, 100, 105, 110, 103, 58, 32, 99, 104, 117, 110, 107, 101, 100, 13, 10, 13, 10, 51, 59, 102, 111, 111, 61, 98, 97, 114, 13, 10, 97],
     [98, 99, 13, 10, 48, 13, 10, 88, 45, 84, 58, 32, 49, 13, 10, 13, 10, 78, 69, 88, 84]]).core.body = [97, 98, 99] := by decide

/-- `HTTP/1.1 200 OK`, `Content-Length:1` -/
theorem exRspHead : RspHead 65536 [72, 84, 84, 80, 47, 49, 46, 49, 32, 50, 48, 48, 32, 79, 75] [[67, 111, 110, 116, 101, 110, 116, 45, 76, 101, 110, 103, 116, 104, 58, 49]] (1, 1) 200 [79, 75]
    [([99, 111, 110, 116, 101, 110, 116, 45, 108, 101, 110, 103, 116, 104], [49])] where
  clean := by decide
  short := by decide
  parsed := ⟨[72, 84, 84, 80, 47, 49, 46, 49], by rfl, by rfl⟩
  not100 := by decide
  lines := by
    intro l hl
    simp only [List.mem_cons, List.not_mem_nil, or_false] at hl
    subst hl; exact ⟨by decide, by simp, by decide⟩
  hdrs := by rfl
  notEvented := by rfl

/-- the interim response `HTTP/1.1 100 Continue` -/
theorem exInterim : Interim.ok 65536 ⟨[72, 84, 84, 80, 47, 49, 46, 49, 32, 49, 48, 48, 32, 67, 111, 110, 116, 105, 110, 117, 101], []⟩ :=
  ⟨by decide, by decide, ⟨[72, 84, 84, 80, 47, 49, 46, 49], [67, 111, 110, 116, 105, 110, 117, 101], by rfl⟩, by simp, ⟨[], rfl⟩⟩

/-- `100 Continue`, then `200 OK` with one byte of body, then `X`: cut inside the interim response and
inside the status line; the interim response is skipped, body `z`, `X` left -/
example :
    let ps : List Bytes := [[72, 84, 84, 80, 47, 49, 46, 49, 32, 49, 48, 48, 32, 67, 111, 110, 116], [105, 110, 117, 101, 13, 10, 13, 10, 72, 84, 84, 80, 47, 49, 46, 49, 32, 50],
      [48, 48, 32, 79, 75, 13, 10, 67, 111, 110, 116, 101, 110, 116, 45, 76, 101, 110, 103, 116, 104, 58, 49, 13, 10, 13, 10, 122, 88]]
    (feedAll (init .rsp [71, 69, 84] 65536) ps).msg = [88] ∧
    (feedAll (init .rsp [71, 69, 84] 65536) ps).core.body = [122] ∧
    (feedAll (init .rsp [71, 69, 84] 65536) ps).core.status = some 200 := by
  intro ps
  have h := C29_response_fixed_length (c0 := (init .rsp [71, 69, 84] 65536).core) (fresh_init _ _ _) (by decide)
    [⟨[72, 84, 84, 80, 47, 49, 46, 49, 32, 49, 48, 48, 32, 67, 111, 110, 116, 105, 110, 117, 101], []⟩]
    (by intro i hi; simp only [List.mem_cons, List.not_mem_nil, or_false] at hi; subst hi; exact exInterim)
    exRspHead (by rfl) [122] [88] (by rfl) ps (by decide)
  exact ⟨h.1, h.2.2.2.2.2.2.2.2.2.1, h.2.2.2.2.2.2.1⟩

end Ioflo.Http
