import IofloModel.Lemmas.HttpCodec
/-!
# C30 — HTTP requests and WSGI responses survive the round trip

Model: `Model/HttpCodec.lean`.  Byte-level theorems; `urllib.parse` is the parameter `S : Std`.
-/
namespace Ioflo.HttpCodec

/-! ## chunks -/

theorem hex_not_ws (n : Nat) : ∀ b ∈ toHex n, isWsN b = false := by
  intro b hb
  have := toHex_lower n b hb
  unfold isHexLower at this
  unfold isWsN
  simp
  omega

theorem hex_not_mem (n c : Nat) (hc : ¬ isHexLower c) : c ∉ toHex n := fun h => hc (toHex_lower n c h)

theorem pyIntHex_toHex (n : Nat) : pyIntHex (toHex n) = .ok n := by
  unfold pyIntHex
  simp only [stripN_id _ (hex_not_ws n)]
  have h128 : (toHex n).any (fun b => decide (b ≥ 128)) = false := by
    rw [List.any_eq_false]
    intro b hb
    have := toHex_lower n b hb
    unfold isHexLower at this
    simp; omega
  have hne : (toHex n).isEmpty = false := by
    cases h : toHex n with
    | nil => exact absurd h (toHex_ne_nil n)
    | cons _ _ => rfl
  simp [h128, hexDigits_toHex, hne]

/-- **C30, chunk round trip** (every byte string, every continuation): what `packChunk` writes, `parseChunk`
reads back — size, data and the untouched rest; the empty message is the terminating chunk. -/
theorem C30_chunk_roundtrip (msg rest : Bytes) (hsize : msg.length < 2 ^ 64) :
    parseChunk (packChunk msg ++ rest) = .done ⟨msg.length, [], [], msg⟩ rest := by
  have hlen : (toHex msg.length).length ≤ MAX_LINE_SIZE := by
    have := toHex_length_le 15 msg.length (by simpa using hsize)
    unfold MAX_LINE_SIZE; omega
  have h13 : 13 ∉ toHex msg.length := hex_not_mem _ 13 (by unfold isHexLower; omega)
  have h59 : 59 ∉ toHex msg.length := hex_not_mem _ 59 (by unfold isHexLower; omega)
  have hraw : packChunk msg ++ rest = toHex msg.length ++ 13 :: 10 :: (msg ++ 13 :: 10 :: rest) := by
    simp [packChunk, crlf]
  unfold parseChunk
  rw [hraw, parseLine_crlf true _ _ h13 (by simp) hlen]
  have hex0 : parseExts [] = [] := by simp [parseExts]
  simp only [partitionN_not_mem 59 _ h59, pyIntHex_toHex, hex0]
  by_cases h0 : msg.length = 0
  · have hm : msg = [] := List.length_eq_zero_iff.1 h0
    subst hm
    simp [parseLeader, parseLeaderAux, leaderLine, lineRes, splitCRLF, MAX_LINE_SIZE, MAX_HEADERS]
  · have hdrop : (msg ++ 13 :: 10 :: rest).drop msg.length = 13 :: 10 :: rest := by simp
    have htake : (msg ++ 13 :: 10 :: rest).take msg.length = msg := by simp
    have hpl : parseLine true (13 :: 10 :: rest) = .done [] rest := by
      simpa using parseLine_crlf true [] rest (by simp) (by simp) (by simp [MAX_LINE_SIZE])
    have hl : ¬ (msg.length + (rest.length + 1 + 1) < msg.length) := by omega
    simp [h0, hdrop, htake, hpl, hl]

/-- non-vacuity: a three byte message and what follows it -/
example : parseChunk (packChunk [104, 105, 33] ++ [48, 13, 10, 13, 10]) = .done ⟨3, [], [], [104, 105, 33]⟩ [48, 13, 10, 13, 10] :=
  C30_chunk_roundtrip _ _ (by decide)

/-- a body as `Responder.write` frames it when chunking: one chunk per piece written, then the empty chunk -/
def chunkedBody (pieces : List Bytes) : Bytes := pieces.flatMap packChunk ++ packChunk []

theorem parseChunks_pieces (pieces : List Bytes) :
    ∀ (fuel : Nat) (acc rest : Bytes), pieces.length < fuel →
      (∀ p ∈ pieces, p ≠ [] ∧ p.length < 2 ^ 64) →
      parseChunks fuel acc [] (chunkedBody pieces ++ rest) = .done (acc ++ pieces.flatten, [], []) rest := by
  induction pieces with
  | nil =>
    intro fuel acc rest hf _
    cases fuel with
    | zero => omega
    | succ f =>
      have := C30_chunk_roundtrip [] rest (by decide)
      simp only [chunkedBody, List.flatMap_nil, List.nil_append, parseChunks, this]
      simp
  | cons p ps ih =>
    intro fuel acc rest hf hp
    cases fuel with
    | zero => omega
    | succ f =>
      obtain ⟨hne, hlen⟩ := hp p (by simp)
      have hraw : chunkedBody (p :: ps) ++ rest = packChunk p ++ (chunkedBody ps ++ rest) := by
        simp [chunkedBody]
      have hsz : p.length ≠ 0 := fun h => hne (List.length_eq_zero_iff.1 h)
      rw [hraw]
      simp only [parseChunks, C30_chunk_roundtrip p _ hlen, List.foldl_nil, hsz, if_false]
      rw [ih f (acc ++ p) rest (by simp at hf; omega) (fun q hq => hp q (by simp [hq]))]
      simp

/-- **C30, chunked body round trip** (any number of pieces): the chunks the responder writes — one per
non-empty piece, then the empty chunk — are read back as the concatenation of the pieces, and what follows
the body is left untouched. -/
theorem C30_chunked_body_roundtrip (pieces : List Bytes) (rest : Bytes)
    (hp : ∀ p ∈ pieces, p ≠ [] ∧ p.length < 2 ^ 64) :
    parseChunks ((chunkedBody pieces ++ rest).length + 1) [] [] (chunkedBody pieces ++ rest)
      = .done (pieces.flatten, [], []) rest := by
  have hlen : pieces.length ≤ (chunkedBody pieces).length := by
    clear hp
    induction pieces with
    | nil => simp
    | cons p ps ih =>
      have h1 : 1 ≤ (packChunk p).length := by simp [packChunk, crlf]; omega
      simp only [chunkedBody, List.flatMap_cons, List.length_append, List.length_cons] at ih ⊢
      omega
  have := parseChunks_pieces pieces ((chunkedBody pieces ++ rest).length + 1) [] rest
    (by simp only [List.length_append]; omega) hp
  simpa using this

/-- non-vacuity -/
example : parseChunks 100 [] [] (chunkedBody [[1, 2, 3], [13, 10], [48]] ++ [7])
    = .done ([] ++ [[1, 2, 3], [13, 10], [48]].flatten, [], []) [7] :=
  parseChunks_pieces _ 100 [] [7] (by decide) (by decide)

/-! ## header lines -/

theorem headerBlock_length (hs : List (Str × Str)) : hs.length ≤ (headerBlock hs).length := by
  induction hs with
  | nil => simp [headerBlock]
  | cons kv hs ih =>
    simp only [headerBlock, List.flatMap_cons, List.length_append, List.length_cons] at ih ⊢
    omega

/-- **C30, header round trip** (every block of at most 100 headers): the lines `packHeader` writes for names
that are ASCII without `:`/CR/LF and Latin-1 values without CR/LF and without a blank at either end — in any
letter case, with blanks, colons and commas inside the values — are read back by `parseLeader` as the dict `lower(name) ↦ value` (later duplicates
win, first position kept), and the bytes after the empty line are left untouched. -/
theorem C30_header_roundtrip (hs : List (Str × Str)) (rest : Bytes)
    (hgood : ∀ kv ∈ hs, GoodName kv.1 ∧ GoodValue kv.2 ∧ (headerLine kv.1 kv.2).length ≤ MAX_LINE_SIZE)
    (hcount : hs.length ≤ MAX_HEADERS) :
    (∀ kv ∈ hs, packHeader kv.1 [.str kv.2] = .ok (headerLine kv.1 kv.2))
    ∧ parseLeader (headerBlock hs ++ crlf ++ rest) = .done (hs.foldl (fun d kv => loSet d kv.1 kv.2) []) rest := by
  refine ⟨fun kv h => packHeader_good (hgood kv h).1 (hgood kv h).2.1, ?_⟩
  unfold parseLeader
  have hraw : headerBlock hs ++ crlf ++ rest = headerBlock hs ++ 13 :: 10 :: rest := by simp [crlf]
  rw [hraw]
  apply parseLeaderAux_block hs _ [] rest _ hgood (by simpa using hcount)
  have := headerBlock_length hs
  simp only [List.length_append, List.length_cons]
  omega

/-- non-vacuity: mixed case names, a value with blanks and ": " inside, a duplicate -/
example : parseLeader (headerBlock [("x-THING".toList, "a: b".toList), ("Accept".toList, "é".toList),
      ("X-Thing".toList, "2".toList)] ++ crlf ++ [1, 2])
    = .done [("x-thing".toList, "2".toList), ("accept".toList, "é".toList)] [1, 2] := by decide +kernel

/-! ## requests -/

/-- **C30, request on the wire** (every method, target, header block and body; every `urllib.parse`): a request line
`METHOD target HTTP/1.1`, at most 100 well-formed header lines that frame the body (`Content-Length` = its length, or
none for an empty body, no `Transfer-Encoding`), the empty line and the body are parsed by `Requestant` into the same
method, target, headers (lower-cased names, later duplicates win) and body; path and query are what `urlsplit` /
`unquote` make of the target; bytes after the body are left untouched. -/
theorem C30_request_wire_roundtrip (S : Std) (method target : Str) (hs : List (Str × Str)) (body rest : Bytes) (port : Option Nat)
    (hm : method ∈ METHODS) (ht : Visible target)
    (hline : (method ++ ' ' :: (target ++ ' ' :: "HTTP/1.1".toList)).length ≤ MAX_LINE_SIZE)
    (hport : (S.urlsplit target).port = some port)
    (hgood : ∀ kv ∈ hs, GoodName kv.1 ∧ GoodValue kv.2 ∧ (headerLine kv.1 kv.2).length ≤ MAX_LINE_SIZE)
    (hcount : hs.length ≤ MAX_HEADERS)
    (hte : odGet (hs.foldl (fun d kv => loSet d kv.1 kv.2) []) "transfer-encoding".toList = none)
    (hcl : (body = [] ∧ odGet (hs.foldl (fun d kv => loSet d kv.1 kv.2) []) "content-length".toList = none)
         ∨ odGet (hs.foldl (fun d kv => loSet d kv.1 kv.2) []) "content-length".toList = some (natStr body.length)) :
    ∃ q, parseRequest S (requestBytes method target hs body ++ rest) = .done q rest
      ∧ q.method = method ∧ q.url = target ∧ q.version = (1, 1)
      ∧ q.path = S.unquote (S.urlsplit target).path ∧ q.query = (S.urlsplit target).query
      ∧ q.headers = hs.foldl (fun d kv => loSet d kv.1 kv.2) [] ∧ q.chunked = false ∧ q.body = body := by
  have hmv := methods_visible method hm
  let line : Str := method ++ ' ' :: (target ++ ' ' :: "HTTP/1.1".toList)
  have hver : Visible "HTTP/1.1".toList := by unfold Visible; decide
  have hraw : requestBytes method target hs body ++ rest
      = line.map Char.toNat ++ 13 :: 10 :: (headerBlock hs ++ crlf ++ (body ++ rest)) := by
    simp [requestBytes, crlf, line]
  have h13 : 13 ∉ line.map Char.toNat := by
    intro h
    obtain ⟨c, hc, e⟩ := List.mem_map.1 h
    simp only [line, List.mem_append, List.mem_cons] at hc
    rcases hc with hc | rfl | hc | rfl | hc
    · have := hmv.2 c hc; omega
    · simp at e
    · have := ht.2 c hc; omega
    · simp at e
    · have := hver.2 c hc; omega
  have hne : (requestBytes method target hs body ++ rest).isEmpty = false := by
    rw [hraw]
    have : line ≠ [] := by simp [line]
    cases h : line.map Char.toNat with
    | nil => simp at h; exact absurd h this
    | cons _ _ => rfl
  have h10 : 10 ∉ line.map Char.toNat := by
    intro h
    obtain ⟨c, hc, e⟩ := List.mem_map.1 h
    simp only [line, List.mem_append, List.mem_cons] at hc
    rcases hc with hc | rfl | hc | rfl | hc
    · have := hmv.2 c hc; omega
    · simp at e
    · have := ht.2 c hc; omega
    · simp at e
    · have := hver.2 c hc; omega
  have hpl := parseLine_crlf false (line.map Char.toNat) (headerBlock hs ++ crlf ++ (body ++ rest)) h13 (fun _ => h10)
    (by rw [List.length_map]; exact hline)
  have hsplit : splitWs line = [method, target, "HTTP/1.1".toList] :=
    splitWs_three _ _ _ (visible_nospace hmv) (visible_nospace ht) (visible_nospace hver) hmv.1 ht.1 hver.1
  have hprl : parseRequestLine (line.map Char.toNat) = .ok (method, target, "HTTP/1.1".toList) := by
    unfold parseRequestLine
    rw [decode_encode]
    have hl : line.isEmpty = false := by simp [line]
    have hsw : startsWith ['H', 'T', 'T', 'P', '/'] ['H', 'T', 'T', 'P', '/', '1', '.', '1'] = true := by decide
    simp [hl, hsplit, hsw, hm]
  have hstrip : stripC target = target := stripC_id _ (visible_nospace ht)
  have hlead := (C30_header_roundtrip hs (body ++ rest) hgood hcount).2
  have hv0 : startsWith "HTTP/1.".toList "HTTP/1.1".toList = true := by decide
  have hv1 : startsWith "HTTP/1.0".toList "HTTP/1.1".toList = false := by decide
  unfold parseRequest
  rw [hraw] at hne ⊢
  simp only [hne, Bool.false_eq_true, if_false, hpl, hprl, hstrip, hv0, hv1, Bool.not_true, hport, hlead, hte]
  have hlt : ¬ (body ++ rest).length < body.length := by simp
  have htake : (body ++ rest).take body.length = body := by simp
  have hdrop : (body ++ rest).drop body.length = rest := by simp
  rcases hcl with ⟨hb, hnone⟩ | hsome
  · subst hb
    simp only [hnone, contentLength]
    simp only [List.nil_append, List.length_nil, Nat.not_lt_zero, if_false, List.take_zero, List.drop_zero]
    exact ⟨_, rfl, rfl, rfl, rfl, rfl, rfl, rfl, rfl, rfl⟩
  · simp only [hsome, contentLength_natStr]
    have hne' : (natStr body.length).isEmpty = false := by
      cases h : natStr body.length with
      | nil => exact absurd h (natStr_ne_nil _)
      | cons _ _ => rfl
    simp only [hne', Bool.false_eq_true, if_false, hlt, htake, hdrop]
    exact ⟨_, rfl, rfl, rfl, rfl, rfl, rfl, rfl, rfl, rfl⟩


/-- **C30, consistent WSGI environment**: what `Valet.buildEnviron` hands to the application says what the parsed
request says — method, path, query string, protocol, scheme, Content-Type and Content-Length, the body as `wsgi.input` —
and every request header `name` is present under `HTTP_NAME` (upper-cased, `-` → `_`). -/
theorem C30_environ_consistent (scheme : Str) (q : Request) :
    let env := buildEnviron scheme q
    odGet env "REQUEST_METHOD".toList = some (.str q.method)
    ∧ odGet env "PATH_INFO".toList = some (.str q.path)
    ∧ odGet env "QUERY_STRING".toList = some (.str q.query)
    ∧ odGet env "wsgi.url_scheme".toList = some (.str scheme)
    ∧ odGet env "wsgi.input".toList = some (.bytes q.body)
    ∧ odGet env "CONTENT_LENGTH".toList = some (.str (natStr q.body.length))
    ∧ odGet env "CONTENT_TYPE".toList = some (.str ((odGet q.headers "content-type".toList).getD []))
    ∧ ∀ n v, (n, v) ∈ q.headers → ∃ v', odGet env (envKey n) = some (.str v') := by
  simp only [buildEnviron]
  refine ⟨?_, ?_, ?_, ?_, ?_, ?_, ?_, ?_⟩
  all_goals first
    | (rw [show (fun (env : List (Str × EVal)) (kv : Str × Str) => odSet env ("HTTP_".toList ++ upper (replaceC '-' '_' kv.1)) (EVal.str kv.2))
            = (fun env kv => odSet env (envKey kv.1) (.str kv.2)) from rfl, env_fold_other _ _ _ (by decide)]; simp [odGet])
    | (intro n v h; exact env_fold_header q.headers _ n v h)


/-! ## responses -/

/-- the parsed headers of a block -/
def dictOf (hs : List (Str × Str)) : List (Str × Str) := hs.foldl (fun d kv => loSet d kv.1 kv.2) []

theorem parseResponse_head (closed : Bool) (code : Nat) (reasonWords : List Str)
    (hs : List (Str × Str)) (X : Bytes)
    (hw : ∀ w ∈ reasonWords, Visible w) (hc : 100 ≤ code ∧ code ≤ 999) (h100 : code ≠ 100)
    (hlen : (statusText code reasonWords).length ≤ MAX_LINE_SIZE)
    (hgood : ∀ kv ∈ hs, GoodName kv.1 ∧ GoodValue kv.2 ∧ (headerLine kv.1 kv.2).length ≤ MAX_LINE_SIZE)
    (hcount : hs.length ≤ MAX_HEADERS) :
    (responseHead code reasonWords hs ++ X).isEmpty = false
    ∧ parseStatus ((responseHead code reasonWords hs ++ X).length + 1) closed (responseHead code reasonWords hs ++ X)
        = .done ("HTTP/1.1".toList, code, joinStr [' '] reasonWords) (headerBlock hs ++ crlf ++ X)
    ∧ parseLeader (headerBlock hs ++ crlf ++ X) = .done (dictOf hs) X := by
  have hraw : responseHead code reasonWords hs ++ X
      = (statusText code reasonWords).map Char.toNat ++ 13 :: 10 :: (headerBlock hs ++ crlf ++ X) := by
    simp [responseHead, crlf]
  refine ⟨?_, ?_, (C30_header_roundtrip hs X hgood hcount).2⟩
  · rw [hraw]
    have := joinStr_ne_nil "HTTP/1.1".toList (natStr code :: reasonWords) (by decide)
    cases h : (statusText code reasonWords).map Char.toNat with
    | nil => simp [statusText] at h; exact absurd h this
    | cons _ _ => rfl
  · rw [hraw]
    exact parseStatus_head _ closed code reasonWords _ hw hc h100 hlen

/-- what the three framing theorems conclude about the parsed response -/
def Parsed (q : Response) (code : Nat) (reasonWords : List Str) (hs : List (Str × Str)) (body : Bytes) : Prop :=
  q.version = (1, 1) ∧ q.status = code ∧ q.reason = joinStr [' '] reasonWords ∧ q.headers = dictOf hs ∧ q.body = body

theorem version_11 : (if "HTTP/1.1".toList = "HTTP/1.0".toList ∨ "HTTP/1.1".toList = "HTTP/0.9".toList then some ((1 : Nat), (0 : Nat))
      else if startsWith "HTTP/1.".toList "HTTP/1.1".toList = true then some (1, 1) else none) = some (1, 1) := by decide

/-- **C30, response framed by Content-Length**: status line `HTTP/1.1 code reason…`, well-formed header lines with
`Content-Length` = length of the body (no `Transfer-Encoding`), empty line, body — parsed by `Respondent` into the same
status, reason, headers and body, whether or not the connection is closed afterwards; the next response's bytes are
left untouched. -/
theorem C30_response_wire_length (method : Str) (closed : Bool) (code : Nat) (reasonWords : List Str)
    (hs : List (Str × Str)) (body rest : Bytes)
    (hw : ∀ w ∈ reasonWords, Visible w) (hc : 200 ≤ code ∧ code ≤ 999) (hbodied : code ≠ 204 ∧ code ≠ 304)
    (hmethod : method ≠ "HEAD".toList)
    (hlen : (statusText code reasonWords).length ≤ MAX_LINE_SIZE)
    (hgood : ∀ kv ∈ hs, GoodName kv.1 ∧ GoodValue kv.2 ∧ (headerLine kv.1 kv.2).length ≤ MAX_LINE_SIZE)
    (hcount : hs.length ≤ MAX_HEADERS)
    (hte : odGet (dictOf hs) "transfer-encoding".toList = none)
    (hcl : odGet (dictOf hs) "content-length".toList = some (natStr body.length))
    (hev : isEventStream (dictOf hs) = false) :
    ∃ q, parseResponse method closed (responseHead code reasonWords hs ++ (body ++ rest)) = .done q rest
      ∧ Parsed q code reasonWords hs body ∧ q.chunked = false := by
  obtain ⟨hne, hst, hld⟩ := parseResponse_head closed code reasonWords hs (body ++ rest) hw ⟨by omega, hc.2⟩ (by omega)
    hlen hgood hcount
  have hlt : ¬ (body ++ rest).length < body.length := by simp
  have htake : (body ++ rest).take body.length = body := by simp
  have hdrop : (body ++ rest).drop body.length = rest := by simp
  have hs1 : ¬ (code = 204 ∨ code = 304 ∨ (100 ≤ code ∧ code < 200) ∨ method = "HEAD".toList) := by
    intro h; rcases h with h | h | h | h <;> first | omega | exact hmethod h
  unfold parseResponse
  simp only [hne, Bool.false_eq_true, if_false, hst, version_11, hld, hte, hcl, contentLength_natStr, hev, hs1,
    hlt, htake, hdrop]
  exact ⟨_, rfl, ⟨rfl, rfl, by simp [stripC_join _ hw], rfl, rfl⟩, rfl⟩

/-- **C30, chunked response**: the same head with `Transfer-Encoding: chunked` followed by the chunks the responder
writes (one per piece, then the empty chunk) is parsed into the concatenation of the pieces. -/
theorem C30_response_wire_chunked (method : Str) (code : Nat) (reasonWords : List Str)
    (hs : List (Str × Str)) (pieces : List Bytes) (rest : Bytes) (te : Str)
    (hw : ∀ w ∈ reasonWords, Visible w) (hc : 200 ≤ code ∧ code ≤ 999)
    (hlen : (statusText code reasonWords).length ≤ MAX_LINE_SIZE)
    (hgood : ∀ kv ∈ hs, GoodName kv.1 ∧ GoodValue kv.2 ∧ (headerLine kv.1 kv.2).length ≤ MAX_LINE_SIZE)
    (hcount : hs.length ≤ MAX_HEADERS)
    (hte : odGet (dictOf hs) "transfer-encoding".toList = some te) (hte' : lower te = "chunked".toList)
    (hclok : ∃ cl, contentLength (odGet (dictOf hs) "content-length".toList) = .ok cl)
    (hev : isEventStream (dictOf hs) = false)
    (hp : ∀ p ∈ pieces, p ≠ [] ∧ p.length < 2 ^ 64) :
    ∃ q, parseResponse method false (responseHead code reasonWords hs ++ (chunkedBody pieces ++ rest)) = .done q rest
      ∧ Parsed q code reasonWords hs pieces.flatten ∧ q.chunked = true := by
  obtain ⟨hne, hst, hld⟩ := parseResponse_head false code reasonWords hs (chunkedBody pieces ++ rest) hw
    ⟨by omega, hc.2⟩ (by omega) hlen hgood hcount
  obtain ⟨cl, hcl⟩ := hclok
  have hch := C30_chunked_body_roundtrip pieces rest hp
  unfold parseResponse
  simp only [hne, Bool.false_eq_true, if_false, hst, version_11, hld, hte, hte', hcl, hev, decide_true, if_true, hch]
  exact ⟨_, rfl, ⟨rfl, rfl, by simp [stripC_join _ hw], rfl, rfl⟩, rfl⟩

/-- **C30, response streamed without a length**: with neither `Content-Length` nor chunking the body is everything
up to the close of the connection: complete once closed, `need` (never complete) while the connection stays open —
which is why such a response cannot be followed by another one (C31). -/
theorem C30_response_wire_until_close (method : Str) (code : Nat) (reasonWords : List Str)
    (hs : List (Str × Str)) (body : Bytes)
    (hw : ∀ w ∈ reasonWords, Visible w) (hc : 200 ≤ code ∧ code ≤ 999) (hbodied : code ≠ 204 ∧ code ≠ 304)
    (hmethod : method ≠ "HEAD".toList)
    (hlen : (statusText code reasonWords).length ≤ MAX_LINE_SIZE)
    (hgood : ∀ kv ∈ hs, GoodName kv.1 ∧ GoodValue kv.2 ∧ (headerLine kv.1 kv.2).length ≤ MAX_LINE_SIZE)
    (hcount : hs.length ≤ MAX_HEADERS)
    (hte : odGet (dictOf hs) "transfer-encoding".toList = none)
    (hcl : odGet (dictOf hs) "content-length".toList = none)
    (hev : isEventStream (dictOf hs) = false) :
    (∃ q, parseResponse method true (responseHead code reasonWords hs ++ body) = .done q []
      ∧ Parsed q code reasonWords hs body ∧ q.chunked = false)
    ∧ parseResponse method false (responseHead code reasonWords hs ++ body) = .need := by
  have hs1 : ¬ (code = 204 ∨ code = 304 ∨ (100 ≤ code ∧ code < 200) ∨ method = "HEAD".toList) := by
    intro h; rcases h with h | h | h | h <;> first | omega | exact hmethod h
  constructor
  · obtain ⟨hne, hst, hld⟩ := parseResponse_head true code reasonWords hs body hw ⟨by omega, hc.2⟩ (by omega)
      hlen hgood hcount
    unfold parseResponse
    simp only [hne, Bool.false_eq_true, if_false, hst, version_11, hld, hte, hcl, contentLength, hev, hs1, if_true]
    exact ⟨_, rfl, ⟨rfl, rfl, by simp [stripC_join _ hw], rfl, rfl⟩, rfl⟩
  · obtain ⟨hne, hst, hld⟩ := parseResponse_head false code reasonWords hs body hw ⟨by omega, hc.2⟩ (by omega)
      hlen hgood hcount
    unfold parseResponse
    simp only [hne, Bool.false_eq_true, if_false, hst, version_11, hld, hte, hcl, contentLength, hev, hs1]


/-- non-vacuity of the three framing theorems: one concrete head, bodies `hi!` -/
example : ∃ q, parseResponse "GET".toList false
      (responseHead 404 ["Not".toList, "Found".toList] [("Content-Length".toList, "3".toList), ("X-a".toList, "v: 1".toList)]
        ++ ([104, 105, 33] ++ [72])) = .done q [72]
    ∧ Parsed q 404 ["Not".toList, "Found".toList] [("Content-Length".toList, "3".toList), ("X-a".toList, "v: 1".toList)] [104, 105, 33]
    ∧ q.chunked = false :=
  C30_response_wire_length _ false 404 _ _ [104, 105, 33] [72] (by decide +kernel) (by decide +kernel) (by decide +kernel) (by decide +kernel) (by decide +kernel)
    (by decide +kernel) (by decide +kernel) (by decide +kernel) (by decide +kernel) (by decide +kernel)

example : ∃ q, parseResponse "GET".toList false
      (responseHead 200 ["OK".toList] [("transfer-ENCODING".toList, "Chunked".toList)]
        ++ (chunkedBody [[104, 105], [33]] ++ [72])) = .done q [72]
    ∧ Parsed q 200 ["OK".toList] [("transfer-ENCODING".toList, "Chunked".toList)] [[104, 105], [33]].flatten
    ∧ q.chunked = true :=
  C30_response_wire_chunked _ 200 _ _ [[104, 105], [33]] [72] "Chunked".toList (by decide +kernel) (by decide +kernel) (by decide +kernel) (by decide +kernel)
    (by decide +kernel) (by decide +kernel) (by decide +kernel) ⟨none, by decide +kernel⟩ (by decide +kernel) (by decide +kernel)

end Ioflo.HttpCodec
