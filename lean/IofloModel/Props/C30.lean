import IofloModel.Lemmas.HttpCodec
/-!
# C30 — HTTP requests and WSGI responses survive the round trip

Model: `Model/HttpCodec.lean`.  Byte-level theorems; `urllib.parse` is the parameter `S : Std`.
-/
namespace Ioflo.HttpCodec

/-! ## chunks -/

theorem hex_not_ws (n : Nat) : ∀ b ∈ toHex n, isWsN b = false := by
  intro b hb
  have := toHex_lower n b hb
  unfold isHexLower at this
  unfold isWsN
  simp
  omega

theorem hex_not_mem (n c : Nat) (hc : ¬ isHexLower c) : c ∉ toHex n := fun h => hc (toHex_lower n c h)

theorem pyIntHex_toHex (n : Nat) : pyIntHex (toHex n) = .ok n := by
  unfold pyIntHex
  simp only [stripN_id _ (hex_not_ws n)]
  have h128 : (toHex n).any (fun b => decide (b ≥ 128)) = false := by
    rw [List.any_eq_false]
    intro b hb
    have := toHex_lower n b hb
    unfold isHexLower at this
    simp; omega
  have hne : (toHex n).isEmpty = false := by
    cases h : toHex n with
    | nil => exact absurd h (toHex_ne_nil n)
    | cons _ _ => rfl
  simp [h128, hexDigits_toHex, hne]

/-- **C30, chunk round trip** (every byte string, every continuation): what `packChunk` writes, `parseChunk`
reads back — size, data and the untouched rest; the empty message is the terminating chunk. -/
theorem C30_chunk_roundtrip (msg rest : Bytes) (hsize : msg.length < 2 ^ 64) :
    parseChunk (packChunk msg ++ rest) = .done ⟨msg.length, [], [], msg⟩ rest := by
  have hlen : (toHex msg.length).length ≤ MAX_LINE_SIZE := by
    have := toHex_length_le 15 msg.length (by simpa using hsize)
    unfold MAX_LINE_SIZE; omega
  have h13 : 13 ∉ toHex msg.length := hex_not_mem _ 13 (by unfold isHexLower; omega)
  have h59 : 59 ∉ toHex msg.length := hex_not_mem _ 59 (by unfold isHexLower; omega)
  have hraw : packChunk msg ++ rest = toHex msg.length ++ 13 :: 10 :: (msg ++ 13 :: 10 :: rest) := by
    simp [packChunk, crlf]
  unfold parseChunk
  rw [hraw, parseLine_crlf true _ _ h13 (by simp) hlen]
  have hex0 : parseExts [] = [] := by simp [parseExts]
  simp only [partitionN_not_mem 59 _ h59, pyIntHex_toHex, hex0]
  by_cases h0 : msg.length = 0
  · have hm : msg = [] := List.length_eq_zero_iff.1 h0
    subst hm
    simp [parseLeader, parseLeaderAux, leaderLine, lineRes, splitCRLF, MAX_LINE_SIZE, MAX_HEADERS]
  · have hdrop : (msg ++ 13 :: 10 :: rest).drop msg.length = 13 :: 10 :: rest := by simp
    have htake : (msg ++ 13 :: 10 :: rest).take msg.length = msg := by simp
    have hpl : parseLine true (13 :: 10 :: rest) = .done [] rest := by
      simpa using parseLine_crlf true [] rest (by simp) (by simp) (by simp [MAX_LINE_SIZE])
    have hl : ¬ (msg.length + (rest.length + 1 + 1) < msg.length) := by omega
    simp [h0, hdrop, htake, hpl, hl]

/-- non-vacuity: a three byte message and what follows it -/
example : parseChunk (packChunk [104, 105, 33] ++ [48, 13, 10, 13, 10]) = .done ⟨3, [], [], [104, 105, 33]⟩ [48, 13, 10, 13, 10] :=
  C30_chunk_roundtrip _ _ (by decide)

/-- a body as `Responder.write` frames it when chunking: one chunk per piece written, then the empty chunk -/
def chunkedBody (pieces : List Bytes) : Bytes := pieces.flatMap packChunk ++ packChunk []

theorem parseChunks_pieces (pieces : List Bytes) :
    ∀ (fuel : Nat) (acc rest : Bytes), pieces.length < fuel →
      (∀ p ∈ pieces, p ≠ [] ∧ p.length < 2 ^ 64) →
      parseChunks fuel acc [] (chunkedBody pieces ++ rest) = .done (acc ++ pieces.flatten, [], []) rest := by
  induction pieces with
  | nil =>
    intro fuel acc rest hf _
    cases fuel with
    | zero => omega
    | succ f =>
      have := C30_chunk_roundtrip [] rest (by decide)
      simp only [chunkedBody, List.flatMap_nil, List.nil_append, parseChunks, this]
      simp
  | cons p ps ih =>
    intro fuel acc rest hf hp
    cases fuel with
    | zero => omega
    | succ f =>
      obtain ⟨hne, hlen⟩ := hp p (by simp)
      have hraw : chunkedBody (p :: ps) ++ rest = packChunk p ++ (chunkedBody ps ++ rest) := by
        simp [chunkedBody]
      have hsz : p.length ≠ 0 := fun h => hne (List.length_eq_zero_iff.1 h)
      rw [hraw]
      simp only [parseChunks, C30_chunk_roundtrip p _ hlen, List.foldl_nil, hsz, if_false]
      rw [ih f (acc ++ p) rest (by simp at hf; omega) (fun q hq => hp q (by simp [hq]))]
      simp

/-- **C30, chunked body round trip** (any number of pieces): the chunks the responder writes — one per
non-empty piece, then the empty chunk — are read back as the concatenation of the pieces, and what follows
the body is left untouched. -/
theorem C30_chunked_body_roundtrip (pieces : List Bytes) (rest : Bytes)
    (hp : ∀ p ∈ pieces, p ≠ [] ∧ p.length < 2 ^ 64) :
    parseChunks ((chunkedBody pieces ++ rest).length + 1) [] [] (chunkedBody pieces ++ rest)
      = .done (pieces.flatten, [], []) rest := by
  have hlen : pieces.length ≤ (chunkedBody pieces).length := by
    clear hp
    induction pieces with
    | nil => simp
    | cons p ps ih =>
      have h1 : 1 ≤ (packChunk p).length := by simp [packChunk, crlf]; omega
      simp only [chunkedBody, List.flatMap_cons, List.length_append, List.length_cons] at ih ⊢
      omega
  have := parseChunks_pieces pieces ((chunkedBody pieces ++ rest).length + 1) [] rest
    (by simp only [List.length_append]; omega) hp
  simpa using this

/-- non-vacuity -/
example : parseChunks 100 [] [] (chunkedBody [[1, 2, 3], [13, 10], [48]] ++ [7])
    = .done ([] ++ [[1, 2, 3], [13, 10], [48]].flatten, [], []) [7] :=
  parseChunks_pieces _ 100 [] [7] (by decide) (by decide)

/-! ## header lines -/

theorem headerBlock_length (hs : List (Str × Str)) : hs.length ≤ (headerBlock hs).length := by
  induction hs with
  | nil => simp [headerBlock]
  | cons kv hs ih =>
    simp only [headerBlock, List.flatMap_cons, List.length_append, List.length_cons] at ih ⊢
    omega

/-- **C30, header round trip** (every block of at most 100 headers): the lines `packHeader` writes for names
that are ASCII without `:`/CR/LF and Latin-1 values without CR/LF and without a blank at either end — in any
letter case, with blanks, colons and commas inside the values — are read back by `parseLeader` as the dict `lower(name) ↦ value` (later duplicates
win, first position kept), and the bytes after the empty line are left untouched. -/
theorem C30_header_roundtrip (hs : List (Str × Str)) (rest : Bytes)
    (hgood : ∀ kv ∈ hs, GoodName kv.1 ∧ GoodValue kv.2 ∧ (headerLine kv.1 kv.2).length ≤ MAX_LINE_SIZE)
    (hcount : hs.length ≤ MAX_HEADERS) :
    (∀ kv ∈ hs, packHeader kv.1 [.str kv.2] = .ok (headerLine kv.1 kv.2))
    ∧ parseLeader (headerBlock hs ++ crlf ++ rest) = .done (hs.foldl (fun d kv => loSet d kv.1 kv.2) []) rest := by
  refine ⟨fun kv h => packHeader_good (hgood kv h).1 (hgood kv h).2.1, ?_⟩
  unfold parseLeader
  have hraw : headerBlock hs ++ crlf ++ rest = headerBlock hs ++ 13 :: 10 :: rest := by simp [crlf]
  rw [hraw]
  apply parseLeaderAux_block hs _ [] rest _ hgood (by simpa using hcount)
  have := headerBlock_length hs
  simp only [List.length_append, List.length_cons]
  omega

/-- non-vacuity: mixed case names, a value with blanks and ": " inside, a duplicate -/
example : parseLeader (headerBlock [("x-THING".toList, "a: b".toList), ("Accept".toList, "é".toList),
      ("X-Thing".toList, "2".toList)] ++ crlf ++ [1, 2])
    = .done [("x-thing".toList, "2".toList), ("accept".toList, "é".toList)] [1, 2] := by decide +kernel

/-! ## requests -/

/-- **C30, request on the wire** (every method, target, header block and body; every `urllib.parse`): a request line
`METHOD target HTTP/1.1`, at most 100 well-formed header lines that frame the body (`Content-Length` = its length, or
none for an empty body, no `Transfer-Encoding`), the empty line and the body are parsed by `Requestant` into the same
method, target, headers (lower-cased names, later duplicates win) and body; path and query are what `urlsplit` /
`unquote` make of the target; bytes after the body are left untouched. -/
theorem C30_request_wire_roundtrip (S : Std) (method target : Str) (hs : List (Str × Str)) (body rest : Bytes) (port : Option Nat)
    (hm : method ∈ METHODS) (ht : Visible target)
    (hline : (method ++ ' ' :: (target ++ ' ' :: "HTTP/1.1".toList)).length ≤ MAX_LINE_SIZE)
    (hport : (S.urlsplit target).port = some port)
    (hgood : ∀ kv ∈ hs, GoodName kv.1 ∧ GoodValue kv.2 ∧ (headerLine kv.1 kv.2).length ≤ MAX_LINE_SIZE)
    (hcount : hs.length ≤ MAX_HEADERS)
    (hte : odGet (hs.foldl (fun d kv => loSet d kv.1 kv.2) []) "transfer-encoding".toList = none)
    (hcl : (body = [] ∧ odGet (hs.foldl (fun d kv => loSet d kv.1 kv.2) []) "content-length".toList = none)
         ∨ odGet (hs.foldl (fun d kv => loSet d kv.1 kv.2) []) "content-length".toList = some (natStr body.length)) :
    ∃ q, parseRequest S (requestBytes method target hs body ++ rest) = .done q rest
      ∧ q.method = method ∧ q.url = target ∧ q.version = (1, 1)
      ∧ q.path = S.unquote (S.urlsplit target).path ∧ q.query = (S.urlsplit target).query
      ∧ q.headers = hs.foldl (fun d kv => loSet d kv.1 kv.2) [] ∧ q.chunked = false ∧ q.body = body := by
  have hmv := methods_visible method hm
  let line : Str := method ++ ' ' :: (target ++ ' ' :: "HTTP/1.1".toList)
  have hver : Visible "HTTP/1.1".toList := by unfold Visible; decide
  have hraw : requestBytes method target hs body ++ rest
      = line.map Char.toNat ++ 13 :: 10 :: (headerBlock hs ++ crlf ++ (body ++ rest)) := by
    simp [requestBytes, crlf, line]
  have h13 : 13 ∉ line.map Char.toNat := by
    intro h
    obtain ⟨c, hc, e⟩ := List.mem_map.1 h
    simp only [line, List.mem_append, List.mem_cons] at hc
    rcases hc with hc | rfl | hc | rfl | hc
    · have := hmv.2 c hc; omega
    · simp at e
    · have := ht.2 c hc; omega
    · simp at e
    · have := hver.2 c hc; omega
  have hne : (requestBytes method target hs body ++ rest).isEmpty = false := by
    rw [hraw]
    have : line ≠ [] := by simp [line]
    cases h : line.map Char.toNat with
    | nil => simp at h; exact absurd h this
    | cons _ _ => rfl
  have h10 : 10 ∉ line.map Char.toNat := by
    intro h
    obtain ⟨c, hc, e⟩ := List.mem_map.1 h
    simp only [line, List.mem_append, List.mem_cons] at hc
    rcases hc with hc | rfl | hc | rfl | hc
    · have := hmv.2 c hc; omega
    · simp at e
    · have := ht.2 c hc; omega
    · simp at e
    · have := hver.2 c hc; omega
  have hpl := parseLine_crlf false (line.map Char.toNat) (headerBlock hs ++ crlf ++ (body ++ rest)) h13 (fun _ => h10)
    (by rw [List.length_map]; exact hline)
  have hsplit : splitWs line = [method, target, "HTTP/1.1".toList] :=
    splitWs_three _ _ _ (visible_nospace hmv) (visible_nospace ht) (visible_nospace hver) hmv.1 ht.1 hver.1
  have hprl : parseRequestLine (line.map Char.toNat) = .ok (method, target, "HTTP/1.1".toList) := by
    unfold parseRequestLine
    rw [decode_encode]
    have hl : line.isEmpty = false := by simp [line]
    have hsw : startsWith ['H', 'T', 'T', 'P', '/'] ['H', 'T', 'T', 'P', '/', '1', '.', '1'] = true := by decide
    simp [hl, hsplit, hsw, hm]
  have hstrip : stripC target = target := stripC_id _ (visible_nospace ht)
  have hlead := (C30_header_roundtrip hs (body ++ rest) hgood hcount).2
  have hv0 : startsWith "HTTP/1.".toList "HTTP/1.1".toList = true := by decide
  have hv1 : startsWith "HTTP/1.0".toList "HTTP/1.1".toList = false := by decide
  unfold parseRequest
  rw [hraw] at hne ⊢
  simp only [hne, Bool.false_eq_true, if_false, hpl, hprl, hstrip, hv0, hv1, Bool.not_true, hport, hlead, hte]
  have hlt : ¬ (body ++ rest).length < body.length := by simp
  have htake : (body ++ rest).take body.length = body := by simp
  have hdrop : (body ++ rest).drop body.length = rest := by simp
  rcases hcl with ⟨hb, hnone⟩ | hsome
  · subst hb
    simp only [hnone, contentLength]
    simp only [List.nil_append, List.length_nil, Nat.not_lt_zero, if_false, List.take_zero, List.drop_zero]
    exact ⟨_, rfl, rfl, rfl, rfl, rfl, rfl, rfl, rfl, rfl⟩
  · simp only [hsome, contentLength_natStr]
    have hne' : (natStr body.length).isEmpty = false := by
      cases h : natStr body.length with
      | nil => exact absurd h (natStr_ne_nil _)
      | cons _ _ => rfl
    simp only [hne', Bool.false_eq_true, if_false, hlt, htake, hdrop]
    exact ⟨_, rfl, rfl, rfl, rfl, rfl, rfl, rfl, rfl, rfl⟩


/-- **C30, consistent WSGI environment**: what `Valet.buildEnviron` hands to the application says what the parsed
request says — method, path, query string, protocol, scheme, Content-Type and Content-Length, the body as `wsgi.input` —
and every request header `name` is present under `HTTP_NAME` (upper-cased, `-` → `_`). -/
theorem C30_environ_consistent (scheme : Str) (q : Request) :
    let env := buildEnviron scheme q
    odGet env "REQUEST_METHOD".toList = some (.str q.method)
    ∧ odGet env "PATH_INFO".toList = some (.str q.path)
    ∧ odGet env "QUERY_STRING".toList = some (.str q.query)
    ∧ odGet env "wsgi.url_scheme".toList = some (.str scheme)
    ∧ odGet env "wsgi.input".toList = some (.bytes q.body)
    ∧ odGet env "CONTENT_LENGTH".toList = some (.str (natStr q.body.length))
    ∧ odGet env "CONTENT_TYPE".toList = some (.str ((odGet q.headers "content-type".toList).getD []))
    ∧ ∀ n v, (n, v) ∈ q.headers → ∃ v', odGet env (envKey n) = some (.str v') := by
  simp only [buildEnviron]
  refine ⟨?_, ?_, ?_, ?_, ?_, ?_, ?_, ?_⟩
  all_goals first
    | (rw [show (fun (env : List (Str × EVal)) (kv : Str × Str) => odSet env ("HTTP_".toList ++ upper (replaceC '-' '_' kv.1)) (EVal.str kv.2))
            = (fun env kv => odSet env (envKey kv.1) (.str kv.2)) from rfl, env_fold_other _ _ _ (by decide)]; simp [odGet])
    | (intro n v h; exact env_fold_header q.headers _ n v h)


/-- the keys `buildEnviron` sets for every request -/
def baseEnvKeys : List Str :=
  ["wsgi.url_scheme", "wsgi.input", "REQUEST_METHOD", "SERVER_PROTOCOL", "SCRIPT_NAME", "PATH_INFO", "QUERY_STRING",
   "CONTENT_TYPE", "CONTENT_LENGTH"].map String.toList

/-- **C30, the environment speaks of the current request only** (all request sequences on a connection): after any
requests `qs` and then `q` on one keep-alive connection, the environment the connection's Responder holds — the one
the application is called with for `q` — is `buildEnviron scheme q`: a function of `q` and the connection's scheme,
whatever `qs` were; and every key in it is one of the nine per-request keys or the `HTTP_` key of a header that `q`
itself carries, with that header's value.  Nothing of an earlier request is carried over. -/
theorem C30_environ_per_request (scheme : Str) (qs : List Request) (q : Request) :
    serveConnection scheme (qs ++ [q]) = some (buildEnviron scheme q)
    ∧ ∀ k v, odGet (buildEnviron scheme q) k = some v →
        k ∈ baseEnvKeys ∨ ∃ n t, (n, t) ∈ q.headers ∧ k = envKey n ∧ v = .str t := by
  constructor
  · unfold serveConnection
    rw [List.foldl_append]
    rfl
  · intro k v h
    simp only [buildEnviron] at h
    rw [show (fun (env : List (Str × EVal)) (kv : Str × Str) => odSet env ("HTTP_".toList ++ upper (replaceC '-' '_' kv.1)) (EVal.str kv.2))
          = (fun env kv => odSet env (envKey kv.1) (.str kv.2)) from rfl] at h
    rcases env_fold_only _ _ k v h with hb | hh
    · left
      exact odGet_mem_keys _ k v hb
    · exact Or.inr hh

/-- non-vacuity: a POST with a token header followed by a bare GET: the second environment has no `HTTP_X_TOKEN` -/
example :
    let q1 : Request := { method := "POST".toList, url := "/a".toList, version := (1, 1), path := "/a".toList, scheme := [],
                          hostname := none, port := none, query := [], fragment := [],
                          headers := [("x-token".toList, "s".toList)], chunked := false, body := [1], parms := [],
                          trails := [], jsoned := none, persisted := true }
    let q2 : Request := { q1 with method := "GET".toList, headers := [], body := [] }
    odGet (buildEnviron "http".toList q1) (envKey "x-token".toList) = some (.str "s".toList)
    ∧ serveConnection "http".toList [q1, q2] = some (buildEnviron "http".toList q2)
    ∧ odGet (buildEnviron "http".toList q2) (envKey "x-token".toList) = none := by
  decide +kernel

/-- **C30, the server's scheme** (every way of constructing a `Valet` / `Porter`): the scheme the constructor
settles on is `https` with TLS and default port 443, or `http` without TLS and default port 80 — never empty, never
anything else; a caller-supplied servant dictates which (its type), and without one it is TLS exactly for
`scheme='https'`. -/
theorem C30_server_scheme (servant : Option Bool) (scheme sch : Str) (sec : Bool) (dp : Nat)
    (h : serverScheme servant scheme = .ok (sch, sec, dp)) :
    ((sch = "https".toList ∧ sec = true ∧ dp = 443) ∨ (sch = "http".toList ∧ sec = false ∧ dp = 80))
      ∧ (∀ tls, servant = some tls → sec = tls)
      ∧ (servant = none → (sec = true ↔ scheme = "https".toList)) := by
  unfold serverScheme at h
  split at h
  · split at h
    · cases h
    · simp only [Except.ok.injEq, Prod.mk.injEq] at h
      obtain ⟨h1, h2, h3⟩ := h
      subst h1; subst h2; subst h3
      exact ⟨Or.inl ⟨rfl, rfl, rfl⟩, by intro tls ht; cases ht; rfl, by intro hn; cases hn⟩
  · split at h
    · cases h
    · simp only [Except.ok.injEq, Prod.mk.injEq] at h
      obtain ⟨h1, h2, h3⟩ := h
      subst h1; subst h2; subst h3
      exact ⟨Or.inr ⟨rfl, rfl, rfl⟩, by intro tls ht; cases ht; rfl, by intro hn; cases hn⟩
  · split at h
    · rename_i hs
      simp only [Except.ok.injEq, Prod.mk.injEq] at h
      obtain ⟨h1, h2, h3⟩ := h
      subst h1; subst h2; subst h3
      exact ⟨Or.inl ⟨rfl, rfl, rfl⟩, fun tls ht => (by cases ht), fun _ => ⟨fun _ => hs, fun _ => rfl⟩⟩
    · rename_i hs
      simp only [Except.ok.injEq, Prod.mk.injEq] at h
      obtain ⟨h1, h2, h3⟩ := h
      subst h1; subst h2; subst h3
      exact ⟨Or.inr ⟨rfl, rfl, rfl⟩, fun tls ht => (by cases ht),
        fun _ => ⟨fun hc => (by cases hc), fun hc => absurd hc hs⟩⟩

/-- **C30, `wsgi.url_scheme` of a constructed Valet**: whatever `servant=` and `scheme=` the Valet was constructed
with, the environment it hands to the application names `http` or `https` as `wsgi.url_scheme` (PEP 3333) — `https`
exactly when the transport is TLS — and is otherwise the consistent environment of `C30_environ_consistent`. -/
theorem C30_valet_environ_scheme (servant : Option Bool) (scheme : Str) (q : Request) (env : List (Str × EVal))
    (h : valetEnviron servant scheme q = .ok env) :
    ∃ sch sec dp, serverScheme servant scheme = .ok (sch, sec, dp) ∧ env = buildEnviron sch q
      ∧ odGet env "wsgi.url_scheme".toList = some (.str (if sec then "https".toList else "http".toList))
      ∧ odGet env "REQUEST_METHOD".toList = some (.str q.method)
      ∧ odGet env "PATH_INFO".toList = some (.str q.path)
      ∧ odGet env "wsgi.input".toList = some (.bytes q.body) := by
  unfold valetEnviron at h
  split at h
  · cases h
  · rename_i sch sec dp hs
    simp only [Except.ok.injEq] at h
    subst h
    have hc := C30_environ_consistent sch q
    simp only [] at hc
    obtain ⟨hm, hp, _, hu, hi, _⟩ := hc
    refine ⟨sch, sec, dp, hs, rfl, ?_, hm, hp, hi⟩
    rw [hu]
    rcases (C30_server_scheme servant scheme sch sec dp hs).1 with ⟨h1, h2, _⟩ | ⟨h1, h2, _⟩
    · rw [h1, h2]; rfl
    · rw [h1, h2]; rfl

/-- non-vacuity: a supplied TLS servant without a scheme gives `https`; a supplied plain servant with scheme
`https` is refused; no servant and no scheme gives plain `http` on port 80 -/
example : serverScheme (some true) [] = .ok ("https".toList, true, 443)
    ∧ serverScheme (some false) "https".toList = .error .valueError
    ∧ serverScheme none [] = .ok ("http".toList, false, 80)
    ∧ serverPort none 443 = 443 ∧ serverPort (some 8080) 443 = 8080 := by decide

/-! ## responses -/

/-- the parsed headers of a block -/
def dictOf (hs : List (Str × Str)) : List (Str × Str) := hs.foldl (fun d kv => loSet d kv.1 kv.2) []

theorem parseResponse_head (closed : Bool) (code : Nat) (reasonWords : List Str)
    (hs : List (Str × Str)) (X : Bytes)
    (hw : ∀ w ∈ reasonWords, Visible w) (hc : 100 ≤ code ∧ code ≤ 999) (h100 : code ≠ 100)
    (hlen : (statusText code reasonWords).length ≤ MAX_LINE_SIZE)
    (hgood : ∀ kv ∈ hs, GoodName kv.1 ∧ GoodValue kv.2 ∧ (headerLine kv.1 kv.2).length ≤ MAX_LINE_SIZE)
    (hcount : hs.length ≤ MAX_HEADERS) :
    (responseHead code reasonWords hs ++ X).isEmpty = false
    ∧ parseStatus ((responseHead code reasonWords hs ++ X).length + 1) closed (responseHead code reasonWords hs ++ X)
        = .done ("HTTP/1.1".toList, code, joinStr [' '] reasonWords) (headerBlock hs ++ crlf ++ X)
    ∧ parseLeader (headerBlock hs ++ crlf ++ X) = .done (dictOf hs) X := by
  have hraw : responseHead code reasonWords hs ++ X
      = (statusText code reasonWords).map Char.toNat ++ 13 :: 10 :: (headerBlock hs ++ crlf ++ X) := by
    simp [responseHead, crlf]
  refine ⟨?_, ?_, (C30_header_roundtrip hs X hgood hcount).2⟩
  · rw [hraw]
    have := joinStr_ne_nil "HTTP/1.1".toList (natStr code :: reasonWords) (by decide)
    cases h : (statusText code reasonWords).map Char.toNat with
    | nil => simp [statusText] at h; exact absurd h this
    | cons _ _ => rfl
  · rw [hraw]
    exact parseStatus_head _ closed code reasonWords _ hw hc h100 hlen

/-- what the three framing theorems conclude about the parsed response -/
def Parsed (q : Response) (code : Nat) (reasonWords : List Str) (hs : List (Str × Str)) (body : Bytes) : Prop :=
  q.version = (1, 1) ∧ q.status = code ∧ q.reason = joinStr [' '] reasonWords ∧ q.headers = dictOf hs ∧ q.body = body

theorem version_11 : (if "HTTP/1.1".toList = "HTTP/1.0".toList ∨ "HTTP/1.1".toList = "HTTP/0.9".toList then some ((1 : Nat), (0 : Nat))
      else if startsWith "HTTP/1.".toList "HTTP/1.1".toList = true then some (1, 1) else none) = some (1, 1) := by decide

/-- **C30, response framed by Content-Length**: status line `HTTP/1.1 code reason…`, well-formed header lines with
`Content-Length` = length of the body (no `Transfer-Encoding`), empty line, body — parsed by `Respondent` into the same
status, reason, headers and body, whether or not the connection is closed afterwards; the next response's bytes are
left untouched. -/
theorem C30_response_wire_length (method : Str) (closed : Bool) (code : Nat) (reasonWords : List Str)
    (hs : List (Str × Str)) (body rest : Bytes)
    (hw : ∀ w ∈ reasonWords, Visible w) (hc : 200 ≤ code ∧ code ≤ 999) (hbodied : code ≠ 204 ∧ code ≠ 304)
    (hmethod : method ≠ "HEAD".toList)
    (hlen : (statusText code reasonWords).length ≤ MAX_LINE_SIZE)
    (hgood : ∀ kv ∈ hs, GoodName kv.1 ∧ GoodValue kv.2 ∧ (headerLine kv.1 kv.2).length ≤ MAX_LINE_SIZE)
    (hcount : hs.length ≤ MAX_HEADERS)
    (hte : odGet (dictOf hs) "transfer-encoding".toList = none)
    (hcl : odGet (dictOf hs) "content-length".toList = some (natStr body.length))
    (hev : isEventStream (dictOf hs) = false) :
    ∃ q, parseResponse method closed (responseHead code reasonWords hs ++ (body ++ rest)) = .done q rest
      ∧ Parsed q code reasonWords hs body ∧ q.chunked = false := by
  obtain ⟨hne, hst, hld⟩ := parseResponse_head closed code reasonWords hs (body ++ rest) hw ⟨by omega, hc.2⟩ (by omega)
    hlen hgood hcount
  have hlt : ¬ (body ++ rest).length < body.length := by simp
  have htake : (body ++ rest).take body.length = body := by simp
  have hdrop : (body ++ rest).drop body.length = rest := by simp
  have hs1 : ¬ (code = 204 ∨ code = 304 ∨ (100 ≤ code ∧ code < 200) ∨ method = "HEAD".toList) := by
    intro h; rcases h with h | h | h | h <;> first | omega | exact hmethod h
  unfold parseResponse
  simp only [hne, Bool.false_eq_true, if_false, hst, version_11, hld, hte, hcl, contentLength_natStr, hev, hs1,
    hlt, htake, hdrop]
  exact ⟨_, rfl, ⟨rfl, rfl, by simp [stripC_join _ hw], rfl, rfl⟩, rfl⟩

/-- **C30, chunked response**: the same head with `Transfer-Encoding: chunked` followed by the chunks the responder
writes (one per piece, then the empty chunk) is parsed into the concatenation of the pieces. -/
theorem C30_response_wire_chunked (method : Str) (code : Nat) (reasonWords : List Str)
    (hs : List (Str × Str)) (pieces : List Bytes) (rest : Bytes) (te : Str)
    (hw : ∀ w ∈ reasonWords, Visible w) (hc : 200 ≤ code ∧ code ≤ 999)
    (hlen : (statusText code reasonWords).length ≤ MAX_LINE_SIZE)
    (hgood : ∀ kv ∈ hs, GoodName kv.1 ∧ GoodValue kv.2 ∧ (headerLine kv.1 kv.2).length ≤ MAX_LINE_SIZE)
    (hcount : hs.length ≤ MAX_HEADERS)
    (hte : odGet (dictOf hs) "transfer-encoding".toList = some te) (hte' : lower te = "chunked".toList)
    (hclok : ∃ cl, contentLength (odGet (dictOf hs) "content-length".toList) = .ok cl)
    (hev : isEventStream (dictOf hs) = false)
    (hp : ∀ p ∈ pieces, p ≠ [] ∧ p.length < 2 ^ 64) :
    ∃ q, parseResponse method false (responseHead code reasonWords hs ++ (chunkedBody pieces ++ rest)) = .done q rest
      ∧ Parsed q code reasonWords hs pieces.flatten ∧ q.chunked = true := by
  obtain ⟨hne, hst, hld⟩ := parseResponse_head false code reasonWords hs (chunkedBody pieces ++ rest) hw
    ⟨by omega, hc.2⟩ (by omega) hlen hgood hcount
  obtain ⟨cl, hcl⟩ := hclok
  have hch := C30_chunked_body_roundtrip pieces rest hp
  unfold parseResponse
  simp only [hne, Bool.false_eq_true, if_false, hst, version_11, hld, hte, hte', hcl, hev, decide_true, if_true, hch]
  exact ⟨_, rfl, ⟨rfl, rfl, by simp [stripC_join _ hw], rfl, rfl⟩, rfl⟩

/-- **C30, a response that has no body** (answer to `HEAD`, `204`, `304`): whatever length its head declares, the
client takes no body bytes — what follows the head is the next response, left untouched; and when the head says
`Transfer-Encoding: chunked` (what the WSGI server does for an application that gave no Content-Length) the
chunk terminator the server writes **is** consumed, so that the next response on the connection starts at its status
line (second part: `C30_response_wire_chunked` with no pieces). -/
theorem C30_response_wire_bodiless (method : Str) (closed : Bool) (code : Nat) (reasonWords : List Str)
    (hs : List (Str × Str)) (rest : Bytes) (cl : Option Nat)
    (hw : ∀ w ∈ reasonWords, Visible w) (hc : 200 ≤ code ∧ code ≤ 999)
    (hbodiless : method = "HEAD".toList ∨ code = 204 ∨ code = 304)
    (hlen : (statusText code reasonWords).length ≤ MAX_LINE_SIZE)
    (hgood : ∀ kv ∈ hs, GoodName kv.1 ∧ GoodValue kv.2 ∧ (headerLine kv.1 kv.2).length ≤ MAX_LINE_SIZE)
    (hcount : hs.length ≤ MAX_HEADERS)
    (hte : odGet (dictOf hs) "transfer-encoding".toList = none)
    (hcl : contentLength (odGet (dictOf hs) "content-length".toList) = .ok cl)
    (hev : isEventStream (dictOf hs) = false) :
    ∃ q, parseResponse method closed (responseHead code reasonWords hs ++ rest) = .done q rest
      ∧ Parsed q code reasonWords hs [] ∧ q.chunked = false := by
  obtain ⟨hne, hst, hld⟩ := parseResponse_head closed code reasonWords hs rest hw ⟨by omega, hc.2⟩ (by omega)
    hlen hgood hcount
  have hs1 : (code = 204 ∨ code = 304 ∨ (100 ≤ code ∧ code < 200) ∨ method = "HEAD".toList) := by
    rcases hbodiless with h | h | h
    · exact Or.inr (Or.inr (Or.inr h))
    · exact Or.inl h
    · exact Or.inr (Or.inl h)
  unfold parseResponse
  simp only [hne, Bool.false_eq_true, if_false, hst, version_11, hld, hte, hcl, hev, hs1, if_true, Nat.not_lt_zero,
    List.take_zero, List.drop_zero]
  exact ⟨_, rfl, ⟨rfl, rfl, by simp [stripC_join _ hw], rfl, rfl⟩, rfl⟩

example : ∃ q, parseResponse "HEAD".toList false
      (responseHead 200 ["OK".toList] [("Content-Length".toList, "1234".toList)] ++ "HTTP/1.1 204".toList.map Char.toNat)
        = .done q ("HTTP/1.1 204".toList.map Char.toNat)
    ∧ Parsed q 200 ["OK".toList] [("Content-Length".toList, "1234".toList)] [] ∧ q.chunked = false :=
  C30_response_wire_bodiless _ false 200 _ _ _ (some 1234) (by decide +kernel) (by decide +kernel) (Or.inl rfl) (by decide +kernel)
    (by decide +kernel) (by decide +kernel) (by decide +kernel) (by decide +kernel) (by decide +kernel)

/-- the chunked no-body case: `204` with `Transfer-Encoding: chunked`, terminator consumed, next status line intact -/
example : ∃ q, parseResponse "GET".toList false
      (responseHead 204 ["No".toList, "Content".toList] [("Transfer-Encoding".toList, "chunked".toList)]
        ++ (chunkedBody [] ++ "HTTP/1.1 200 OK".toList.map Char.toNat)) = .done q ("HTTP/1.1 200 OK".toList.map Char.toNat)
    ∧ Parsed q 204 ["No".toList, "Content".toList] [("Transfer-Encoding".toList, "chunked".toList)] ([] : List Bytes).flatten
    ∧ q.chunked = true :=
  C30_response_wire_chunked _ 204 _ _ [] _ "chunked".toList (by decide +kernel) (by decide +kernel) (by decide +kernel) (by decide +kernel)
    (by decide +kernel) (by decide +kernel) (by decide +kernel) ⟨none, by decide +kernel⟩ (by decide +kernel) (by simp)

/-- **C30, response streamed without a length**: with neither `Content-Length` nor chunking the body is everything
up to the close of the connection: complete once closed, `need` (never complete) while the connection stays open —
which is why such a response cannot be followed by another one (C31). -/
theorem C30_response_wire_until_close (method : Str) (code : Nat) (reasonWords : List Str)
    (hs : List (Str × Str)) (body : Bytes)
    (hw : ∀ w ∈ reasonWords, Visible w) (hc : 200 ≤ code ∧ code ≤ 999) (hbodied : code ≠ 204 ∧ code ≠ 304)
    (hmethod : method ≠ "HEAD".toList)
    (hlen : (statusText code reasonWords).length ≤ MAX_LINE_SIZE)
    (hgood : ∀ kv ∈ hs, GoodName kv.1 ∧ GoodValue kv.2 ∧ (headerLine kv.1 kv.2).length ≤ MAX_LINE_SIZE)
    (hcount : hs.length ≤ MAX_HEADERS)
    (hte : odGet (dictOf hs) "transfer-encoding".toList = none)
    (hcl : odGet (dictOf hs) "content-length".toList = none)
    (hev : isEventStream (dictOf hs) = false) :
    (∃ q, parseResponse method true (responseHead code reasonWords hs ++ body) = .done q []
      ∧ Parsed q code reasonWords hs body ∧ q.chunked = false)
    ∧ parseResponse method false (responseHead code reasonWords hs ++ body) = .need := by
  have hs1 : ¬ (code = 204 ∨ code = 304 ∨ (100 ≤ code ∧ code < 200) ∨ method = "HEAD".toList) := by
    intro h; rcases h with h | h | h | h <;> first | omega | exact hmethod h
  constructor
  · obtain ⟨hne, hst, hld⟩ := parseResponse_head true code reasonWords hs body hw ⟨by omega, hc.2⟩ (by omega)
      hlen hgood hcount
    unfold parseResponse
    simp only [hne, Bool.false_eq_true, if_false, hst, version_11, hld, hte, hcl, contentLength, hev, hs1, if_true]
    exact ⟨_, rfl, ⟨rfl, rfl, by simp [stripC_join _ hw], rfl, rfl⟩, rfl⟩
  · obtain ⟨hne, hst, hld⟩ := parseResponse_head false code reasonWords hs body hw ⟨by omega, hc.2⟩ (by omega)
      hlen hgood hcount
    unfold parseResponse
    simp only [hne, Bool.false_eq_true, if_false, hst, version_11, hld, hte, hcl, contentLength, hev, hs1]


/-- non-vacuity of the three framing theorems: one concrete head, bodies `hi!` -/
example : ∃ q, parseResponse "GET".toList false
      (responseHead 404 ["Not".toList, "Found".toList] [("Content-Length".toList, "3".toList), ("X-a".toList, "v: 1".toList)]
        ++ ([104, 105, 33] ++ [72])) = .done q [72]
    ∧ Parsed q 404 ["Not".toList, "Found".toList] [("Content-Length".toList, "3".toList), ("X-a".toList, "v: 1".toList)] [104, 105, 33]
    ∧ q.chunked = false :=
  C30_response_wire_length _ false 404 _ _ [104, 105, 33] [72] (by decide +kernel) (by decide +kernel) (by decide +kernel) (by decide +kernel) (by decide +kernel)
    (by decide +kernel) (by decide +kernel) (by decide +kernel) (by decide +kernel) (by decide +kernel)

example : ∃ q, parseResponse "GET".toList false
      (responseHead 200 ["OK".toList] [("transfer-ENCODING".toList, "Chunked".toList)]
        ++ (chunkedBody [[104, 105], [33]] ++ [72])) = .done q [72]
    ∧ Parsed q 200 ["OK".toList] [("transfer-ENCODING".toList, "Chunked".toList)] [[104, 105], [33]].flatten
    ∧ q.chunked = true :=
  C30_response_wire_chunked _ 200 _ _ [[104, 105], [33]] [72] "Chunked".toList (by decide +kernel) (by decide +kernel) (by decide +kernel) (by decide +kernel)
    (by decide +kernel) (by decide +kernel) (by decide +kernel) ⟨none, by decide +kernel⟩ (by decide +kernel) (by decide +kernel)

/-! ## the responder writes that wire format -/

theorem packAll_good (h : List (Str × Str)) (hg : ∀ kv ∈ h, GoodName kv.1 ∧ GoodValue kv.2) :
    packAll (h.map (fun kv => (kv.1, HVal.str kv.2))) = .ok (h.map (fun kv => headerLine kv.1 kv.2)) := by
  induction h with
  | nil => rfl
  | cons kv h ih =>
    have h1 := packHeader_good (hg kv (by simp)).1 (hg kv (by simp)).2
    have h2 := ih (fun x hx => hg x (by simp [hx]))
    simp only [List.map_cons, packAll, h1, h2]

theorem joinBytes_lines (sl : Bytes) (ls : List Bytes) :
    joinBytes crlf ([sl] ++ ls ++ [[], []]) = sl ++ crlf ++ ls.flatMap (fun l => l ++ crlf) ++ crlf := by
  induction ls generalizing sl with
  | nil => simp [joinBytes, crlf]
  | cons l ls ih =>
    have := ih l
    simp only [List.singleton_append, List.cons_append, List.nil_append] at this ⊢
    simp only [joinBytes, this, List.flatMap_cons]
    simp [List.append_assoc]

theorem headerBlock_eq (h : List (Str × Str)) :
    (h.map (fun kv => headerLine kv.1 kv.2)).flatMap (fun l => l ++ crlf) = headerBlock h := by
  simp [headerBlock, List.flatMap_map, crlf]

theorem statusText_eq (code : Nat) (words : List Str) :
    "HTTP/1.1 ".toList ++ joinStr [' '] (natStr code :: words) = statusText code words := by
  unfold statusText
  simp [joinStr]

/-- `Responder.build` writes the head in the wire format of the response theorems -/
theorem build_head (date : Str) (r : Responder) (code : Nat) (words : List Str)
    (hst : r.status = joinStr [' '] (natStr code :: words)) (hw : ∀ w ∈ words, Visible w)
    (hg : ∀ kv ∈ r.finalHeaders date, GoodName kv.1 ∧ GoodValue kv.2) :
    r.build date = .ok ({ r with headers := r.finalHeaders date, chunked := r.chunked || r.willChunk date },
                        responseHead code words (r.finalHeaders date)) := by
  have hascii : encodeAscii ("HTTP/1.1 ".toList ++ r.status) = .ok ((statusText code words).map Char.toNat) := by
    rw [hst, statusText_eq]
    unfold encodeAscii
    have hv := statusWords_visible code words hw
    have : (statusText code words).all (fun c => decide (c.toNat < 128)) = true := by
      rw [List.all_eq_true]
      intro c hc
      have key : ∀ (ws : List Str), (∀ w ∈ ws, Visible w) → ∀ c ∈ joinStr [' '] ws, c.toNat < 128 := by
        intro ws
        induction ws with
        | nil => intro _ c hc; simp [joinStr] at hc
        | cons a rest ih =>
          intro h c hc
          cases rest with
          | nil => simp only [joinStr] at hc; have := (h a (by simp)).2 c hc; omega
          | cons b rest' =>
            simp only [joinStr, List.append_assoc, List.singleton_append, List.mem_append, List.mem_cons] at hc
            rcases hc with hc | rfl | hc
            · have := (h a (by simp)).2 c hc; omega
            · decide
            · exact ih (fun w hw' => h w (by simp [hw'])) c hc
      simpa using key _ hv c hc
    simp [this]
  unfold Responder.build
  simp only [hascii, packAll_good (r.finalHeaders date) hg]
  unfold responseHead
  rw [joinBytes_lines, headerBlock_eq]

theorem packChunk_isEmpty (msg : Bytes) : (packChunk msg).isEmpty = false := by
  have : packChunk msg ≠ [] := by
    unfold packChunk
    intro h
    have := congrArg List.length h
    simp [crlf] at this
  cases h : packChunk msg with
  | nil => exact absurd h this
  | cons _ _ => rfl

theorem write_chunked_headed (date : Str) (r : Responder) (msg : Bytes) (hs : r.started = true) (hh : r.headed = true)
    (hc : r.chunked = true) (hl : r.length = none) :
    r.write date msg = .ok (r, [packChunk msg]) := by
  unfold Responder.write
  simp [hs, hh, hc, hl, packChunk_isEmpty]

/-- chunked mode, head written: the remaining yields go out as chunks, then the terminator -/
theorem run_chunked (date : Str) (st : Option (Str × List (Str × Str))) (ps : List Bytes) :
    ∀ (fuel : Nat) (r : Responder) (acc : Bytes), r.started = true → r.headed = true → r.chunked = true →
      r.length = none → r.ended = false → ps.length + 1 ≤ fuel → (∀ p ∈ ps, p ≠ []) →
      ∃ r', Responder.run date fuel r ⟨st, ps.map AppItem.yield⟩ true acc = .ok (r', acc ++ chunkedBody ps) := by
  induction ps with
  | nil =>
    intro fuel r acc hs hh hc hl he hf _
    cases fuel with
    | zero => omega
    | succ f =>
      have hw := write_chunked_headed date r [] hs hh hc hl
      refine ⟨{ r with ended := true }, ?_⟩
      have hsvc : r.service date ⟨st, []⟩ true = .ok ({ r with ended := true }, ⟨st, []⟩, true, [packChunk []]) := by
        simp [Responder.service, he, hw]
      rw [Responder.run]
      simp only [he, Bool.false_eq_true, if_false, List.map_nil, hsvc]
      cases f <;> simp [Responder.run, chunkedBody]
  | cons p ps ih =>
    intro fuel r acc hs hh hc hl he hf hne
    cases fuel with
    | zero => omega
    | succ f =>
      have hp : p.isEmpty = false := by
        have := hne p (by simp)
        cases p <;> simp_all
      have hw := write_chunked_headed date r p hs hh hc hl
      have hsvc : r.service date ⟨st, (p :: ps).map AppItem.yield⟩ true
          = .ok ({ r with ended := false }, ⟨st, ps.map AppItem.yield⟩, true, [packChunk p]) := by
        simp [Responder.service, he, hp, hw, hl]
      rw [Responder.run]
      simp only [he, Bool.false_eq_true, if_false, hsvc]
      obtain ⟨r', hr'⟩ := ih f { r with ended := false } (acc ++ packChunk p) hs hh hc hl rfl
        (by simp at hf; omega) (fun q hq => hne q (by simp [hq]))
      refine ⟨r', ?_⟩
      simp only [List.foldl_cons, List.foldl_nil, List.nil_append]
      rw [hr']
      simp [chunkedBody, List.append_assoc]

/-- `start_response(status, headers)` without a Content-Length -/
theorem start_nolength (r : Responder) (status : Str) (hdrs : List (Str × Str))
    (hs : r.started = false) (hcl : odGet (loUpdate [] hdrs) "content-length".toList = none) :
    ∃ ev, r.start status hdrs false
      = .ok { r with status := status, headers := loUpdate [] hdrs, length := none, evented := ev, started := true } := by
  unfold Responder.start
  simp only [Bool.false_and, Bool.false_eq_true, if_false, Bool.not_false, Bool.true_and, hs, hcl]
  exact ⟨_, rfl⟩

/-- **the responder in chunked mode**: for an application that calls `start_response(status, headers)` without a
Content-Length (and without a Transfer-Encoding of its own) and yields the non-empty `pieces`, everything
`Responder.service` queues until the response has ended is the head followed by one chunk per piece and the empty
chunk.  (`r1` is the responder as `start_response` leaves it.) -/
theorem run_chunked_app (date status : Str) (hdrs : List (Str × Str)) (pieces : List Bytes) (code : Nat) (words : List Str)
    (r0 r1 : Responder)
    (hst : r1.status = joinStr [' '] (natStr code :: words)) (hw : ∀ w ∈ words, Visible w)
    (hne : ∀ p ∈ pieces, p ≠ [])
    (h0 : r0.ended = false) (hstart : r0.start status hdrs false = .ok r1)
    (h1 : r1.started = true ∧ r1.headed = false ∧ r1.ended = false ∧ r1.length = none)
    (hwc : r1.willChunk date = true)
    (hg : ∀ kv ∈ r1.finalHeaders date, GoodName kv.1 ∧ GoodValue kv.2) :
    ∃ r', Responder.run date (pieces.length + 3) r0 ⟨some (status, hdrs), pieces.map AppItem.yield⟩ false []
      = .ok (r', responseHead code words (r1.finalHeaders date) ++ chunkedBody pieces) := by
  have hb := build_head date r1 code words hst hw hg
  obtain ⟨hs1, hh1, he1, hl1⟩ := h1
  -- the responder right after the head went out
  generalize hr2 : ({ r1 with headers := r1.finalHeaders date, chunked := r1.chunked || r1.willChunk date, headed := true } : Responder) = r2
  have h2 : r2.started = true ∧ r2.headed = true ∧ r2.chunked = true ∧ r2.length = none ∧ r2.ended = false := by
    subst hr2; exact ⟨hs1, rfl, by simp [hwc], hl1, he1⟩
  have hwrite : ∀ msg, r1.write date msg = .ok (r2, [responseHead code words (r1.finalHeaders date), packChunk msg]) := by
    intro msg
    unfold Responder.write
    subst hr2
    simp [hs1, hh1, hb, hwc, hl1, packChunk_isEmpty]
  cases pieces with
  | nil =>
    have hsvc : r0.service date ⟨some (status, hdrs), []⟩ false
        = .ok ({ r2 with ended := true }, ⟨some (status, hdrs), []⟩, true,
               [responseHead code words (r1.finalHeaders date), packChunk []]) := by
      unfold Responder.service
      simp only [h0, Bool.false_eq_true, if_false, hstart, List.isEmpty_nil, if_true, hwrite, List.drop_nil, List.nil_append]
    refine ⟨{ r2 with ended := true }, ?_⟩
    rw [Responder.run]
    simp only [h0, Bool.false_eq_true, if_false, List.map_nil, hsvc]
    simp [Responder.run, chunkedBody]
  | cons p ps =>
    have hp : p.isEmpty = false := by
      have := hne p (by simp)
      cases p <;> simp_all
    have hsvc : r0.service date ⟨some (status, hdrs), (p :: ps).map AppItem.yield⟩ false
        = .ok ({ r2 with ended := false }, ⟨some (status, hdrs), ps.map AppItem.yield⟩, true,
               [responseHead code words (r1.finalHeaders date), packChunk p]) := by
      unfold Responder.service
      simp only [h0, Bool.false_eq_true, if_false, hstart, List.map_cons, hp, hwrite, h2.2.2.2.1, h2.2.2.2.2, List.drop_succ_cons,
        List.drop_zero, Bool.or_false]
    obtain ⟨r', hr'⟩ := run_chunked date (some (status, hdrs)) ps (ps.length + 3) { r2 with ended := false }
      (responseHead code words (r1.finalHeaders date) ++ packChunk p) h2.1 h2.2.1 h2.2.2.1 h2.2.2.2.1 rfl (by omega)
      (fun q hq => hne q (by simp [hq]))
    refine ⟨r', ?_⟩
    show Responder.run date (ps.length + 3 + 1) r0 _ false [] = _
    rw [Responder.run]
    simp only [h0, Bool.false_eq_true, if_false, hsvc]
    simp only [List.foldl_cons, List.foldl_nil, List.nil_append]
    rw [hr']
    simp [chunkedBody, List.append_assoc]


/-- **C30, responder frames (chunked)**: a WSGI application that calls `start_response(status, headers)` without
Content-Length / Transfer-Encoding and yields non-empty pieces, served by `Responder.service` until the response has
ended and read by the client's `Respondent`: same status, reason, headers (as completed by the responder: Server,
Date, Transfer-Encoding) and the concatenated pieces as body; what follows on the connection is left untouched. -/
theorem C30_responder_frames_chunked (method date status : Str) (hdrs : List (Str × Str)) (pieces : List Bytes)
    (code : Nat) (words : List Str) (rest : Bytes) (r0 r1 : Responder) (te : Str)
    (hst : r1.status = joinStr [' '] (natStr code :: words)) (hw : ∀ w ∈ words, Visible w)
    (hc : 200 ≤ code ∧ code ≤ 999) (hlen : (statusText code words).length ≤ MAX_LINE_SIZE)
    (hp : ∀ p ∈ pieces, p ≠ [] ∧ p.length < 2 ^ 64)
    (h0 : r0.ended = false) (hstart : r0.start status hdrs false = .ok r1)
    (h1 : r1.started = true ∧ r1.headed = false ∧ r1.ended = false ∧ r1.length = none)
    (hwc : r1.willChunk date = true)
    (hgood : ∀ kv ∈ r1.finalHeaders date, GoodName kv.1 ∧ GoodValue kv.2 ∧ (headerLine kv.1 kv.2).length ≤ MAX_LINE_SIZE)
    (hcount : (r1.finalHeaders date).length ≤ MAX_HEADERS)
    (hte : odGet (dictOf (r1.finalHeaders date)) "transfer-encoding".toList = some te) (hte' : lower te = "chunked".toList)
    (hclok : ∃ cl, contentLength (odGet (dictOf (r1.finalHeaders date)) "content-length".toList) = .ok cl)
    (hev : isEventStream (dictOf (r1.finalHeaders date)) = false) :
    ∃ r' wire, Responder.run date (pieces.length + 3) r0 ⟨some (status, hdrs), pieces.map AppItem.yield⟩ false [] = .ok (r', wire)
      ∧ ∃ q, parseResponse method false (wire ++ rest) = .done q rest
          ∧ Parsed q code words (r1.finalHeaders date) pieces.flatten := by
  obtain ⟨r', hrun⟩ := run_chunked_app date status hdrs pieces code words r0 r1 hst hw (fun p h => (hp p h).1) h0 hstart h1 hwc
    (fun kv h => ⟨(hgood kv h).1, (hgood kv h).2.1⟩)
  refine ⟨r', _, hrun, ?_⟩
  obtain ⟨q, hq, hparsed, _⟩ := C30_response_wire_chunked method code words (r1.finalHeaders date) pieces rest te hw hc hlen
    hgood hcount hte hte' hclok hev hp
  exact ⟨q, by simpa [List.append_assoc] using hq, hparsed⟩

/-- a concrete application served by the responder and read back by the client (status, a header, two pieces) -/
def demoServed : Bool :=
  match Responder.run "Fri, 02 Jan 2026 03:04:05 GMT".toList 5 { chunkable := true }
      ⟨some ("200 OK".toList, [("X-A".toList, "v".toList)]), [.yield [104, 105], .yield [33]]⟩ false [] with
  | .ok (_, wire) =>
    (match parseResponse "GET".toList false (wire ++ [72]) with
     | .done q rest => decide (q.status = 200 ∧ q.reason = "OK".toList ∧ q.body = [104, 105, 33] ∧ rest = [72]
         ∧ odGet q.headers "x-a".toList = some "v".toList ∧ q.chunked = true)
     | _ => false)
  | _ => false

/-- non-vacuity of `C30_responder_frames_chunked` -/
example : demoServed = true := by decide +kernel

/-! ## the responder without chunking: Content-Length and until-close framing -/

def sumLen (ps : List Bytes) : Nat := (ps.map List.length).sum

theorem flatten_length_sumLen (ps : List Bytes) : ps.flatten.length = sumLen ps := by
  simp [sumLen, List.length_flatten]

/-- not chunked, head written: a piece goes out as it is -/
theorem write_plain_headed (date : Str) (r : Responder) (msg : Bytes) (hs : r.started = true) (hh : r.headed = true)
    (hc : r.chunked = false) (hne : msg ≠ []) :
    (∀ L, r.length = some L → r.size + msg.length ≤ L →
        r.write date msg = .ok ({ r with size := r.size + msg.length }, [msg]))
    ∧ (r.length = none → r.write date msg = .ok (r, [msg])) := by
  have hm : msg.isEmpty = false := by cases msg <;> simp_all
  constructor
  · intro L hl hle
    unfold Responder.write
    have : ¬ (r.size + msg.length > L) := by omega
    simp [hs, hh, hc, hl, this, hm]
  · intro hl
    unfold Responder.write
    simp [hs, hh, hc, hl, hm]

theorem write_empty_headed (date : Str) (r : Responder) (hs : r.started = true) (hh : r.headed = true)
    (hc : r.chunked = false) (hl : r.length = none ∨ ∃ L, r.length = some L ∧ r.size ≤ L) :
    ∃ r', r.write date [] = .ok (r', []) := by
  unfold Responder.write
  rcases hl with hl | ⟨L, hl, hle⟩
  · simp [hs, hh, hc, hl]
  · have : ¬ (r.size > L) := by omega
    simp [hs, hh, hc, hl, this]

/-- head written, not chunked, length `L` declared, `sz` bytes written so far and the remaining pieces make up exactly
the rest: they go out unchanged and the response ends with the last one -/
theorem run_length (date : Str) (st : Option (Str × List (Str × Str))) (L : Nat) (ps : List Bytes) :
    ∀ (fuel : Nat) (r : Responder) (acc : Bytes), r.started = true → r.headed = true → r.chunked = false →
      r.length = some L → r.size + sumLen ps = L → r.ended = false → ps.length + 1 ≤ fuel → (∀ p ∈ ps, p ≠ []) →
      ∃ r', Responder.run date fuel r ⟨st, ps.map AppItem.yield⟩ true acc = .ok (r', acc ++ ps.flatten) := by
  induction ps with
  | nil =>
    intro fuel r acc hs hh hc hl hsz he hf _
    cases fuel with
    | zero => omega
    | succ f =>
      obtain ⟨r', hw⟩ := write_empty_headed date r hs hh hc (Or.inr ⟨L, hl, by simp [sumLen] at hsz; omega⟩)
      refine ⟨{ r' with ended := true }, ?_⟩
      have hsvc : r.service date ⟨st, []⟩ true = .ok ({ r' with ended := true }, ⟨st, []⟩, true, []) := by
        simp [Responder.service, he, hw]
      rw [Responder.run]
      simp only [he, Bool.false_eq_true, if_false, List.map_nil, hsvc]
      cases f <;> simp [Responder.run]
  | cons p ps ih =>
    intro fuel r acc hs hh hc hl hsz he hf hne
    cases fuel with
    | zero => omega
    | succ f =>
      have hpne : p ≠ [] := hne p (by simp)
      have hp : p.isEmpty = false := by cases p <;> simp_all
      have hsz' : r.size + p.length + sumLen ps = L := by simp [sumLen] at hsz ⊢; omega
      have hw := (write_plain_headed date r p hs hh hc hpne).1 L hl (by omega)
      by_cases hps : ps = []
      · subst hps
        have hfull : r.size + p.length ≥ L := by simp [sumLen] at hsz'; omega
        have hsvc : r.service date ⟨st, [p].map AppItem.yield⟩ true
            = .ok ({ r with size := r.size + p.length, ended := true }, ⟨st, []⟩, true, [p]) := by
          simp [Responder.service, he, hp, hw, hl, hfull]
        refine ⟨{ r with size := r.size + p.length, ended := true }, ?_⟩
        rw [Responder.run]
        simp only [he, Bool.false_eq_true, if_false, hsvc]
        cases f <;> simp [Responder.run]
      · have hpos : sumLen ps > 0 := by
          cases ps with
          | nil => exact absurd rfl hps
          | cons q qs =>
            have := hne q (by simp)
            have : q.length > 0 := by cases q <;> simp_all
            simp [sumLen]; omega
        have hnot : ¬ (r.size + p.length ≥ L) := by omega
        have hsvc : r.service date ⟨st, (p :: ps).map AppItem.yield⟩ true
            = .ok ({ r with size := r.size + p.length, ended := false }, ⟨st, ps.map AppItem.yield⟩, true, [p]) := by
          simp [Responder.service, he, hp, hw, hl, hnot]
        obtain ⟨r', hr'⟩ := ih f { r with size := r.size + p.length, ended := false } (acc ++ p) hs hh hc hl hsz' rfl
          (by simp at hf; omega) (fun q hq => hne q (by simp [hq]))
        refine ⟨r', ?_⟩
        rw [Responder.run]
        simp only [he, Bool.false_eq_true, if_false, hsvc]
        simp only [List.foldl_cons, List.foldl_nil, List.nil_append]
        rw [hr']
        simp [List.append_assoc]


/-- head written, not chunked, no length: the pieces go out as they are, nothing marks the end -/
theorem run_streamed (date : Str) (st : Option (Str × List (Str × Str))) (ps : List Bytes) :
    ∀ (fuel : Nat) (r : Responder) (acc : Bytes), r.started = true → r.headed = true → r.chunked = false →
      r.length = none → r.ended = false → ps.length + 1 ≤ fuel → (∀ p ∈ ps, p ≠ []) →
      ∃ r', Responder.run date fuel r ⟨st, ps.map AppItem.yield⟩ true acc = .ok (r', acc ++ ps.flatten) := by
  induction ps with
  | nil =>
    intro fuel r acc hs hh hc hl he hf _
    cases fuel with
    | zero => omega
    | succ f =>
      obtain ⟨r', hw⟩ := write_empty_headed date r hs hh hc (Or.inl hl)
      refine ⟨{ r' with ended := true }, ?_⟩
      have hsvc : r.service date ⟨st, []⟩ true = .ok ({ r' with ended := true }, ⟨st, []⟩, true, []) := by
        simp [Responder.service, he, hw]
      rw [Responder.run]
      simp only [he, Bool.false_eq_true, if_false, List.map_nil, hsvc]
      cases f <;> simp [Responder.run]
  | cons p ps ih =>
    intro fuel r acc hs hh hc hl he hf hne
    cases fuel with
    | zero => omega
    | succ f =>
      have hpne : p ≠ [] := hne p (by simp)
      have hp : p.isEmpty = false := by cases p <;> simp_all
      have hw := (write_plain_headed date r p hs hh hc hpne).2 hl
      have hsvc : r.service date ⟨st, (p :: ps).map AppItem.yield⟩ true
          = .ok ({ r with ended := false }, ⟨st, ps.map AppItem.yield⟩, true, [p]) := by
        simp [Responder.service, he, hp, hw, hl]
      obtain ⟨r', hr'⟩ := ih f { r with ended := false } (acc ++ p) hs hh hc hl rfl
        (by simp at hf; omega) (fun q hq => hne q (by simp [hq]))
      refine ⟨r', ?_⟩
      rw [Responder.run]
      simp only [he, Bool.false_eq_true, if_false, hsvc]
      simp only [List.foldl_cons, List.foldl_nil, List.nil_append]
      rw [hr']
      simp [List.append_assoc]

/-- **the responder without chunking**: an application that calls `start_response(status, headers)` and yields the
non-empty `pieces`, served to a responder that does not chunk (Content-Length given — then the pieces make up
exactly that length — or an HTTP/1.0 peer): everything queued until the response has ended is the head followed by the
pieces as they are. -/
theorem run_plain_app (date status : Str) (hdrs : List (Str × Str)) (pieces : List Bytes) (code : Nat) (words : List Str)
    (r0 r1 : Responder)
    (hst : r1.status = joinStr [' '] (natStr code :: words)) (hw : ∀ w ∈ words, Visible w)
    (hne : ∀ p ∈ pieces, p ≠ [])
    (h0 : r0.ended = false) (hstart : r0.start status hdrs false = .ok r1)
    (h1 : r1.started = true ∧ r1.headed = false ∧ r1.ended = false ∧ r1.chunked = false ∧ r1.size = 0)
    (hlen : r1.length = none ∨ r1.length = some (sumLen pieces))
    (hwc : r1.willChunk date = false)
    (hg : ∀ kv ∈ r1.finalHeaders date, GoodName kv.1 ∧ GoodValue kv.2) :
    ∃ r', Responder.run date (pieces.length + 3) r0 ⟨some (status, hdrs), pieces.map AppItem.yield⟩ false []
      = .ok (r', responseHead code words (r1.finalHeaders date) ++ pieces.flatten) := by
  have hb := build_head date r1 code words hst hw hg
  obtain ⟨hs1, hh1, he1, hc1, hz1⟩ := h1
  generalize hr2 : ({ r1 with headers := r1.finalHeaders date, chunked := r1.chunked || r1.willChunk date, headed := true } : Responder) = r2
  have h2 : r2.started = true ∧ r2.headed = true ∧ r2.chunked = false ∧ r2.length = r1.length ∧ r2.ended = false ∧ r2.size = 0 := by
    subst hr2; exact ⟨hs1, rfl, by simp [hwc, hc1], rfl, he1, hz1⟩
  obtain ⟨h2s, h2h, h2c, h2l, h2e, h2z⟩ := h2
  cases pieces with
  | nil =>
    -- the generator ends at once: `write(b'')` sends the head
    have hwrite : ∃ r3, r1.write date [] = .ok (r3, [responseHead code words (r1.finalHeaders date)]) := by
      unfold Responder.write
      rcases hlen with hl | hl
      · simp [hs1, hh1, hb, hl, hwc, hc1]
      · simp [hs1, hh1, hb, hl, hwc, hc1, sumLen, hz1]
    obtain ⟨r3, hw3⟩ := hwrite
    have hsvc : r0.service date ⟨some (status, hdrs), []⟩ false
        = .ok ({ r3 with ended := true }, ⟨some (status, hdrs), []⟩, true,
               [responseHead code words (r1.finalHeaders date)]) := by
      unfold Responder.service
      simp only [h0, Bool.false_eq_true, if_false, hstart, List.isEmpty_nil, if_true, hw3, List.drop_nil, List.nil_append]
    refine ⟨{ r3 with ended := true }, ?_⟩
    rw [Responder.run]
    simp only [h0, Bool.false_eq_true, if_false, List.map_nil, hsvc]
    simp [Responder.run]
  | cons p ps =>
    have hpne : p ≠ [] := hne p (by simp)
    have hp : p.isEmpty = false := by cases p <;> simp_all
    rcases hlen with hl | hl
    · -- no length: streamed
      have hwrite : r1.write date p = .ok (r2, [responseHead code words (r1.finalHeaders date), p]) := by
        unfold Responder.write
        subst hr2
        simp [hs1, hh1, hb, hl, hwc, hc1, hp]
      have hsvc : r0.service date ⟨some (status, hdrs), (p :: ps).map AppItem.yield⟩ false
          = .ok ({ r2 with ended := false }, ⟨some (status, hdrs), ps.map AppItem.yield⟩, true,
                 [responseHead code words (r1.finalHeaders date), p]) := by
        unfold Responder.service
        simp only [h0, Bool.false_eq_true, if_false, hstart, List.map_cons, hp, hwrite, h2l, hl, h2e, List.drop_succ_cons,
          List.drop_zero, Bool.or_false]
      obtain ⟨r', hr'⟩ := run_streamed date (some (status, hdrs)) ps (ps.length + 3) { r2 with ended := false }
        (responseHead code words (r1.finalHeaders date) ++ p) h2s h2h h2c (by rw [h2l, hl]) rfl (by omega)
        (fun q hq => hne q (by simp [hq]))
      refine ⟨r', ?_⟩
      show Responder.run date (ps.length + 3 + 1) r0 _ false [] = _
      rw [Responder.run]
      simp only [h0, Bool.false_eq_true, if_false, hsvc]
      simp only [List.foldl_cons, List.foldl_nil, List.nil_append]
      rw [hr']
      simp [List.append_assoc]
    · -- Content-Length = the total of the pieces
      have hL : sumLen (p :: ps) = p.length + sumLen ps := by simp [sumLen]
      have hwrite : r1.write date p
          = .ok ({ r2 with size := p.length }, [responseHead code words (r1.finalHeaders date), p]) := by
        unfold Responder.write
        subst hr2
        have : ¬ (p.length > p.length + sumLen ps) := by omega
        simp [hs1, hh1, hb, hl, hL, hwc, hc1, hp, hz1, this]
      by_cases hps : ps = []
      · subst hps
        have hsvc : r0.service date ⟨some (status, hdrs), [p].map AppItem.yield⟩ false
            = .ok ({ r2 with size := p.length, ended := true }, ⟨some (status, hdrs), []⟩, true,
                   [responseHead code words (r1.finalHeaders date), p]) := by
          unfold Responder.service
          simp [h0, hstart, hp, hwrite, h2l, hl, sumLen]
        refine ⟨{ r2 with size := p.length, ended := true }, ?_⟩
        rw [Responder.run]
        simp only [h0, Bool.false_eq_true, if_false, hsvc]
        simp [Responder.run]
      · have hpos : sumLen ps > 0 := by
          cases ps with
          | nil => exact absurd rfl hps
          | cons q qs =>
            have := hne q (by simp)
            have : q.length > 0 := by cases q <;> simp_all
            simp [sumLen]; omega
        have hnot : ¬ (p.length ≥ p.length + sumLen ps) := by omega
        have hsvc : r0.service date ⟨some (status, hdrs), (p :: ps).map AppItem.yield⟩ false
            = .ok ({ r2 with size := p.length, ended := false }, ⟨some (status, hdrs), ps.map AppItem.yield⟩, true,
                   [responseHead code words (r1.finalHeaders date), p]) := by
          unfold Responder.service
          simp [h0, hstart, hp, hwrite, h2l, hl, hL, hnot, h2e]
        obtain ⟨r', hr'⟩ := run_length date (some (status, hdrs)) (p.length + sumLen ps) ps (ps.length + 3)
          { r2 with size := p.length, ended := false }
          (responseHead code words (r1.finalHeaders date) ++ p) h2s h2h h2c (by rw [← hL, ← hl]; exact h2l) rfl rfl (by omega)
          (fun q hq => hne q (by simp [hq]))
        refine ⟨r', ?_⟩
        show Responder.run date (ps.length + 3 + 1) r0 _ false [] = _
        rw [Responder.run]
        simp only [h0, Bool.false_eq_true, if_false, hsvc]
        simp only [List.foldl_cons, List.foldl_nil, List.nil_append]
        rw [hr']
        simp [List.append_assoc]


/-- **C30, responder frames (Content-Length)**: a WSGI application that calls `start_response(status, headers)` with a
Content-Length and yields non-empty pieces making up exactly that many bytes, served by `Responder.service` until the
response has ended and read by the client's `Respondent`: same status, reason, headers (as completed by the responder:
Server, Date) and the concatenated pieces as body; what follows on the connection is left untouched. -/
theorem C30_responder_frames_length (method date status : Str) (closed : Bool) (hdrs : List (Str × Str)) (pieces : List Bytes)
    (code : Nat) (words : List Str) (rest : Bytes) (r0 r1 : Responder)
    (hst : r1.status = joinStr [' '] (natStr code :: words)) (hw : ∀ w ∈ words, Visible w)
    (hc : 200 ≤ code ∧ code ≤ 999) (hbodied : code ≠ 204 ∧ code ≠ 304) (hmethod : method ≠ "HEAD".toList)
    (hlen : (statusText code words).length ≤ MAX_LINE_SIZE)
    (hp : ∀ p ∈ pieces, p ≠ [])
    (h0 : r0.ended = false) (hstart : r0.start status hdrs false = .ok r1)
    (h1 : r1.started = true ∧ r1.headed = false ∧ r1.ended = false ∧ r1.chunked = false ∧ r1.size = 0)
    (hl : r1.length = some (sumLen pieces))
    (hwc : r1.willChunk date = false)
    (hgood : ∀ kv ∈ r1.finalHeaders date, GoodName kv.1 ∧ GoodValue kv.2 ∧ (headerLine kv.1 kv.2).length ≤ MAX_LINE_SIZE)
    (hcount : (r1.finalHeaders date).length ≤ MAX_HEADERS)
    (hte : odGet (dictOf (r1.finalHeaders date)) "transfer-encoding".toList = none)
    (hcl : odGet (dictOf (r1.finalHeaders date)) "content-length".toList = some (natStr (sumLen pieces)))
    (hev : isEventStream (dictOf (r1.finalHeaders date)) = false) :
    ∃ r' wire, Responder.run date (pieces.length + 3) r0 ⟨some (status, hdrs), pieces.map AppItem.yield⟩ false [] = .ok (r', wire)
      ∧ ∃ q, parseResponse method closed (wire ++ rest) = .done q rest
          ∧ Parsed q code words (r1.finalHeaders date) pieces.flatten ∧ q.chunked = false := by
  obtain ⟨r', hrun⟩ := run_plain_app date status hdrs pieces code words r0 r1 hst hw hp h0 hstart h1 (Or.inr hl) hwc
    (fun kv h => ⟨(hgood kv h).1, (hgood kv h).2.1⟩)
  refine ⟨r', _, hrun, ?_⟩
  obtain ⟨q, hq, hparsed, hch⟩ := C30_response_wire_length method closed code words (r1.finalHeaders date) pieces.flatten rest
    hw hc hbodied hmethod hlen hgood hcount hte (by rw [hcl, flatten_length_sumLen]) hev
  exact ⟨q, by simpa [List.append_assoc] using hq, hparsed, hch⟩

/-- **C30, responder frames (until close)**: the same application without a Content-Length, served to a peer for which
the responder does not chunk (HTTP/1.0): the head and the pieces as they are; the client, once the connection has been
closed, reads the same status, reason, headers and the concatenated pieces as body — and before the close it keeps
waiting (`need`): this response cannot be followed by another one on the connection. -/
theorem C30_responder_frames_until_close (method date status : Str) (hdrs : List (Str × Str)) (pieces : List Bytes)
    (code : Nat) (words : List Str) (r0 r1 : Responder)
    (hst : r1.status = joinStr [' '] (natStr code :: words)) (hw : ∀ w ∈ words, Visible w)
    (hc : 200 ≤ code ∧ code ≤ 999) (hbodied : code ≠ 204 ∧ code ≠ 304) (hmethod : method ≠ "HEAD".toList)
    (hlen : (statusText code words).length ≤ MAX_LINE_SIZE)
    (hp : ∀ p ∈ pieces, p ≠ [])
    (h0 : r0.ended = false) (hstart : r0.start status hdrs false = .ok r1)
    (h1 : r1.started = true ∧ r1.headed = false ∧ r1.ended = false ∧ r1.chunked = false ∧ r1.size = 0)
    (hl : r1.length = none)
    (hwc : r1.willChunk date = false)
    (hgood : ∀ kv ∈ r1.finalHeaders date, GoodName kv.1 ∧ GoodValue kv.2 ∧ (headerLine kv.1 kv.2).length ≤ MAX_LINE_SIZE)
    (hcount : (r1.finalHeaders date).length ≤ MAX_HEADERS)
    (hte : odGet (dictOf (r1.finalHeaders date)) "transfer-encoding".toList = none)
    (hcl : odGet (dictOf (r1.finalHeaders date)) "content-length".toList = none)
    (hev : isEventStream (dictOf (r1.finalHeaders date)) = false) :
    ∃ r' wire, Responder.run date (pieces.length + 3) r0 ⟨some (status, hdrs), pieces.map AppItem.yield⟩ false [] = .ok (r', wire)
      ∧ (∃ q, parseResponse method true wire = .done q []
          ∧ Parsed q code words (r1.finalHeaders date) pieces.flatten ∧ q.chunked = false)
      ∧ parseResponse method false wire = .need := by
  obtain ⟨r', hrun⟩ := run_plain_app date status hdrs pieces code words r0 r1 hst hw hp h0 hstart h1 (Or.inl hl) hwc
    (fun kv h => ⟨(hgood kv h).1, (hgood kv h).2.1⟩)
  refine ⟨r', _, hrun, ?_⟩
  exact C30_response_wire_until_close method code words (r1.finalHeaders date) pieces.flatten hw hc hbodied hmethod hlen hgood
    hcount hte hcl hev

/-- non-vacuity: concrete applications in the two modes, served and read back -/
def demoServedLength : Bool :=
  match Responder.run "Fri, 02 Jan 2026 03:04:05 GMT".toList 5 { chunkable := true }
      ⟨some ("200 OK".toList, [("Content-Length".toList, "3".toList)]), [.yield [104, 105], .yield [33]]⟩ false [] with
  | .ok (_, wire) =>
    (match parseResponse "GET".toList false (wire ++ [72]) with
     | .done q rest => decide (q.status = 200 ∧ q.body = [104, 105, 33] ∧ rest = [72] ∧ q.chunked = false)
     | _ => false)
  | _ => false

def demoServedUntilClose : Bool :=
  match Responder.run "Fri, 02 Jan 2026 03:04:05 GMT".toList 5 { chunkable := false }
      ⟨some ("200 OK".toList, [("X-A".toList, "v".toList)]), [.yield [104, 105], .yield [33]]⟩ false [] with
  | .ok (_, wire) =>
    (match parseResponse "GET".toList true wire, parseResponse "GET".toList false wire with
     | .done q rest, .need => decide (q.status = 200 ∧ q.body = [104, 105, 33] ∧ rest = [] ∧ q.chunked = false)
     | _, _ => false)
  | _ => false

example : demoServedLength = true ∧ demoServedUntilClose = true := by decide +kernel

/-- the hypotheses of the two theorems are what `start_response` establishes: with a Content-Length header the
responder stops chunking and records the length; without one (and a peer that cannot take chunks) nothing is recorded -/
example : (match ({ chunkable := true } : Responder).start "200 OK".toList [("Content-Length".toList, "3".toList)] false with
    | .ok r1 => decide (r1.length = some (sumLen [[104, 105], [33]]) ∧ r1.willChunk "d".toList = false ∧ r1.chunked = false
        ∧ r1.size = 0 ∧ r1.started = true ∧ r1.headed = false)
    | .error _ => false) = true := by decide +kernel

/-! ## the builder writes that wire format -/

theorem encodeAscii_ok {s : Str} {b : Bytes} (h : encodeAscii s = .ok b) : b = s.map Char.toNat := by
  unfold encodeAscii at h
  split at h
  · cases h; rfl
  · cases h

theorem build_assemble {S : Std} {r r' : Requester} {msg : Bytes} (h : build S r = .ok (r', msg)) :
    ∃ p, buildParts S r = .ok p ∧ assemble r.method p.target p.entries p.body = .ok msg ∧ r' = p.req := by
  unfold build at h
  split at h
  · cases h
  · rename_i p hp
    split at h
    · cases h
    · rename_i m hm
      simp only [Except.ok.injEq, Prod.mk.injEq] at h
      exact ⟨p, hp, by rw [hm, h.2], h.1.symm⟩

/-- **C30, built request round trip — partial**: the message `Requester.build` assembles — request line from method and
target, one `packHeader` line per entry, empty line, body — is parsed by the server into the same method, target,
header dict and body, provided the entries' lines are the header lines of some well-formed header list `hs` that
frames the body (Content-Length = its length or none for an empty body, no Transfer-Encoding) and the target is
visible ASCII.  What is left to the correspondence runs: that `buildParts` produces such a target and such entries
(it adds `Content-Length` exactly when the body is non-empty) and that `urlsplit`/`quote`/`unquote` take the path
and query through unchanged. -/
theorem C30_built_request_roundtrip_partial (S : Std) (method target : Str) (entries : List (Str × HVal)) (body msg rest : Bytes)
    (hs : List (Str × Str)) (port : Option Nat)
    (hasm : assemble method target entries body = .ok msg)
    (hlines : packAll entries = .ok (hs.map (fun kv => headerLine kv.1 kv.2)))
    (hm : method ∈ METHODS) (ht : Visible target)
    (hline : (method ++ ' ' :: (target ++ ' ' :: "HTTP/1.1".toList)).length ≤ MAX_LINE_SIZE)
    (hport : (S.urlsplit target).port = some port)
    (hgood : ∀ kv ∈ hs, GoodName kv.1 ∧ GoodValue kv.2 ∧ (headerLine kv.1 kv.2).length ≤ MAX_LINE_SIZE)
    (hcount : hs.length ≤ MAX_HEADERS)
    (hte : odGet (hs.foldl (fun d kv => loSet d kv.1 kv.2) []) "transfer-encoding".toList = none)
    (hcl : (body = [] ∧ odGet (hs.foldl (fun d kv => loSet d kv.1 kv.2) []) "content-length".toList = none)
         ∨ odGet (hs.foldl (fun d kv => loSet d kv.1 kv.2) []) "content-length".toList = some (natStr body.length)) :
    ∃ q, parseRequest S (msg ++ rest) = .done q rest
      ∧ q.method = method ∧ q.url = target ∧ q.version = (1, 1)
      ∧ q.path = S.unquote (S.urlsplit target).path ∧ q.query = (S.urlsplit target).query
      ∧ q.headers = hs.foldl (fun d kv => loSet d kv.1 kv.2) [] ∧ q.chunked = false ∧ q.body = body := by
  have hmsg : msg = requestBytes method target hs body := by
    unfold assemble at hasm
    split at hasm
    · cases hasm
    · rename_i sl hsl
      rw [hlines] at hasm
      simp only [Except.ok.injEq] at hasm
      rw [← hasm, joinBytes_lines, headerBlock_eq, encodeAscii_ok hsl]
      simp [requestBytes, List.append_assoc]
  rw [hmsg]
  exact C30_request_wire_roundtrip S method target hs body rest port hm ht hline hport hgood hcount hte hcl


/-- a stand-in for `urllib.parse` that is the identity on plain ASCII paths without query (enough for the demo below) -/
def plainStd : Std where
  urlsplit a := ⟨[], [], a, [], [], none, some none, (if a.getLast? = some '#' then (a.dropLast.reverse.dropWhile (· = '?')).reverse else a)⟩
  quote a := a
  unquote a := a
  quotePlus a := a
  unquotePlus a := a

/-- a concrete request built by `build` and parsed back by `parseRequest` -/
def demoBuilt : Bool :=
  match build plainStd ⟨"a.test".toList, 80, "http".toList, "POST".toList, "/p".toList, [], [], [("x-a".toList, .str "v w".toList)],
                        [1, 2, 3], none, none⟩ with
  | .ok (_, msg) =>
    (match parseRequest plainStd (msg ++ [9]) with
     | .done q rest => decide (q.method = "POST".toList ∧ q.url = "/p".toList ∧ q.body = [1, 2, 3] ∧ rest = [9]
         ∧ odGet q.headers "x-a".toList = some "v w".toList ∧ odGet q.headers "content-length".toList = some "3".toList
         ∧ odGet q.headers "host".toList = some "a.test:80".toList)
     | _ => false)
  | _ => false

/-- non-vacuity of `C30_built_request_roundtrip_partial` -/
example : demoBuilt = true := by decide +kernel

end Ioflo.HttpCodec
