import IofloModel.Model.HttpCodec
namespace Ioflo.HttpCodec
theorem C30_placeholder : packChunk [] = [48, 13, 10, 13, 10] := by decide
end Ioflo.HttpCodec
