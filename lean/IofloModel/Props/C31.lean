import IofloModel.Lemmas.KeepAlive
/-!
# C31 — keep-alive connections carry N requests to N ordered, framed responses

Model: `Model/KeepAlive.lean`.  All theorems quantify over the application (`app : Req → AppResp`), the queued
requests and the **schedule** (any list of client / server `serviceAll` calls).
-/
namespace Ioflo.KeepAlive

/-! ## every response is delimited -/

/-- invariant: heads written so far are delimiting, and the responder in use — if it has not written its head —
will write a delimiting one -/
def FramedInv (s : Server) : Prop :=
  (∀ f ∈ s.heads, f ≠ Framing.untilClose)
  ∧ ∀ r, s.resp = some r → r.headed = false →
      (if s.appStarted then WillFrame r else r.chunkable = true)

theorem serviceReqs_framed (app : Req → AppResp) (s : Server) (h : FramedInv s) : FramedInv (s.serviceReqs app) := by
  unfold Server.serviceReqs
  split
  · split
    · exact h
    · refine ⟨h.1, ?_⟩
      intro r hr _
      simp only [Option.some.injEq] at hr
      subst hr
      simp
  · exact h

theorem serviceRun_framed (s : Server) (h : FramedInv s) : FramedInv s.serviceRun := by
  unfold Server.serviceRun
  split
  · exact h
  · rename_i r hr
    split
    · exact h
    · have hr0 : (if s.appStarted then r else r.start s.cl).headed = false →
          WillFrame (if s.appStarted then r else r.start s.cl) := by
        intro hh
        cases hs : s.appStarted with
        | true =>
          simp only [hs, if_true] at hh ⊢
          have := h.2 r hr hh
          simpa [hs] using this
        | false =>
          simp only [hs, Bool.false_eq_true, if_false] at hh ⊢
          rw [start_headed] at hh
          have := h.2 r hr hh
          simp only [hs, Bool.false_eq_true, if_false] at this
          exact start_willFrame r s.cl this
      have hso := serviceOnce_heads _ s.tag s.script hr0
      refine ⟨?_, ?_⟩
      · intro f hf
        simp only [List.mem_append] at hf
        rcases hf with hf | hf
        · exact h.1 f hf
        · exact hso.1 f hf
      · intro r' hr' hh
        simp only [Option.some.injEq] at hr'
        subst hr'
        simpa using hso.2 hh

theorem rearm_framed (s : Server) (h : FramedInv s) : FramedInv s.rearm := by
  unfold Server.rearm
  split
  · split
    · exact ⟨h.1, fun r' hr' hh => by simpa using h.2 r' (by simpa using hr') hh⟩
    · exact h
  · exact h

theorem serviceReps_framed (s : Server) (h : FramedInv s) : FramedInv s.serviceReps :=
  rearm_framed _ (serviceRun_framed s h)

theorem step_framed (app : Req → AppResp) (y : Sys) (w : Who) (h : FramedInv y.s) : FramedInv (step app y w).s := by
  cases w with
  | client =>
    simp only [step, stepClient, connect]
    split <;> exact ⟨h.1, fun r hr hh => by simpa using h.2 r (by simpa using hr) hh⟩
  | server =>
    simp only [step, stepServer]
    have h1 : FramedInv y.s.accept := by
      unfold Server.accept
      split
      · exact ⟨h.1, fun r hr hh => by simpa using h.2 r (by simpa using hr) hh⟩
      · exact h
    have h2 : FramedInv (y.s.accept.receive y.c2s).1 := by
      unfold Server.receive
      split
      · exact ⟨h1.1, fun r hr hh => by simpa using h1.2 r (by simpa using hr) hh⟩
      · exact h1
    have h3 := serviceReps_framed _ (serviceReqs_framed app _ h2)
    exact ⟨h3.1, fun r hr hh => by simpa using h3.2 r (by simpa using hr) hh⟩

/-- **C31, every response is framed** (every application, every number of requests, every schedule): each response
head the server ever writes on the persistent connection is delimited by `Content-Length` or by chunking — never
"until the connection closes" — so the connection stays usable for the next response. -/
theorem C31_every_response_framed (app : Req → AppResp) (reqs : List Req) (sch : List Who) :
    ∀ f ∈ (run app (initSys reqs) sch).s.heads, f ≠ Framing.untilClose := by
  have : ∀ (sch : List Who) (y : Sys), FramedInv y.s → FramedInv (run app y sch).s := by
    intro sch
    induction sch with
    | nil => intro y h; exact h
    | cons w ws ih => intro y h; exact ih _ (step_framed app y w h)
  exact (this sch (initSys reqs) ⟨by simp [initSys], by simp [initSys]⟩).1

/-! ## responses come back in request order, each matched to its request -/

theorem inv_run (app : Req → AppResp) (reqs : List Req) (hwf : ∀ q ∈ reqs, WFReq app q) (sch : List Who) :
    ∀ y, Inv app reqs y → Inv app reqs (run app y sch) := by
  induction sch with
  | nil => intro y h; exact h
  | cons w ws ih => intro y h; exact ih _ (inv_step app reqs hwf y w h)

/-- **C31, the response stream of one request** (every application that yields at least the Content-Length it
announces, and nothing at all for a body-less response — status 204 / 304 or the answer to a HEAD request): what
the responder queues for a request — head, data, terminator — is parsed by the client, from its initial state and
however the items are grouped on arrival (`feed_append`), into exactly one response with that request's tag and the
body the application produced (none for a body-less response, whose chunk terminator is still consumed); nothing is
left over for the next response. -/
theorem C31_response_stream_roundtrip (tag : Tag) (a : AppResp)
    (h : if tag.2 then a.pieces.flatten = [] else WFApp a) (x y : List Item)
    (hxy : x ++ y = futureFrom (fresh.start a.cl) tag a.pieces) :
    (feed none x).andThen y = .done tag.1 (if tag.2 then [] else bodyOf a) [] := by
  rw [← feed_append, hxy]; exact stream_roundtrip tag a h

/-- **C31, delivered responses are always the expected ones, in request order** (every application, every list of
requests, **every schedule** of client and server service calls): at every moment the client's response queue is
`expected q₀, …, expected q_{k-1}` for the first `k` requests — response `i` is attributed to request `i`, carries the
tag the application gave to request `i` and the body it produced for it (no body for 204 / 304 responses and
answers to HEAD requests, which may be mixed in freely); no response is lost, duplicated, reordered
or mixed with another one. -/
theorem C31_responses_in_request_order (app : Req → AppResp) (reqs : List Req) (hwf : ∀ q ∈ reqs, WFReq app q)
    (sch : List Who) :
    ∃ k, k ≤ reqs.length ∧ (run app (initSys reqs) sch).c.responses = (reqs.take k).map (expected app) := by
  obtain ⟨_, k, h1 | ⟨q, h2⟩ | ⟨q, h3⟩⟩ := inv_run app reqs hwf sch _ (inv_init app reqs)
  · exact ⟨k, h1.1, h1.2.2.2.1⟩
  · have hk : k < reqs.length := by
      rcases Nat.lt_or_ge k reqs.length with h | h
      · exact h
      · have := h2.1; rw [List.getElem?_eq_none h] at this; cases this
    exact ⟨k, by omega, h2.2.2.2.2.2.1⟩
  · have hk : k < reqs.length := by
      rcases Nat.lt_or_ge k reqs.length with h | h
      · exact h
      · have := h3.1; rw [List.getElem?_eq_none h] at this; cases this
    exact ⟨k, by omega, h3.2.2.2.2.2.1⟩

/-! ## all N responses arrive -/

/-- `n` rounds of strict alternation: client, server, client, server, … -/
def alternate : Nat → List Who
  | 0 => []
  | n + 1 => Who.client :: Who.server :: alternate n

theorem rank_run (app : Req → AppResp) (reqs : List Req) (hwf : ∀ q ∈ reqs, WFReq app q) (sch : List Who) (m : Nat) :
    ∀ y, Base y → Rank app reqs y m → Base (run app y sch) ∧ Rank app reqs (run app y sch) m := by
  induction sch with
  | nil => intro y hb h; exact ⟨hb, h⟩
  | cons w ws ih =>
    intro y hb h
    obtain ⟨hb', h'⟩ := step_rank app reqs hwf y w m hb h
    exact ih _ hb' h'

theorem rank_alternate (app : Req → AppResp) (reqs : List Req) (hwf : ∀ q ∈ reqs, WFReq app q) (m : Nat) :
    ∀ y, Base y → Rank app reqs y m → Rank app reqs (run app y (alternate m)) 0 := by
  induction m with
  | zero => intro y _ h; exact h
  | succ m ih =>
    intro y hb h
    obtain ⟨hb', h'⟩ := pair_rank app reqs hwf y m hb h
    exact ih _ hb' h'

/-- **C31, N requests in — N responses out, in order, under every schedule**: let the client and the server be
serviced in *any* order for as long as one likes (`pre`), and then alternately for `Σ (yields of request i + 4)` more
rounds.  Then the client's response queue is exactly `expected q₀, …, expected q_{N-1}`: one response per request, in
request order, each attributed to its own request with the tag and body its application produced — and the client is
idle again. -/
theorem C31_n_in_n_out_ordered (app : Req → AppResp) (reqs : List Req) (hwf : ∀ q ∈ reqs, WFReq app q)
    (pre : List Who) :
    let final := run app (initSys reqs) (pre ++ alternate (tailCost app reqs 0))
    final.c.responses = reqs.map (expected app) ∧ final.c.waited = false := by
  have hinit := inv_init app reqs
  have hr0 : Rank app reqs (initSys reqs) (tailCost app reqs 0) := by
    obtain ⟨_, k, _⟩ := hinit
    exact ⟨0, Or.inl ⟨by simp [Idle, initSys, Quiet], Nat.le_refl _⟩⟩
  obtain ⟨hb1, hr1⟩ := rank_run app reqs hwf pre _ _ hinit.1 hr0
  have := rank_alternate app reqs hwf _ _ hb1 hr1
  have hrun : run app (initSys reqs) (pre ++ alternate (tailCost app reqs 0))
      = run app (run app (initSys reqs) pre) (alternate (tailCost app reqs 0)) := by
    simp [run, List.foldl_append]
  simp only [hrun]
  exact rank_zero app reqs _ this

/-- non-vacuity: five requests — fixed length, streamed, 204 without a length, a HEAD request answered with a
Content-Length, empty — under a lopsided prefix schedule -/
example :
    let app : Req → AppResp := fun q =>
      if q.id = 0 then ⟨some 3, [[1, 2], [3, 4]], false⟩ else if q.id = 1 then ⟨none, [[5], [], [6, 7]], false⟩
      else if q.id = 2 then ⟨none, [], true⟩ else if q.id = 3 then ⟨some 9, [], false⟩ else ⟨none, [], false⟩
    (run app (initSys [⟨0, false⟩, ⟨1, false⟩, ⟨2, false⟩, ⟨3, true⟩, ⟨4, false⟩])
        ([.server, .server, .client, .client, .client, .server] ++ alternate 20)).c.responses
      = [⟨0, 0, [1, 2, 3]⟩, ⟨1, 1, [5, 6, 7]⟩, ⟨2, 2, []⟩, ⟨3, 3, []⟩, ⟨4, 4, []⟩] := by
  decide +kernel

end Ioflo.KeepAlive
