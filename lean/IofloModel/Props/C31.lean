import IofloModel.Lemmas.KeepAlive
/-!
# C31 — keep-alive connections carry N requests to N ordered, framed responses

Model: `Model/KeepAlive.lean`.  All theorems quantify over the application (`app : Req → AppResp`), the queued
requests and the **schedule** (any list of client / server `serviceAll` calls).
-/
namespace Ioflo.KeepAlive

/-! ## every response is delimited -/

/-- invariant: heads written so far are delimiting, and the responder in use — if it has not written its head —
will write a delimiting one -/
def FramedInv (s : Server) : Prop :=
  (∀ f ∈ s.heads, f ≠ Framing.untilClose)
  ∧ ∀ r, s.resp = some r → r.headed = false →
      (if s.appStarted then WillFrame r else r.chunkable = true)

theorem serviceReqs_framed (app : Req → AppResp) (s : Server) (h : FramedInv s) : FramedInv (s.serviceReqs app) := by
  unfold Server.serviceReqs
  split
  · split
    · exact h
    · refine ⟨h.1, ?_⟩
      intro r hr _
      simp only [Option.some.injEq] at hr
      subst hr
      simp
  · exact h

theorem serviceRun_framed (s : Server) (h : FramedInv s) : FramedInv s.serviceRun := by
  unfold Server.serviceRun
  split
  · exact h
  · rename_i r hr
    split
    · exact h
    · have hr0 : (if s.appStarted then r else r.start s.cl).headed = false →
          WillFrame (if s.appStarted then r else r.start s.cl) := by
        intro hh
        cases hs : s.appStarted with
        | true =>
          simp only [hs, if_true] at hh ⊢
          have := h.2 r hr hh
          simpa [hs] using this
        | false =>
          simp only [hs, Bool.false_eq_true, if_false] at hh ⊢
          rw [start_headed] at hh
          have := h.2 r hr hh
          simp only [hs, Bool.false_eq_true, if_false] at this
          exact start_willFrame r s.cl this
      have hso := serviceOnce_heads _ s.tag s.script hr0
      refine ⟨?_, ?_⟩
      · intro f hf
        simp only [List.mem_append] at hf
        rcases hf with hf | hf
        · exact h.1 f hf
        · exact hso.1 f hf
      · intro r' hr' hh
        simp only [Option.some.injEq] at hr'
        subst hr'
        simpa using hso.2 hh

theorem rearm_framed (s : Server) (h : FramedInv s) : FramedInv s.rearm := by
  unfold Server.rearm
  split
  · split
    · exact ⟨h.1, fun r' hr' hh => by simpa using h.2 r' (by simpa using hr') hh⟩
    · exact h
  · exact h

theorem serviceReps_framed (s : Server) (h : FramedInv s) : FramedInv s.serviceReps :=
  rearm_framed _ (serviceRun_framed s h)

theorem step_framed (app : Req → AppResp) (y : Sys) (w : Who) (h : FramedInv y.s) : FramedInv (step app y w).s := by
  cases w with
  | client =>
    simp only [step, stepClient, connect]
    split <;> exact ⟨h.1, fun r hr hh => by simpa using h.2 r (by simpa using hr) hh⟩
  | server =>
    simp only [step, stepServer]
    have h1 : FramedInv y.s.accept := by
      unfold Server.accept
      split
      · exact ⟨h.1, fun r hr hh => by simpa using h.2 r (by simpa using hr) hh⟩
      · exact h
    have h2 : FramedInv (y.s.accept.receive y.c2s).1 := by
      unfold Server.receive
      split
      · exact ⟨h1.1, fun r hr hh => by simpa using h1.2 r (by simpa using hr) hh⟩
      · exact h1
    have h3 := serviceReps_framed _ (serviceReqs_framed app _ h2)
    exact ⟨h3.1, fun r hr hh => by simpa using h3.2 r (by simpa using hr) hh⟩

/-- **C31, every response is framed** (every application, every number of requests, every schedule): each response
head the server ever writes on the persistent connection is delimited by `Content-Length` or by chunking — never
"until the connection closes" — so the connection stays usable for the next response. -/
theorem C31_every_response_framed (app : Req → AppResp) (reqs : List Req) (sch : List Who) :
    ∀ f ∈ (run app (initSys reqs) sch).s.heads, f ≠ Framing.untilClose := by
  have : ∀ (sch : List Who) (y : Sys), FramedInv y.s → FramedInv (run app y sch).s := by
    intro sch
    induction sch with
    | nil => intro y h; exact h
    | cons w ws ih => intro y h; exact ih _ (step_framed app y w h)
  exact (this sch (initSys reqs) ⟨by simp [initSys], by simp [initSys]⟩).1

/-! ## responses come back in request order, each matched to its request -/

theorem inv_run (app : Req → AppResp) (reqs : List Req) (hwf : ∀ q ∈ reqs, WFReq app q) (sch : List Who) :
    ∀ y, Inv app reqs y → Inv app reqs (run app y sch) := by
  induction sch with
  | nil => intro y h; exact h
  | cons w ws ih => intro y h; exact ih _ (inv_step app reqs hwf y w h)

/-- **C31, the response stream of one request** (every application that yields at least the Content-Length it
announces, and nothing at all for a body-less response — status 204 / 304 or the answer to a HEAD request): what
the responder queues for a request — head, data, terminator — is parsed by the client, from its initial state and
however the items are grouped on arrival (`feed_append`), into exactly one response with that request's tag and the
body the application produced (none for a body-less response, whose chunk terminator is still consumed); nothing is
left over for the next response. -/
theorem C31_response_stream_roundtrip (tag : Tag) (a : AppResp)
    (h : if tag.2 then a.pieces.flatten = [] else WFApp a) (x y : List Item)
    (hxy : x ++ y = futureFrom (fresh.start a.cl) tag a.pieces) :
    (feed none x).andThen y = .done tag.1 (if tag.2 then [] else bodyOf a) [] := by
  rw [← feed_append, hxy]; exact stream_roundtrip tag a h

/-- **C31, delivered responses are always the expected ones, in request order** (every application, every list of
requests, **every schedule** of client and server service calls): at every moment the client's response queue is
`expected q₀, …, expected q_{k-1}` for the first `k` requests — response `i` is attributed to request `i`, carries the
tag the application gave to request `i` and the body it produced for it (no body for 204 / 304 responses and
answers to HEAD requests, which may be mixed in freely); no response is lost, duplicated, reordered
or mixed with another one. -/
theorem C31_responses_in_request_order (app : Req → AppResp) (reqs : List Req) (hwf : ∀ q ∈ reqs, WFReq app q)
    (sch : List Who) :
    ∃ k, k ≤ reqs.length ∧ (run app (initSys reqs) sch).c.responses = (reqs.take k).map (expected app) := by
  obtain ⟨_, k, h1 | ⟨q, h2⟩ | ⟨q, h3⟩⟩ := inv_run app reqs hwf sch _ (inv_init app reqs)
  · exact ⟨k, h1.1, h1.2.2.2.1⟩
  · have hk : k < reqs.length := by
      rcases Nat.lt_or_ge k reqs.length with h | h
      · exact h
      · have := h2.1; rw [List.getElem?_eq_none h] at this; cases this
    exact ⟨k, by omega, h2.2.2.2.2.2.1⟩
  · have hk : k < reqs.length := by
      rcases Nat.lt_or_ge k reqs.length with h | h
      · exact h
      · have := h3.1; rw [List.getElem?_eq_none h] at this; cases this
    exact ⟨k, by omega, h3.2.2.2.2.2.1⟩

/-! ## all N responses arrive -/

/-- `n` rounds of strict alternation: client, server, client, server, … -/
def alternate : Nat → List Who
  | 0 => []
  | n + 1 => Who.client :: Who.server :: alternate n

theorem rank_run (app : Req → AppResp) (reqs : List Req) (hwf : ∀ q ∈ reqs, WFReq app q) (sch : List Who) (m : Nat) :
    ∀ y, Base y → Rank app reqs y m → Base (run app y sch) ∧ Rank app reqs (run app y sch) m := by
  induction sch with
  | nil => intro y hb h; exact ⟨hb, h⟩
  | cons w ws ih =>
    intro y hb h
    obtain ⟨hb', h'⟩ := step_rank app reqs hwf y w m hb h
    exact ih _ hb' h'

theorem rank_alternate (app : Req → AppResp) (reqs : List Req) (hwf : ∀ q ∈ reqs, WFReq app q) (m : Nat) :
    ∀ y, Base y → Rank app reqs y m → Rank app reqs (run app y (alternate m)) 0 := by
  induction m with
  | zero => intro y _ h; exact h
  | succ m ih =>
    intro y hb h
    obtain ⟨hb', h'⟩ := pair_rank app reqs hwf y m hb h
    exact ih _ hb' h'

/-- **C31, N requests in — N responses out, in order, under every schedule**: let the client and the server be
serviced in *any* order for as long as one likes (`pre`), and then alternately for `Σ (yields of request i + 4)` more
rounds.  Then the client's response queue is exactly `expected q₀, …, expected q_{N-1}`: one response per request, in
request order, each attributed to its own request with the tag and body its application produced — and the client is
idle again. -/
theorem C31_n_in_n_out_ordered (app : Req → AppResp) (reqs : List Req) (hwf : ∀ q ∈ reqs, WFReq app q)
    (pre : List Who) :
    let final := run app (initSys reqs) (pre ++ alternate (tailCost app reqs 0))
    final.c.responses = reqs.map (expected app) ∧ final.c.waited = false := by
  have hinit := inv_init app reqs
  have hr0 : Rank app reqs (initSys reqs) (tailCost app reqs 0) := by
    obtain ⟨_, k, _⟩ := hinit
    exact ⟨0, Or.inl ⟨by simp [Idle, initSys, Quiet], Nat.le_refl _⟩⟩
  obtain ⟨hb1, hr1⟩ := rank_run app reqs hwf pre _ _ hinit.1 hr0
  have := rank_alternate app reqs hwf _ _ hb1 hr1
  have hrun : run app (initSys reqs) (pre ++ alternate (tailCost app reqs 0))
      = run app (run app (initSys reqs) pre) (alternate (tailCost app reqs 0)) := by
    simp [run, List.foldl_append]
  simp only [hrun]
  exact rank_zero app reqs _ this

/-- non-vacuity: five requests — fixed length, streamed, 204 without a length, a HEAD request answered with a
Content-Length, empty — under a lopsided prefix schedule -/
example :
    let app : Req → AppResp := fun q =>
      if q.id = 0 then ⟨some 3, [[1, 2], [3, 4]], false⟩ else if q.id = 1 then ⟨none, [[5], [], [6, 7]], false⟩
      else if q.id = 2 then ⟨none, [], true⟩ else if q.id = 3 then ⟨some 9, [], false⟩ else ⟨none, [], false⟩
    (run app (initSys [⟨0, false, false⟩, ⟨1, false, false⟩, ⟨2, false, false⟩, ⟨3, true, false⟩, ⟨4, false, false⟩])
        ([.server, .server, .client, .client, .client, .server] ++ alternate 20)).c.responses
      = [⟨0, 0, [1, 2, 3]⟩, ⟨1, 1, [5, 6, 7]⟩, ⟨2, 2, []⟩, ⟨3, 3, []⟩, ⟨4, 4, []⟩] := by
  decide +kernel

/-! ## `Connection: close` inside a pipeline (pipeline-level model) -/

theorem serveItems_eq (tag : Tag) (ps : List Bytes) : ∀ r : Responder, serveItems r tag ps = futureFrom r tag ps := by
  induction ps with
  | nil => intro r; rfl
  | cons p ps ih => intro r; simp only [serveItems, futureFrom, ih]

/-- does the pipeline end with `q`?  It carries `Connection: close`, or the client cannot complete its response -/
def endsConn (app : Req → AppResp) (q : Req) : Bool :=
  q.close || (clientTake q (serveOne (app q) q).1).isNone

/-- the requests the server gets to handle: up to and including the first one that ends the pipeline -/
def handled (app : Req → AppResp) : List Req → List Req
  | [] => []
  | q :: rest => if endsConn app q then [q] else q :: handled app rest

theorem handled_prefix (app : Req → AppResp) (reqs : List Req) : handled app reqs <+: reqs := by
  induction reqs with
  | nil => exact List.prefix_refl _
  | cons q rest ih =>
    simp only [handled]
    split
    · exact ⟨rest, rfl⟩
    · obtain ⟨t, ht⟩ := ih
      exact ⟨t, by simp [ht]⟩

theorem serveOne_close (a : AppResp) (q : Req) : (serveOne a q).2 = q.close := rfl

/-- **C31, a pipeline stops at the first connection-ending request** (every application, every mix of
`Connection: close` requests, any number of requests): the requests the server handles are a prefix of the requests,
in order — all of them if none ends the pipeline, otherwise exactly those up to and including the first that does;
every later request is never handled (and so never answered); what the client delivers is, request by request and in
order, what it makes of the items written for each handled request; no handled request before the last one ended
the pipeline; and the server closes the connection iff a handled request carried `Connection: close`. -/
theorem C31_pipeline_stops_at_first_end (app : Req → AppResp) (reqs : List Req) :
    (pipeline app reqs).1 = (handled app reqs).map (fun q => (q, clientTake q (serveOne (app q) q).1))
    ∧ handled app reqs <+: reqs
    ∧ ((∀ q ∈ reqs, endsConn app q = false) → handled app reqs = reqs ∧ (pipeline app reqs).2 = true)
    ∧ (∀ q ∈ (handled app reqs).dropLast, endsConn app q = false)
    ∧ ((pipeline app reqs).2 = false ↔ ∃ q ∈ handled app reqs, q.close = true) := by
  refine ⟨?_, handled_prefix app reqs, ?_, ?_, ?_⟩
  · induction reqs with
    | nil => rfl
    | cons q rest ih =>
      simp only [pipeline, handled, endsConn, serveOne_close]
      by_cases h : (q.close || (clientTake q (serveOne (app q) q).1).isNone) = true
      · simp [h]
      · simp only [Bool.not_eq_true] at h
        simp only [h, Bool.false_eq_true, if_false, List.map_cons, ih]
  · induction reqs with
    | nil => intro _; exact ⟨rfl, rfl⟩
    | cons q rest ih =>
      intro ha
      have hq : endsConn app q = false := ha q (by simp)
      have := ih (fun x hx => ha x (by simp [hx]))
      simp only [handled, hq, Bool.false_eq_true, if_false, this.1, pipeline, serveOne_close]
      unfold endsConn at hq
      simp only [hq, Bool.false_eq_true, if_false, this.2, and_self]
  · induction reqs with
    | nil => intro q hq; cases hq
    | cons q rest ih =>
      simp only [handled]
      by_cases h : endsConn app q = true
      · simp [h]
      · simp only [Bool.not_eq_true] at h
        simp only [h, Bool.false_eq_true, if_false]
        intro x hx
        cases hr : handled app rest with
        | nil => simp [hr] at hx
        | cons y ys =>
          rw [hr, List.dropLast_cons_cons] at hx
          simp only [List.mem_cons] at hx
          rcases hx with rfl | hx
          · exact h
          · exact ih x (by rw [hr]; exact hx)
  · induction reqs with
    | nil => simp [pipeline, handled]
    | cons q rest ih =>
      simp only [pipeline, handled, serveOne_close]
      by_cases h : endsConn app q = true
      · have h' := h
        unfold endsConn at h'
        simp only [h', if_true, h, List.mem_singleton, exists_eq_left]
        cases q.close <;> simp
      · simp only [Bool.not_eq_true] at h
        have h' := h
        unfold endsConn at h'
        simp only [h', Bool.false_eq_true, if_false, h, List.mem_cons, exists_eq_or_imp, ih]
        have hc : q.close = false := by
          cases hq : q.close with
          | false => rfl
          | true => simp [hq] at h'
        simp [hc]

/-- for a well-behaved application the client delivers the expected response of the step model -/
theorem clientTake_good (app : Req → AppResp) (q : Req) (hwf : WFReq app q) :
    clientTake q (serveOne (app q) q).1 = some (expected app q) := by
  have hrt := stream_roundtrip (tagOf app q) (app q) (by unfold WFReq at hwf; simpa [tagOf] using hwf)
  unfold clientTake serveOne
  simp only []
  rw [serveItems_eq]
  have : (({ chunkable := true } : Responder).start (app q).cl) = fresh.start (app q).cl := rfl
  rw [this]
  have ht : ((q.id, q.head || (app q).bodyless) : Tag) = tagOf app q := rfl
  rw [ht, hrt]
  cases hb : bodylessFor app q <;> simp [tagOf, expected, bodyFor, hb]

/-- the requests up to and including the first one that carries `Connection: close` -/
def uptoClose : List Req → List Req
  | [] => []
  | q :: rest => if q.close then [q] else q :: uptoClose rest

/-- **C31, `Connection: close` inside a pipeline** (every well-behaved application, any number of requests, close
requests at any positions): the requests up to and including the first one with `Connection: close` are answered, each
with its expected response — the one the step model delivers —, in order; no later request is handled or answered; and
the server closes the connection iff some request asked for it. -/
theorem C31_close_ends_pipeline (app : Req → AppResp) (reqs : List Req) (hwf : ∀ q ∈ reqs, WFReq app q) :
    (pipeline app reqs).1 = (uptoClose reqs).map (fun q => (q, some (expected app q)))
    ∧ ((pipeline app reqs).2 = true ↔ ∀ q ∈ reqs, q.close = false) := by
  induction reqs with
  | nil => exact ⟨rfl, by simp [pipeline]⟩
  | cons q rest ih =>
    have hq := clientTake_good app q (hwf q (by simp))
    have hrest := ih (fun x hx => hwf x (by simp [hx]))
    simp only [pipeline, uptoClose, serveOne_close, hq, Option.isNone_some, Bool.or_false]
    cases hc : q.close with
    | true => simp [hc]
    | false => simp [hrest.1, hrest.2, hc]

/-- **C31, the two models agree on pipelines without close requests**: the pipeline model then delivers for every request
the expected response, in order, and leaves the connection open — the very list `C31_n_in_n_out_ordered` proves the
step model delivers under every schedule. -/
theorem C31_pipeline_agrees_when_good (app : Req → AppResp) (reqs : List Req) (hwf : ∀ q ∈ reqs, WFReq app q)
    (hnc : ∀ q ∈ reqs, q.close = false) :
    pipeline app reqs = (reqs.map (fun q => (q, some (expected app q))), true) := by
  have h := C31_close_ends_pipeline app reqs hwf
  have hu : uptoClose reqs = reqs := by
    clear h hwf
    induction reqs with
    | nil => rfl
    | cons q rest ih =>
      simp only [uptoClose, hnc q (by simp), Bool.false_eq_true, if_false, ih (fun x hx => hnc x (by simp [hx]))]
  rw [hu] at h
  exact Prod.ext h.1 (h.2.2 hnc)

/-! ### every response written is framed -/

def HeadsOk (items : List Item) : Prop := ∀ t f, Item.head t f ∈ items → f ≠ Framing.untilClose

theorem write_headsOk (r : Responder) (tag : Tag) (msg : Bytes) (h : r.headed = false → WillFrame r) :
    HeadsOk (r.write tag msg).2.1 := by
  unfold HeadsOk
  intro t f
  unfold Responder.write
  unfold WillFrame at h
  cases hh : r.headed <;> cases hl : r.length <;> cases hc : r.chunkable <;> cases hk : r.chunked <;>
    simp_all <;> (try split) <;> simp_all <;> (try split) <;> (intro hm; simp at hm; (try obtain ⟨_, rfl⟩ := hm); simp)

theorem serviceOnce_headsOk (r : Responder) (tag : Tag) (script : List Bytes) (h : r.headed = false → WillFrame r) :
    HeadsOk (r.serviceOnce tag script).2.2.1 := by
  cases script with
  | nil => simp only [Responder.serviceOnce]; exact write_headsOk r tag [] h
  | cons p ps =>
    simp only [Responder.serviceOnce]
    split
    · intro t f hm; cases hm
    · exact write_headsOk r tag p h

theorem serveItems_headsOk (tag : Tag) (ps : List Bytes) :
    ∀ (r : Responder), (r.headed = false → WillFrame r) → HeadsOk (serveItems r tag ps) := by
  induction ps with
  | nil => intro r h; exact serviceOnce_headsOk r tag [] h
  | cons p ps ih =>
    intro r h
    simp only [serveItems]
    intro t f hm
    rcases List.mem_append.1 hm with hm | hm
    · exact serviceOnce_headsOk r tag (p :: ps) h t f hm
    · split at hm
      · cases hm
      · exact ih _ (serviceOnce_heads r tag (p :: ps) h).2 t f hm

/-- **C31, every response of a pipeline is framed** (every application, every request): every head the server writes
for a request announces a Content-Length or chunking, never 'until close'. -/
theorem C31_pipeline_responses_framed (a : AppResp) (q : Req) : HeadsOk (serveOne a q).1 := by
  unfold serveOne
  exact serveItems_headsOk _ _ _ (fun _ => start_willFrame _ _ rfl)

/-- non-vacuity: five requests, the third with `Connection: close`: three answered in order, two never handled, the
connection closed; without the close request all five are answered and the connection stays open -/
def demoApp : Req → AppResp := fun q => if q.id = 1 then ⟨none, [[5], [], [6, 7]], false⟩ else ⟨some 2, [[7, q.id]], false⟩

example :
    (pipeline demoApp [⟨0, false, false⟩, ⟨1, false, false⟩, ⟨2, false, true⟩, ⟨3, false, false⟩, ⟨4, false, false⟩]).1.map
        (fun x => (x.1.id, x.2.map (fun d => (d.tag, d.body))))
      = [(0, some (0, [7, 0])), (1, some (1, [5, 6, 7])), (2, some (2, [7, 2]))]
    ∧ (pipeline demoApp [⟨0, false, false⟩, ⟨1, false, false⟩, ⟨2, false, true⟩, ⟨3, false, false⟩]).2 = false
    ∧ uptoClose [⟨0, false, false⟩, ⟨1, false, false⟩, ⟨2, false, true⟩, ⟨3, false, false⟩]
        = [⟨0, false, false⟩, ⟨1, false, false⟩, ⟨2, false, true⟩]
    ∧ (pipeline demoApp [⟨0, false, false⟩, ⟨1, false, false⟩, ⟨3, false, false⟩]).2 = true
    ∧ WFReq demoApp ⟨1, false, false⟩ := by
  refine ⟨by decide +kernel, by decide +kernel, by decide +kernel, by decide +kernel, ?_⟩
  unfold WFReq WFApp; simp [bodylessFor, demoApp]

end Ioflo.KeepAlive
