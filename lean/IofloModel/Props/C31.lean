import IofloModel.Lemmas.KeepAlive
/-!
# C31 — keep-alive connections carry N requests to N ordered, framed responses

Model: `Model/KeepAlive.lean`.  All theorems quantify over the application (`app : Req → AppResp`), the queued
requests and the **schedule** (any list of client / server `serviceAll` calls).
-/
namespace Ioflo.KeepAlive

/-! ## every response is delimited -/

/-- invariant: heads written so far are delimiting, and the responder in use — if it has not written its head —
will write a delimiting one -/
def FramedInv (s : Server) : Prop :=
  (∀ f ∈ s.heads, f ≠ Framing.untilClose)
  ∧ ∀ r, s.resp = some r → r.headed = false →
      (if s.appStarted then WillFrame r else r.chunkable = true)

theorem serviceReqs_framed (app : Req → AppResp) (s : Server) (h : FramedInv s) : FramedInv (s.serviceReqs app) := by
  unfold Server.serviceReqs
  split
  · split
    · exact h
    · refine ⟨h.1, ?_⟩
      intro r hr _
      simp only [Option.some.injEq] at hr
      subst hr
      simp
  · exact h

theorem serviceRun_framed (s : Server) (h : FramedInv s) : FramedInv s.serviceRun := by
  unfold Server.serviceRun
  split
  · exact h
  · rename_i r hr
    split
    · exact h
    · have hr0 : (if s.appStarted then r else r.start s.cl).headed = false →
          WillFrame (if s.appStarted then r else r.start s.cl) := by
        intro hh
        cases hs : s.appStarted with
        | true =>
          simp only [hs, if_true] at hh ⊢
          have := h.2 r hr hh
          simpa [hs] using this
        | false =>
          simp only [hs, Bool.false_eq_true, if_false] at hh ⊢
          rw [start_headed] at hh
          have := h.2 r hr hh
          simp only [hs, Bool.false_eq_true, if_false] at this
          exact start_willFrame r s.cl this
      have hso := serviceOnce_heads _ s.tag s.script hr0
      refine ⟨?_, ?_⟩
      · intro f hf
        simp only [List.mem_append] at hf
        rcases hf with hf | hf
        · exact h.1 f hf
        · exact hso.1 f hf
      · intro r' hr' hh
        simp only [Option.some.injEq] at hr'
        subst hr'
        simpa using hso.2 hh

theorem rearm_framed (s : Server) (h : FramedInv s) : FramedInv s.rearm := by
  unfold Server.rearm
  split
  · split
    · exact ⟨h.1, fun r' hr' hh => by simpa using h.2 r' (by simpa using hr') hh⟩
    · exact h
  · exact h

theorem serviceReps_framed (s : Server) (h : FramedInv s) : FramedInv s.serviceReps :=
  rearm_framed _ (serviceRun_framed s h)

theorem step_framed (app : Req → AppResp) (y : Sys) (w : Who) (h : FramedInv y.s) : FramedInv (step app y w).s := by
  cases w with
  | client =>
    simp only [step, stepClient]
    split <;> exact ⟨h.1, fun r hr hh => by simpa using h.2 r (by simpa using hr) hh⟩
  | server =>
    simp only [step, stepServer]
    have h1 : FramedInv (if y.s.pending then { y.s with pending := false, accepted := true, parsing := true } else y.s) := by
      split
      · exact ⟨h.1, fun r hr hh => by simpa using h.2 r (by simpa using hr) hh⟩
      · exact h
    revert h1
    generalize (if y.s.pending then _ else y.s) = s1
    intro h1
    have h2 : FramedInv (if s1.accepted then ({ s1 with rx := s1.rx ++ y.c2s }, ([] : List Req)) else (s1, y.c2s)).1 := by
      split
      · exact ⟨h1.1, fun r hr hh => by simpa using h1.2 r (by simpa using hr) hh⟩
      · exact h1
    revert h2
    generalize (if s1.accepted then ({ s1 with rx := s1.rx ++ y.c2s }, ([] : List Req)) else (s1, y.c2s)) = p2
    intro h2
    have h3 := serviceReps_framed _ (serviceReqs_framed app _ h2)
    exact ⟨h3.1, fun r hr hh => by simpa using h3.2 r (by simpa using hr) hh⟩

/-- **C31, every response is framed** (every application, every number of requests, every schedule): each response
head the server ever writes on the persistent connection is delimited by `Content-Length` or by chunking — never
"until the connection closes" — so the connection stays usable for the next response. -/
theorem C31_every_response_framed (app : Req → AppResp) (reqs : List Req) (sch : List Who) :
    ∀ f ∈ (run app (initSys reqs) sch).s.heads, f ≠ Framing.untilClose := by
  have : ∀ (sch : List Who) (y : Sys), FramedInv y.s → FramedInv (run app y sch).s := by
    intro sch
    induction sch with
    | nil => intro y h; exact h
    | cons w ws ih => intro y h; exact ih _ (step_framed app y w h)
  exact (this sch (initSys reqs) ⟨by simp [initSys], by simp [initSys]⟩).1

end Ioflo.KeepAlive
