import IofloModel.Lemmas.HttpSafe
import IofloModel.Lemmas.HttpPorter
/-!
# C32 — malformed HTTP input only affects its own connection

Property theorems only.  Model: `Model/HttpLex.lean`, `Model/HttpMsg.lean` (the parsers on
**arbitrary** bytes, every exception a constructor; `catchVE = true` is the tree repaired by
fixes/D18-parsemessage-valueerror.patch, `false` the unrepaired one), `Model/HttpValet.lean`
(the connection table of `Valet.serviceReqs / serviceReps / closeConnection`).
-/
namespace Ioflo.Http

/-! ## no exception leaves `parse()` -/

/-- the calls a connection manager makes on a parser -/
inductive Op
  | feed (b : Bytes)        -- bytes received, then `parse()`
  | parse                   -- `parse()` with nothing new
  | close                   -- the peer closed: `close()`
  | next                    -- `makeParser()` for the next message
  deriving Repr

def runOp (s : St) : Op → St
  | .feed b => feed s b
  | .parse => parse s
  | .close => close s
  | .next => makeParser s

def runOps (s : St) (ops : List Op) : St := ops.foldl runOp s

/-- how a parser presents itself to its caller after a call -/
inductive Outcome
  | message      -- a complete request / response
  | needMore     -- waiting for bytes
  | failed       -- `errored`, `ended`: the Valet closes the connection, the Patron records the error
  | unmodelled   -- event-stream response or exotic request target: outside this model
  | raised       -- an exception left `parse()` (now, or `StopIteration` from the dead generator)
  deriving DecidableEq, Repr

def outcome (c : Core) : Outcome :=
  if c.escaped ≠ none ∨ c.gen = .dead then .raised
  else if c.gen = .unmodelled then .unmodelled
  else if c.gen = .none then (if c.errored then .failed else .message)
  else .needMore

theorem safe_runOp {s : St} (h : Safe s.core) (op : Op) : Safe (runOp s op).core := by
  cases op with
  | feed b => exact safe_feed h b
  | parse => exact safe_parse h
  | close => exact safe_close h
  | next => exact safe_makeParser h

theorem safe_runOps {s : St} (h : Safe s.core) (ops : List Op) : Safe (runOps s ops).core := by
  induction ops generalizing s with
  | nil => exact h
  | cons op ops ih => exact ih (safe_runOp h op)

/-- **Whatever arrives, `parse()` does not raise** (repaired tree): for every sequence of receives
of arbitrary bytes, closes and restarts on a fresh `Requestant` or `Respondent`, the parser has a
request / response, waits, or is marked failed. -/
theorem C32_parse_total (kind : Kind) (m : Bytes) (max : Nat) (ops : List Op) :
    outcome (runOps (init kind m max) ops).core ≠ .raised := by
  have h := safe_runOps (safe_init kind m max) ops
  unfold outcome
  simp [h.1, h.2.1]
  split <;> (try split) <;> (try split) <;> simp

/-- the same from any parser state that has not raised yet -/
theorem C32_parse_total_from (s : St) (h : Safe s.core) (ops : List Op) :
    outcome (runOps s ops).core ≠ .raised ∧ Safe (runOps s ops).core := by
  have h' := safe_runOps h ops
  refine ⟨?_, h'⟩
  unfold outcome
  simp [h'.1, h'.2.1]
  split <;> (try split) <;> (try split) <;> simp

/-- non-vacuity: a bad chunk size, a chunk end that is not empty, a non-ASCII chunk size, a port
that is not a number: all are `failed`, none raises -/
example :
    outcome (runOps (init .req sGET 65536) [.feed
      [80, 79, 83, 84, 32, 47, 32, 72, 84, 84, 80, 47, 49, 46, 49, 13, 10, 84, 114, 97, 110, 115, 102, 101, 114, 45,
       69, 110, 99, 111, 100, 105, 110, 103, 58, 99, 104, 117, 110, 107, 101, 100, 13, 10, 13, 10, 122, 122, 13, 10]]).core
      = .failed ∧
    outcome (runOps (init .req sGET 65536) [.feed
      [71, 69, 84, 32, 104, 116, 116, 112, 58, 47, 47, 104, 58, 120, 47, 32, 72, 84, 84, 80, 47, 49, 46, 49, 13, 10, 13, 10]]).core
      = .failed := by decide

/-- **The unrepaired tree does raise** (D18): with `except HTTPException` only, the chunk size `zz`
makes `int(…, 16)` raise a `ValueError` that leaves `parse()`. -/
theorem C32_unrepaired_counterexample :
    ¬ ∀ (b : Bytes),
      let s0 := init .req sGET 65536
      outcome (runOps { s0 with core := { s0.core with catchVE := false } } [.feed b]).core ≠ .raised := by
  intro h
  exact absurd (h [80, 79, 83, 84, 32, 47, 32, 72, 84, 84, 80, 47, 49, 46, 49, 13, 10, 84, 114, 97, 110, 115, 102,
    101, 114, 45, 69, 110, 99, 111, 100, 105, 110, 103, 58, 99, 104, 117, 110, 107, 101, 100, 13, 10, 13, 10, 122,
    122, 13, 10]) (by decide)

/-! ## the server's loop over its connections -/

/-- **`serviceReqs` does not raise and treats every connection by itself**: if no parser of the
table has raised so far, the loop ends normally, and what becomes of connection `ca` — unchanged,
advanced, answered, or closed and removed (`reqFate`) — is a function of that connection's own
state only: bytes on one connection never change another. -/
theorem C32_serviceReqs_isolated (v : Valet) (hr : v.raised = false) (hs : AllSafe v.conns)
    (hn : (keysOf v.conns).Nodup) :
    v.serviceReqs.raised = false ∧ AllSafe v.serviceReqs.conns ∧
    ∀ ca, lookup ca v.serviceReqs.conns = (lookup ca v.conns).bind reqFate := by
  obtain ⟨h1, h2, _, h4⟩ := foldl_reqStep_spec (keysOf v.conns) v hn hr hs hn
  refine ⟨h1, h2, ?_⟩
  intro ca
  have := h4 ca
  unfold Valet.serviceReqs
  unfold keysOf at this
  rw [this]
  by_cases hm : ca ∈ List.map (fun x => x.1) v.conns
  · simp [hm]
  · have : lookup ca v.conns = none := lookup_none_of_not_mem hm
    simp [hm, this]

/-- one step of the loop touches one entry -/
theorem C32_reqStep_other_untouched (v : Valet) (hr : v.raised = false) (hs : AllSafe v.conns)
    (hn : (keysOf v.conns).Nodup) (ca ca' : Nat) (hne : ca' ≠ ca) :
    lookup ca' (v.reqStep ca).conns = lookup ca' v.conns :=
  (reqStep_spec hr hs hn).2.2.2.2.2 ca' hne

/-- the hypotheses of `C32_serviceReqs_isolated` hold for every table the Valet can build: a new
connection (`connect`) and received bytes (`recv`) keep the parsers safe and the keys distinct -/
theorem C32_connect_recv_safe (v : Valet) (hs : AllSafe v.conns) (hn : (keysOf v.conns).Nodup)
    (ca max : Nat) (b : Bytes) :
    (AllSafe (v.connect ca max true).conns ∧ (keysOf (v.connect ca max true).conns).Nodup) ∧
    (AllSafe (v.recv ca b).conns ∧ (keysOf (v.recv ca b).conns).Nodup) := by
  constructor
  · unfold Valet.connect
    cases hl : lookup ca v.conns with
    | some c => exact ⟨hs, hn⟩
    | none =>
      simp only []
      constructor
      · intro k c hk
        rw [lookup_append_single] at hk
        cases hlk : lookup k v.conns with
        | some x => simp only [hlk] at hk; simp at hk; subst hk; exact hs k x hlk
        | none =>
          simp only [hlk] at hk
          by_cases hck : ca = k
          · simp only [hck, if_true] at hk; simp at hk; subst hk
            exact safe_of (safe_init .req sGET max) rfl (by simp [init]) rfl rfl rfl
          · simp [hck] at hk
      · have hnm : ca ∉ keysOf v.conns := fun hm => lookup_ne_none_of_mem hm hl
        simp only [keysOf, List.map_append, List.map_cons, List.map_nil]
        rw [List.nodup_append]
        refine ⟨hn, by simp, ?_⟩
        intro a ha b' hb
        simp at hb; subst hb
        intro hab; subst hab; exact hnm ha
  · unfold Valet.recv
    cases hl : lookup ca v.conns with
    | none => exact ⟨hs, hn⟩
    | some c =>
      simp only []
      constructor
      · intro k ck hk
        by_cases hkc : k = ca
        · subst hkc
          rw [lookup_setConn_eq _ v.conns (by simp [hl])] at hk
          simp at hk; subst hk; exact hs k c hl
        · rw [lookup_setConn_ne hkc] at hk; exact hs k ck hk
      · rw [keysOf_setConn]; exact hn

/-- the empty table -/
theorem C32_empty_safe : AllSafe ({} : Valet).conns ∧ (keysOf ({} : Valet).conns).Nodup :=
  ⟨fun _ _ h => by simp [lookup] at h, by simp [keysOf]⟩

/-- non-vacuity and the unrepaired tree at the level of the server: connection 1 sends a bad
chunk size, connection 2 a complete request.  Repaired: 1 is closed, 2 is handed to the
application.  Unrepaired: the `ValueError` leaves `serviceReqs` before connection 2 is looked at. -/
theorem C32_unrepaired_server_counterexample :
    let bad : Bytes := [80, 79, 83, 84, 32, 47, 32, 72, 84, 84, 80, 47, 49, 46, 49, 13, 10, 84, 114, 97, 110, 115,
      102, 101, 114, 45, 69, 110, 99, 111, 100, 105, 110, 103, 58, 99, 104, 117, 110, 107, 101, 100, 13, 10, 13, 10,
      122, 122, 13, 10]
    let good : Bytes := [71, 69, 84, 32, 47, 32, 72, 84, 84, 80, 47, 49, 46, 49, 13, 10, 13, 10]
    let table := fun (cve : Bool) =>
      ((((({} : Valet).connect 1 65536 cve).connect 2 65536 cve).recv 1 bad).recv 2 good).serviceReqs
    ((table true).raised = false ∧ lookup 1 (table true).conns = none ∧
      (lookup 2 (table true).conns).map (·.served) = some 1) ∧
    ((table false).raised = true ∧ (lookup 2 (table false).conns).map (·.served) = some 0) := by
  decide

/-- what happens to a server: connections arrive, bytes arrive on them, `serviceAll()` runs -/
inductive SOp
  | connect (ca : Nat)
  | recv (ca : Nat) (b : Bytes)
  | serviceAll
  | stall (ca : Nat) (b : Bool)      -- the peer stops / resumes reading: responses stay queued
  deriving Repr

def runSOp (max : Nat) (v : Valet) : SOp → Valet
  | .connect ca => v.connect ca max true
  | .recv ca b => v.recv ca b
  | .serviceAll => v.serviceAll
  | .stall ca b => v.stall ca b

/-- a peer that stops or resumes reading changes no parser and no key of the table -/
theorem stall_ok {v : Valet} (h : TableOk v) (ca : Nat) (b : Bool) : TableOk (v.stall ca b) := by
  obtain ⟨hr, hs, hn⟩ := h
  unfold Valet.stall
  cases hl : lookup ca v.conns with
  | none => exact ⟨hr, hs, hn⟩
  | some c =>
    refine ⟨hr, ?_, by simp only []; rw [keysOf_setConn]; exact hn⟩
    intro k ck hk
    simp only [] at hk
    by_cases hkc : k = ca
    · subst hkc
      rw [lookup_setConn_eq _ v.conns (by simp [hl])] at hk
      simp at hk; subst hk; exact hs k c hl
    · rw [lookup_setConn_ne hkc] at hk; exact hs k ck hk

/-- **A malformed request closes its connection in the same pass whatever is still queued for
transmit**: the step of `serviceReqs` for one connection does not look at the transmit queue or
at whether the peer is reading. -/
theorem C32_malformed_closes_whatever_is_queued (c : Conn) (t z : Bool) :
    ((reqStepConn { c with txPending := t, stalled := z }).1.isNone = (reqStepConn c).1.isNone) ∧
    (reqStepConn { c with txPending := t, stalled := z }).2 = (reqStepConn c).2 := by
  unfold reqStepConn
  simp only []
  constructor <;> (repeat' split) <;> simp_all

/-- **The server's service loop never raises**, whatever arrives on whichever connection in
whatever order: `serviceAll` (requests, responders, transmit) keeps `raised = false`. -/
theorem C32_server_never_raises (max : Nat) (ops : List SOp) :
    (ops.foldl (runSOp max) {}).raised = false := by
  have h : ∀ (ops : List SOp) (v : Valet), TableOk v → TableOk (ops.foldl (runSOp max) v) := by
    intro ops
    induction ops with
    | nil => intro v hv; exact hv
    | cons op ops ih =>
      intro v hv
      apply ih
      obtain ⟨hr, hs, hn⟩ := hv
      cases op with
      | connect ca =>
        have := (C32_connect_recv_safe v hs hn ca max []).1
        refine ⟨?_, this.1, this.2⟩
        show (v.connect ca max true).raised = false
        unfold Valet.connect; split <;> exact hr
      | recv ca b =>
        have := (C32_connect_recv_safe v hs hn ca max b).2
        refine ⟨?_, this.1, this.2⟩
        show (v.recv ca b).raised = false
        unfold Valet.recv; split <;> exact hr
      | serviceAll => exact serviceAll_ok ⟨hr, hs, hn⟩
      | stall ca b => exact stall_ok ⟨hr, hs, hn⟩ ca b
  exact (h ops {} ⟨rfl, C32_empty_safe.1, C32_empty_safe.2⟩).1

/-- **The non-WSGI server (`Porter.serviceStewards`, as repaired by fixes/D32b) likewise**: the loop
over the stewards does not raise, and what becomes of each connection — waiting, answered and kept,
answered and closed, failed and closed — is a function of that connection's own state only. -/
theorem C32_porter_isolated (v : Valet) (hr : v.raised = false) (hs : AllSafe v.conns)
    (hn : (keysOf v.conns).Nodup) :
    v.serviceStewards.raised = false ∧ AllSafe v.serviceStewards.conns ∧
    ∀ ca, lookup ca v.serviceStewards.conns = (lookup ca v.conns).bind (fun c => (stewardStepConn c).1) := by
  obtain ⟨h1, h2, _, h4⟩ := foldl_stepWith_spec stewardStepConn_safe (keysOf v.conns) v hn hr hs hn
  refine ⟨h1, h2, ?_⟩
  intro ca
  have := h4 ca
  unfold Valet.serviceStewards
  unfold keysOf at this
  rw [this]
  by_cases hm : ca ∈ List.map (fun x => x.1) v.conns
  · simp [hm]
  · have : lookup ca v.conns = none := lookup_none_of_not_mem hm
    simp [hm, this]

/-- non-vacuity: connection 1 sends an unknown method (the request fails before a version is
known), connection 2 a complete HTTP/1.1 request: 1 is closed, 2 answered and kept -/
example :
    let bad : Bytes := [70, 79, 79, 32, 47, 32, 72, 84, 84, 80, 47, 49, 46, 49, 13, 10, 13, 10]
    let good : Bytes := [71, 69, 84, 32, 47, 32, 72, 84, 84, 80, 47, 49, 46, 49, 13, 10, 13, 10]
    let t := ((((({} : Valet).connect 1 65536 true).connect 2 65536 true).recv 1 bad).recv 2 good).serviceStewards
    t.raised = false ∧ lookup 1 t.conns = none ∧ (lookup 2 t.conns).map (·.served) = some 1 := by
  decide

/-! ## the client -/

/-- **A client receiving a malformed response records an error instead of raising**: whatever
bytes arrive for the request in flight, `serviceResponse` does not raise; the response is recorded
(with its `errored` flag) or still awaited. -/
theorem C32_client_no_raise (c : Client) (hr : c.raised = false) (hs : Safe c.rsp.core) (b : Bytes) :
    (c.recv b).raised = false ∧ Safe (c.recv b).rsp.core := by
  unfold Client.recv
  simp only [hr, Bool.false_eq_true, if_false]
  split
  · exact ⟨by simp, hs⟩
  · have hp : Safe (parse { c.rsp with msg := c.rsp.msg ++ b }).core :=
      safe_parse (s := { c.rsp with msg := c.rsp.msg ++ b }) hs
    have hnr : parseRaises { c.rsp with msg := c.rsp.msg ++ b } (parse { c.rsp with msg := c.rsp.msg ++ b }) = false := by
      simp [parseRaises, hs.2.1, hp.2.1]
    simp only [hnr, Bool.false_eq_true, if_false]
    split
    · split
      · exact ⟨by simp [hr], safe_makeParser hp⟩
      · exact ⟨by simp, safe_makeParser hp⟩
    · exact ⟨by simp, hp⟩

/-- non-vacuity: a response whose chunk size is `zz` is recorded as one errored response -/
example :
    let c : Client := { rsp := init .rsp sGET 65536 }
    (c.recv [72, 84, 84, 80, 47, 49, 46, 49, 32, 50, 48, 48, 32, 79, 75, 13, 10, 84, 114, 97, 110, 115, 102, 101, 114,
      45, 69, 110, 99, 111, 100, 105, 110, 103, 58, 99, 104, 117, 110, 107, 101, 100, 13, 10, 13, 10, 122, 122, 13, 10]).responses
      = [true] := by decide

end Ioflo.Http
