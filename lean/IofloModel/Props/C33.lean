import IofloModel.Lemmas.Sse
/-!
# C33 — server-sent events parse the same for any split and line ending

Property theorems only.  Model: `Model/Sse.lean` (`parseLine` with the eols CRLF, LF, CR as
repaired by `fixes/D19-parseline-earliest-eol.patch`, and `EventSource.parseEvents/parse`).

* `feed max s b`    = `raw.extend(b); parse()` on parser state `s` (`max` = `MAX_LINE_SIZE`);
* `render ls`       = the bytes of the lines `ls`, each with its own line end (CR, LF or CRLF);
* `evLines ev ls`   = the per-line step of `parseEvents` folded over the lines `ls`;
* `Field`, `blockData`, … = the SSE field rules, stated without reference to the parser.

Every statement is for all states / byte strings / line lists; nothing is sampled.
-/
namespace Ioflo.Sse

/-! ## the line search -/

/-- The structural search `scan` used by the model and the proofs is the code's search, statement by
statement (`scanFind`: `raw.find` of each eol, the smallest index wins, CRLF before CR at the same
index, `skip` when the CR was the last byte) — for every buffer. -/
theorem C33_scan_is_find (raw : Bytes) : scanFind raw = scan raw := scanFind_eq_scan raw

example : scanFind [97, 13, 10, 98, 10] = some ([97], [98, 10], false) ∧
    scanFind [97, 10, 98, 13, 10] = some ([97], [98, 13, 10], false) ∧
    scanFind [97, 13] = some ([97], [], true) := by decide

/-! ## any split -/

/-- **Two receives = one receive**, from every parser state: the events, ids, retry and status
are the same, and while the parser is alive the complete states (buffer included) are equal.
(After an exception killed the generator only the unread buffer may differ by the LF of a CR LF
pair that was cut in two.) -/
theorem C33_split_independent (max : Nat) (s : St) (a b : Bytes) :
    (feed max (feed max s a) b).ev = (feed max s (a ++ b)).ev ∧
    ((feed max (feed max s a) b).ev.running = true →
      feed max (feed max s a) b = feed max s (a ++ b)) :=
  feed_feed_sim max s a b

/-- **An idle pass changes nothing**: a `parse()` with no new bytes after any receive leaves the
events, ids, retry and status as they are (and the whole state, while the parser is alive) — also
when the last receive ended in a CR that may be half of a CR LF. -/
theorem C33_idle_pass (max : Nat) (s : St) (a : Bytes) :
    (feed max (feed max s a) []).ev = (feed max s a).ev ∧
    ((feed max (feed max s a) []).ev.running = true → feed max (feed max s a) [] = feed max s a) := by
  have h := C33_split_independent max s a []
  simpa using h

/-- non-vacuity: a CR LF pair cut in two, one event, parser alive, buffers equal -/
example :
    let a : Bytes := [100, 97, 116, 97, 58, 32, 97, 13]        -- "data: a\r"
    let b : Bytes := [10, 13, 10]                               -- "\n\r\n"
    (feed 65536 (feed 65536 init a) b).ev.events = [⟨none, [], [97]⟩] ∧
    (feed 65536 (feed 65536 init a) b).ev.running = true ∧
    feed 65536 (feed 65536 init a) b = feed 65536 init (a ++ b) := by decide

/-- **Any number of receives**: feeding the pieces one by one = feeding their concatenation. -/
theorem C33_pieces_independent (max : Nat) (s : St) (a : Bytes) (ps : List Bytes) :
    (feedAll max (feed max s a) ps).ev = (feed max s (a ++ ps.flatten)).ev ∧
    ((feedAll max (feed max s a) ps).ev.running = true →
      feedAll max (feed max s a) ps = feed max s (a ++ ps.flatten)) :=
  feedAll_feed_sim max s a ps

/-- the same from a fresh `EventSource` -/
theorem C33_pieces_independent_init (max : Nat) (ps : List Bytes) :
    (feedAll max init ps).ev = (feed max init ps.flatten).ev ∧
    ((feedAll max init ps).ev.running = true → feedAll max init ps = feed max init ps.flatten) := by
  have h := feedAll_feed_sim max init [] ps
  rw [feed_init_nil] at h
  exact h

example : feedAll 65536 init [[100, 97, 116, 97, 58, 120], [13], [10, 10]]
    = feed 65536 init [100, 97, 116, 97, 58, 120, 13, 10, 10] ∧
    (feedAll 65536 init [[100, 97, 116, 97, 58, 120], [13], [10, 10]]).ev.events = [⟨none, [], [120]⟩] := by
  decide

/-! ## the unrepaired parser (D19) -/

/-- On the model of `parseLine` as it was before the repair the property is false:
`data:x` CR | LF — the cut inside the CR LF pair yields an empty line and dispatches the event
that the whole stream does not dispatch (yet). -/
theorem C33_unrepaired_split_counterexample :
    ¬ ∀ (a b : Bytes), (feedOld 65536 (feedOld 65536 init a) b).ev = (feedOld 65536 init (a ++ b)).ev := by
  intro h
  exact absurd (h [100, 97, 116, 97, 58, 120, 13] [10]) (by decide)

/-- … and the line ends matter: `data: a` LF `data: b` CRLF CRLF is read as ONE line
`data: a\ndata: b` because a CRLF anywhere is searched before the LF. -/
theorem C33_unrepaired_eol_counterexample :
    (feedOld 65536 init [100, 97, 116, 97, 58, 32, 97, 10, 100, 97, 116, 97, 58, 32, 98, 13, 10, 13, 10]).ev.events
      = [⟨none, [], [97, 10, 100, 97, 116, 97, 58, 32, 98]⟩] ∧
    (feed 65536 init [100, 97, 116, 97, 58, 32, 97, 10, 100, 97, 116, 97, 58, 32, 98, 13, 10, 13, 10]).ev.events
      = [⟨none, [], [97, 10, 98]⟩] := by decide

/-! ## any line end -/

/-- **The line ends do not matter**: for lines without CR/LF, none longer than `MAX_LINE_SIZE`,
and every choice of CR / LF / CRLF per line that can be read back (`unamb`), one receive of the
rendered stream hands exactly these lines, in order, to the per-line step; a parser that is still
alive has consumed everything. -/
theorem C33_eol_independent (max : Nat) (ls : List (Bytes × Eol)) (ev : Ev)
    (hl : ∀ x ∈ ls, clean x.1 ∧ x.1.length ≤ max) (hu : unamb false ls) :
    (feed max { ev := ev } (render ls)).ev = evLines ev (ls.map (·.1)) ∧
    ((feed max { ev := ev } (render ls)).ev.running = true →
      (feed max { ev := ev } (render ls)).raw = []) := by
  rw [feed_eq_run]
  have := run_render max ls false ev hl hu
  simpa [St.app] using this

/-- non-vacuity: `data:x` CR, empty line CRLF — mixed line ends, one event -/
example : unamb false [([100, 97, 116, 97, 58, 120], Eol.cr), ([], Eol.crlf)] ∧
    (evLines {} [[100, 97, 116, 97, 58, 120], []]).events = [⟨none, [], [120]⟩] := by
  refine ⟨by simp [unamb], by decide⟩

/-- **Any rendering, any split**: whatever line ends are chosen and however the bytes are cut
into receives, a fresh parser ends with the per-line step folded over the lines — hence the same
events, last event id and retry for all renderings and all splits of the same lines. -/
theorem C33_any_rendering_any_split (max : Nat) (ls : List (Bytes × Eol)) (ps : List Bytes)
    (hl : ∀ x ∈ ls, clean x.1 ∧ x.1.length ≤ max) (hu : unamb false ls)
    (hps : ps.flatten = render ls) :
    (feedAll max init ps).ev = evLines {} (ls.map (·.1)) := by
  rw [(C33_pieces_independent_init max ps).1, hps]
  exact (C33_eol_independent max ls {} hl hu).1

/-- two renderings and splits of the same lines give the same events, last id and retry -/
theorem C33_same_events (max : Nat) (ls ls' : List (Bytes × Eol)) (ps ps' : List Bytes)
    (hl : ∀ x ∈ ls, clean x.1 ∧ x.1.length ≤ max) (hu : unamb false ls) (hps : ps.flatten = render ls)
    (hl' : ∀ x ∈ ls', clean x.1 ∧ x.1.length ≤ max) (hu' : unamb false ls') (hps' : ps'.flatten = render ls')
    (hsame : ls.map (·.1) = ls'.map (·.1)) :
    (feedAll max init ps).ev = (feedAll max init ps').ev := by
  rw [C33_any_rendering_any_split max ls ps hl hu hps,
    C33_any_rendering_any_split max ls' ps' hl' hu' hps', hsame]

/-! ## the content of the events -/

/-- **One block of field lines followed by an empty line** dispatches exactly one event — the
last id seen so far, the last `event` name of the block, the data lines joined by LF — unless
the joined data is empty; the retry and last-id registers follow the fields; the per-event
registers are cleared. -/
theorem C33_block_dispatch (ev : Ev) (fs : List Field)
    (hr : ev.running = true) (hc : ev.closed = false) (hp : ev.parts = []) (hn : ev.ename = [])
    (hwf : ∀ f ∈ fs, f.wf) :
    evLines ev (fs.map Field.line ++ [[]]) =
      { ev with
        events := ev.events ++
          (if joinLF (blockData fs) = [] then []
           else [⟨blockId ev.eid fs, blockName [] fs, joinLF (blockData fs)⟩]),
        eid := blockId ev.eid fs, leid := blockId ev.leid fs, retry := blockRetry ev.retry fs } := by
  have h1 := evLines_fields hr hc fs hwf
  unfold evLines at h1 ⊢
  rw [List.foldl_append, h1, foldl_apply]
  have hr' : ev.status = .running := by simpa [Ev.running] using hr
  by_cases hd : joinLF (blockData fs) = [] <;>
    simp [evStep, Ev.running, hr', lineStep, dispatch, hc, hp, hn, hd]

/-- non-vacuity: `id:7`, `data: a`, `: note`, `data` (bare), `event:e`, `retry: 1_0` → one event
`(7, e, "a\n")`, retry 10 -/
example :
    let fs : List Field := [.id false [55], .data true [97], .comment [32, 110], .dataBare,
      .event false [101], .retry true [49, 95, 48] 10]
    (∀ f ∈ fs, f.wf) ∧
    (evLines {} (fs.map Field.line ++ [[]])).events = [⟨some [55], [101], [97, 10]⟩] ∧
    (evLines {} (fs.map Field.line ++ [[]])).retry = some 10 := by
  refine ⟨?_, by decide, by decide⟩
  intro f hf
  simp only [List.mem_cons, List.not_mem_nil, or_false] at hf
  rcases hf with rfl | rfl | rfl | rfl | rfl | rfl <;> simp [Field.wf, spOk] <;> decide

/-- events of a sequence of blocks by the field rules alone; `eid` = last id before the block -/
def eventsOf (eid : Option Bytes) : List (List Field) → List Event
  | [] => []
  | fs :: r =>
    (if joinLF (blockData fs) = [] then []
     else [⟨blockId eid fs, blockName [] fs, joinLF (blockData fs)⟩]) ++ eventsOf (blockId eid fs) r

def blockLines (fs : List Field) : List Bytes := fs.map Field.line ++ [[]]

/-- a sequence of blocks: the events are those the field rules prescribe, in order -/
theorem C33_blocks_events (ev : Ev) (blocks : List (List Field))
    (hr : ev.running = true) (hc : ev.closed = false) (hp : ev.parts = []) (hn : ev.ename = [])
    (hwf : ∀ fs ∈ blocks, ∀ f ∈ fs, f.wf) :
    evLines ev (blocks.flatMap blockLines) =
      { ev with
        events := ev.events ++ eventsOf ev.eid blocks,
        eid := blockId ev.eid blocks.flatten, leid := blockId ev.leid blocks.flatten,
        retry := blockRetry ev.retry blocks.flatten } := by
  induction blocks generalizing ev with
  | nil => simp [evLines, eventsOf, blockId, blockRetry]
  | cons fs r ih =>
    have hb := C33_block_dispatch ev fs hr hc hp hn (hwf fs (by simp))
    simp only [List.flatMap_cons, blockLines] at hb ⊢
    unfold evLines at hb ih ⊢
    rw [List.foldl_append, hb]
    rw [ih _ (by simpa [Ev.running] using hr) (by simpa using hc) (by simpa using hp) (by simpa using hn)
      (fun g hg => hwf g (by simp [hg]))]
    simp [eventsOf, blockId_append, blockRetry_append, List.append_assoc]

/-- **Content, any rendering, any split**: the events of a stream written as blocks of field
lines are the ones the field rules prescribe, whatever line ends are used and however the bytes
arrive. -/
theorem C33_content_any_rendering_any_split (max : Nat) (blocks : List (List Field))
    (eols : List Eol) (ps : List Bytes)
    (hwf : ∀ fs ∈ blocks, ∀ f ∈ fs, f.wf)
    (hlen : (blocks.flatMap blockLines).length ≤ eols.length)
    (hl : ∀ l ∈ blocks.flatMap blockLines, clean l ∧ l.length ≤ max)
    (hu : unamb false ((blocks.flatMap blockLines).zip eols))
    (hps : ps.flatten = render ((blocks.flatMap blockLines).zip eols)) :
    (feedAll max init ps).ev.events = eventsOf none blocks ∧
    (feedAll max init ps).ev.leid = blockId none blocks.flatten ∧
    (feedAll max init ps).ev.retry = blockRetry none blocks.flatten := by
  have hl' : ∀ x ∈ (blocks.flatMap blockLines).zip eols, clean x.1 ∧ x.1.length ≤ max :=
    fun x hx => hl x.1 (List.of_mem_zip hx).1
  rw [C33_any_rendering_any_split max _ ps hl' hu hps, List.map_fst_zip hlen,
    C33_blocks_events {} blocks rfl rfl rfl rfl hwf]
  simp

/-- non-vacuity: two blocks `data: a`,`id:1`,`` / `data:b`,``; line ends CR, CRLF, LF, LF, CR; cut
inside the CR LF pair and inside a line -/
example :
    let ps : List Bytes := [[100, 97, 116, 97, 58, 32, 97, 13, 105, 100, 58, 49, 13], [10, 10, 100, 97],
      [116, 97, 58, 98, 10, 13]]
    (feedAll 65536 init ps).ev.events = [⟨some [49], [], [97]⟩, ⟨some [49], [], [98]⟩] ∧
    (feedAll 65536 init ps).ev.leid = some [49] := by
  intro ps
  have h := C33_content_any_rendering_any_split 65536
    [[.data true [97], .id false [49]], [.data false [98]]] [.cr, .crlf, .lf, .lf, .cr] ps
    (by intro fs hfs f hf
        simp only [List.mem_cons, List.not_mem_nil, or_false] at hfs
        rcases hfs with rfl | rfl <;> simp only [List.mem_cons, List.not_mem_nil, or_false] at hf
        · rcases hf with rfl | rfl <;> simp [Field.wf, spOk] <;> decide
        · subst hf; simp [Field.wf, spOk]; decide)
    (by decide) (by decide) (by simp [blockLines, unamb, Field.line, withSp, fData, fId])
    (by decide)
  exact ⟨h.1.trans (by decide), h.2.1.trans (by decide)⟩

end Ioflo.Sse
