import IofloModel.Lemmas.Redirect
/-!
# C34 — HTTP redirects are followed safely to the final response

Model: `Model/Redirect.lean` (message-level transcription of `Patron.serviceResponse`,
`Patron.redirect`, `Patron.transmit`, `Requester.build`; `urllib.parse` and DNS are the
parameter `S : Std`, so every theorem below holds for *every* behaviour of those functions
unless a law is stated as a hypothesis).
-/
namespace Ioflo.Redirect

/-! ## never downgrading https to http -/

/-- an effect that touches the network does so over TLS -/
def Effect.secure : Effect → Prop
  | .open c => c.tls = true
  | .send c _ => c.tls = true
  | _ => True

/-- the client is an https client on a TLS connection -/
def Secure (p : Patron) : Prop := p.req.scheme = sHttps ∧ p.conn.tls = true

instance (p : Patron) : Decidable (Secure p) := by unfold Secure; infer_instance

theorem transmitRedirect_secure {S : Std} {p : Patron} (path : Str) (qargs : List (Str × Str)) (fragment : Str)
    (h : Secure p) :
    Secure (transmitRedirect S p path qargs fragment).p
      ∧ ∀ e ∈ (transmitRedirect S p path qargs fragment).es, e.secure := by
  rcases transmitRedirect_cases S p path qargs fragment with ⟨e, he⟩ | ⟨r', s, hb, he⟩
  · rw [he]; exact ⟨h, by simp⟩
  · rw [he]
    have hs := (build_ok hb).1
    refine ⟨⟨by simpa [hs] using h.1, h.2⟩, ?_⟩
    intro e he'
    simp only [List.mem_singleton] at he'
    subst he'
    exact h.2

theorem transmitRequest_secure {S : Std} {p : Patron} (q : Request) (h : Secure p) :
    Secure (transmitRequest S p q).p ∧ ∀ e ∈ (transmitRequest S p q).es, e.secure := by
  rcases transmitRequest_cases S p q with ⟨e, he⟩ | ⟨r', s, hb, he⟩
  · rw [he]; exact ⟨h, by simp⟩
  · rw [he]
    have hs := (build_ok hb).1
    refine ⟨⟨by simpa [hs] using h.1, h.2⟩, ?_⟩
    intro e he'
    simp only [List.mem_singleton] at he'
    subst he'
    exact h.2

theorem serviceRequests_secure {S : Std} {p : Patron} (h : Secure p) :
    Secure (serviceRequests S p).p ∧ ∀ e ∈ (serviceRequests S p).es, e.secure := by
  unfold serviceRequests
  split
  · exact ⟨h, by simp⟩
  · split
    · exact ⟨h, by simp⟩
    · exact transmitRequest_secure _ (by exact h)

theorem follow_secure {S : Std} {p : Patron} {t : Target} (ip : Str) (h : Secure p)
    (ht : t.secured = decide (t.scheme = sHttps)) :
    Secure (follow S p t ip).p ∧ ∀ e ∈ (follow S p t ip).es, e.secure := by
  unfold follow
  simp only []
  split
  · split
    · exact ⟨h, by simp⟩
    · rename_i hnd
      have hsch : t.scheme = sHttps := by
        by_cases hc : t.scheme = sHttps
        · exact hc
        · exact absurd ⟨h.1, hc⟩ hnd
      have htls : t.secured = true := by rw [ht]; simp [hsch]
      have hsec : Secure { p with conn := { ip := ip, port := t.port, tls := t.secured },
                                  req := { p.req with hostname := t.hostname, port := t.port, scheme := t.scheme, body := [] },
                                  unsent := [] } :=
        ⟨hsch, htls⟩
      have := transmitRedirect_secure (S := S) t.path (updateQargsQuery S [] t.query).1 t.fragment hsec
      refine ⟨this.1, ?_⟩
      intro e he
      simp only [List.cons_append, List.nil_append, List.mem_cons] at he
      rcases he with rfl | rfl | he
      · trivial
      · exact htls
      · exact this.2 e he
  · exact transmitRedirect_secure _ _ _ h

theorem redirect_secure {S : Std} {p : Patron} (h : Secure p) :
    Secure (redirect S p).p ∧ ∀ e ∈ (redirect S p).es, e.secure := by
  unfold redirect
  split
  · exact ⟨h, by simp⟩
  · split
    · exact ⟨h, by simp⟩
    · rename_i t ht
      split
      · exact ⟨h, by simp⟩
      · exact follow_secure _ h (parseLocation_scheme ht).1

theorem tryRedirect_secure {S : Std} {p : Patron} (r : Resp) (h : Secure p) :
    Secure (tryRedirect S p r).p ∧ ∀ e ∈ (tryRedirect S p r).es, e.secure := by
  have hp' : Secure ({ p with redirects := p.redirects ++ [recOf p r] } : Patron) := h
  have hr := redirect_secure (S := S) hp'
  unfold tryRedirect
  simp only []
  split
  · refine ⟨hr.1, ?_⟩
    intro e he
    simp only [List.mem_append, List.mem_singleton] at he
    rcases he with he | he
    · exact hr.2 e he
    · subst he; trivial
  · exact hr

theorem serviceResponse_secure {S : Std} {p : Patron} (r : Resp) (h : Secure p) :
    Secure (serviceResponse S p r).p ∧ ∀ e ∈ (serviceResponse S p r).es, e.secure := by
  unfold serviceResponse
  split
  · exact ⟨h, by simp⟩
  · split
    · refine ⟨h, ?_⟩
      intro e he
      simp only [List.mem_singleton] at he
      subst he; trivial
    · split
      · exact ⟨h, by simp⟩
      · split
        · exact tryRedirect_secure r h
        · refine ⟨h, ?_⟩
          intro e he
          simp only [List.mem_singleton] at he
          subst he; trivial

theorem step_secure {S : Std} {p : Patron} (o : Op) (h : Secure p) :
    Secure (step S p o).p ∧ ∀ e ∈ (step S p o).es, e.secure := by
  cases o with
  | request q =>
    have hq : Secure ({ p with queue := p.queue ++ [q] } : Patron) := h
    have := serviceRequests_secure (S := S) hq
    simp only [step]
    split
    · exact this
    · exact this
  | response r =>
    simp only [step]
    have ha := serviceResponse_secure (S := S) r h
    split
    · exact ha
    · have hb := serviceRequests_secure (S := S) ha.1
      refine ⟨hb.1, ?_⟩
      intro e he
      simp only [drain_es, List.mem_append] at he
      rcases he with he | he
      · exact ha.2 e he
      · exact hb.2 e he

/-- **C34, never downgrading** (all histories, all standard-library behaviours): a client that is on
https over a TLS connection stays so, and every connection it opens and every request it sends —
including those before an exception ends the history — is over TLS. -/
theorem C34_never_downgrades (S : Std) (ops : List Op) (p : Patron) (h : Secure p) :
    Secure (run S p ops).p ∧ ∀ e ∈ (run S p ops).es, e.secure := by
  induction ops generalizing p with
  | nil => exact ⟨h, by simp [run]⟩
  | cons o os ih =>
    simp only [run]
    have ha := step_secure (S := S) o h
    split
    · exact ha
    · have hb := ih _ ha.1
      refine ⟨hb.1, ?_⟩
      intro e he
      simp only [List.mem_append] at he
      rcases he with he | he
      · exact ha.2 e he
      · exact hb.2 e he

/-- **C34, refusal** (decision logic): an https client that receives a redirect whose target scheme is
not https raises `ValueError`; nothing is closed, opened or sent. -/
theorem C34_no_downgrade (S : Std) (p : Patron) (t : Target) (ip : Str)
    (hs : p.req.scheme = sHttps) (ht : t.scheme ≠ sHttps) :
    follow S p t ip = ⟨p, [], some .valueError⟩ := by
  unfold follow
  have hm : mustReconnect p ip t = true := by
    unfold mustReconnect
    simp [hs, ht]
  simp [hm, hs, ht]

/-! ## reconnecting iff host address, port or scheme differ -/

/-- the redirect target differs from the current connection in resolved address, port or scheme -/
def Differs (p : Patron) (ip : Str) (t : Target) : Prop :=
  (ip, t.port) ≠ (p.conn.ip, p.conn.port) ∨ t.scheme ≠ p.req.scheme

instance (p : Patron) (ip : Str) (t : Target) : Decidable (Differs p ip t) := by unfold Differs; infer_instance

theorem mustReconnect_iff (p : Patron) (ip : Str) (t : Target) : mustReconnect p ip t = true ↔ Differs p ip t := by
  unfold mustReconnect Differs
  simp only [Bool.or_eq_true, decide_eq_true_eq]

/-- shape of a followed redirect that replaces the connection -/
theorem follow_reconnect {S : Std} {p : Patron} {t : Target} {ip : Str}
    (hok : (follow S p t ip).err = none) (hd : Differs p ip t) :
    ∃ s, (follow S p t ip).es
        = [Effect.close, Effect.open ⟨ip, t.port, t.secured⟩, Effect.send ⟨ip, t.port, t.secured⟩ s]
      ∧ (follow S p t ip).p.conn = ⟨ip, t.port, t.secured⟩
      ∧ (follow S p t ip).p.req.hostname = t.hostname ∧ (follow S p t ip).p.req.port = t.port
      ∧ (follow S p t ip).p.req.scheme = t.scheme
      ∧ s.host = hostHeader t.hostname t.port ∧ s.method = p.req.method
      ∧ SameBooks p (follow S p t ip).p ∧ (follow S p t ip).p.waited = true
      ∧ s.target = buildTarget S t.path (updateQargsQuery S [] t.query).1 ∧ s.body = []
      ∧ (follow S p t ip).p.unsent = [(⟨ip, t.port, t.secured⟩, s)] := by
  have hm := (mustReconnect_iff p ip t).2 hd
  unfold follow at hok ⊢
  simp only [hm, if_true] at hok ⊢
  split
  · rename_i hdown
    simp [hdown] at hok
  · rename_i hdown
    simp only [hdown, if_false] at hok
    rcases transmitRedirect_cases S
        { p with conn := ⟨ip, t.port, t.secured⟩,
                 req := { p.req with hostname := t.hostname, port := t.port, scheme := t.scheme, body := [] },
                 unsent := [] }
        t.path (updateQargsQuery S [] t.query).1 t.fragment with ⟨e, he⟩ | ⟨r', s, hb, he⟩
    · rw [he] at hok; simp at hok
    · rw [he]
      have hbo := build_ok hb
      exact ⟨s, rfl, rfl, hbo.2.1, hbo.2.2.1, hbo.1, hbo.2.2.2.2.2.2.1, hbo.2.2.2.2.2.1,
        ⟨rfl, rfl, rfl, rfl, rfl⟩, rfl, hbo.2.2.2.2.2.2.2.2.2.2, by simpa using hbo.2.2.2.2.2.2.2.1, rfl⟩

/-- shape of a followed redirect that keeps the connection -/
theorem follow_same {S : Std} {p : Patron} {t : Target} {ip : Str}
    (hok : (follow S p t ip).err = none) (hd : ¬ Differs p ip t) :
    ∃ s, (follow S p t ip).es = [Effect.send p.conn s]
      ∧ (follow S p t ip).p.conn = p.conn
      ∧ (follow S p t ip).p.req.hostname = p.req.hostname ∧ (follow S p t ip).p.req.port = p.req.port
      ∧ (follow S p t ip).p.req.scheme = p.req.scheme
      ∧ s.host = hostHeader p.req.hostname p.req.port ∧ s.method = p.req.method
      ∧ SameBooks p (follow S p t ip).p ∧ (follow S p t ip).p.waited = true
      ∧ s.target = buildTarget S t.path (updateQargsQuery S [] t.query).1 ∧ s.body = []
      ∧ (follow S p t ip).p.unsent = p.unsent ++ [(p.conn, s)] := by
  have hm : mustReconnect p ip t = false := by
    cases h : mustReconnect p ip t
    · rfl
    · exact absurd ((mustReconnect_iff p ip t).1 h) hd
  unfold follow at hok ⊢
  simp only [hm] at hok ⊢
  rcases transmitRedirect_cases S p t.path (updateQargsQuery S [] t.query).1 t.fragment with ⟨e, he⟩ | ⟨r', s, hb, he⟩
  · simp [he] at hok
  · simp only [Bool.false_eq_true, if_false]
    rw [he]
    have hbo := build_ok hb
    exact ⟨s, rfl, rfl, hbo.2.1, hbo.2.2.1, hbo.1, hbo.2.2.2.2.2.2.1, hbo.2.2.2.2.2.1,
      ⟨rfl, rfl, rfl, rfl, rfl⟩, rfl, hbo.2.2.2.2.2.2.2.2.2.2, by simpa using hbo.2.2.2.2.2.2.2.1, rfl⟩

/-- **C34, reconnect iff the authority differs**: a redirect that is followed closes the connection and
opens a new one (to the resolved address and port of the Location, TLS iff its scheme is https) exactly
when resolved address, port or scheme differ from the current ones; otherwise the request goes out on
the connection that is already open.  Either way exactly one request is sent. -/
theorem C34_reconnect_iff_authority_differs (S : Std) (p : Patron) (t : Target) (ip : Str)
    (hok : (follow S p t ip).err = none) :
    (Effect.close ∈ (follow S p t ip).es ↔ Differs p ip t)
    ∧ (Differs p ip t → ∃ s, (follow S p t ip).es
          = [Effect.close, Effect.open ⟨ip, t.port, t.secured⟩, Effect.send ⟨ip, t.port, t.secured⟩ s]
        ∧ (follow S p t ip).p.conn = ⟨ip, t.port, t.secured⟩)
    ∧ (¬ Differs p ip t → ∃ s, (follow S p t ip).es = [Effect.send p.conn s]
        ∧ (follow S p t ip).p.conn = p.conn) := by
  refine ⟨?_, ?_, ?_⟩
  · constructor
    · intro hc
      by_cases hd : Differs p ip t
      · exact hd
      · obtain ⟨s, hes, _⟩ := follow_same hok hd
        rw [hes] at hc
        simp at hc
    · intro hd
      obtain ⟨s, hes, _⟩ := follow_reconnect hok hd
      rw [hes]; simp
  · intro hd
    obtain ⟨s, hes, hc, _⟩ := follow_reconnect hok hd
    exact ⟨s, hes, hc⟩
  · intro hd
    obtain ⟨s, hes, hc, _⟩ := follow_same hok hd
    exact ⟨s, hes, hc⟩

/-! ## one final response, carrying the chain of redirect responses in order -/

def Effect.isDeliver : Effect → Bool
  | .deliver => true
  | _ => false

/-- what a followed redirect leaves behind, whichever branch was taken -/
theorem follow_ok {S : Std} {p : Patron} {t : Target} {ip : Str} (hok : (follow S p t ip).err = none) :
    SameBooks p (follow S p t ip).p ∧ (follow S p t ip).p.waited = true
      ∧ ((follow S p t ip).es.filter Effect.isSend).length = 1
      ∧ ((follow S p t ip).es.filter Effect.isDeliver).length = 0
      ∧ Effect.stall ∉ (follow S p t ip).es := by
  by_cases hd : Differs p ip t
  · obtain ⟨s, hes, _, _, _, _, _, _, hb, hw, _⟩ := follow_reconnect hok hd
    exact ⟨hb, hw, by rw [hes]; rfl, by rw [hes]; rfl, by rw [hes]; simp⟩
  · obtain ⟨s, hes, _, _, _, _, _, _, hb, hw, _⟩ := follow_same hok hd
    exact ⟨hb, hw, by rw [hes]; rfl, by rw [hes]; rfl, by rw [hes]; simp⟩

theorem redirect_ok {S : Std} {p : Patron} (hne : p.redirects ≠ []) (hok : (redirect S p).err = none) :
    SameBooks p (redirect S p).p ∧ (redirect S p).p.waited = true
      ∧ ((redirect S p).es.filter Effect.isSend).length = 1
      ∧ ((redirect S p).es.filter Effect.isDeliver).length = 0
      ∧ Effect.stall ∉ (redirect S p).es := by
  unfold redirect at hok ⊢
  split
  · rename_i hl
    exact absurd (List.getLast?_eq_none_iff.1 hl) hne
  · rename_i last hl
    simp only [hl] at hok
    split
    · rename_i e he
      simp [he] at hok
    · rename_i t ht
      simp only [ht] at hok
      split
      · rename_i hr
        simp [hr] at hok
      · rename_i ip hr
        simp only [hr] at hok
        exact follow_ok hok

/-- the redirect branch either follows the redirect or (Location unusable, fix D32a) delivers it, errored -/
theorem tryRedirect_cases (S : Std) (p : Patron) (r : Resp) :
    tryRedirect S p r = redirect S { p with redirects := p.redirects ++ [recOf p r] }
        ∧ (tryRedirect S p r).err ≠ some .invalidURL
    ∨ (redirect S { p with redirects := p.redirects ++ [recOf p r] }).err = some .invalidURL
        ∧ tryRedirect S p r
          = ⟨{ p with responses := p.responses ++ [(erroredRec p r, p.redirects)], redirects := [], waited := false },
             [Effect.deliver], none⟩ := by
  by_cases h : (redirect S { p with redirects := p.redirects ++ [recOf p r] }).err = some .invalidURL
  · right
    refine ⟨h, ?_⟩
    unfold tryRedirect
    simp only [h, if_true]
    rw [redirect_invalid h]
    rfl
  · left
    have : tryRedirect S p r = redirect S { p with redirects := p.redirects ++ [recOf p r] } := by
      unfold tryRedirect
      simp only [h, if_false]
    exact ⟨this, by rw [this]; exact h⟩

/-- one service round in which a redirect response arrives: it is followed, or — its Location being
unusable — it is delivered and the client stops waiting -/
theorem step_redirect {S : Std} {p : Patron} {r : Resp}
    (hw : p.waited = true) (hra : p.redirectable = true) (hq : p.queue = []) (hst : redirectStatus r.status = true)
    (hok : (step S p (.response r)).err = none) (hns : Effect.stall ∉ (step S p (.response r)).es) :
    let q := (step S p (.response r)).p
    (q.redirects = p.redirects ++ [recOf p r] ∧ q.responses = p.responses ∧ q.waited = true
      ∧ q.redirectable = true ∧ q.queue = p.queue
      ∧ ((step S p (.response r)).es.filter Effect.isSend).length = 1
      ∧ ((step S p (.response r)).es.filter Effect.isDeliver).length = 0)
    ∨ q.waited = false := by
  have hsr : serviceResponse S p r = tryRedirect S p r
      ∨ (serviceResponse S p r).err ≠ none ∨ Effect.stall ∈ (serviceResponse S p r).es := by
    unfold serviceResponse
    simp only [hw, Bool.not_true, Bool.false_eq_true, if_false, hra, hst, Bool.and_self, if_true]
    split
    · right; right; simp
    · split
      · right; left; simp
      · left; rfl
  simp only [step] at hok hns ⊢
  rcases hsr with hsr | hsr | hsr
  · rcases tryRedirect_cases S p r with ⟨htr, _⟩ | ⟨_, htr⟩
    · left
      have hsr' := hsr.trans htr
      have hne : ({ p with redirects := p.redirects ++ [recOf p r] } : Patron).redirects ≠ [] := by simp
      cases herr : (serviceResponse S p r).err with
      | some e => simp [herr] at hok
      | none =>
        simp only [herr] at hok hns ⊢
        have hro := redirect_ok (S := S) hne (by rw [← hsr']; exact herr)
        rw [← hsr'] at hro
        obtain ⟨hb, hwt, hs1, hd0, hnst⟩ := hro
        have hsq : serviceRequests S (serviceResponse S p r).p = ⟨(serviceResponse S p r).p, [], none⟩ := by
          unfold serviceRequests; simp [hwt]
        simp only [hsq, List.append_nil, drain_redirects, drain_responses, drain_waited, drain_redirectable, drain_queue,
          drain_es]
        refine ⟨?_, ?_, hwt, ?_, ?_, hs1, hd0⟩
        · rw [hb.redirects]
        · rw [hb.responses]
        · rw [hb.redirectable]; exact hra
        · rw [hb.queue]
    · right
      rw [hsr, htr]
      simp only []
      unfold serviceRequests
      simp [hq]
  · cases herr : (serviceResponse S p r).err with
    | some e => simp [herr] at hok
    | none => exact absurd herr hsr
  · cases herr : (serviceResponse S p r).err with
    | some e => simp [herr] at hok
    | none =>
      simp only [herr] at hns
      exact absurd (List.mem_append_left _ hsr) hns

/-- a response that arrives while the client does not wait for one ends the modelled history -/
theorem run_response_not_waited {S : Std} {p : Patron} {r : Resp} {os : List Op} (hw : p.waited = false) :
    (run S p (Op.response r :: os)).err ≠ none := by
  simp only [run, step]
  have : serviceResponse S p r = ⟨p, [], some .outOfModel⟩ := by
    unfold serviceResponse; simp [hw]
  rw [this]
  simp

/-- the service round in which the final (non-redirect) response arrives -/
theorem step_final {S : Std} {p : Patron} {f : Resp}
    (hw : p.waited = true) (hq : p.queue = []) (hst : redirectStatus f.status = false)
    (hok : (step S p (.response f)).err = none) (hns : Effect.stall ∉ (step S p (.response f)).es) :
    step S p (.response f)
      = ⟨{ p with responses := p.responses ++ [(recOf p f, p.redirects)], redirects := [], waited := false, unsent := [] },
         [Effect.deliver], none⟩ := by
  have hsr : serviceResponse S p f
        = ⟨{ p with responses := p.responses ++ [(recOf p f, p.redirects)], redirects := [], waited := false },
           [Effect.deliver], none⟩
      ∨ (serviceResponse S p f).err ≠ none ∨ Effect.stall ∈ (serviceResponse S p f).es := by
    unfold serviceResponse
    simp only [hw, Bool.not_true, Bool.false_eq_true, if_false, hst, Bool.and_false]
    split
    · right; right; simp
    · split
      · right; left; simp
      · left; rfl
  simp only [step] at hok hns ⊢
  rcases hsr with hsr | hsr | hsr
  · rw [hsr]
    simp only []
    unfold serviceRequests drain
    simp [hq]
  · cases herr : (serviceResponse S p f).err with
    | some e => simp [herr] at hok
    | none => exact absurd herr hsr
  · cases herr : (serviceResponse S p f).err with
    | some e => simp [herr] at hok
    | none =>
      simp only [herr] at hns
      exact absurd (List.mem_append_left _ hsr) hns

theorem run_cons_ok {S : Std} {p : Patron} {o : Op} {os : List Op} (hok : (run S p (o :: os)).err = none) :
    (step S p o).err = none
      ∧ run S p (o :: os) = ⟨(run S (step S p o).p os).p, (step S p o).es ++ (run S (step S p o).p os).es,
                              (run S (step S p o).p os).err⟩ := by
  simp only [run] at hok ⊢
  cases h : (step S p o).err with
  | some e => simp [h] at hok
  | none => simp

/-- **C34, chain in order** (all chains, all standard-library behaviours): if a waiting, redirectable
client receives redirect responses `rs` and then a non-redirect response `f`, and no exception or stalled
body ends the history, then `.responses` grows by exactly one entry — the response `f` — whose `redirects`
are the earlier pending ones followed by the responses `rs` **in arrival order**, each with its
status, Location and body, none flagged `errored`; `.redirects` is empty
again, the client no longer waits, exactly one request was sent per redirect and exactly one response was
delivered. -/
theorem C34_chain_in_order (S : Std) (rs : List Resp) (f : Resp) (p : Patron)
    (hw : p.waited = true) (hra : p.redirectable = true) (hq : p.queue = [])
    (hrs : ∀ r ∈ rs, redirectStatus r.status = true) (hf : redirectStatus f.status = false)
    (hok : (run S p (rs.map Op.response ++ [Op.response f])).err = none)
    (hns : Effect.stall ∉ (run S p (rs.map Op.response ++ [Op.response f])).es) :
    let o := run S p (rs.map Op.response ++ [Op.response f])
    ∃ chain snap,
      o.p.responses = p.responses ++ [(⟨f.status, f.location, snap, f.body, false⟩, p.redirects ++ chain)]
      ∧ chain.map (fun c => (c.status, c.location, c.body, c.errored))
          = rs.map (fun r => (r.status, r.location, r.body, false))
      ∧ o.p.redirects = [] ∧ o.p.waited = false
      ∧ (o.es.filter Effect.isSend).length = rs.length
      ∧ (o.es.filter Effect.isDeliver).length = 1 := by
  induction rs generalizing p with
  | nil =>
    simp only [List.map_nil, List.nil_append] at hok hns ⊢
    obtain ⟨hs, hrun⟩ := run_cons_ok hok
    rw [hrun] at hns ⊢
    simp only [run, List.append_nil] at hns ⊢
    have := step_final hw hq hf hs hns
    rw [this]
    exact ⟨[], snapOf p.req, by simp [recOf], rfl, rfl, rfl, rfl, rfl⟩
  | cons r rest ih =>
    simp only [List.map_cons, List.cons_append] at hok hns ⊢
    obtain ⟨hs, hrun⟩ := run_cons_ok hok
    rw [hrun] at hok hns ⊢
    simp only [] at hok
    have hns1 : Effect.stall ∉ (step S p (.response r)).es := fun h => hns (List.mem_append_left _ h)
    have hns2 : Effect.stall ∉ (run S (step S p (.response r)).p (rest.map Op.response ++ [Op.response f])).es :=
      fun h => hns (List.mem_append_right _ h)
    rcases step_redirect hw hra hq (hrs r (by simp)) hs hns1 with ⟨h1, h2, h3, h4, h5, h6, h7⟩ | hnw
    case inr =>
      -- the redirect was delivered (unusable Location): the next response finds nobody waiting
      cases rest with
      | nil => exact absurd hok (run_response_not_waited hnw)
      | cons r2 rest2 => exact absurd hok (run_response_not_waited hnw)
    obtain ⟨chain, snap, hresp, hmap, hred, hwait, hsend, hdel⟩ :=
      ih (step S p (.response r)).p h3 h4 (by rw [h5]; exact hq) (fun x hx => hrs x (by simp [hx])) hok hns2
    refine ⟨recOf p r :: chain, snap, ?_, ?_, hred, hwait, ?_, ?_⟩
    · simp only []
      rw [hresp, h2, h1]
      simp
    · simp [hmap, recOf]
    · simp only [List.filter_append, List.length_append, h6, hsend, List.length_cons]
      omega
    · simp only [List.filter_append, List.length_append, h7, hdel]

/-! ## a redirect that cannot be followed is delivered, not raised (fix D32a) -/

/-- the ways a Location can be unusable: missing, empty, rejected by `urljoin`, rejected by `urlsplit` / `.port`
(bad port, unbalanced bracket), without a host (`http://:81/x`), or naming a host that does not resolve -/
def BadLocation (S : Std) (req : Requester) (loc : Option Str) : Prop :=
  loc = none ∨ loc = some []
  ∨ (∃ l, loc = some l ∧ l ≠ [] ∧ S.urljoin (baseUrl req) (locText S l) = none)
  ∨ (∃ l u, loc = some l ∧ l ≠ [] ∧ S.urljoin (baseUrl req) (locText S l) = some u
        ∧ ((S.urlsplit u).port = none ∨ hostless (S.urlsplit u) = true))
  ∨ (∃ t, parseLocation S req loc = .ok t ∧ S.resolve t.hostname = none)

theorem redirect_bad {S : Std} {p : Patron} {last : Rec} (hl : p.redirects.getLast? = some last)
    (hbad : BadLocation S p.req last.location) : (redirect S p).err = some .invalidURL := by
  unfold redirect
  simp only [hl]
  rcases hbad with h | h | ⟨l, h, hne, hj⟩ | ⟨l, u, h, hne, hj, hp⟩ | ⟨t, hp, hr⟩
  · simp [h, parseLocation]
  · simp [h, parseLocation]
  · have hle : l.isEmpty = false := by cases l with | nil => exact absurd rfl hne | cons _ _ => rfl
    simp [h, parseLocation, hle, hj]
  · have hle : l.isEmpty = false := by cases l with | nil => exact absurd rfl hne | cons _ _ => rfl
    rcases hp with hp | hp
    · simp [h, parseLocation, hle, hj, targetOfSplit, hp]
    · cases hpp : (S.urlsplit u).port with
      | none => simp [h, parseLocation, hle, hj, targetOfSplit, hpp]
      | some pp => simp [h, parseLocation, hle, hj, targetOfSplit, hpp, hp]
  · simp [hp, hr]

/-- **C34, an unusable Location** (all standard-library behaviours): a waiting, redirectable client that
receives a complete redirect response whose Location is missing, empty, malformed or unresolvable raises
nothing, closes nothing, opens nothing and sends nothing: the only effect is the delivery of that very
response, flagged `errored`, carrying the redirects collected so far; connection and requester are untouched,
`.redirects` is empty again and the client no longer waits. -/
theorem C34_bad_location_delivered (S : Std) (p : Patron) (r : Resp)
    (hw : p.waited = true) (hra : p.redirectable = true) (hst : redirectStatus r.status = true)
    (hbody : r.blen = neededBody p.respMethod r) (hbad : BadLocation S p.req r.location) :
    serviceResponse S p r
      = ⟨{ p with responses := p.responses ++ [(erroredRec p r, p.redirects)], redirects := [], waited := false },
         [Effect.deliver], none⟩ := by
  have hl : ({ p with redirects := p.redirects ++ [recOf p r] } : Patron).redirects.getLast? = some (recOf p r) := by
    simp
  have hinv := redirect_bad (S := S) hl hbad
  unfold serviceResponse
  simp only [hw, Bool.not_true, Bool.false_eq_true, if_false, hra, hst, Bool.and_self, if_true, hbody,
    Nat.lt_irrefl]
  rcases tryRedirect_cases S p r with ⟨htr, hne⟩ | ⟨_, htr⟩
  · rw [htr] at hne
    exact absurd hinv hne
  · rw [htr, hra]

theorem serviceRequests_err (S : Std) (p : Patron) :
    (serviceRequests S p).err ≠ some .invalidURL ∧ (serviceRequests S p).err ≠ some .gaiError := by
  unfold serviceRequests
  split
  · exact ⟨by simp, by simp⟩
  · split
    · exact ⟨by simp, by simp⟩
    · rename_i q rest _
      unfold transmitRequest
      simp only []
      split
      · rename_i e hb
        exact ⟨by simpa using build_err hb, by simpa using build_err_gai hb⟩
      · exact ⟨by simp, by simp⟩

theorem redirect_err_gai (S : Std) (p : Patron) : (redirect S p).err ≠ some .gaiError := by
  unfold redirect
  split
  · simp
  · split
    · rename_i e he
      intro hc
      simp only [Option.some.injEq] at hc
      subst hc
      exact parseLocation_err_gai he rfl
    · split
      · simp
      · exact follow_err_gai S _ _ _

/-- **C34, Location errors are contained** (all histories, all standard-library behaviours): whatever
responses arrive, neither `httping.InvalidURL` nor a DNS failure (`socket.gaierror`) ever ends the history —
they never leave `serviceAll`.  (What still can: the deliberate `ValueError` refusing https → http, and the
`ValueError` / `AttributeError` of `Requester.build` and of a Location without a host.) -/
theorem C34_location_errors_contained (S : Std) (ops : List Op) (p : Patron) :
    (run S p ops).err ≠ some .invalidURL ∧ (run S p ops).err ≠ some .gaiError := by
  have hstep : ∀ (p : Patron) (o : Op),
      (step S p o).err ≠ some .invalidURL ∧ (step S p o).err ≠ some .gaiError := by
    intro p o
    cases o with
    | request q =>
      have := serviceRequests_err S { p with queue := p.queue ++ [q] }
      simp only [step]
      split
      · exact this
      · exact this
    | response r =>
      have hsr : (serviceResponse S p r).err ≠ some .invalidURL ∧ (serviceResponse S p r).err ≠ some .gaiError := by
        unfold serviceResponse
        split
        · exact ⟨by simp, by simp⟩
        · split
          · exact ⟨by simp, by simp⟩
          · split
            · exact ⟨by simp, by simp⟩
            · split
              · rcases tryRedirect_cases S p r with ⟨htr, hne⟩ | ⟨_, htr⟩
                · exact ⟨hne, by rw [htr]; exact redirect_err_gai S _⟩
                · rw [htr]; exact ⟨by simp, by simp⟩
              · exact ⟨by simp, by simp⟩
      simp only [step]
      split
      · exact hsr
      · exact serviceRequests_err S _
  induction ops generalizing p with
  | nil => exact ⟨by simp [run], by simp [run]⟩
  | cons o os ih =>
    simp only [run]
    split
    · exact hstep p o
    · exact ih _

/-! ## the request is reissued to the resolved location -/

/-- a redirect response that is followed is handled by `follow` on the parsed target -/
theorem serviceResponse_follow {S : Std} {p : Patron} {r : Resp} {t : Target} {ip : Str}
    (hw : p.waited = true) (hra : p.redirectable = true) (hst : redirectStatus r.status = true)
    (hbody : r.blen = neededBody p.respMethod r)
    (hp : parseLocation S p.req r.location = .ok t) (hr : S.resolve t.hostname = some ip) :
    serviceResponse S p r = follow S { p with redirects := p.redirects ++ [recOf p r] } t ip := by
  unfold serviceResponse
  simp only [hw, Bool.not_true, Bool.false_eq_true, if_false, hra, hst, Bool.and_self, if_true, hbody,
    Nat.lt_irrefl]
  have hred : redirect S { p with redirects := p.redirects ++ [recOf p r] }
      = follow S { p with redirects := p.redirects ++ [recOf p r] } t ip := by
    unfold redirect
    have hl : (p.redirects ++ [recOf p r]).getLast? = some (recOf p r) := by simp
    simp only [hl]
    have hloc : (recOf p r).location = r.location := rfl
    simp only [hloc, hp, hr]
  unfold tryRedirect
  simp only [hred, follow_err, if_false]
  simp only [hw, hra]

/-- **C34, every followed redirect asks for the parsed target** (all standard-library behaviours): the one
request sent for a redirect keeps the method, has an empty body, names the new authority in `Host` when the
connection is replaced (and keeps the old `Host` when it is not), and its request target is what
`Requester.build` makes of the target's path and query. -/
theorem C34_followed_request (S : Std) (p : Patron) (t : Target) (ip : Str)
    (hok : (follow S p t ip).err = none) :
    ∃ c s, (follow S p t ip).es.filter Effect.isSend = [Effect.send c s]
      ∧ c = (follow S p t ip).p.conn
      ∧ s.method = p.req.method ∧ s.body = []
      ∧ s.target = buildTarget S t.path (updateQargsQuery S [] t.query).1
      ∧ s.host = (if Differs p ip t then hostHeader t.hostname t.port else hostHeader p.req.hostname p.req.port) := by
  by_cases hd : Differs p ip t
  · obtain ⟨s, hes, hc, _, _, _, hh, hm, _, _, htg, hb, _⟩ := follow_reconnect hok hd
    refine ⟨_, s, by rw [hes]; rfl, hc.symm, hm, hb, htg, by simp [hd, hh]⟩
  · obtain ⟨s, hes, hc, _, _, _, hh, hm, _, _, htg, hb, _⟩ := follow_same hok hd
    refine ⟨_, s, by rw [hes]; rfl, hc.symm, hm, hb, htg, by simp [hd, hh]⟩

/-- **C34, exact target — partial**: *given* these laws of `urllib.parse` for the target at hand (hypotheses:
`urlsplit` leaves the already split path alone, re-rendering the parsed query reproduces it, `geturl()`
drops only the empty `#`), the request target is `quote(path)` + `?` + query.
What is missing for the full statement: that CPython's `unquote`/`urljoin`/`urlsplit` turn the Location
text into this path and query — false on the region `lossyLocation` (known finding D34e), see
`C34_target_counterexample`; outside it this is exercised by the correspondence runs only. -/
theorem C34_target_resolved_partial (S : Std) (p : Patron) (t : Target) (ip : Str)
    (hok : (follow S p t ip).err = none)
    (hsplit_path : (S.urlsplit t.path).path = t.path) (hsplit_query : (S.urlsplit t.path).query = [])
    (hquery : renderQuery S (updateQargsQuery S [] t.query).1 = t.query)
    (hgeturl : (S.urlsplit (S.quote t.path ++ ['?'] ++ t.query ++ ['#'])).geturl
        = S.quote t.path ++ (if t.query = [] then [] else '?' :: t.query)) :
    ∃ c s, (follow S p t ip).es.filter Effect.isSend = [Effect.send c s]
      ∧ s.target = S.quote t.path ++ (if t.query = [] then [] else '?' :: t.query) := by
  obtain ⟨c, s, hes, _, _, _, htg, _⟩ := C34_followed_request S p t ip hok
  refine ⟨c, s, hes, ?_⟩
  rw [htg]
  unfold buildTarget
  rw [hsplit_path, hsplit_query, updateQargsQuery_nil]
  simp only [hquery, hgeturl]

/-- **C34, same authority keeps the connection**: a Location that resolves (relative or absolute) to the
address, port and scheme in use is requested on the connection that is already open. -/
theorem C34_same_authority_same_connection (S : Std) (p : Patron) (t : Target) (ip : Str)
    (hok : (follow S p t ip).err = none)
    (hip : ip = p.conn.ip) (hport : t.port = p.conn.port) (hscheme : t.scheme = p.req.scheme) :
    ∃ s, (follow S p t ip).es = [Effect.send p.conn s] ∧ (follow S p t ip).p.conn = p.conn := by
  have hd : ¬ Differs p ip t := by
    unfold Differs
    simp [hip, hport, hscheme]
  obtain ⟨s, hes, hc, _⟩ := follow_same hok hd
  exact ⟨s, hes, hc⟩

theorem rfindAux_not_mem (c : Char) (s : Str) (i : Nat) (acc : Option Nat) (h : c ∉ s) : rfindAux c s i acc = acc := by
  induction s generalizing i acc with
  | nil => rfl
  | cons x xs ih =>
    have hx : x ≠ c := fun e => h (by simp [e])
    simp only [rfindAux, hx, if_false]
    exact ih _ _ (fun e => h (by simp [e]))

theorem normalizeHostPort_plain (h : Str) (port : Option Int) (d : Int) (hc : ':' ∉ h)
    (hb : ∀ rest, h ≠ '[' :: rest) :
    normalizeHostPort (some h) port d = .ok (h, match port with | none => d | some p => p) := by
  unfold normalizeHostPort
  have h1 : rfind ':' h = none := by unfold rfind; exact rfindAux_not_mem _ _ _ _ hc
  have h2 : stripBrackets h = h := by
    unfold stripBrackets
    split
    · rename_i rest; exact absurd rfl (hb rest)
    · rfl
  simp [h1, idxGt, h2]
  cases port <;> rfl

/-- **C34, a relative Location is resolved against the request's own authority** — partial: *given* that
`urljoin`/`urlsplit` (hypotheses) resolve the Location text to the scheme, host and port of the request that was
redirected — which is what they do for a relative reference, the base url being built from exactly those — the
redirect target is that scheme, host and port, and (with a connection to that address) the request is reissued on the
connection that is already open. -/
theorem C34_relative_location_resolved_partial (S : Std) (p : Patron) (loc u : Str) (ip : Str) (n : Nat)
    (hs : p.req.scheme = sHttp ∨ p.req.scheme = sHttps) (hloc : loc ≠ [])
    (hjoin : S.urljoin (baseUrl p.req) (locText S loc) = some u)
    (hsplit_host : (S.urlsplit u).hostname = some p.req.hostname)
    (hsplit_port : (S.urlsplit u).port = some (some n)) (hn : (n : Int) = p.req.port)
    (hsplit_scheme : (S.urlsplit u).scheme = p.req.scheme)
    (hplain : ':' ∉ p.req.hostname ∧ ∀ rest, p.req.hostname ≠ '[' :: rest) (hhost : p.req.hostname ≠ [])
    (hres : S.resolve p.req.hostname = some ip) (hconn : p.conn.ip = ip ∧ p.conn.port = p.req.port) :
    ∃ t, parseLocation S p.req (some loc) = .ok t ∧ t.hostname = p.req.hostname ∧ t.port = p.req.port
      ∧ t.scheme = p.req.scheme ∧ ¬ Differs p ip t := by
  have hsch : schemeOf p.req.scheme = p.req.scheme := by
    rcases hs with h | h <;> rw [h] <;> decide
  have hle : loc.isEmpty = false := by cases loc with | nil => exact absurd rfl hloc | cons _ _ => rfl
  have hh : hostless (S.urlsplit u) = false := by
    unfold hostless
    rw [hsplit_host]
    cases h : p.req.hostname with
    | nil => exact absurd h hhost
    | cons _ _ => rfl
  unfold parseLocation targetOfSplit
  simp only [hle, Bool.false_eq_true, if_false, hjoin, hsplit_port, hh, hsplit_host, hsplit_scheme, hsch]
  rw [normalizeHostPort_plain _ _ _ hplain.1 hplain.2]
  refine ⟨_, rfl, rfl, ?_, rfl, ?_⟩
  · simpa using hn
  · unfold Differs
    simp [hconn.1, hconn.2, hn]


/-- the full statement wanted for the request target, for a given standard library `S`: an absolute-path
Location `path?query` is reissued to that path (compared after `unquote`) -/
def C34_target_full (S : Std) : Prop :=
  ∀ (p : Patron) (path query : Str) (t : Target) (ip : Str),
    path.head? = some '/' → '?' ∉ path → '#' ∉ path → '#' ∉ query →
    parseLocation S p.req (some (path ++ '?' :: query)) = .ok t → S.resolve t.hostname = some ip →
    ∀ c s, Effect.send c s ∈ (follow S p t ip).es → S.unquote (partitionAt '?' s.target).1 = S.unquote path

/-- CPython's answers (recorded from `urllib.parse`, Python 3.12) on the strings that occur when the
Location `/q%3Fz?k=v` is followed from `http://a.test:80/p`; elsewhere harmless defaults -/
def cpy : Std where
  urlsplit a :=
    if a = "http://a.test:80/q?z?k=v".toList then
      ⟨"http".toList, "a.test:80".toList, "/q".toList, "z?k=v".toList, [], some "a.test".toList, some (some 80), a⟩
    else if a = "/q?z?k=v#".toList then
      ⟨[], [], "/q".toList, "z?k=v".toList, [], none, some none, "/q?z?k=v".toList⟩
    else if a = "https://b.test:443/x?k=v".toList then
      ⟨"https".toList, "b.test:443".toList, "/x".toList, "k=v".toList, [], some "b.test".toList, some (some 443), a⟩
    else if a = "/x?k=v#".toList then
      ⟨[], [], "/x".toList, "k=v".toList, [], none, some none, "/x?k=v".toList⟩
    else ⟨[], [], a, [], [], none, some none, a⟩
  urljoin _ u :=
    if u = "/q?z?k=v".toList then some "http://a.test:80/q?z?k=v".toList
    else if u = "http://[::1/x".toList then none else some u
  unquote a := if a = "/q%3Fz".toList then "/q?z".toList else a
  quote a := a
  quotePlus a := a
  unquotePlus a := a
  resolve a :=
    if a = "a.test".toList then some "10.0.0.1".toList
    else if a = "b.test".toList then some "10.0.0.2".toList else none

/-- the client of the witness: `GET http://a.test:80/p` outstanding -/
def pWit : Patron :=
  { conn := ⟨"10.0.0.1".toList, 80, false⟩,
    req := ⟨"a.test".toList, 80, sHttp, sGET, "/p".toList, [], [], []⟩,
    respMethod := sGET, redirects := [], responses := [], waited := true, redirectable := true, queue := [] }

def tWit : Target :=
  ⟨"a.test".toList, 80, sHttp, false, "/q".toList, "z?k=v".toList, []⟩

/-- **known finding D34e, witness**: with CPython's `urllib.parse` the Location `/q%3Fz?k=v` — which lies in
the region `lossyLocation` — is reissued as `/q?z?k=v`, i.e. to path `/q` instead of `/q?z`. -/
theorem C34_target_counterexample : ¬ C34_target_full cpy ∧ lossyLocation "/q%3Fz?k=v".toList = true := by
  refine ⟨?_, by decide⟩
  intro h
  have hp : parseLocation cpy pWit.req (some ("/q%3Fz".toList ++ '?' :: "k=v".toList)) = .ok tWit := by decide
  have hs : Effect.send pWit.conn ⟨sGET, "/q?z?k=v".toList, "a.test:80".toList, []⟩ ∈ (follow cpy pWit tWit "10.0.0.1".toList).es := by
    decide
  have := h pWit "/q%3Fz".toList "k=v".toList tWit "10.0.0.1".toList (by decide) (by decide) (by decide) (by decide)
    hp (by decide) _ _ hs
  revert this
  decide

/-! ## non-vacuity -/

/-- an https client on TLS that follows `https://b.test:443/x?k=v` on a new TLS connection -/
def pSec : Patron :=
  { pWit with conn := ⟨"10.0.0.1".toList, 443, true⟩,
              req := ⟨"a.test".toList, 443, sHttps, sGET, "/p".toList, [], [], []⟩ }

def tSec : Target := ⟨"b.test".toList, 443, sHttps, true, "/x".toList, "k=v".toList, []⟩

def rHop : Resp := ⟨302, some "https://b.test:443/x?k=v".toList, 2, 2, [7, 8]⟩
def rEnd : Resp := ⟨200, none, 2, 2, [111, 107]⟩

/-- `C34_never_downgrades` / `C34_chain_in_order` are about histories like this one: the https client is
`Secure`, the hop is followed over a new TLS connection, the final response carries the hop -/
example : Secure pSec
    ∧ (run cpy pSec [.response rHop, .response rEnd]).err = none
    ∧ (run cpy pSec [.response rHop, .response rEnd]).es
        = [.close, .open ⟨"10.0.0.2".toList, 443, true⟩,
           .send ⟨"10.0.0.2".toList, 443, true⟩ ⟨sGET, "/x?k=v".toList, "b.test:443".toList, []⟩, .deliver]
    ∧ ((run cpy pSec [.response rHop, .response rEnd]).p.responses.map
          (fun x => (x.1.status, x.2.map (fun c => (c.status, c.location)))))
        = [(200, [(302, some "https://b.test:443/x?k=v".toList)])]
    ∧ ((run cpy pSec [.response rHop, .response rEnd]).p.responses.map (fun x => (x.1.body, x.2.map (fun c => c.body))))
        = [([111, 107], [[7, 8]])] := by
  decide

def rNoLoc : Resp := ⟨302, none, 2, 2, [7, 8]⟩
def rBracket : Resp := ⟨301, some "http://[::1/x".toList, 0, 0, []⟩
def rNowhere : Resp := ⟨307, some "https://b.test:443/x?k=v".toList, 0, 0, []⟩

/-- `C34_bad_location_delivered`: each kind of unusable Location occurs (missing; rejected by `urljoin`; host that does
not resolve — `tSec.hostname` with a resolver that knows nobody), and the history `hop, bad` ends with the bad 3xx delivered,
flagged, carrying the hop -/
example : BadLocation cpy pWit.req rNoLoc.location
    ∧ BadLocation cpy pWit.req rBracket.location
    ∧ BadLocation { cpy with resolve := fun _ => none } pSec.req rNowhere.location := by
  refine ⟨Or.inl rfl, Or.inr (Or.inr (Or.inl ⟨_, rfl, by decide, by decide⟩)), ?_⟩
  exact Or.inr (Or.inr (Or.inr (Or.inr ⟨tSec, by decide, rfl⟩)))

example : (run cpy pSec [.response rHop, .response rNoLoc]).err = none
    ∧ ((run cpy pSec [.response rHop, .response rNoLoc]).es.filter Effect.isDeliver).length = 1
    ∧ ((run cpy pSec [.response rHop, .response rNoLoc]).es.filter Effect.isSend).length = 1
    ∧ ((run cpy pSec [.response rHop, .response rNoLoc]).p.responses.map
          (fun x => (x.1.status, x.1.errored, x.1.body, x.2.map (fun c => (c.status, c.errored)))))
        = [(302, true, [7, 8], [(302, false)])]
    ∧ (run cpy pSec [.response rHop, .response rNoLoc]).p.waited = false
    ∧ (run cpy pSec [.response rHop, .response rNoLoc]).p.redirects = [] := by
  decide

/-- `C34_location_errors_contained` is not empty talk: other exceptions do end histories (the refused downgrade) -/
example : (run cpy pSec [.response ⟨302, some "http://a.test:80/q?z?k=v".toList, 0, 0, []⟩]).err = some .valueError
    ∧ (run cpy pSec [.response rBracket]).err = none
    ∧ (step cpy pSec (.response rBracket)).es = [Effect.deliver] := by
  decide

/-! ## what is still queued for sending belongs to the connection in use -/

/-- every entry of the connector's transmit queue was built for the connection the connector points at -/
def Owned (p : Patron) : Prop := ∀ cs ∈ p.unsent, cs.1 = p.conn

theorem transmitRedirect_owned {S : Std} {p : Patron} (path : Str) (qargs : List (Str × Str)) (fragment : Str)
    (h : Owned p) : Owned (transmitRedirect S p path qargs fragment).p := by
  rcases transmitRedirect_cases S p path qargs fragment with ⟨e, he⟩ | ⟨r', s, _, he⟩
  · rw [he]; exact h
  · rw [he]
    intro cs hcs
    simp only [List.mem_append, List.mem_singleton] at hcs
    rcases hcs with hcs | rfl
    · exact h cs hcs
    · rfl

theorem transmitRequest_owned {S : Std} {p : Patron} (q : Request) (h : Owned p) : Owned (transmitRequest S p q).p := by
  rcases transmitRequest_cases S p q with ⟨e, he⟩ | ⟨r', s, _, he⟩
  · rw [he]; exact h
  · rw [he]
    intro cs hcs
    simp only [List.mem_append, List.mem_singleton] at hcs
    rcases hcs with hcs | rfl
    · exact h cs hcs
    · rfl

theorem serviceRequests_owned {S : Std} {p : Patron} (h : Owned p) : Owned (serviceRequests S p).p := by
  unfold serviceRequests
  split
  · exact h
  · split
    · exact h
    · exact transmitRequest_owned _ (by exact h)

theorem follow_owned {S : Std} {p : Patron} {t : Target} (ip : Str) (h : Owned p) : Owned (follow S p t ip).p := by
  unfold follow
  simp only []
  split
  · split
    · exact h
    · exact transmitRedirect_owned _ _ _ (by intro cs hcs; cases hcs)
  · exact transmitRedirect_owned _ _ _ h

theorem redirect_owned {S : Std} {p : Patron} (h : Owned p) : Owned (redirect S p).p := by
  unfold redirect
  split
  · exact h
  · split
    · exact h
    · split
      · exact h
      · exact follow_owned _ h

theorem serviceResponse_owned {S : Std} {p : Patron} (r : Resp) (h : Owned p) : Owned (serviceResponse S p r).p := by
  have hp' : Owned ({ p with redirects := p.redirects ++ [recOf p r] } : Patron) := h
  unfold serviceResponse
  split
  · exact h
  · split
    · exact h
    · split
      · exact h
      · split
        · rcases tryRedirect_cases S p r with ⟨htr, _⟩ | ⟨_, htr⟩
          · rw [htr]; exact redirect_owned hp'
          · rw [htr]; exact h
        · exact h

theorem step_owned {S : Std} {p : Patron} (o : Op) (h : Owned p) : Owned (step S p o).p := by
  cases o with
  | request q =>
    have hq : Owned ({ p with queue := p.queue ++ [q] } : Patron) := h
    simp only [step]
    split
    · intro cs hcs; cases hcs
    · exact serviceRequests_owned hq
  | response r =>
    simp only [step]
    split
    · exact serviceResponse_owned r h
    · intro cs hcs; cases hcs

/-- **C34, nothing is sent to the wrong host** (all histories, all standard-library behaviours, every pattern of
partial sends): at every moment each request — or unsent remainder of a request — waiting in the connector's
transmit queue was built for the connection the connector points at.  In particular the remainder of a request
that was only partly sent when its redirect arrived is never carried over to the new host. -/
theorem C34_unsent_belongs_to_connection (S : Std) (ops : List Op) (p : Patron) (h : Owned p) :
    Owned (run S p ops).p := by
  induction ops generalizing p with
  | nil => exact h
  | cons o os ih =>
    simp only [run]
    split
    · exact step_owned o h
    · exact ih _ (step_owned o h)

/-- **C34, a new connection starts with the reissued request**: when a followed redirect replaces the connection,
the new connector's transmit queue holds exactly the reissued request — whatever part of the redirected request was
still unsent is dropped with the old connector — so the first bytes the new host receives are its request line;
when the connection is kept, the reissued request is queued behind what was still unsent (the rest of the
redirected request's body completes that message first). -/
theorem C34_new_connection_starts_clean (S : Std) (p : Patron) (t : Target) (ip : Str)
    (hok : (follow S p t ip).err = none) :
    (Differs p ip t → ∃ s, (follow S p t ip).es
          = [Effect.close, Effect.open ⟨ip, t.port, t.secured⟩, Effect.send ⟨ip, t.port, t.secured⟩ s]
        ∧ (follow S p t ip).p.unsent = [(⟨ip, t.port, t.secured⟩, s)])
    ∧ (¬ Differs p ip t → ∃ s, (follow S p t ip).es = [Effect.send p.conn s]
        ∧ (follow S p t ip).p.unsent = p.unsent ++ [(p.conn, s)]) := by
  constructor
  · intro hd
    obtain ⟨s, hes, _, _, _, _, _, _, _, _, _, _, hu⟩ := follow_reconnect hok hd
    exact ⟨s, hes, hu⟩
  · intro hd
    obtain ⟨s, hes, _, _, _, _, _, _, _, _, _, _, hu⟩ := follow_same hok hd
    exact ⟨s, hes, hu⟩

/-- non-vacuity: a POST the socket took only partly, then a redirect to another host: the remainder is gone, the new
connection's queue is the reissued request; and the invariant's hypothesis holds for a fresh Patron -/
example : Owned pWit
    ∧ ((step cpy { pWit with waited := false } (.request ⟨"POST".toList, "/p".toList, [], [1, 2, 3], false⟩)).p.unsent.map
          (fun cs => (cs.1, cs.2.method, cs.2.body))) = [(pWit.conn, "POST".toList, [1, 2, 3])]
    ∧ (let p1 := (step cpy { pSec with waited := false } (.request ⟨"POST".toList, "/p".toList, [], [1, 2, 3], false⟩)).p
       ((serviceResponse cpy p1 rHop).p.unsent.map (fun cs => (cs.1, cs.2.method, cs.2.target)))
         = [(⟨"10.0.0.2".toList, 443, true⟩, "POST".toList, "/x?k=v".toList)]) := by
  refine ⟨(by intro cs hcs; cases hcs), (by decide), (by decide)⟩

/-! ## construction -/

theorem schemeFor_ok {connector : Option Connector} {s0 sch : Str} {sec : Bool} {dp : Int}
    (h : schemeFor connector s0 = .ok (sch, sec, dp)) :
    ((sch = sHttps ∧ sec = true) ∨ (sch = sHttp ∧ sec = false))
      ∧ ∀ tls ch cp, connector = some (tls, ch, cp) → sec = tls := by
  unfold schemeFor at h
  split at h
  · split at h
    · cases h
    · simp only [Except.ok.injEq, Prod.mk.injEq] at h
      refine ⟨Or.inl ⟨h.1.symm, h.2.1.symm⟩, ?_⟩
      intro tls ch cp hc
      simp only [Option.some.injEq, Prod.mk.injEq] at hc
      rw [← hc.1]; exact h.2.1.symm
  · split at h
    · cases h
    · simp only [Except.ok.injEq, Prod.mk.injEq] at h
      refine ⟨Or.inr ⟨h.1.symm, h.2.1.symm⟩, ?_⟩
      intro tls ch cp hc
      simp only [Option.some.injEq, Prod.mk.injEq] at hc
      rw [← hc.1]; exact h.2.1.symm
  · split at h
    · simp only [Except.ok.injEq, Prod.mk.injEq] at h
      exact ⟨Or.inl ⟨h.1.symm, h.2.1.symm⟩, by intro _ _ _ hc; cases hc⟩
    · simp only [Except.ok.injEq, Prod.mk.injEq] at h
      exact ⟨Or.inr ⟨h.1.symm, h.2.1.symm⟩, by intro _ _ _ hc; cases hc⟩

/-- **C34, a constructed Patron is consistent** (all constructor arguments, all standard-library behaviours):
however the Patron is built — host/port, a full URL as path, scheme given or not, caller-supplied plain or TLS
connector — its requester's scheme is `https` exactly when its connection is TLS and `http` otherwise (never
empty, never anything else); a caller-supplied connector dictates TLS, host name and port; opening is the only
effect. -/
theorem C34_constructed_consistent (S : Std) (url hostname : Str) (port : Option Int) (scheme : Str)
    (connector : Option Connector) (rd : Bool) (p : Patron) (es : List Effect)
    (h : initPatron S url hostname port scheme connector rd = .ok (p, es)) :
    ((p.req.scheme = sHttps ∧ p.conn.tls = true) ∨ (p.req.scheme = sHttp ∧ p.conn.tls = false))
      ∧ es = [Effect.open p.conn] ∧ p.waited = false ∧ p.redirects = [] ∧ p.queue = []
      ∧ (∀ tls ch cp, connector = some (tls, ch, cp) →
          p.conn.tls = tls ∧ p.conn.port = cp ∧ p.req.hostname = ch ∧ p.req.port = cp) := by
  unfold initPatron at h
  simp only [] at h
  split at h
  · cases h
  · rename_i sch sec dp hsd
    obtain ⟨hpair, hconn⟩ := schemeFor_ok hsd
    split at h
    · cases h
    · split at h
      · cases h
      · split at h
        · cases h
        · split at h
          · simp only [Except.ok.injEq, newPatron, Prod.mk.injEq] at h
            obtain ⟨hp, he⟩ := h
            subst hp; subst he
            exact ⟨hpair, rfl, rfl, rfl, rfl, by intro _ _ _ hc; cases hc⟩
          · rename_i tls chost cport
            split at h
            · cases h
            · simp only [Except.ok.injEq, newPatron, Prod.mk.injEq] at h
              obtain ⟨hp, he⟩ := h
              subst hp; subst he
              have := hconn tls chost cport rfl
              subst this
              refine ⟨hpair, rfl, rfl, rfl, rfl, ?_⟩
              intro tls' ch cp hc
              simp only [Option.some.injEq, Prod.mk.injEq] at hc
              exact ⟨hc.1, hc.2.2, hc.2.1, hc.2.2⟩

/-- a Patron constructed over a caller-supplied TLS connector, or for an https URL, starts `Secure`: the
hypothesis of `C34_never_downgrades` -/
theorem C34_constructed_secure (S : Std) (url hostname : Str) (port : Option Int) (scheme : Str)
    (connector : Option Connector) (rd : Bool) (p : Patron) (es : List Effect)
    (h : initPatron S url hostname port scheme connector rd = .ok (p, es)) (htls : p.conn.tls = true) : Secure p := by
  rcases (C34_constructed_consistent S url hostname port scheme connector rd p es h).1 with hs | hs
  · exact hs
  · rw [hs.2] at htls; cases htls

/-- non-vacuity: a TLS connector and no scheme gives an https Patron on that connector (the host name argument is
ignored); a plain connector with scheme https is refused -/
example : (initPatron cpy "/".toList "a.test".toList none [] (some (true, "b.test".toList, 8443)) true).map
              (fun x => (x.1.req.scheme, x.1.req.hostname, x.1.req.port, x.1.conn, x.2))
            = .ok (sHttps, "b.test".toList, 8443, ⟨"10.0.0.2".toList, 8443, true⟩,
                   [Effect.open ⟨"10.0.0.2".toList, 8443, true⟩])
    ∧ initPatron cpy "/".toList "a.test".toList none sHttps (some (false, "b.test".toList, 80)) true = .error .valueError
    ∧ (initPatron cpy "/".toList "a.test".toList none [] none true).map (fun x => (x.1.req.scheme, x.1.conn))
        = .ok (sHttp, ⟨"10.0.0.1".toList, 80, false⟩) := by
  decide

/-- `C34_no_downgrade`: hypotheses satisfiable (https client, http target) -/
example : pSec.req.scheme = sHttps ∧ tWit.scheme ≠ sHttps
    ∧ follow cpy pSec tWit "10.0.0.1".toList = ⟨pSec, [], some .valueError⟩ := by decide

/-- `C34_reconnect_iff_authority_differs`: both sides occur -/
example : (follow cpy pSec tSec "10.0.0.2".toList).err = none ∧ Differs pSec "10.0.0.2".toList tSec
    ∧ (follow cpy pWit tWit "10.0.0.1".toList).err = none ∧ ¬ Differs pWit "10.0.0.1".toList tWit := by
  decide

/-- `C34_target_resolved_partial`: the law hypotheses hold for CPython's answers on `/x?k=v` -/
example : (cpy.urlsplit tSec.path).path = tSec.path ∧ (cpy.urlsplit tSec.path).query = []
    ∧ renderQuery cpy (updateQargsQuery cpy [] tSec.query).1 = tSec.query
    ∧ (cpy.urlsplit (cpy.quote tSec.path ++ ['?'] ++ tSec.query ++ ['#'])).geturl
        = cpy.quote tSec.path ++ (if tSec.query = [] then [] else '?' :: tSec.query) := by decide

/-- `C34_relative_location_resolved_partial`: hypotheses satisfiable — CPython's answers for the relative Location
`/q%3Fz?k=v` followed from `http://a.test:80/p` -/
example : cpy.urljoin (baseUrl pWit.req) (locText cpy "/q%3Fz?k=v".toList) = some "http://a.test:80/q?z?k=v".toList
    ∧ (cpy.urlsplit "http://a.test:80/q?z?k=v".toList).hostname = some pWit.req.hostname
    ∧ (cpy.urlsplit "http://a.test:80/q?z?k=v".toList).port = some (some 80)
    ∧ (cpy.urlsplit "http://a.test:80/q?z?k=v".toList).scheme = pWit.req.scheme
    ∧ cpy.resolve pWit.req.hostname = some pWit.conn.ip ∧ pWit.req.hostname ≠ [] := by decide

end Ioflo.Redirect
