import IofloModel.Lemmas.Gram
/-!
# C35 — datagram stacks send each destination's packets once, in queue order

Property theorems only.  Model: `Model/Gram.lean` (transcription of the transmit side of
`GramStack` / `UdpStack` in `ioflo/aio/proto/stacking.py`).

* `Variant.repaired` is `serviceTxPkts` after `fixes/D20-gramstack-break-reorders.patch`
  (the `break` on an already blocked destination removed); the full theorems are about it.
* `Variant.asIs` is the loop of the unpatched tree; `C35_counterexample_asis` shows that it
  violates the property (D20).
* `serviceTxPktsOnce` re-queues a failed packet at the tail in both variants; when another packet
  for the same destination waits behind it this reorders that destination (known finding D20b,
  region `onceReorders`): `C35_full` is therefore false (`C35_counterexample_once`) and the
  history theorem about order carries the hypothesis `onceReorders … = false`
  (`C35_per_destination_order_partial`); without `serviceTxPktsOnce` it is unconditional
  (`C35_per_destination_order`).

All theorems quantify over every queue, every history of calls and every script of transient
send failures (`transientOnlyOps`: each scripted `socket.error` is one of the errnos the code
treats as transient — that is the property's "regardless of which destinations transiently fail").
-/
namespace Ioflo.Gram

/-! ## one service pass -/

/-- **Per-destination order in one pass.**  For every destination the datagrams handed to the
socket in this pass, followed by that destination's packets still queued, are that destination's
packets of the old queue in the old order: nothing sent twice, skipped or overtaken. -/
theorem C35_pass_per_destination_order (s : State) (env : List Outcome)
    (henv : env.all Outcome.transientOnly = true) (d : Nat) :
    toDst d (sentPkts (serviceTxPkts .repaired s env).2)
      ++ toDst d (serviceTxPkts .repaired s env).1.txPkts = toDst d s.txPkts :=
  pass_order s env henv d

example : toDst 0 (sentPkts (serviceTxPkts .repaired ⟨true, [], [⟨1,0⟩, ⟨2,0⟩, ⟨3,1⟩, ⟨4,0⟩]⟩ [.err 111]).2) = []
    ∧ (serviceTxPkts .repaired ⟨true, [], [⟨1,0⟩, ⟨2,0⟩, ⟨3,1⟩, ⟨4,0⟩]⟩ [.err 111]).1.txPkts
        = [⟨1,0⟩, ⟨2,0⟩, ⟨4,0⟩] := by decide

/-- **A failing destination does not block the others.**  After a pass every packet still queued
is addressed to a destination whose send failed *in this pass*. -/
theorem C35_other_destinations_not_blocked (s : State) (env : List Outcome)
    (henv : env.all Outcome.transientOnly = true) (ho : s.opened = true) :
    ∀ p ∈ (serviceTxPkts .repaired s env).1.txPkts,
      p.dst ∈ failedDsts (serviceTxPkts .repaired s env).2 := by
  unfold serviceTxPkts
  obtain ⟨_, K, hK, _, hkept, _⟩ := txLoop_repaired_spec s.txPkts [] [] env henv
  simp only [ho, if_true, hK, List.nil_append]
  intro p hp
  rcases hkept p hp with h | h
  · cases h
  · exact h

/-- … equivalently: a destination with no failed send in this pass gets all its queued packets,
in queue order, in this pass, whatever the other destinations do. -/
theorem C35_unfailed_destination_fully_served (s : State) (env : List Outcome)
    (henv : env.all Outcome.transientOnly = true) (ho : s.opened = true) (d : Nat)
    (hd : d ∉ failedDsts (serviceTxPkts .repaired s env).2) :
    toDst d (sentPkts (serviceTxPkts .repaired s env).2) = toDst d s.txPkts ∧
    toDst d (serviceTxPkts .repaired s env).1.txPkts = [] := by
  have hnil : toDst d (serviceTxPkts .repaired s env).1.txPkts = [] := by
    apply toDst_eq_nil_of_forall
    intro p hp hpd
    exact hd (hpd ▸ C35_other_destinations_not_blocked s env henv ho p hp)
  have := C35_pass_per_destination_order s env henv d
  rw [hnil, List.append_nil] at this
  exact ⟨this, hnil⟩

example : (3 : Nat) ∉ failedDsts (serviceTxPkts .repaired ⟨true, [], [⟨1,0⟩, ⟨2,3⟩, ⟨3,0⟩, ⟨4,3⟩]⟩ [.err 110]).2
    ∧ toDst 3 (sentPkts (serviceTxPkts .repaired ⟨true, [], [⟨1,0⟩, ⟨2,3⟩, ⟨3,0⟩, ⟨4,3⟩]⟩ [.err 110]).2)
        = [⟨2,3⟩, ⟨4,3⟩] := by decide

/-- In one pass a destination is tried until its first failure and not again:
at most one failed send per destination, and nothing escapes the call. -/
theorem C35_one_failure_per_destination_per_pass (s : State) (env : List Outcome)
    (henv : env.all Outcome.transientOnly = true) :
    (failedDsts (serviceTxPkts .repaired s env).2).Nodup ∧
    ∀ e, Event.raised e ∉ (serviceTxPkts .repaired s env).2 := by
  unfold serviceTxPkts
  by_cases ho : s.opened = true
  · obtain ⟨hr, K, _, _, _, _, _, hnd⟩ := txLoop_repaired_spec s.txPkts [] [] env henv
    simp only [ho, if_true]
    refine ⟨hnd, ?_⟩
    -- a `raised` event exists only together with `raised = some _`
    have key : ∀ (q L : List Pkt) (B : List Nat) (env : List Outcome) (e : Nat),
        Event.raised e ∈ (txLoop .repaired q L B env).events →
        (txLoop .repaired q L B env).raised ≠ none := by
      intro q
      induction q with
      | nil => intro L B env e h; simp [txLoop] at h
      | cons p rest ih =>
        intro L B env e h
        unfold txLoop at h ⊢
        cases hone : oneTxPkt p L B env with
        | ret again L' B' env' ev =>
          simp only [hone] at h ⊢
          have hev : Event.raised e ∉ ev := by
            unfold oneTxPkt at hone
            split at hone
            · cases hone; simp
            · split at hone
              · cases hone; simp
              · split at hone <;> cases hone; simp
          simp only [Bool.and_eq_true, Bool.not_eq_eq_eq_not, Bool.not_true, beq_iff_eq,
            reduceCtorEq, and_false, if_false] at h ⊢
          rcases List.mem_append.mp h with h | h
          · exact absurd h hev
          · exact ih _ _ _ e h
        | exc e' env' ev => simp
    intro e he
    exact key _ _ _ _ e he hr
  · simp [ho, failedDsts]

example : failedDsts (serviceTxPkts .repaired ⟨true, [], [⟨1,0⟩, ⟨2,0⟩, ⟨3,1⟩, ⟨4,0⟩, ⟨5,1⟩]⟩ [.err 111, .err 62, .err 104]).2
    = [0, 1] := by decide

/-- **When nothing fails the queue drains**, in queue order. -/
theorem C35_drains (s : State) (env : List Outcome) (ho : s.opened = true)
    (hok : env.all (· == Outcome.ok) = true) :
    (serviceTxPkts .repaired s env).1.txPkts = [] := by
  have henv : env.all Outcome.transientOnly = true := by
    rw [List.all_eq_true] at hok ⊢
    intro o ho'
    have := hok o ho'
    simp only [beq_iff_eq] at this
    subst this; rfl
  have hnb := C35_other_destinations_not_blocked s env henv ho
  have hnf : failedDsts (serviceTxPkts .repaired s env).2 = [] := by
    unfold serviceTxPkts
    simp only [ho, if_true]
    exact txLoop_allok_no_failure .repaired s.txPkts [] [] env hok
  rw [hnf] at hnb
  cases h : (serviceTxPkts .repaired s env).1.txPkts with
  | nil => rfl
  | cons p r => rw [h] at hnb; exact absurd (hnb p (by simp)) (by simp)

example : (serviceTxPkts .repaired ⟨true, [], [⟨1,0⟩, ⟨2,1⟩]⟩ []).2 = [.sent ⟨1,0⟩, .sent ⟨2,1⟩] := by decide

/-! ## histories of calls -/

/-- **Each packet is sent at most once and none is lost** — every history (all eight calls,
`serviceTxPktsOnce` included), both variants: the datagrams the socket accepted, plus what is
still on `.txPkts` and `.txMsgs`, are a permutation of the packets submitted. -/
theorem C35_each_sent_once (v : Variant) (ops : List Op) (hT : transientOnlyOps ops = true) :
    (sentPkts (run v init ops).2 ++ (run v init ops).1.txPkts ++ (run v init ops).1.txMsgs).Perm
      (submitted ops) := by
  simpa [init] using run_perm v ops init hT

/-- … so with distinct packets no datagram ever goes out twice. -/
theorem C35_never_sent_twice (v : Variant) (ops : List Op) (hT : transientOnlyOps ops = true)
    (hN : (submitted ops).Nodup) : (sentPkts (run v init ops).2).Nodup := by
  have := (C35_each_sent_once v ops hT).nodup_iff.mpr hN
  rw [List.append_assoc] at this
  exact (List.nodup_append.mp this).1

/-- … and once the queues are empty every submitted packet has been sent exactly once. -/
theorem C35_all_sent_when_drained (v : Variant) (ops : List Op) (hT : transientOnlyOps ops = true)
    (h1 : (run v init ops).1.txPkts = []) (h2 : (run v init ops).1.txMsgs = []) :
    (sentPkts (run v init ops).2).Perm (submitted ops) := by
  have := C35_each_sent_once v ops hT
  simpa [h1, h2] using this

example : sentPkts (run .repaired init
    [.transmit ⟨1,0⟩, .message ⟨2,1⟩, .transmit ⟨3,0⟩, .serviceAllTx [.err 111], .serviceTxPktsOnce [],
     .serviceTxPkts []]).2 = [⟨2,1⟩, ⟨1,0⟩, ⟨3,0⟩] := by decide

/-- The statement of the property about order, for a given variant of the loop: for every history
and every destination, what the socket accepted for that destination followed by what is still
queued for it is what entered the queue for it, in that order. -/
def C35_full (v : Variant) : Prop :=
  ∀ ops : List Op, transientOnlyOps ops = true → ∀ d : Nat,
    toDst d (sentPkts (run v init ops).2) ++ toDst d (run v init ops).1.txPkts
      = toDst d (entered [] ops)

/-- **Per-destination order over every history** outside the region of known finding D20b
(`onceReorders`: a `serviceTxPktsOnce` whose send fails while a packet for the same destination
waits behind it). -/
theorem C35_per_destination_order_partial (ops : List Op) (hT : transientOnlyOps ops = true)
    (hR : onceReorders .repaired init ops = false) (d : Nat) :
    toDst d (sentPkts (run .repaired init ops).2) ++ toDst d (run .repaired init ops).1.txPkts
      = toDst d (entered [] ops) := by
  simpa [init, toDst] using run_order ops init hT hR d

/-- **Per-destination order, unconditional for histories of `transmit`, `message`,
`serviceTxMsgs`, `serviceTxPkts`, `serviceAllTx`, `close`, `reopen`** — every queue, every
interleaving of calls, every pattern of transient failures per pass. -/
theorem C35_per_destination_order (ops : List Op) (hT : transientOnlyOps ops = true)
    (hO : usesOnce ops = false) (d : Nat) :
    toDst d (sentPkts (run .repaired init ops).2) ++ toDst d (run .repaired init ops).1.txPkts
      = toDst d (entered [] ops) :=
  C35_per_destination_order_partial ops hT (onceReorders_of_not_usesOnce ops init hO) d

/-- non-vacuity: a history with failures in two passes, a close/reopen and messages -/
example :
    let ops : List Op := [.transmit ⟨1,0⟩, .transmit ⟨2,0⟩, .message ⟨3,1⟩, .transmit ⟨4,0⟩,
      .serviceAllTx [.err 111], .close, .serviceTxPkts [], .reopen, .transmit ⟨5,1⟩,
      .serviceTxPkts [.ok, .err 110], .serviceTxPkts []]
    transientOnlyOps ops = true ∧ usesOnce ops = false ∧
    sentPkts (run .repaired init ops).2 = [⟨3,1⟩, ⟨1,0⟩, ⟨5,1⟩, ⟨2,0⟩, ⟨4,0⟩] := by decide

/-- **D20 on the unpatched loop**: queue `A1 A2 B1 A3`, `A1` fails once.  The pass stops at `A2`,
the next pass sends `B1 A3 A1 A2`: destination A gets `A3` before `A1`. -/
theorem C35_counterexample_asis : ¬ C35_full .asIs := by
  intro h
  have := h [.transmit ⟨1,0⟩, .transmit ⟨2,0⟩, .transmit ⟨3,1⟩, .transmit ⟨4,0⟩,
    .serviceTxPkts [.err 111], .serviceTxPkts []] (by decide) 0
  revert this
  decide

/-- the same witness: destination B was held back by A in the first pass -/
theorem C35_counterexample_asis_blocked :
    ∃ p ∈ (serviceTxPkts .asIs ⟨true, [], [⟨1,0⟩, ⟨2,0⟩, ⟨3,1⟩, ⟨4,0⟩]⟩ [.err 111]).1.txPkts,
      p.dst ∉ failedDsts (serviceTxPkts .asIs ⟨true, [], [⟨1,0⟩, ⟨2,0⟩, ⟨3,1⟩, ⟨4,0⟩]⟩ [.err 111]).2 :=
  ⟨⟨3,1⟩, by decide, by decide⟩

/-- **D20b (known finding)**: `serviceTxPktsOnce` with a failing head re-queues it behind its
successor — `A1 A2`, `A1` fails once: the socket gets `A2` then `A1`. -/
theorem C35_counterexample_once : ¬ C35_full .repaired := by
  intro h
  have := h [.transmit ⟨1,0⟩, .transmit ⟨2,0⟩, .serviceTxPktsOnce [.err 111],
    .serviceTxPktsOnce [], .serviceTxPktsOnce []] (by decide) 0
  revert this
  decide

/-- the witness lies in the region of the finding -/
example : onceReorders .repaired init [.transmit ⟨1,0⟩, .transmit ⟨2,0⟩, .serviceTxPktsOnce [.err 111],
    .serviceTxPktsOnce [], .serviceTxPktsOnce []] = true := by decide

/-! ## receive side (not part of the property's statement; the other half of the datagram stack) -/

/-- **Receive side: every datagram handed over by the socket is in exactly one received packet, with
its source, in arrival order** — every history of calls, every script of socket answers (transient and
other errors, empty reads, close/reopen): the packets taken off `.rxPkts` so far followed by the packets
still on it are exactly the non-empty datagrams received. -/
theorem C35_rx_each_datagram_once (ops : List ROp) :
    (rrun RxState.init ops).1.popped ++ (rrun RxState.init ops).1.rxPkts = (rrun RxState.init ops).1.taken :=
  (rrun_inv ops RxState.init ⟨rfl, List.Sublist.refl _, by intro p hp; cases hp⟩).1

/-- … and the messages handed on are a subsequence of those packets (order kept, none twice), all from
sources that have a remote device. -/
theorem C35_rx_messages_in_order (ops : List ROp) :
    (rrun RxState.init ops).1.rxMsgs.Sublist (rrun RxState.init ops).1.popped ∧
    ∀ p ∈ (rrun RxState.init ops).1.rxMsgs, (rrun RxState.init ops).1.remotes.contains p.dst = true :=
  (rrun_inv ops RxState.init ⟨rfl, List.Sublist.refl _, by intro p hp; cases hp⟩).2

/-- transient receive errors end the pass quietly (fix D13 is in the tree): nothing escapes -/
theorem C35_rx_transient_errors_do_not_escape (env : List Recv) : ∀ (s : RxState),
    (∀ r ∈ env, ∀ e, r = Recv.err e → e ∈ transientErrnos) → (rxLoop env s).2 = none := by
  induction env with
  | nil => intro s _; rfl
  | cons r rest ih =>
    intro s h
    unfold rxLoop
    cases r with
    | dgram p => exact ih _ (fun r hr => h r (List.mem_cons_of_mem _ hr))
    | empty src => rfl
    | nothing => rfl
    | err e =>
      have := h (.err e) (by simp) e rfl
      simp [this]

/-- a pass takes everything that is there: `k` datagrams, then nothing more → `k` new packets in order -/
theorem C35_rx_pass_takes_all (ds : List Pkt) (s : RxState) :
    (rxLoop (ds.map Recv.dgram ++ [.nothing]) s).1.rxPkts = s.rxPkts ++ ds ∧
    (rxLoop (ds.map Recv.dgram ++ [.nothing]) s).2 = none := by
  induction ds generalizing s with
  | nil => simp [rxLoop]
  | cons d rest ih =>
    simp only [List.map_cons, List.cons_append]
    unfold rxLoop
    obtain ⟨i1, i2⟩ := ih { s with rxPkts := s.rxPkts ++ [d], taken := s.taken ++ [d] }
    exact ⟨by rw [i1]; simp, i2⟩

example : (rrun RxState.init [.addRemote 1, .serviceReceives [.dgram ⟨5,1⟩, .dgram ⟨6,2⟩, .err 111, .dgram ⟨7,1⟩],
    .serviceRxPkts, .serviceReceives [.dgram ⟨7,1⟩, .empty 1, .dgram ⟨8,1⟩], .serviceRxPkts]).1.rxMsgs
    = [⟨5,1⟩, ⟨7,1⟩] := by decide


end Ioflo.Gram
