import IofloModel.Lemmas.StreamStack
/-!
# C36 — stream stacks deliver every queued packet to the peer intact

Property theorems only.  Model: `Model/StreamStack.lean` (transcription of `TcpClientStack`,
`TcpServerStack` of `ioflo/aio/proto/stacking.py` and of the `Client` / `Server` / `Incomer` loops
under them).  The sockets are the environment: an arbitrary script of answers for every call.

* `Variant.repaired` = after fixes D21 (`transmitIx(self, …)`), D21b (`IpRemoteDevice` unqualified),
  D21c (client loop guard ignores `.txbs`); the full theorems are about it (the two history invariants
  of the client hold for both variants).
* `C36_counterexample_asis_*` show the three defects on the unchanged tree.
* "Intact" for a stream: the bytes the peer's socket receives are exactly the queued packets' bytes in
  queue order (no loss, duplication, reordering, interleaving); packet boundaries are whatever
  `Packet.parse` (a parameter, `Parser`) makes of the stream.
-/
namespace Ioflo.StreamStack

/-! ## client stack -/

/-- **Every byte queued on the client stack goes to the socket once, in queue order** — every
history of calls, every script of socket answers (partial sends, would-block, connection loss and
even non-transient errors), both variants: bytes accepted by the socket ++ `.txbs` ++ the packets
still queued are exactly the bytes handed to `transmit`. -/
theorem C36_client_bytes_in_order (v : Variant) (ps : Parser) (ops : List COp) :
    (crun v ps Cli.init ops).1.wire ++ (crun v ps Cli.init ops).1.txbs
      ++ flat (crun v ps Cli.init ops).1.txPkts = (crun v ps Cli.init ops).1.queued :=
  (crun_inv v ps ops Cli.init ⟨rfl, rfl⟩).1

/-- … in particular what the peer has received so far is a prefix of what was queued -/
theorem C36_client_wire_is_prefix (v : Variant) (ps : Parser) (ops : List COp) :
    (crun v ps Cli.init ops).1.wire <+: (crun v ps Cli.init ops).1.queued :=
  ⟨_, by rw [← C36_client_bytes_in_order v ps ops, List.append_assoc]⟩

/-- **Every received byte is in exactly one received packet, in order** (any parser): the received
packets followed by the unparsed buffer are exactly the bytes the socket delivered. -/
theorem C36_client_rx_each_byte_once (v : Variant) (ps : Parser) (ops : List COp) :
    flat (crun v ps Cli.init ops).1.rxPkts ++ (crun v ps Cli.init ops).1.rxbs
      = (crun v ps Cli.init ops).1.recvd :=
  (crun_inv v ps ops Cli.init ⟨rfl, rfl⟩).2

example :
    let ops : List COp := [.connect, .transmit [1,2,3], .transmit [4], .serviceTxPkts [.acc 2, .acc 9],
      .serviceTxPkts [.wouldBlock], .serviceReceives [.data [7,8], .wouldBlock, .data [9]],
      .serviceTxPkts [.acc 9, .acc 9]]
    (crun .repaired .whole Cli.init ops).1.wire = [1,2,3,4] ∧
    (crun .repaired .whole Cli.init ops).1.rxPkts = [[7,8],[9]] := by decide

/-- **Progress (repaired guard)**: on a live connection one `serviceTxPkts` whose sends are all
accepted puts everything pending — the tail of a partially sent packet and every queued packet — on
the socket. -/
theorem C36_client_drains (K : Nat) (s : Cli) (env : List SendRes)
    (hc : s.connected = true) (hx : s.cutoff = false)
    (henv : ∀ r ∈ env, ∃ k, r = SendRes.acc k ∧ K ≤ k) (hlen : s.txPkts.length + 1 ≤ env.length)
    (hb : s.txbs.length ≤ K) (hK : ∀ p ∈ s.txPkts, p.length ≤ K) :
    (cliServiceTxPkts .repaired s env).1.txbs = [] ∧ (cliServiceTxPkts .repaired s env).1.txPkts = [] ∧
    (cliServiceTxPkts .repaired s env).1.wire = s.wire ++ s.txbs ++ flat s.txPkts :=
  cliServiceTxPkts_drains K s env hc hx henv hlen hb hK

example : (cliServiceTxPkts .repaired ⟨true, false, [], [4,5,6,7], [], [], [1,2,3], [1,2,3,4,5,6,7], []⟩
    [.acc 64]).1.wire = [1,2,3,4,5,6,7] := by decide

/-- **D21c on the unchanged guard** `while self.txPkts and …`: with nothing else queued the tail of a
partially sent packet is never sent, whatever the socket would accept. -/
theorem C36_counterexample_asis_client_tail_stuck (s : Cli) (env : List SendRes) (h : s.txPkts = []) :
    cliServiceTxPkts .asIs s env = (s, false) := by
  simp [cliServiceTxPkts, enterTx, h]

/-- the witness of the probe: `ABCDEFG`, the socket takes 3 bytes, then five fully accepting calls -/
example :
    (crun .asIs .whole Cli.init [.connect, .transmit [65,66,67,68,69,70,71], .serviceTxPkts [.acc 3],
      .serviceTxPkts [.acc 64], .serviceTxPkts [.acc 64], .serviceTxPkts [.acc 64]]).1.wire = [65,66,67] ∧
    (crun .repaired .whole Cli.init [.connect, .transmit [65,66,67,68,69,70,71], .serviceTxPkts [.acc 3],
      .serviceTxPkts [.acc 64]]).1.wire = [65,66,67,68,69,70,71] := by decide

/-- With the base `Packet` (whole-buffer parse) a `serviceReceives` without non-transient errors
leaves no received byte outside a packet. -/
theorem C36_client_rx_complete (s : Cli) (env : List RecvRes) (hnf : env.all RecvRes.noFail = true)
    (hb : s.rxbs = []) : (cliServiceReceives .whole s env).1.rxbs = [] := by
  unfold cliServiceReceives
  split
  · exact cliRxLoop_whole_complete env false s hnf (fun _ => hb)
  · exact hb

/-- caveat for a *framing* parser on the client stack (not the base `Packet`): `_serviceOneReceived`
parses once per reception, so a second complete packet already in `.rxbs` waits for more data -/
example : (cliServiceReceives .framed ⟨true, false, [], [], [], [], [], [], []⟩
    [.data [1, 7, 1, 8], .wouldBlock, .wouldBlock]).1.rxPkts = [[1, 7]] ∧
    (cliServiceReceives .framed ⟨true, false, [], [], [], [], [], [], []⟩
    [.data [1, 7, 1, 8], .wouldBlock, .wouldBlock]).1.rxbs = [1, 8] := by decide

/-! ## server stack -/

/-- **Every byte queued on the server stack for a connected peer goes to that peer's socket once, in
queue order** — every history (accepts, drops of cut-off connections, transmits to any address,
all interleavings of the service calls), every script without non-transient errors: for every
connection, bytes accepted by its socket ++ its `.txes` ++ its packets still on `.txPkts` are
exactly the bytes handed to `transmit` for it (since it was accepted, plus what was already waiting
for its address). -/
theorem C36_server_bytes_in_order (ps : Parser) (ops : List SOp) (hnf : ops.all SOp.noFail = true) :
    ∀ ix ∈ (srun .repaired ps Srv.init ops).1.ixes,
      ix.wire ++ flat ix.txes ++ bytesOf ix.ca (srun .repaired ps Srv.init ops).1.txPkts = ix.queued :=
  fun ix h => ((srun_inv ps ops Srv.init SrvInv_init hnf).1 ix h).1

/-- **Every byte received on a connection is in exactly one received packet, in order** (any parser) -/
theorem C36_server_rx_each_byte_once (ps : Parser) (ops : List SOp) (hnf : ops.all SOp.noFail = true) :
    ∀ ix ∈ (srun .repaired ps Srv.init ops).1.ixes,
      bytesOf ix.ca (srun .repaired ps Srv.init ops).1.rxPkts ++ ix.rxbs = ix.recvd :=
  fun ix h => ((srun_inv ps ops Srv.init SrvInv_init hnf).1 ix h).2

/-- connection addresses stay distinct, so "the packets of `ca`" is unambiguous -/
theorem C36_server_addresses_distinct (ps : Parser) (ops : List SOp) (hnf : ops.all SOp.noFail = true) :
    ((srun .repaired ps Srv.init ops).1.ixes.map (·.ca)).Nodup :=
  (srun_inv ps ops Srv.init SrvInv_init hnf).2

example :
    let ops : List SOp := [.accept 1, .accept 2, .transmit [1,2,3] 1, .transmit [9] 2, .transmit [4,5] 1,
      .serviceTxPkts, .serviceTxesAllIx [(1, [.acc 2, .acc 9]), (2, [.wouldBlock])],
      .serviceReceivesAllIx [(2, [.data [7], .data [8]])], .serviceReceives,
      .serviceTxesAllIx [(1, [.acc 9, .acc 9]), (2, [.acc 9])]]
    ops.all SOp.noFail = true ∧
    (srun .repaired .whole Srv.init ops).1.ixes.map (fun ix => (ix.ca, ix.wire)) = [(1, [1,2,3,4,5]), (2, [9])] ∧
    (srun .repaired .whole Srv.init ops).1.rxPkts = [([7,8], 2)] := by decide

/-- **Progress, stack level**: on an open server `serviceTxPkts` hands every queued packet whose
address is connected to its connection and raises nothing. -/
theorem C36_server_queue_moves (q : List (Bytes × Nat)) : ∀ (s : Srv), s.opened = true →
    (∀ p ∈ q, hasIx s p.2 = true) →
    (srvTxLoop .repaired q s).1.txPkts = [] ∧ (srvTxLoop .repaired q s).2 = none := by
  induction q with
  | nil => intro s _ _; simp [srvTxLoop]
  | cons p rest ih =>
    intro s ho h
    obtain ⟨d, ca⟩ := p
    have hi : hasIx s ca = true := h (d, ca) (by simp)
    unfold srvTxLoop
    rw [if_pos ho]
    simp only []
    rw [if_pos hi]
    apply ih
    · exact ho
    · intro p hp
      rw [hasIx_updIx s ca p.2 (fun ix => { ix with txes := ix.txes ++ [d] }) (fun ix => rfl)]
      exact h p (List.mem_cons_of_mem _ hp)

/-- **Progress, connection level**: a connection that is not cut off and whose sends are accepted
puts all of its `.txes` on the socket, in order. -/
theorem C36_server_drains (K : Nat) (ix : Ix) (env : List SendRes) (hx : ix.cutoff = false)
    (henv : ∀ r ∈ env, ∃ k, r = SendRes.acc k ∧ K ≤ k) (hlen : ix.txes.length ≤ env.length)
    (hK : ∀ d ∈ ix.txes, d.length ≤ K) :
    (ixTxLoop ix.txes env ix).1.txes = [] ∧ (ixTxLoop ix.txes env ix).1.wire = ix.wire ++ flat ix.txes :=
  ixTxLoop_drains K ix.txes env ix hx henv hlen hK

/-- With the base `Packet` the server's `serviceReceives` leaves no received byte outside a packet. -/
theorem C36_server_rx_complete (ixes : List Ix) : ∀ ix' ∈ (srvParseAll .whole ixes).1, ix'.rxbs = [] := by
  induction ixes with
  | nil => intro ix' h; simp [srvParseAll] at h
  | cons ix rest ih =>
    intro ix' h
    unfold srvParseAll at h
    have hw := ixParseLoop_whole ix.rxbs []
    generalize ixParseLoop .whole ix.rxbs.length ix.rxbs [] = res at h hw
    obtain ⟨buf, pkts⟩ := res
    simp only at h hw
    rcases List.mem_cons.mp h with rfl | h
    · exact hw
    · exact ih ix' h

/-- **Packets intact, with a framing parser**: whatever way the bytes of a sequence of length-prefixed
packets arrived and accumulated in a connection's buffer, `serviceReceives` cuts the buffer into
exactly those packets, in order, and leaves nothing behind. -/
theorem C36_framed_packets_recovered (fs : List Bytes) :
    ixParseLoop .framed (flat (fs.map frame)).length (flat (fs.map frame)) [] = ([], fs.map frame) := by
  have := ixParseLoop_frames fs (flat (fs.map frame)).length [] (by
    induction fs with
    | nil => simp
    | cons p r ih => simp only [List.map_cons, flat, List.flatten_cons, List.length_append, List.length_cons, frame] at ih ⊢; omega)
  simpa using this

example : ixParseLoop .framed 7 [2, 10, 11, 0, 1, 12] [] = ([], [[2, 10, 11], [0], [1, 12]]) := by decide


/-- **D21 on the unchanged tree**: the first server-side send raises `TypeError`
(`self.handler.transmitIx(self, pkt.packed, ca)`), the packet is gone. -/
theorem C36_counterexample_asis_server_send (s : Srv) (d : Bytes) (ca : Nat) (rest : List (Bytes × Nat))
    (ho : s.opened = true) :
    srvTxLoop .asIs ((d, ca) :: rest) s = ({ s with txPkts := rest }, some .typeError) := by
  simp [srvTxLoop, ho]

/-- **D21b on the unchanged tree**: `serviceConnects` raises `NameError` as soon as a connection that
is not cut off exists — the first accept already. -/
theorem C36_counterexample_asis_server_accept (ps : Parser) (ca : Nat) :
    (sstep .asIs ps Srv.init (.accept ca)).2 = some .nameError := by
  simp [sstep, hasIx, Srv.init, serviceConnectsLoop, dropCutoffAsIs]

end Ioflo.StreamStack
