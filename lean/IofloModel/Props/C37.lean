import IofloModel.Model.Remotes
/-! placeholder while the correspondence is being validated -/
namespace Ioflo.Remotes
theorem C37_placeholder : (1 : Nat) = 1 := rfl
end Ioflo.Remotes
