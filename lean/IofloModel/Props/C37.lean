import IofloModel.Lemmas.Remotes
/-!
# C37 — a stack's remote indexes stay mutually consistent

Property theorems.  Model: `Model/Remotes.lean` (transcription of `RemoteStack.addRemote / moveRemote /
renameRemote / rehaRemote / removeRemote / removeAllRemotes`, `RemoteDevice.__init__`, `Stack.nextUid`).
-/
namespace Ioflo.Remotes
open Ioflo.Containers
set_option linter.unusedSectionVars false

section
variable {N H : Type} [DecidableEq N] [DecidableEq H]

/-- every entry of an index is filed under the current value of the device's field -/
def Cur {K : Type} (fld : Dev N H → K) (devs : List (Dev N H)) (m : List (K × Nat)) : Prop :=
  ∀ p ∈ m, ∃ d, devs[p.2]? = some d ∧ fld d = p.1

/-- the three indexes are mutually consistent -/
structure Inv (s : St N H) : Prop where
  nodupU : (dkeys s.uidR).Nodup
  nodupN : (dkeys s.nameR).Nodup
  nodupH : (dkeys s.haR).Nodup
  /-- no remote is indexed twice -/
  idsNodup : (ids s.uidR).Nodup
  /-- the three indexes hold the same remotes (each index has its own iteration order: a stack may be
  constructed with caller-supplied index odicts that list the remotes differently) -/
  sameN : (ids s.nameR).Perm (ids s.uidR)
  sameH : (ids s.haR).Perm (ids s.uidR)
  /-- each under its current uid / name / host address -/
  curU : Cur Dev.uid s.devs s.uidR
  curN : Cur Dev.name s.devs s.nameR
  curH : Cur Dev.ha s.devs s.haR
  /-- no key is the local device's -/
  locU : s.loc.uid ∉ dkeys s.uidR
  locN : s.loc.name ∉ dkeys s.nameR
  locH : s.loc.ha ∉ dkeys s.haR

/-! ### auxiliary facts -/

theorem Cur.append_devs {K : Type} {fld : Dev N H → K} {devs : List (Dev N H)} {m : List (K × Nat)}
    (h : Cur fld devs m) (d : Dev N H) : Cur fld (devs ++ [d]) m := by
  intro p hp
  obtain ⟨d', h1, h2⟩ := h p hp
  refine ⟨d', ?_, h2⟩
  have : p.2 < devs.length := (List.getElem?_eq_some_iff.1 h1).1
  rw [List.getElem?_append_left this]; exact h1

theorem Cur.sub {K : Type} [DecidableEq K] {fld : Dev N H → K} {devs : List (Dev N H)} {m m' : List (K × Nat)}
    (h : Cur fld devs m) (hs : ∀ p ∈ m', p ∈ m) : Cur fld devs m' := fun p hp => h p (hs p hp)

/-- the index of another field is not affected by an update that leaves that field alone -/
theorem Cur.set_other {K : Type} {fld : Dev N H → K} {devs : List (Dev N H)} {m : List (K × Nat)}
    (h : Cur fld devs m) {r : Nat} {d d' : Dev N H} (hd : devs[r]? = some d) (hf : fld d' = fld d) :
    Cur fld (devs.set r d') m := by
  intro p hp
  obtain ⟨x, h1, h2⟩ := h p hp
  by_cases e : p.2 = r
  · refine ⟨d', ?_, ?_⟩
    · rw [e, List.getElem?_set]
      have : r < devs.length := (List.getElem?_eq_some_iff.1 hd).1
      simp [this]
    · rw [e, hd] at h1; cases h1; rw [hf, h2]
  · exact ⟨x, by rw [List.getElem?_set_ne (fun x => e x.symm)]; exact h1, h2⟩

/-- the re-keyed index of the updated field -/
theorem Cur.set_rekey {K : Type} [DecidableEq K] {fld : Dev N H → K} {devs : List (Dev N H)}
    {a b : List (K × Nat)} {old new : K} {r : Nat} {d d' : Dev N H}
    (h : Cur fld devs (a ++ (old, r) :: b)) (hn : (ids (a ++ (old, r) :: b)).Nodup)
    (hd : devs[r]? = some d) (hf : fld d' = new) :
    Cur fld (devs.set r d') (a ++ (new, r) :: b) := by
  have hr : r < devs.length := (List.getElem?_eq_some_iff.1 hd).1
  intro p hp
  simp only [List.mem_append, List.mem_cons] at hp
  rcases hp with hp | rfl | hp
  · have hne : p.2 ≠ r := mem_split_ne hn (.inl hp)
    obtain ⟨x, h1, h2⟩ := h p (by simp [hp])
    exact ⟨x, by rw [List.getElem?_set_ne (fun x => hne x.symm)]; exact h1, h2⟩
  · exact ⟨d', by simp [List.getElem?_set, hr], hf⟩
  · have hne : p.2 ≠ r := mem_split_ne hn (.inr hp)
    obtain ⟨x, h1, h2⟩ := h p (by simp [hp])
    exact ⟨x, by rw [List.getElem?_set_ne (fun x => hne x.symm)]; exact h1, h2⟩

theorem dkeys_rekeyed {K : Type} [DecidableEq K] (a b : List (K × Nat)) (old new : K) (r : Nat)
    (hn : (dkeys (a ++ (old, r) :: b)).Nodup) (hnew : new ∉ dkeys (a ++ (old, r) :: b)) :
    (dkeys (a ++ (new, r) :: b)).Nodup ∧
    ∀ k, k ∈ dkeys (a ++ (new, r) :: b) → k = new ∨ k ∈ dkeys (a ++ (old, r) :: b) := by
  simp only [dkeys_append, dkeys_cons, List.mem_append, List.mem_cons, not_or] at hn hnew ⊢
  have h1 := List.nodup_append.1 hn
  have h2 := List.nodup_cons.1 h1.2.1
  refine ⟨List.nodup_append.2 ⟨h1.1, List.nodup_cons.2 ⟨hnew.2.2, h2.2⟩, ?_⟩, ?_⟩
  · intro x hx y hy
    simp only [List.mem_cons] at hy
    rcases hy with rfl | hy
    · exact fun e => hnew.1 (e ▸ hx)
    · exact h1.2.2 x hx y (by simp [hy])
  · intro k hk
    rcases hk with hk | rfl | hk
    · exact .inr (.inl hk)
    · exact .inl rfl
    · exact .inr (.inr (.inr hk))

/-- an indexed remote is found under its own current uid, name and host address -/
theorem Inv.lookup {s : St N H} (h : Inv s) {r : Nat} {d : Dev N H} (hd : s.devs[r]? = some d)
    (hr : r ∈ ids s.uidR) :
    dget s.uidR d.uid = some r ∧ dget s.nameR d.name = some r ∧ dget s.haR d.ha = some r := by
  have aux : ∀ {K : Type} [DecidableEq K] (fld : Dev N H → K) (m : List (K × Nat)),
      (dkeys m).Nodup → Cur fld s.devs m → r ∈ ids m → dget m (fld d) = some r := by
    intro K _ fld m hn hc hm
    obtain ⟨p, hp, rfl⟩ := List.mem_map.1 hm
    obtain ⟨x, h1, h2⟩ := hc p hp
    rw [hd] at h1; cases h1
    rw [h2]; exact dget_of_mem_nodup hn (by cases p; exact hp)
  exact ⟨aux Dev.uid _ h.nodupU h.curU hr, aux Dev.name _ h.nodupN h.curN (h.sameN.mem_iff.2 hr),
    aux Dev.ha _ h.nodupH h.curH (h.sameH.mem_iff.2 hr)⟩

theorem mem_ids_of_dget {K : Type} [DecidableEq K] {m : List (K × Nat)} {k : K} {r : Nat}
    (h : dget m k = some r) : r ∈ ids m := List.mem_map.2 ⟨(k, r), mem_of_dget h, rfl⟩

/-! ### removeRemote -/

/-- removing an indexed remote: never a KeyError half way, the remote leaves all three indexes, the
rest keeps its order -/
theorem removeOne_ok (dn : Nat → N) (dh : H) (nm : H → H) (di : H) {s : St N H} (h : Inv s) {r : Nat} {d : Dev N H}
    (hd : s.devs[r]? = some d) (hr : r ∈ ids s.uidR) :
    step.removeOne s r d =
      ({ s with uidR := ddel s.uidR d.uid, nameR := ddel s.nameR d.name, haR := ddel s.haR d.ha }, .none) ∧
    Inv ({ s with uidR := ddel s.uidR d.uid, nameR := ddel s.nameR d.name, haR := ddel s.haR d.ha } : St N H) ∧
    ids (ddel s.uidR d.uid) = (ids s.uidR).erase r := by
  obtain ⟨l1, l2, l3⟩ := h.lookup hd hr
  obtain ⟨a1, b1, e1, k1⟩ := split_of_dget l1
  obtain ⟨a2, b2, e2, k2⟩ := split_of_dget l2
  obtain ⟨a3, b3, e3, k3⟩ := split_of_dget l3
  have i1 : ids (ddel s.uidR d.uid) = (ids s.uidR).erase r := by
    rw [e1]; exact ids_ddel a1 b1 d.uid r k1 (e1 ▸ h.idsNodup)
  have i2 : ids (ddel s.nameR d.name) = (ids s.nameR).erase r := by
    rw [e2]; exact ids_ddel a2 b2 d.name r k2 (by rw [← e2]; exact h.sameN.nodup_iff.2 h.idsNodup)
  have i3 : ids (ddel s.haR d.ha) = (ids s.haR).erase r := by
    rw [e3]; exact ids_ddel a3 b3 d.ha r k3 (by rw [← e3]; exact h.sameH.nodup_iff.2 h.idsNodup)
  refine ⟨?_, ?_, i1⟩
  · have h2 : dhas s.nameR d.name = true := by simp [dhas, l2]
    have h3 : dhas s.haR d.ha = true := by simp [dhas, l3]
    simp [step.removeOne, l1, h2, h3]
  · exact {
      nodupU := nodup_dkeys_ddel _ h.nodupU
      nodupN := nodup_dkeys_ddel _ h.nodupN
      nodupH := nodup_dkeys_ddel _ h.nodupH
      idsNodup := by show (ids (ddel s.uidR d.uid)).Nodup; rw [i1]; exact h.idsNodup.erase r
      sameN := by show (ids (ddel s.nameR d.name)).Perm (ids (ddel s.uidR d.uid)); rw [i1, i2]; exact h.sameN.erase r
      sameH := by show (ids (ddel s.haR d.ha)).Perm (ids (ddel s.uidR d.uid)); rw [i1, i3]; exact h.sameH.erase r
      curU := h.curU.sub (fun p hp => mem_ddel hp)
      curN := h.curN.sub (fun p hp => mem_ddel hp)
      curH := h.curH.sub (fun p hp => mem_ddel hp)
      locU := fun hx => h.locU (by rw [dkeys_ddel] at hx; exact List.mem_of_mem_erase hx)
      locN := fun hx => h.locN (by rw [dkeys_ddel] at hx; exact List.mem_of_mem_erase hx)
      locH := fun hx => h.locH (by rw [dkeys_ddel] at hx; exact List.mem_of_mem_erase hx) }

/-- removing a remote that is not indexed (or is a different object with the same uid) is rejected -/
theorem removeOne_rejected {s : St N H} (h : Inv s) {r : Nat} {d : Dev N H} (hr : r ∉ ids s.uidR) :
    step.removeOne s r d = (s, .rejected) := by
  unfold step.removeOne
  cases hg : dget s.uidR d.uid with
  | none => rfl
  | some r' =>
    have : r' ≠ r := fun e => hr (e ▸ mem_ids_of_dget hg)
    simp [this]

theorem removeList_ok (dn : Nat → N) (dh : H) (nm : H → H) (di : H) : ∀ (rs : List Nat) (s : St N H), Inv s → rs.Nodup →
    (∀ r ∈ rs, r ∈ ids s.uidR) →
    (step.removeList s rs).2 = .none ∧ Inv (step.removeList s rs).1 ∧
    ids (step.removeList s rs).1.uidR = (ids s.uidR).filter (· ∉ rs) ∧
    (step.removeList s rs).1.devs = s.devs ∧ (step.removeList s rs).1.loc = s.loc ∧
    (step.removeList s rs).1.puid = s.puid
  | [], s, h, _, _ => ⟨rfl, h, by simp [step.removeList]; exact (List.filter_eq_self.2 (by simp)).symm, rfl, rfl, rfl⟩
  | r :: rs, s, h, hn, hm => by
    have hr : r ∈ ids s.uidR := hm r (by simp)
    obtain ⟨p, hp, hpr⟩ := List.mem_map.1 hr
    obtain ⟨d, hd, _⟩ := h.curU p hp
    rw [hpr] at hd
    obtain ⟨e1, e2, e3⟩ := removeOne_ok dn dh nm di h hd hr
    simp only [step.removeList, hd, e1]
    have hn' := List.nodup_cons.1 hn
    have := removeList_ok dn dh nm di rs _ e2 hn'.2 (by
      intro r' hr'
      show r' ∈ ids (ddel s.uidR d.uid)
      rw [e3]
      exact (List.mem_erase_of_ne (fun (e : r' = r) => hn'.1 (e ▸ hr'))).2 (hm r' (by simp [hr'])))
    obtain ⟨t1, t2, t3, t4, t5, t6⟩ := this
    refine ⟨t1, t2, ?_, t4, t5, t6⟩
    rw [t3]
    show (ids (ddel s.uidR d.uid)).filter _ = _
    rw [e3, List.Nodup.erase_eq_filter h.idsNodup, List.filter_filter]
    apply List.filter_congr; intro x _
    by_cases e : x = r <;> simp [e]

/-! ### the invariant is kept by every call -/

/-- **one call**: whatever is called with whatever arguments, accepted or rejected, the three indexes stay
consistent: same remotes in the same order, each under its current uid/name/ha, no key equal to the local
device's, no remote twice. -/
theorem C37_step_keeps_consistent (dn : Nat → N) (dh : H) (nm : H → H) (di : H) (s : St N H) (op : Op N H) (h : Inv s) :
    Inv (step dn dh nm di s op).1 := by
  cases op with
  | create uid name ha =>
    simp only [step]
    exact { h with curU := h.curU.append_devs _, curN := h.curN.append_devs _, curH := h.curH.append_devs _ }
  | createIp uid name ha =>
    simp only [step]
    exact { h with curU := h.curU.append_devs _, curN := h.curN.append_devs _, curH := h.curH.append_devs _ }
  | add r =>
    simp only [step]
    cases hd : s.devs[r]? with
    | none => exact h
    | some d =>
      simp only []
      by_cases c1 : (dhas s.uidR d.uid || d.uid == s.loc.uid) = true
      · simp only [c1, if_true]; exact h
      by_cases c2 : (dhas s.nameR d.name || d.name == s.loc.name) = true
      · simp only [c1, c2, if_true]; exact h
      by_cases c3 : (dhas s.haR d.ha || d.ha == s.loc.ha) = true
      · simp only [c1, c2, c3, if_true]; exact h
      simp only [c1, c2, c3]
      simp only [Bool.or_eq_true, beq_iff_eq, not_or, dhas_iff] at c1 c2 c3
      have hr : r ∉ ids s.uidR := fun hr => c1.1 (dget_some_mem (h.lookup hd hr).1)
      have nd : ∀ {K : Type} [DecidableEq K] (m : List (K × Nat)) (k : K), (dkeys m).Nodup → k ∉ dkeys m →
          (dkeys (m ++ [(k, r)])).Nodup := by
        intro K _ m k hn hk
        simp only [dkeys_append, dkeys_cons, dkeys_nil]
        exact List.nodup_append.2 ⟨hn, by simp, by simp; exact fun x hx e => hk (e ▸ hx)⟩
      have cur : ∀ {K : Type} (fld : Dev N H → K) (m : List (K × Nat)), Cur fld s.devs m →
          Cur fld s.devs (m ++ [(fld d, r)]) := by
        intro K fld m hc p hp
        simp only [List.mem_append, List.mem_singleton] at hp
        rcases hp with hp | rfl
        · exact hc p hp
        · exact ⟨d, hd, rfl⟩
      exact {
        nodupU := nd _ _ h.nodupU c1.1
        nodupN := nd _ _ h.nodupN c2.1
        nodupH := nd _ _ h.nodupH c3.1
        idsNodup := by
          show (ids (s.uidR ++ [(d.uid, r)])).Nodup
          simp only [ids_append, ids_cons, ids_nil]
          exact List.nodup_append.2 ⟨h.idsNodup, by simp, by simp; exact fun x hx e => hr (e ▸ hx)⟩
        sameN := by show (ids (s.nameR ++ _)).Perm (ids (s.uidR ++ _)); simp only [ids_append]; exact h.sameN.append_right _
        sameH := by show (ids (s.haR ++ _)).Perm (ids (s.uidR ++ _)); simp only [ids_append]; exact h.sameH.append_right _
        curU := cur Dev.uid _ h.curU
        curN := cur Dev.name _ h.curN
        curH := cur Dev.ha _ h.curH
        locU := by
          show s.loc.uid ∉ dkeys (s.uidR ++ _)
          simp only [dkeys_append, dkeys_cons, dkeys_nil, List.mem_append, List.mem_singleton, not_or]
          exact ⟨h.locU, fun e => c1.2 e.symm⟩
        locN := by
          show s.loc.name ∉ dkeys (s.nameR ++ _)
          simp only [dkeys_append, dkeys_cons, dkeys_nil, List.mem_append, List.mem_singleton, not_or]
          exact ⟨h.locN, fun e => c2.2 e.symm⟩
        locH := by
          show s.loc.ha ∉ dkeys (s.haR ++ _)
          simp only [dkeys_append, dkeys_cons, dkeys_nil, List.mem_append, List.mem_singleton, not_or]
          exact ⟨h.locH, fun e => c3.2 e.symm⟩ }
  | move r new =>
    simp only [step]
    cases hd : s.devs[r]? with
    | none => exact h
    | some d =>
      simp only []
      by_cases c0 : new = d.uid
      · simp only [c0, if_true]; exact h
      by_cases c1 : (dhas s.uidR new || new == s.loc.uid) = true
      · simp only [c0, c1, if_true, if_false]; exact h
      simp only [c0, c1, if_false]
      cases hg : dget s.uidR d.uid with
      | none => exact h
      | some r' =>
        by_cases c2 : r' = r
        · subst c2
          simp only [ne_eq, not_true_eq_false, if_false]
          simp only [Bool.or_eq_true, beq_iff_eq, not_or, dhas_iff] at c1
          obtain ⟨a, b, e, hk⟩ := split_of_dget hg
          have hkeys := dkeys_rekeyed a b d.uid new r' (e ▸ h.nodupU) (e ▸ c1.1)
          have hre : rekey s.uidR d.uid new r' = a ++ (new, r') :: b := by rw [e]; exact rekey_split a b _ _ _ hk
          have hids : ids (a ++ (new, r') :: b) = ids s.uidR := by rw [e]; simp
          exact {
            nodupU := by show (dkeys (rekey s.uidR d.uid new r')).Nodup; rw [hre]; exact hkeys.1
            nodupN := h.nodupN
            nodupH := h.nodupH
            idsNodup := by show (ids (rekey s.uidR d.uid new r')).Nodup; rw [hre, hids]; exact h.idsNodup
            sameN := by show (ids s.nameR).Perm (ids (rekey s.uidR d.uid new r')); rw [hre, hids]; exact h.sameN
            sameH := by show (ids s.haR).Perm (ids (rekey s.uidR d.uid new r')); rw [hre, hids]; exact h.sameH
            curU := by
              show Cur Dev.uid (s.devs.set r' _) (rekey s.uidR d.uid new r')
              rw [hre]
              exact Cur.set_rekey (e ▸ h.curU) (e ▸ h.idsNodup) hd rfl
            curN := h.curN.set_other hd rfl
            curH := h.curH.set_other hd rfl
            locU := by
              show s.loc.uid ∉ dkeys (rekey s.uidR d.uid new r')
              rw [hre]; intro hx
              rcases hkeys.2 _ hx with hx | hx
              · exact c1.2 hx.symm
              · exact h.locU (e ▸ hx)
            locN := h.locN
            locH := h.locH }
        · simp only [ne_eq, c2, not_false_eq_true, if_true]; exact h
  | rename r new =>
    simp only [step]
    cases hd : s.devs[r]? with
    | none => exact h
    | some d =>
      simp only []
      by_cases c0 : new = d.name
      · simp only [c0, if_true]; exact h
      by_cases c1 : (dhas s.nameR new || new == s.loc.name) = true
      · simp only [c0, c1, if_true, if_false]; exact h
      simp only [c0, c1, if_false]
      cases hg : dget s.nameR d.name with
      | none => exact h
      | some r' =>
        by_cases c2 : r' = r
        · subst c2
          simp only [ne_eq, not_true_eq_false, if_false]
          simp only [Bool.or_eq_true, beq_iff_eq, not_or, dhas_iff] at c1
          obtain ⟨a, b, e, hk⟩ := split_of_dget hg
          have hkeys := dkeys_rekeyed a b d.name new r' (e ▸ h.nodupN) (e ▸ c1.1)
          have hre : rekey s.nameR d.name new r' = a ++ (new, r') :: b := by rw [e]; exact rekey_split a b _ _ _ hk
          have hids : ids (a ++ (new, r') :: b) = ids s.nameR := by rw [e]; simp
          exact {
            nodupU := h.nodupU
            nodupN := by show (dkeys (rekey s.nameR d.name new r')).Nodup; rw [hre]; exact hkeys.1
            nodupH := h.nodupH
            idsNodup := h.idsNodup
            sameN := by show (ids (rekey s.nameR d.name new r')).Perm (ids s.uidR); rw [hre, hids]; exact h.sameN
            sameH := h.sameH
            curU := h.curU.set_other hd rfl
            curN := by
              show Cur Dev.name (s.devs.set r' _) (rekey s.nameR d.name new r')
              rw [hre]
              exact Cur.set_rekey (e ▸ h.curN) (by rw [← e]; exact h.sameN.nodup_iff.2 h.idsNodup) hd rfl
            curH := h.curH.set_other hd rfl
            locU := h.locU
            locN := by
              show s.loc.name ∉ dkeys (rekey s.nameR d.name new r')
              rw [hre]; intro hx
              rcases hkeys.2 _ hx with hx | hx
              · exact c1.2 hx.symm
              · exact h.locN (e ▸ hx)
            locH := h.locH }
        · simp only [ne_eq, c2, not_false_eq_true, if_true]; exact h
  | reha r new =>
    simp only [step]
    cases hd : s.devs[r]? with
    | none => exact h
    | some d =>
      simp only []
      by_cases c0 : new = d.ha
      · simp only [c0, if_true]; exact h
      by_cases c1 : (dhas s.haR new || new == s.loc.ha) = true
      · simp only [c0, c1, if_true, if_false]; exact h
      simp only [c0, c1, if_false]
      cases hg : dget s.haR d.ha with
      | none => exact h
      | some r' =>
        by_cases c2 : r' = r
        · subst c2
          simp only [ne_eq, not_true_eq_false, if_false]
          simp only [Bool.or_eq_true, beq_iff_eq, not_or, dhas_iff] at c1
          obtain ⟨a, b, e, hk⟩ := split_of_dget hg
          have hkeys := dkeys_rekeyed a b d.ha new r' (e ▸ h.nodupH) (e ▸ c1.1)
          have hre : rekey s.haR d.ha new r' = a ++ (new, r') :: b := by rw [e]; exact rekey_split a b _ _ _ hk
          have hids : ids (a ++ (new, r') :: b) = ids s.haR := by rw [e]; simp
          exact {
            nodupU := h.nodupU
            nodupN := h.nodupN
            nodupH := by show (dkeys (rekey s.haR d.ha new r')).Nodup; rw [hre]; exact hkeys.1
            idsNodup := h.idsNodup
            sameN := h.sameN
            sameH := by show (ids (rekey s.haR d.ha new r')).Perm (ids s.uidR); rw [hre, hids]; exact h.sameH
            curU := h.curU.set_other hd rfl
            curN := h.curN.set_other hd rfl
            curH := by
              show Cur Dev.ha (s.devs.set r' _) (rekey s.haR d.ha new r')
              rw [hre]
              exact Cur.set_rekey (e ▸ h.curH) (by rw [← e]; exact h.sameH.nodup_iff.2 h.idsNodup) hd rfl
            locU := h.locU
            locN := h.locN
            locH := by
              show s.loc.ha ∉ dkeys (rekey s.haR d.ha new r')
              rw [hre]; intro hx
              rcases hkeys.2 _ hx with hx | hx
              · exact c1.2 hx.symm
              · exact h.locH (e ▸ hx) }
        · simp only [ne_eq, c2, not_false_eq_true, if_true]; exact h
  | remove r =>
    simp only [step]
    cases hd : s.devs[r]? with
    | none => exact h
    | some d =>
      simp only []
      by_cases hr : r ∈ ids s.uidR
      · rw [(removeOne_ok dn dh nm di h hd hr).1]; exact (removeOne_ok dn dh nm di h hd hr).2.1
      · rw [removeOne_rejected h hr]; exact h
  | removeAll =>
    simp only [step]
    exact (removeList_ok dn dh nm di _ s h h.idsNodup (fun r hr => hr)).2.1

/-- a new stack is consistent -/
theorem C37_init_consistent (dn : Nat → N) (dh : H) (nm : H → H) (di : H) (puid : Nat) (uid : Option Nat) (name : Option N)
    (ha : Option H) : Inv (init dn dh puid uid name ha) ∧ Inv (initIp dn nm di puid uid name ha) := by
  constructor <;> constructor <;> simp [init, initIp, dkeys, ids, Cur]

/-- **all histories**: after any sequence of create / add / move / rename / reha / remove / removeAll
calls on a new stack, accepted or rejected, the indexes are consistent (and so after every prefix). -/
theorem C37_remote_indexes_consistent (dn : Nat → N) (dh : H) (nm : H → H) (di : H) (ops : List (Op N H)) (s : St N H)
    (h : Inv s) : Inv (run (step dn dh nm di) s ops).1 := by
  induction ops generalizing s with
  | nil => exact h
  | cons op t ih => simp only [run]; exact ih _ (C37_step_keeps_consistent dn dh nm di s op h)

/-- no call on a consistent stack ends in an exception other than the rejection (in particular
`removeRemote` never fails half way through its three deletions) -/
theorem C37_never_crashes (dn : Nat → N) (dh : H) (nm : H → H) (di : H) (s : St N H) (op : Op N H) (h : Inv s) (e : Err) :
    (step dn dh nm di s op).2 ≠ .crashed e := by
  cases op with
  | create uid name ha => simp [step]
  | createIp uid name ha => simp [step]
  | add r =>
    simp only [step]
    cases s.devs[r]? with
    | none => simp
    | some d =>
      simp only []
      by_cases c1 : (dhas s.uidR d.uid || d.uid == s.loc.uid) = true
      · simp only [c1, if_true]; simp
      by_cases c2 : (dhas s.nameR d.name || d.name == s.loc.name) = true
      · simp only [c1, c2, if_true]; simp
      by_cases c3 : (dhas s.haR d.ha || d.ha == s.loc.ha) = true
      · simp only [c1, c2, c3, if_true]; simp
      · simp only [c1, c2, c3]; simp
  | move r new =>
    simp only [step]
    cases s.devs[r]? with
    | none => simp
    | some d =>
      simp only []
      by_cases c0 : new = d.uid
      · simp only [c0, if_true]; simp
      by_cases c1 : (dhas s.uidR new || new == s.loc.uid) = true
      · simp only [c0, c1, if_true, if_false]; simp
      simp only [c0, c1, if_false]
      cases dget s.uidR d.uid with
      | none => simp
      | some r' => by_cases c2 : r' = r <;> simp [c2]
  | rename r new =>
    simp only [step]
    cases s.devs[r]? with
    | none => simp
    | some d =>
      simp only []
      by_cases c0 : new = d.name
      · simp only [c0, if_true]; simp
      by_cases c1 : (dhas s.nameR new || new == s.loc.name) = true
      · simp only [c0, c1, if_true, if_false]; simp
      simp only [c0, c1, if_false]
      cases dget s.nameR d.name with
      | none => simp
      | some r' => by_cases c2 : r' = r <;> simp [c2]
  | reha r new =>
    simp only [step]
    cases s.devs[r]? with
    | none => simp
    | some d =>
      simp only []
      by_cases c0 : new = d.ha
      · simp only [c0, if_true]; simp
      by_cases c1 : (dhas s.haR new || new == s.loc.ha) = true
      · simp only [c0, c1, if_true, if_false]; simp
      simp only [c0, c1, if_false]
      cases dget s.haR d.ha with
      | none => simp
      | some r' => by_cases c2 : r' = r <;> simp [c2]
  | remove r =>
    simp only [step]
    cases hd : s.devs[r]? with
    | none => simp
    | some d =>
      simp only []
      by_cases hr : r ∈ ids s.uidR
      · rw [(removeOne_ok dn dh nm di h hd hr).1]; simp
      · rw [removeOne_rejected h hr]; simp
  | removeAll =>
    simp only [step]
    have t := (removeList_ok dn dh nm di _ s h h.idsNodup (fun r hr => hr)).1
    simp only [ids] at t
    rw [t]; simp

/-- **a rejected call changes nothing**: neither the indexes, nor any device, nor the uid counter -/
theorem C37_rejected_unchanged (dn : Nat → N) (dh : H) (nm : H → H) (di : H) (s : St N H) (op : Op N H) (h : Inv s)
    (hr : (step dn dh nm di s op).2 = .rejected) : (step dn dh nm di s op).1 = s := by
  revert hr
  cases op with
  | create uid name ha => simp [step]
  | createIp uid name ha => simp [step]
  | add r =>
    simp only [step]
    cases s.devs[r]? with
    | none => intro _; rfl
    | some d =>
      simp only []
      by_cases c1 : (dhas s.uidR d.uid || d.uid == s.loc.uid) = true
      · simp only [c1, if_true]; intro _; trivial
      by_cases c2 : (dhas s.nameR d.name || d.name == s.loc.name) = true
      · simp only [c1, c2, if_true]; intro _; trivial
      by_cases c3 : (dhas s.haR d.ha || d.ha == s.loc.ha) = true
      · simp only [c1, c2, c3, if_true]; intro _; trivial
      · simp only [c1, c2, c3]; intro hr; simp at hr
  | move r new =>
    simp only [step]
    cases s.devs[r]? with
    | none => intro _; rfl
    | some d =>
      simp only []
      by_cases c0 : new = d.uid
      · simp only [c0, if_true]; intro _; trivial
      by_cases c1 : (dhas s.uidR new || new == s.loc.uid) = true
      · simp only [c0, c1, if_true, if_false]; intro _; trivial
      simp only [c0, c1, if_false]
      cases dget s.uidR d.uid with
      | none => intro _; rfl
      | some r' =>
        by_cases c2 : r' = r
        · simp [c2]
        · simp [c2]
  | rename r new =>
    simp only [step]
    cases s.devs[r]? with
    | none => intro _; rfl
    | some d =>
      simp only []
      by_cases c0 : new = d.name
      · simp only [c0, if_true]; intro _; trivial
      by_cases c1 : (dhas s.nameR new || new == s.loc.name) = true
      · simp only [c0, c1, if_true, if_false]; intro _; trivial
      simp only [c0, c1, if_false]
      cases dget s.nameR d.name with
      | none => intro _; rfl
      | some r' =>
        by_cases c2 : r' = r
        · simp [c2]
        · simp [c2]
  | reha r new =>
    simp only [step]
    cases s.devs[r]? with
    | none => intro _; rfl
    | some d =>
      simp only []
      by_cases c0 : new = d.ha
      · simp only [c0, if_true]; intro _; trivial
      by_cases c1 : (dhas s.haR new || new == s.loc.ha) = true
      · simp only [c0, c1, if_true, if_false]; intro _; trivial
      simp only [c0, c1, if_false]
      cases dget s.haR d.ha with
      | none => intro _; rfl
      | some r' =>
        by_cases c2 : r' = r
        · simp [c2]
        · simp [c2]
  | remove r =>
    simp only [step]
    cases hd : s.devs[r]? with
    | none => intro _; rfl
    | some d =>
      simp only []
      by_cases hm : r ∈ ids s.uidR
      · rw [(removeOne_ok dn dh nm di h hd hm).1]; simp
      · rw [removeOne_rejected h hm]; intro _; trivial
  | removeAll =>
    simp only [step]
    have t := (removeList_ok dn dh nm di _ s h h.idsNodup (fun r hr => hr)).1
    simp only [ids] at t
    rw [t]; simp

/-- **moves, renames and re-addressings keep the remote's position**: an accepted `moveRemote` (to a
different uid) replaces the remote's entry in the uid index in place — same object, same position,
new key — and touches neither the other two indexes nor any other device; likewise rename / reha. -/
theorem C37_move_rename_keep_position (dn : Nat → N) (dh : H) (nm : H → H) (di : H) (s : St N H) (r : Nat) (d : Dev N H)
    (hd : s.devs[r]? = some d) :
    (∀ new, new ≠ d.uid → (step dn dh nm di s (.move r new)).2 = .none →
      ∃ a b, s.uidR = a ++ (d.uid, r) :: b ∧
        (step dn dh nm di s (.move r new)).1 =
          { s with devs := s.devs.set r { d with uid := new },
                                                  uidR := a ++ (new, r) :: b }) ∧
    (∀ new, new ≠ d.name → (step dn dh nm di s (.rename r new)).2 = .none →
      ∃ a b, s.nameR = a ++ (d.name, r) :: b ∧
        (step dn dh nm di s (.rename r new)).1 =
          { s with devs := s.devs.set r { d with name := new },
                                                    nameR := a ++ (new, r) :: b }) ∧
    (∀ new, new ≠ d.ha → (step dn dh nm di s (.reha r new)).2 = .none →
      ∃ a b, s.haR = a ++ (d.ha, r) :: b ∧
        (step dn dh nm di s (.reha r new)).1 =
          { s with devs := s.devs.set r { d with ha := new },
                                                  haR := a ++ (new, r) :: b }) := by
  refine ⟨?_, ?_, ?_⟩
  · intro new hne hok
    simp only [step, hd, hne, if_false] at hok ⊢
    by_cases c1 : (dhas s.uidR new || new == s.loc.uid) = true
    · simp only [c1, if_true] at hok; simp at hok
    simp only [c1, if_false] at hok ⊢
    cases hg : dget s.uidR d.uid with
    | none => simp [hg] at hok
    | some r' =>
      simp only [hg] at hok ⊢
      by_cases c2 : r' = r
      · subst c2
        obtain ⟨a, b, e, hk⟩ := split_of_dget hg
        refine ⟨a, b, e, ?_⟩
        simp only [ne_eq, not_true_eq_false, if_false]
        rw [show rekey s.uidR d.uid new r' = a ++ (new, r') :: b from by rw [e]; exact rekey_split a b _ _ _ hk]
        simp
      · simp [c2] at hok
  · intro new hne hok
    simp only [step, hd, hne, if_false] at hok ⊢
    by_cases c1 : (dhas s.nameR new || new == s.loc.name) = true
    · simp only [c1, if_true] at hok; simp at hok
    simp only [c1, if_false] at hok ⊢
    cases hg : dget s.nameR d.name with
    | none => simp [hg] at hok
    | some r' =>
      simp only [hg] at hok ⊢
      by_cases c2 : r' = r
      · subst c2
        obtain ⟨a, b, e, hk⟩ := split_of_dget hg
        refine ⟨a, b, e, ?_⟩
        simp only [ne_eq, not_true_eq_false, if_false]
        rw [show rekey s.nameR d.name new r' = a ++ (new, r') :: b from by rw [e]; exact rekey_split a b _ _ _ hk]
        simp
      · simp [c2] at hok
  · intro new hne hok
    simp only [step, hd, hne, if_false] at hok ⊢
    by_cases c1 : (dhas s.haR new || new == s.loc.ha) = true
    · simp only [c1, if_true] at hok; simp at hok
    simp only [c1, if_false] at hok ⊢
    cases hg : dget s.haR d.ha with
    | none => simp [hg] at hok
    | some r' =>
      simp only [hg] at hok ⊢
      by_cases c2 : r' = r
      · subst c2
        obtain ⟨a, b, e, hk⟩ := split_of_dget hg
        refine ⟨a, b, e, ?_⟩
        simp only [ne_eq, not_true_eq_false, if_false]
        rw [show rekey s.haR d.ha new r' = a ++ (new, r') :: b from by rw [e]; exact rekey_split a b _ _ _ hk]
        simp
      · simp [c2] at hok

/-- **uid assignment**: a `RemoteDevice` created without a uid gets one that is larger than every uid
handed out before, is not the uid of any remote in the stack and not the local device's; the counter
ends at it.  (No index changes.) -/
theorem C37_create_uid_fresh (dn : Nat → N) (dh : H) (nm : H → H) (di : H) (s : St N H) (name : Option N) (ha : Option H) :
    let s' := (step dn dh nm di s (.create none name ha)).1
    ∃ d, s'.devs = s.devs ++ [d] ∧ s.puid < d.uid ∧ d.uid ∉ dkeys s.uidR ∧ d.uid ≠ s.loc.uid ∧
      s'.puid = d.uid ∧ s'.uidR = s.uidR ∧ s'.nameR = s.nameR ∧ s'.haR = s.haR := by
  have hf := findUid_fresh (usedUids s) (maxUid (usedUids s) + 1) s.puid (by omega)
  refine ⟨_, rfl, hf.2, ?_, ?_, rfl, rfl, rfl, rfl⟩
  · intro hm; exact hf.1 (by simp only [usedUids, List.mem_append]; exact .inl hm)
  · intro e; exact hf.1 (by simp only [usedUids, List.mem_append, List.mem_singleton]; exact .inr e)

/-- the same for an `IpRemoteDevice`; its address is the normalised one (or the default) -/
theorem C37_createIp_uid_fresh (dn : Nat → N) (dh : H) (nm : H → H) (di : H) (s : St N H) (name : Option N)
    (ha : Option H) :
    let s' := (step dn dh nm di s (.createIp none name ha)).1
    ∃ d, s'.devs = s.devs ++ [d] ∧ s.puid < d.uid ∧ d.uid ∉ dkeys s.uidR ∧ d.uid ≠ s.loc.uid ∧
      d.ha = ipHa nm di ha ∧ s'.puid = d.uid ∧ s'.uidR = s.uidR ∧ s'.nameR = s.nameR ∧ s'.haR = s.haR := by
  have hf := findUid_fresh (usedUids s) (maxUid (usedUids s) + 1) s.puid (by omega)
  refine ⟨_, rfl, hf.2, ?_, ?_, rfl, rfl, rfl, rfl, rfl⟩
  · intro hm; exact hf.1 (by simp only [usedUids, List.mem_append]; exact .inl hm)
  · intro e; exact hf.1 (by simp only [usedUids, List.mem_append, List.mem_singleton]; exact .inr e)

/-- an accepted `addRemote` appends the remote to all three indexes under its current keys; an accepted
`removeRemote` takes exactly that remote out of all three; `removeAllRemotes` empties them -/
theorem C37_add_remove_effect (dn : Nat → N) (dh : H) (nm : H → H) (di : H) (s : St N H) (h : Inv s) (r : Nat) (d : Dev N H)
    (hd : s.devs[r]? = some d) :
    ((step dn dh nm di s (.add r)).2 = .none →
      (step dn dh nm di s (.add r)).1 =
          { s with uidR := s.uidR ++ [(d.uid, r)], nameR := s.nameR ++ [(d.name, r)],
                                           haR := s.haR ++ [(d.ha, r)] }) ∧
    ((step dn dh nm di s (.remove r)).2 = .none →
      ids (step dn dh nm di s (.remove r)).1.uidR = (ids s.uidR).erase r ∧ r ∈ ids s.uidR) ∧
    (step dn dh nm di s .removeAll).1 =
          { s with uidR := [], nameR := [], haR := [] } := by
  refine ⟨?_, ?_, ?_⟩
  · intro hok
    simp only [step, hd] at hok ⊢
    by_cases c1 : (dhas s.uidR d.uid || d.uid == s.loc.uid) = true
    · simp only [c1, if_true] at hok; simp at hok
    by_cases c2 : (dhas s.nameR d.name || d.name == s.loc.name) = true
    · simp only [c1, c2, if_true] at hok; simp at hok
    by_cases c3 : (dhas s.haR d.ha || d.ha == s.loc.ha) = true
    · simp only [c1, c2, c3, if_true] at hok; simp at hok
    · rw [if_neg c1, if_neg c2, if_neg c3]
  · intro hok
    simp only [step, hd] at hok ⊢
    by_cases hm : r ∈ ids s.uidR
    · rw [(removeOne_ok dn dh nm di h hd hm).1]; exact ⟨(removeOne_ok dn dh nm di h hd hm).2.2, hm⟩
    · rw [removeOne_rejected h hm] at hok; simp at hok
  · simp only [step]
    obtain ⟨_, t2, t3, t4, t5, t6⟩ := removeList_ok dn dh nm di _ s h h.idsNodup (fun r hr => hr)
    have e0 : ids (step.removeList s (ids s.uidR)).1.uidR = [] := by
      rw [t3]; exact List.filter_eq_nil_iff.2 (by intro x hx; simpa using hx)
    have nil : ∀ {K : Type} (m : List (K × Nat)), ids m = [] → m = [] := by
      intro K m hm; cases m <;> simp_all [ids]
    have e1 := nil _ e0
    have e2 := nil _ (e0 ▸ t2.sameN).eq_nil
    have e3 := nil _ (e0 ▸ t2.sameH).eq_nil
    show (step.removeList s (ids s.uidR)).1 = _
    have eta : ∀ x : St N H, x = ⟨x.puid, x.loc, x.devs, x.uidR, x.nameR, x.haR⟩ := fun x => rfl
    rw [eta (step.removeList s (ids s.uidR)).1, t6, t5, t4, e1, e2, e3]

/-- **nothing is rejected without need**: on a consistent stack `addRemote` is accepted exactly when the
remote's uid, name and host address are all free (not indexed, not the local device's); `removeRemote`
exactly when that very object is indexed; a move to a different uid exactly when the uid is free and the
object is indexed (likewise rename / reha: `C37_step_keeps_consistent` is symmetric in the three). -/
theorem C37_accepted_iff (dn : Nat → N) (dh : H) (nm : H → H) (di : H) (s : St N H) (h : Inv s) (r : Nat) (d : Dev N H)
    (hd : s.devs[r]? = some d) :
    ((step dn dh nm di s (.add r)).2 = .none ↔
      (d.uid ∉ dkeys s.uidR ∧ d.uid ≠ s.loc.uid) ∧ (d.name ∉ dkeys s.nameR ∧ d.name ≠ s.loc.name) ∧
      (d.ha ∉ dkeys s.haR ∧ d.ha ≠ s.loc.ha)) ∧
    ((step dn dh nm di s (.remove r)).2 = .none ↔ r ∈ ids s.uidR) ∧
    (∀ new, new ≠ d.uid → ((step dn dh nm di s (.move r new)).2 = .none ↔
      new ∉ dkeys s.uidR ∧ new ≠ s.loc.uid ∧ r ∈ ids s.uidR)) := by
  refine ⟨?_, ?_, ?_⟩
  · simp only [step, hd]
    by_cases c1 : (dhas s.uidR d.uid || d.uid == s.loc.uid) = true
    · rw [if_pos c1]
      simp only [Bool.or_eq_true, beq_iff_eq, dhas_iff] at c1
      constructor
      · intro x; cases x
      · rintro ⟨⟨a, b⟩, _⟩; rcases c1 with c | c <;> contradiction
    rw [if_neg c1]
    by_cases c2 : (dhas s.nameR d.name || d.name == s.loc.name) = true
    · rw [if_pos c2]
      simp only [Bool.or_eq_true, beq_iff_eq, dhas_iff] at c2
      constructor
      · intro x; cases x
      · rintro ⟨_, ⟨a, b⟩, _⟩; rcases c2 with c | c <;> contradiction
    rw [if_neg c2]
    by_cases c3 : (dhas s.haR d.ha || d.ha == s.loc.ha) = true
    · rw [if_pos c3]
      simp only [Bool.or_eq_true, beq_iff_eq, dhas_iff] at c3
      constructor
      · intro x; cases x
      · rintro ⟨_, _, ⟨a, b⟩⟩; rcases c3 with c | c <;> contradiction
    rw [if_neg c3]
    simp only [Bool.or_eq_true, beq_iff_eq, dhas_iff, not_or] at c1 c2 c3
    exact ⟨fun _ => ⟨c1, c2, c3⟩, fun _ => rfl⟩
  · simp only [step, hd]
    by_cases hm : r ∈ ids s.uidR
    · rw [(removeOne_ok dn dh nm di h hd hm).1]; simp [hm]
    · rw [removeOne_rejected h hm]; simp [hm]
  · intro new hne
    simp only [step, hd, hne, if_false]
    by_cases c1 : (dhas s.uidR new || new == s.loc.uid) = true
    · rw [if_pos c1]
      simp only [Bool.or_eq_true, beq_iff_eq, dhas_iff] at c1
      constructor
      · intro x; cases x
      · rintro ⟨a, b, _⟩; rcases c1 with c | c <;> contradiction
    rw [if_neg c1]
    simp only [Bool.or_eq_true, beq_iff_eq, dhas_iff, not_or] at c1
    cases hg : dget s.uidR d.uid with
    | none =>
      simp only []
      constructor
      · intro x; cases x
      · rintro ⟨_, _, hm⟩; rw [(h.lookup hd hm).1] at hg; cases hg
    | some r' =>
      simp only []
      by_cases c2 : r' = r
      · subst c2
        simp only [ne_eq, not_true_eq_false, if_false, true_iff]
        exact ⟨c1.1, c1.2, mem_ids_of_dget hg⟩
      · simp only [ne_eq, c2, not_false_eq_true, if_true]
        constructor
        · intro x; cases x
        · rintro ⟨_, _, hm⟩
          rw [(h.lookup hd hm).1] at hg; cases hg; exact absurd rfl c2

/-! ### devices changed behind the stack's back -/

/-- every entry of an index other than object `r`'s is filed under the current value of the field -/
def CurExcept {K : Type} (fld : Dev N H → K) (devs : List (Dev N H)) (m : List (K × Nat)) (r : Nat) : Prop :=
  ∀ p ∈ m, p.2 ≠ r → ∃ d, devs[p.2]? = some d ∧ fld d = p.1

theorem Cur.set_except {K : Type} {fld : Dev N H → K} {devs : List (Dev N H)} {m : List (K × Nat)}
    (h : Cur fld devs m) (r : Nat) (d' : Dev N H) : CurExcept fld (devs.set r d') m r := by
  intro p hp hne
  obtain ⟨x, h1, h2⟩ := h p hp
  exact ⟨x, by rw [List.getElem?_set_ne (fun e => hne e.symm)]; exact h1, h2⟩

/-- **which index invariants survive a direct assignment** (`remote.name = new` without `renameRemote`, or the
same device object re-keyed by another stack).  The indexes themselves are untouched, so what survives is:
no duplicate keys, no remote twice, the three indexes hold the same remotes, no key equals the local device's,
and every entry of the TWO OTHER indexes is still under its current key; in the index of the assigned field every
entry except that device's is.  What is lost is exactly "the device is indexed under its current name" — unless
the device is not indexed (then nothing is lost) or the value is unchanged. -/
theorem C37_direct_assignment_survivors (s s' : St N H) (h : Inv s) (t : Tamper N H) (ht : tamper s t = some s') :
    (dkeys s'.uidR).Nodup ∧ (dkeys s'.nameR).Nodup ∧ (dkeys s'.haR).Nodup ∧ (ids s'.uidR).Nodup ∧
    (ids s'.nameR).Perm (ids s'.uidR) ∧ (ids s'.haR).Perm (ids s'.uidR) ∧
    s'.loc.uid ∉ dkeys s'.uidR ∧ s'.loc.name ∉ dkeys s'.nameR ∧ s'.loc.ha ∉ dkeys s'.haR ∧
    (match t with
     | .setUid r _ => CurExcept Dev.uid s'.devs s'.uidR r ∧ Cur Dev.name s'.devs s'.nameR ∧ Cur Dev.ha s'.devs s'.haR ∧
         (r ∉ ids s.uidR → Inv s')
     | .setName r _ => Cur Dev.uid s'.devs s'.uidR ∧ CurExcept Dev.name s'.devs s'.nameR r ∧ Cur Dev.ha s'.devs s'.haR ∧
         (r ∉ ids s.uidR → Inv s')
     | .setHa r _ => Cur Dev.uid s'.devs s'.uidR ∧ Cur Dev.name s'.devs s'.nameR ∧ CurExcept Dev.ha s'.devs s'.haR r ∧
         (r ∉ ids s.uidR → Inv s')) := by
  have full : ∀ {K : Type} (fld : Dev N H → K) (m : List (K × Nat)) (r : Nat) (d' : Dev N H),
      Cur fld s.devs m → r ∉ ids m → Cur fld (s.devs.set r d') m := by
    intro K fld m r d' hc hr p hp
    have hne : p.2 ≠ r := fun e => hr (e ▸ List.mem_map.2 ⟨p, hp, rfl⟩)
    exact hc.set_except r d' p hp hne
  cases t with
  | setUid r new =>
    simp only [tamper] at ht
    cases hd : s.devs[r]? with
    | none => simp [hd] at ht
    | some d =>
      simp only [hd, Option.map_some, Option.some.injEq] at ht; subst ht
      refine ⟨h.nodupU, h.nodupN, h.nodupH, h.idsNodup, h.sameN, h.sameH, h.locU, h.locN, h.locH,
        h.curU.set_except r _, h.curN.set_other hd rfl, h.curH.set_other hd rfl, ?_⟩
      intro hr
      exact { h with curU := full _ _ r _ h.curU hr, curN := h.curN.set_other hd rfl, curH := h.curH.set_other hd rfl }
  | setName r new =>
    simp only [tamper] at ht
    cases hd : s.devs[r]? with
    | none => simp [hd] at ht
    | some d =>
      simp only [hd, Option.map_some, Option.some.injEq] at ht; subst ht
      refine ⟨h.nodupU, h.nodupN, h.nodupH, h.idsNodup, h.sameN, h.sameH, h.locU, h.locN, h.locH,
        h.curU.set_other hd rfl, h.curN.set_except r _, h.curH.set_other hd rfl, ?_⟩
      intro hr
      exact { h with curU := h.curU.set_other hd rfl,
                     curN := full _ _ r _ h.curN (fun x => hr (h.sameN.mem_iff.1 x)), curH := h.curH.set_other hd rfl }
  | setHa r new =>
    simp only [tamper] at ht
    cases hd : s.devs[r]? with
    | none => simp [hd] at ht
    | some d =>
      simp only [hd, Option.map_some, Option.some.injEq] at ht; subst ht
      refine ⟨h.nodupU, h.nodupN, h.nodupH, h.idsNodup, h.sameN, h.sameH, h.locU, h.locN, h.locH,
        h.curU.set_other hd rfl, h.curN.set_other hd rfl, h.curH.set_except r _, ?_⟩
      intro hr
      exact { h with curU := h.curU.set_other hd rfl, curN := h.curN.set_other hd rfl,
                     curH := full _ _ r _ h.curH (fun x => hr (h.sameH.mem_iff.1 x)) }

end

/-! non-vacuity: the sequence of the unit test, then a second remote, collisions and removal -/
section Examples
def dnE (u : Nat) : Nat := 100 + u
/-- "host normalisation" on numbers: 10, 20, 30 are spellings of 1 -/
def nmE (h : Nat) : Nat := if h = 10 ∨ h = 20 ∨ h = 30 then 1 else h
def s0 : St Nat Nat := init dnE 0 0 none none none
def opsE : List (Op Nat Nat) :=
  [.create none none (some 7), .add 0, .add 0, .move 0 3, .rename 0 55, .reha 0 8,
   .create none none (some 9), .create (some 3) (some 1) (some 2), .add 1, .add 2, .move 1 3, .move 1 7,
   .remove 2, .reha 1 0, .remove 0]
example : Inv s0 := (C37_init_consistent dnE 0 nmE 0 _ _ _ _).1
/-- a stack constructed with caller-supplied indexes that list the three remotes in different orders
(uid order 0,1,2; name order 2,0,1; ha order 1,2,0) is consistent, so every theorem above applies to it -/
def sPre : St Nat Nat :=
  initWith dnE 0 0 (some 1) none none [⟨10, 52, 93⟩, ⟨11, 53, 91⟩, ⟨12, 51, 92⟩]
    [(10, 0), (11, 1), (12, 2)] [(51, 2), (52, 0), (53, 1)] [(91, 1), (92, 2), (93, 0)]
example : Inv sPre := by
  refine ⟨by decide, by decide, by decide, by decide, by decide, by decide, ?_, ?_, ?_, by decide, by decide, by decide⟩ <;>
    (intro p hp; simp [sPre, initWith, init] at hp; rcases hp with rfl | rfl | rfl <;> simp [sPre, initWith, init])
/-- renaming the remote that is first in name order and last in uid order keeps it first in name order -/
example : (step dnE 0 nmE 0 sPre (.rename 2 50)).1.nameR = [(50, 2), (52, 0), (53, 1)] := by decide
example : (step dnE 0 nmE 0 sPre (.reha 0 90)).1.haR = [(91, 1), (92, 2), (90, 0)] := by decide
/-- Ip devices: the address is normalised when the device is created, not when it is re-addressed: two
remotes created at 10 and 20 (both spellings of 1) cannot both be added; `reha` to 30 files the remote under 30 -/
example : (run (step dnE 0 nmE 0) (initIp dnE nmE 0 0 none none (some 5))
    [.createIp none none (some 10), .createIp none none (some 20), .add 0, .add 1, .reha 0 30, .add 1]) =
    ({ puid := 3, loc := ⟨1, 101, 5⟩, devs := [⟨2, 102, 30⟩, ⟨3, 103, 1⟩], uidR := [(2, 0), (3, 1)],
       nameR := [(102, 0), (103, 1)], haR := [(30, 0), (1, 1)] },
     [.ref 0, .ref 1, .none, .rejected, .none, .none]) := by decide
example : (run (step dnE 0 nmE 0) s0 opsE).2 =
    [.ref 0, .none, .rejected, .none, .none, .none, .ref 1, .ref 2, .none, .rejected, .rejected, .none,
     .rejected, .rejected, .none] := by decide
example : (run (step dnE 0 nmE 0) s0 (opsE.take 12)).1 =
    { puid := 4, loc := ⟨1, 101, 0⟩, devs := [⟨3, 55, 8⟩, ⟨7, 104, 9⟩, ⟨3, 1, 2⟩],
      uidR := [(3, 0), (7, 1)], nameR := [(55, 0), (104, 1)], haR := [(8, 0), (9, 1)] } := by decide
/-- the uid loop skips uids in use: puid 1, remotes at 2 and 3 (moved there) → the next device gets 4 -/
example : ((run (step dnE 0 nmE 0) s0 [.create none none (some 7), .add 0, .create none none (some 8), .add 1,
    .create none none (some 9)]).1.devs.map Dev.uid) = [2, 3, 4] := by decide
example : ((run (step dnE 0 nmE 0) s0 [.create (some 2) none (some 7), .add 0, .create (some 3) none (some 8), .add 1,
    .create none none (some 9)]).1.devs.map Dev.uid) = [2, 3, 4] := by decide
/-- **what is lost**: after `remote.name = …` behind the stack's back, `removeRemote(remote)` deletes the uid entry,
then fails with KeyError on the name index and leaves the remote in the name and ha indexes only: the three
indexes no longer hold the same remotes (so C37 is a property of histories made of the stack's own methods) -/
theorem C37_counterexample_direct_assignment :
    ∃ s1 s2 : St Nat Nat, Inv s0 ∧ (run (step dnE 0 nmE 0) s0 [.create none none (some 7), .add 0]).1 = s1 ∧
      tamper s1 (.setName 0 55) = some s2 ∧
      step dnE 0 nmE 0 s2 (.remove 0) =
        ({ s2 with uidR := [] }, .crashed .KeyError) ∧ s2.nameR = [(102, 0)] ∧ s2.haR = [(7, 0)] := by
  refine ⟨_, _, (C37_init_consistent dnE 0 nmE 0 _ _ _ _).1, rfl, rfl, ?_, ?_, ?_⟩ <;> decide

end Examples

end Ioflo.Remotes
