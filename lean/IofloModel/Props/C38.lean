import IofloModel.Lemmas.Exchange
/-!
# C38 — exchanges time out and retransmit on schedule

Property theorems only.  Model: `Model/Exchange.lean` (transcription of
`ioflo/aio/proto/exchanging.py` with `timing.StoreTimer`; exact time in ticks).

* `Variant.repaired` is the constructor after `fixes/D22-exchange-redotimeout-nameerror.patch`;
  `Variant.asIs` is the unchanged tree, where passing a redo timeout raises `NameError`
  (`C38_counterexample_asis`).
* The schedule theorems hold for *every* sequence of passive calls (`advance` by any amount,
  `process`, `send` of a new message, `receive`) on *every* exchange whose timers are in the state
  the constructor / `start` leave them in — all timeout and redo settings, all stamp schedules.
-/
namespace Ioflo.Exchange

/-! ## creation -/

/-- **An exchange can be created with any combination of timeout and redo-timeout settings**
(given or defaulted, zero, negative), at any time; the settings are stored as given, the flags are
clear and both timers run from the creation time for the absolute value of their setting. -/
theorem C38_create_any_combination (k : Kind) (stamp : Int) (timeout redo : Option Int) (tx rx : Option Nat) :
    ∃ e, create .repaired k stamp timeout redo tx rx = .ok e ∧
      e.timeout = (match timeout with | some x => x | none => k.defTimeout) ∧
      e.redoTimeout = (match redo with | some x => x | none => k.defRedo) ∧
      e.timer.stop = iabs stamp + iabs e.timeout ∧ e.redoTimer.stop = iabs stamp + iabs e.redoTimeout ∧
      e.redoTimer.start = iabs stamp ∧
      e.tx = tx ∧ e.rx = rx ∧ e.done = false ∧ e.failed = false ∧ WFr e := by
  cases timeout <;> cases redo <;> simp [create, Timer.new, WFr]

example : ∃ e, create .repaired .exchanger 0 (some 0) (some 256) (some 7) none = .ok e ∧ e.redoTimeout = 256 :=
  ⟨_, rfl, rfl⟩

/-- **D22 on the unpatched constructor**: with a redo timeout given, creation raises `NameError`
whatever the other settings are. -/
theorem C38_counterexample_asis (k : Kind) (stamp : Int) (timeout : Option Int) (r : Int) (tx rx : Option Nat) :
    create .asIs k stamp timeout (some r) tx rx = .error .nameError := by
  cases timeout <;> rfl

/-! ## the running phase -/

/-- **Retransmission and timeout schedule.**  From any exchange whose timers are well formed
(as `create` and `start` leave them), over any sequence of passive calls, the record of the calls
follows the reference schedule `Sched`: a `process` call queues exactly the latest message when a
full redo interval has elapsed since the interval was last (re)started — and then restarts the
interval at the time of that call — queues nothing otherwise, and queues nothing once the overall
timeout (if positive) has elapsed. -/
theorem C38_redo_once_per_interval (v : Variant) (w : World) (e : Exch) (ops : List Op)
    (hw : w.ex = some e) (hwf : WFr e) (hp : ops.all Op.passive = true) :
    Sched e.timeout e.timer.stop e.redoTimeout e.redoTimer.start e.tx (run v w ops).2 := by
  obtain ⟨_, _, _, _, _, _, h, _⟩ := run_passive v ops w e hw hwf hp
  exact h

/-- **It fails exactly when its overall timeout elapses**: after any sequence of passive calls the
exchange is failed (and done) iff the timeout is positive and some `process` call was made at or
after the time the timeout elapsed. -/
theorem C38_fails_iff_timeout_first (v : Variant) (w : World) (e : Exch) (ops : List Op)
    (hw : w.ex = some e) (hwf : WFr e) (hp : ops.all Op.passive = true) (hf : e.failed = false) :
    ∃ e', (run v w ops).1.ex = some e' ∧
      (e'.failed = true ↔ 0 < e.timeout ∧ ∃ r ∈ (run v w ops).2, r.op = .process ∧ e.timer.stop ≤ r.stamp) ∧
      (e'.failed = true → e'.done = true) := by
  obtain ⟨e', h1, _, _, _, _, _, h7, h8⟩ := run_passive v ops w e hw hwf hp
  refine ⟨e', h1, ?_, ?_⟩
  · rw [h7, hf, Bool.false_or, timedOut_iff]
  · intro h
    rw [h7, hf, Bool.false_or] at h
    rw [h8, h, Bool.or_true]

/-- … *first*: a `process` call at which the timeout has elapsed queues nothing, even when a redo
interval has elapsed at the same time. -/
theorem C38_timeout_takes_precedence (t : Int) (e : Exch) (h : 0 < e.timeout ∧ e.timer.stop ≤ t) :
    (process t e).2.queued = [] ∧ (process t e).1.failed = true ∧ (process t e).1.done = true := by
  rw [process_timeout t e h]; simp [fail]

/-- **No retransmission at or after the timeout**, over whole histories. -/
theorem C38_no_redo_after_timeout (v : Variant) (w : World) (e : Exch) (ops : List Op)
    (hw : w.ex = some e) (hwf : WFr e) (hp : ops.all Op.passive = true) :
    ∀ r ∈ (run v w ops).2, r.op = .process → 0 < e.timeout → e.timer.stop ≤ r.stamp → r.out.queued = [] :=
  Sched_quiet_after_timeout _ _ _ (C38_redo_once_per_interval v w e ops hw hwf hp)

/-- **A timeout of zero (or less) never expires**: whatever the schedule, `process` never fails
the exchange. -/
theorem C38_timeout_zero_never_expires (v : Variant) (w : World) (e : Exch) (ops : List Op)
    (hw : w.ex = some e) (hwf : WFr e) (hp : ops.all Op.passive = true) (hf : e.failed = false)
    (hT : e.timeout ≤ 0) :
    ∃ e', (run v w ops).1.ex = some e' ∧ e'.failed = false ∧ e'.done = e.done := by
  obtain ⟨e', h1, _, _, _, _, _, h7, h8⟩ := run_passive v ops w e hw hwf hp
  have hno : timedOut e.timeout e.timer.stop (run v w ops).2 = false := by
    cases h : timedOut e.timeout e.timer.stop (run v w ops).2 with
    | false => rfl
    | true => have := (timedOut_iff _ _ _).mp h; omega
  exact ⟨e', h1, by rw [h7, hf, hno]; rfl, by rw [h8, hno, Bool.or_false]⟩

/-- **At most one retransmission per redo interval**: the times at which `process` retransmits
are pairwise at least one redo interval apart, and the first is at least one interval after the
interval was started. -/
theorem C38_redo_spacing (v : Variant) (w : World) (e : Exch) (ops : List Op)
    (hw : w.ex = some e) (hwf : WFr e) (hp : ops.all Op.passive = true) :
    Spaced e.redoTimeout e.redoTimer.start (redoStamps (run v w ops).2) :=
  Sched_spaced _ _ _ (C38_redo_once_per_interval v w e ops hw hwf hp) _ (Int.le_refl _)

/-- … so the `n`-th retransmission happens no earlier than `n` redo intervals after the start. -/
theorem C38_redo_count_bound (v : Variant) (w : World) (e : Exch) (ops : List Op)
    (hw : w.ex = some e) (hwf : WFr e) (hp : ops.all Op.passive = true)
    (i : Nat) (h : i < (redoStamps (run v w ops).2).length) :
    e.redoTimer.start + e.redoTimeout * ((i : Int) + 1) ≤ (redoStamps (run v w ops).2)[i] :=
  Spaced_nth _ _ (C38_redo_spacing v w e ops hw hwf hp) i h

/-- **Once each time the redo interval elapses, exactly**: an exchange whose redo interval `R > 0`
was (re)started at `s`, with a message to send and no timeout in reach, polled at every tick,
retransmits at exactly the stamps `x` with `R ∣ x - s` — `s + R, s + 2R, …` — and at no other. -/
theorem C38_redo_exact_when_polled (v : Variant) (s : Int) (m : Nat) (n : Nat) : ∀ (w : World) (e : Exch),
    w.ex = some e → WFr e → 0 < e.redoTimeout → e.tx = some m →
    e.redoTimer.start = w.stamp - (w.stamp - s) % e.redoTimeout →
    (e.timeout ≤ 0 ∨ w.stamp + n < e.timer.stop) →
    redoStamps (run v w (poll n)).2 = (pollStamps w.stamp n).filter (fun x => (x - s) % e.redoTimeout == 0) := by
  induction n with
  | zero => intro w e _ _ _ _ _ _; rfl
  | succ n ih =>
    intro w e hw hwf hR htx hst hT
    have hmod := Int.emod_nonneg (w.stamp - s) (show e.redoTimeout ≠ 0 by omega)
    have hlt := Int.emod_lt_of_pos (w.stamp - s) hR
    -- the world after the tick
    let w1 : World := { w with stamp := w.stamp + 1 }
    have hw1 : w1.ex = some e := hw
    have hnoT : ¬ (0 < e.timeout ∧ e.timer.stop ≤ w1.stamp) := by
      intro ⟨a, b⟩
      have : w1.stamp = w.stamp + 1 := rfl
      rcases hT with h | h <;> omega
    have hrun : run v w (poll (n + 1)) =
        ((run v (step v w1 .process).1 (poll n)).1,
          ⟨.advance 1, w.stamp, ⟨[], none⟩⟩ :: ⟨.process, w1.stamp, (step v w1 .process).2⟩ ::
            (run v (step v w1 .process).1 (poll n)).2) := rfl
    rw [hrun]
    simp only [pollStamps, List.filter_cons]
    rw [redoStamps_cons_other _ _ (by simp), redoStamps_cons_process _ _ rfl]
    have hx1 : w.stamp + 1 - s = (w.stamp - s) + 1 := by omega
    by_cases hdue : (w.stamp - s) % e.redoTimeout + 1 = e.redoTimeout
    · -- a full interval has elapsed at this tick
      have hz : (w.stamp + 1 - s) % e.redoTimeout = 0 := by rw [hx1]; exact emod_succ_wrap _ _ hR hdue
      have hR' : 0 < e.redoTimeout ∧ e.redoTimer.start + e.redoTimeout ≤ w1.stamp := by
        refine ⟨hR, ?_⟩
        have : w1.stamp = w.stamp + 1 := rfl
        omega
      have hs : step v w1 .process =
          ({ w1 with ex := some { e with redoTimer := e.redoTimer.restart w1.stamp },
                     queue := w1.queue ++ e.tx.toList }, ⟨e.tx.toList, none⟩) := by
        simp [step, World.call, hw1, process_redo w1.stamp e hwf hnoT hR']
      rw [hs]
      have hq : (e.tx.toList ≠ []) := by rw [htx]; simp
      rw [if_pos hq]
      simp only [hz, beq_self_eq_true, if_true]
      show w1.stamp :: _ = w1.stamp :: _
      congr 1
      have hwf' : WFr { e with redoTimer := e.redoTimer.restart w1.stamp } :=
        ⟨by simpa [Timer.restart] using hwf.1, by simp [Timer.restart], hwf.2.2.1, hwf.2.2.2⟩
      have := ih { w1 with ex := some { e with redoTimer := e.redoTimer.restart w1.stamp },
                           queue := w1.queue ++ e.tx.toList }
        { e with redoTimer := e.redoTimer.restart w1.stamp } rfl hwf' hR htx
        (by show w1.stamp = w1.stamp - (w1.stamp - s) % e.redoTimeout
            have : w1.stamp - s = w.stamp + 1 - s := rfl
            rw [this, hz]; omega)
        (by rcases hT with h | h
            · exact Or.inl h
            · right; show w.stamp + 1 + (n : Int) < e.timer.stop; push_cast at h; omega)
      exact this
    · -- not yet
      have hlt2 : (w.stamp - s) % e.redoTimeout + 1 < e.redoTimeout := by omega
      have hz : (w.stamp + 1 - s) % e.redoTimeout = (w.stamp - s) % e.redoTimeout + 1 := by
        rw [hx1]; exact emod_succ_lt _ _ hR hlt2
      have hR' : ¬ (0 < e.redoTimeout ∧ e.redoTimer.start + e.redoTimeout ≤ w1.stamp) := by
        intro ⟨_, b⟩
        have : w1.stamp = w.stamp + 1 := rfl
        omega
      have hs : step v w1 .process = ({ w1 with ex := some e, queue := w1.queue }, ⟨[], none⟩) := by
        simp [step, World.call, hw1, process_idle w1.stamp e hwf hnoT hR']
      rw [hs]
      have hnz : ¬ ((w.stamp + 1 - s) % e.redoTimeout = 0) := by rw [hz]; omega
      simp only [ne_eq, not_true_eq_false, if_false, beq_iff_eq, hnz]
      have := ih { w1 with ex := some e, queue := w1.queue } e rfl hwf hR htx
        (by show e.redoTimer.start = w1.stamp - (w1.stamp - s) % e.redoTimeout
            have : w1.stamp - s = w.stamp + 1 - s := rfl
            rw [this, hz, hst]
            show _ = w.stamp + 1 - _; omega)
        (by rcases hT with h | h
            · exact Or.inl h
            · right; show w.stamp + 1 + (n : Int) < e.timer.stop; push_cast at h; omega)
      exact this


/-- non-vacuity: redo interval 3 ticks started at 10, polled for 10 ticks: retransmits at 13, 16, 19 -/
def pollDemo : Exch :=
  { kind := Kind.exchanger, timeout := 0, timer := Timer.new 10 0, redoTimeout := 3, redoTimer := Timer.new 10 3, tx := some 7, rx := none, «done» := false, failed := false, acked := false }

example : redoStamps (run .repaired ⟨10, some pollDemo, []⟩ (poll 10)).2 = [13, 16, 19] := by decide

example : (pollStamps 10 10).filter (fun x => (x - 10) % 3 == 0) = [13, 16, 19] := by decide

/-! ## a started exchanger -/

/-- `Exchanger.start(m)` at time `s` queues `m` once, clears the flags, and leaves the timers well
formed with the overall timeout elapsing at `s + |timeout|` and the first redo interval starting at `s`. -/
theorem C38_start_exchanger (s : Int) (e : Exch) (m : Nat) (hk : e.kind = .exchanger) (hwf : WFr e) :
    (start s e (some m)).2 = ⟨[m], none⟩ ∧ WFr (start s e (some m)).1 ∧
    (start s e (some m)).1.timeout = e.timeout ∧ (start s e (some m)).1.redoTimeout = e.redoTimeout ∧
    (start s e (some m)).1.timer.stop = s + iabs e.timeout ∧ (start s e (some m)).1.redoTimer.start = s ∧
    (start s e (some m)).1.tx = some m ∧ (start s e (some m)).1.failed = false ∧
    (start s e (some m)).1.done = false := by
  obtain ⟨h1, h2, h3, h4⟩ := hwf
  simp [start, hk, send, prepStart, Timer.restart, WFr, h1, h3]

/-- well-formedness of the timers is an invariant of *every* call, so the hypothesis `WFr` of the
theorems above holds in every reachable state -/
theorem C38_timers_well_formed_always (v : Variant) (ops : List Op) : ∀ (w : World),
    (∀ e, w.ex = some e → WFr e) → ∀ e', (run v w ops).1.ex = some e' → WFr e' := by
  induction ops with
  | nil => intro w h e' he; exact h e' he
  | cons op ops ih =>
    intro w h e' he
    rw [run_cons] at he
    refine ih (step v w op).1 ?_ e' he
    intro e2 he2
    cases hex : w.ex with
    | none =>
      cases op <;> simp [step, World.call, hex] at he2
      rename_i k t r tx rx
      cases hc : create v k w.stamp t r tx rx with
      | error err => simp [hc] at he2
      | ok e3 => simp [hc] at he2; subst he2; exact create_wf hc
    | some e =>
      have hwf := h e hex
      obtain ⟨h1, h2, h3, h4⟩ := hwf
      cases op with
      | create k t r tx rx =>
        simp only [step] at he2
        cases hc : create v k w.stamp t r tx rx with
        | error err => simp [hc] at he2
        | ok e3 => simp [hc] at he2; subst he2; exact create_wf hc
      | advance dt => simp [step, hex] at he2; subst he2; exact ⟨h1, h2, h3, h4⟩
      | receive rx => simp [step, World.call, hex] at he2; subst he2; exact ⟨h1, h2, h3, h4⟩
      | finish => simp [step, World.call, hex] at he2; subst he2; exact ⟨h1, h2, h3, h4⟩
      | fail => simp [step, World.call, hex, fail] at he2; subst he2; exact ⟨h1, h2, h3, h4⟩
      | run => simp [step, World.call, hex] at he2; subst he2; exact ⟨h1, h2, h3, h4⟩
      | send via tx =>
        simp only [step, World.call, hex] at he2
        cases tx with
        | none =>
          cases htx : e.tx <;> simp [send, htx] at he2 <;> subst he2 <;> exact ⟨h1, h2, h3, h4⟩
        | some m => simp [send] at he2; subst he2; exact ⟨h1, h2, h3, h4⟩
      | process =>
        simp only [step, World.call, hex] at he2
        by_cases hT : 0 < e.timeout ∧ e.timer.stop ≤ w.stamp
        · rw [process_timeout _ _ hT] at he2; simp [fail] at he2; subst he2; exact ⟨h1, h2, h3, h4⟩
        · by_cases hR : 0 < e.redoTimeout ∧ e.redoTimer.start + e.redoTimeout ≤ w.stamp
          · rw [process_redo _ _ ⟨h1, h2, h3, h4⟩ hT hR] at he2
            simp at he2; subst he2
            exact ⟨by simpa [Timer.restart] using h1, by simp [Timer.restart], h3, h4⟩
          · rw [process_idle _ _ ⟨h1, h2, h3, h4⟩ hT hR] at he2
            simp at he2; subst he2; exact ⟨h1, h2, h3, h4⟩
      | start arg =>
        simp only [step, World.call, hex] at he2
        cases hk : e.kind with
        | exchange => simp [start, hk, prepStart] at he2; subst he2; exact ⟨h1, h2, h3, h4⟩
        | exchanger =>
          cases arg with
          | some m =>
            simp [start, hk, prepStart, send] at he2; subst he2
            simp [WFr, Timer.restart, h1, h3]
          | none =>
            cases htx : e.tx <;> simp [start, hk, prepStart, send, htx] at he2 <;> subst he2 <;>
              simp [WFr, Timer.restart, h1, h3]
        | exchangent =>
          cases arg with
          | some m =>
            simp [start, hk, prepStart] at he2; subst he2
            simp [WFr, Timer.restart, h1, h3]
          | none =>
            cases hrx : e.rx <;> simp [start, hk, prepStart, hrx] at he2 <;> subst he2 <;>
              simp [WFr, Timer.restart, h1, h3]

/-- **End to end**: an `Exchanger` created at any time `s = w.stamp` with any timeout `T` and any redo
interval `R`, then started with message `m`: `m` is queued once by `start`; from then on, over any
sequence of passive calls, `process` retransmits the latest message exactly when a full interval `R`
has elapsed since the previous (re)transmission time — at most once per interval, never at or after
`s + T` when `T > 0` — and the exchange fails iff `T > 0` and `process` is called at or after `s + T`. -/
theorem C38_started_exchanger_schedule (w : World) (T R : Int) (tx rx : Option Nat) (m : Nat)
    (ops : List Op) (hp : ops.all Op.passive = true) :
    let w1 := (step .repaired w (.create .exchanger (some T) (some R) tx rx)).1
    let w2 := (step .repaired w1 (.start (some m))).1
    w2.queue = w.queue ++ [m] ∧
    Sched T (w.stamp + iabs T) R w.stamp (some m) (run .repaired w2 ops).2 ∧
    Spaced R w.stamp (redoStamps (run .repaired w2 ops).2) ∧
    ∃ e', (run .repaired w2 ops).1.ex = some e' ∧
      (e'.failed = true ↔ 0 < T ∧ ∃ r ∈ (run .repaired w2 ops).2, r.op = .process ∧ w.stamp + T ≤ r.stamp) := by
  intro w1 w2
  obtain ⟨e0, hc, ht, hr, _, _, _, _, _, _, _, hwf0⟩ :=
    C38_create_any_combination .exchanger w.stamp (some T) (some R) tx rx
  have hk : e0.kind = .exchanger := by simp [create] at hc; subst hc; rfl
  have hw1 : w1 = { w with ex := some e0 } := by simp [w1, step, hc]
  obtain ⟨s1, s2, s3, s4, s5, s6, s7, s8, s9⟩ := C38_start_exchanger w.stamp e0 m hk hwf0
  have hw2 : w2 = { w with ex := some (start w.stamp e0 (some m)).1, queue := w.queue ++ [m] } := by
    simp only [w2, hw1, step, World.call]
    rw [s1]
  have hex : w2.ex = some (start w.stamp e0 (some m)).1 := by rw [hw2]
  refine ⟨by rw [hw2], ?_, ?_, ?_⟩
  · have := C38_redo_once_per_interval .repaired w2 _ ops hex s2 hp
    rw [s3, s4, s5, s6, s7] at this
    simpa [ht, hr] using this
  · have := C38_redo_spacing .repaired w2 _ ops hex s2 hp
    rw [s4, s6] at this
    simpa [hr] using this
  · obtain ⟨e', h1, h2, _⟩ := C38_fails_iff_timeout_first .repaired w2 _ ops hex s2 hp s8
    refine ⟨e', h1, ?_⟩
    rw [h2, s3, s5]
    simp only [ht]
    constructor
    · rintro ⟨hT, r, hr1, hr2, hr3⟩
      exact ⟨hT, r, hr1, hr2, by rw [iabs_of_pos hT] at hr3; exact hr3⟩
    · rintro ⟨hT, r, hr1, hr2, hr3⟩
      exact ⟨hT, r, hr1, hr2, by rw [iabs_of_pos hT]; exact hr3⟩

/-- non-vacuity and the probe of the design round: timeout 2 s, redo 0.5 s, `process` every 1/8 s —
the message goes out at 0, 0.5, 1.0, 1.5 s; at 2.0 s both intervals have elapsed and the exchange
fails without a fifth copy. -/
example :
    let ops : List Op := [.create .exchanger (some 2048) (some 512) none none, .start (some 1)] ++
      (List.replicate 17 [.advance 128, .process]).flatten
    (run .repaired World.init ops).1.queue = [1, 1, 1, 1] ∧
    redoStamps (run .repaired World.init ops).2 = [512, 1024, 1536] ∧
    ((run .repaired World.init ops).1.ex.map (·.failed)) = some true := by decide

/-- timeout 0: never fails, keeps retransmitting -/
example :
    let ops : List Op := [.create .exchanger (some 0) (some 256) none none, .start (some 1)] ++
      (List.replicate 40 [.advance 128, .process]).flatten
    redoStamps (run .repaired World.init ops).2 =
      [256, 512, 768, 1024, 1280, 1536, 1792, 2048, 2304, 2560, 2816, 3072, 3328, 3584, 3840, 4096, 4352,
       4608, 4864, 5120] ∧
    ((run .repaired World.init ops).1.ex.map (·.failed)) = some false := by decide

/-! ## other time types -/

/-- **The theorems above are about the same definitions the driver runs on floats.**  `gstep`/`grun` are the
model's definitions written over an arbitrary time type (`Tick τ`: `+`, `≤`, `0 <`, `abs`); instantiated at
`Int` they are, call by call, the model of this file — state and outputs — for every history.  The driver
instantiates the very same `grun` at `Float` (IEEE binary64, CPython's `float`) for schedules off the dyadic
grid (e.g. `Exchangent.RedoTimeout = 0.1`), where the check demands bit-for-bit equal behaviour. -/
theorem C38_generic_definitions_at_int_are_the_model (v : Variant) (ops : List (GOp Int)) (w : GWorld Int) :
    toWorld (grun defsInt v w ops).1 = (run v (toWorld w) (ops.map toOp)).1 ∧
    (grun defsInt v w ops).2 = (run v (toWorld w) (ops.map toOp)).2.map (·.out) :=
  grun_int v ops w

/-- the unit of time is arbitrary: nothing in the schedule theorems refers to a grid — `Int` ticks of
1/q s represent every rational schedule with denominators dividing `q` exactly (the operations are only
`+`, `≤`, `0 <`, `abs`, all invariant under scaling), so `C38_redo_once_per_interval`, `C38_redo_spacing`,
`C38_redo_count_bound`, `C38_fails_iff_timeout_first` hold for all rational time values.  Example: thirds of
a second (q = 3): timeout 7/3 s, redo 1/3 s, polled every 1/3 s. -/
example :
    redoStamps (run .repaired World.init ([.create .exchanger (some 7) (some 1) none none, .start (some 1)] ++
      poll 8)).2 = [1, 2, 3, 4, 5, 6] ∧
    ((run .repaired World.init ([.create .exchanger (some 7) (some 1) none none, .start (some 1)] ++
      poll 8)).1.ex.map (·.failed)) = some true := by decide

end Ioflo.Exchange
