import IofloModel.Lemmas.Containers
import IofloModel.Lemmas.OsetLinks
import IofloModel.Lemmas.ModictLists
/-!
# C39 — ordered dictionaries and ordered sets behave like their models

Property theorems.  Implementation model: `Model/Containers.lean` (transcription of
`ioflo/aid/odicting.py`, `ioflo/aid/osetting.py` + fixes D23/D39a/D39b); reference containers:
`Model/ContainersSpec.lean`.
-/
namespace Ioflo.Containers
set_option linter.unusedSectionVars false

section ODict
variable {K V : Type} [DecidableEq K] [DecidableEq V]

/-- the call as the reference dictionary sees it: by-reference arguments become the dictionaries they represent -/
def Op.toA : Op K V → AOp K V
  | .setitem k v => .setitem k v | .delitem k => .delitem k | .getitem k => .getitem k
  | .contains k => .contains k | .get k d => .get k d | .len => .len | .keys => .keys
  | .values => .values | .items => .items | .append k v => .append k v | .clear => .clear
  | .copy => .copy | .create ps => .create ps | .sift fs => .sift fs | .insert i k v => .insert i k v
  | .pop k d => .pop k d | .popitem => .popitem | .reorder o => .reorder (absOf o)
  | .reorderBad => .reorderBad | .setdefault k d => .setdefault k d | .update ps => .update ps
  | .eq o => .eq (absOf o) | .reversed => .reversed | .ior ps => .ior ps | .or ps => .or ps
  | .pickle => .pickle | .pickleLegacy => .pickleLegacy

/-- objects passed by reference are well formed -/
def Op.ArgsInv : Op K V → Prop
  | .reorder o => Inv o
  | .eq o => Inv o
  | _ => True

def Out.toA : Out K V → AOut K V
  | .none => .none | .err e => .err e | .val v => .val v | .bool b => .bool b | .nat n => .nat n
  | .keys l => .keys l | .vals l => .vals l | .items l => .items l | .item k v => .item k v
  | .obj o => .obj (absOf o)

/-- a returned object is well formed -/
def Out.ObjInv : Out K V → Prop
  | .obj o => Inv o
  | _ => True

/-- **odict, one call.**  If the object `s` represents the ordered dictionary `m` (`_keys` and the dict part
in step, no duplicates) then after any call it represents what the reference dictionary gives for that
call, it returns/raises the same, and any object it returns is well formed. -/
theorem C39_odict_refines_ordered_map (s : OD K V) (m : List (K × V)) (op : Op K V)
    (h : Rel s m) (ha : op.ArgsInv) :
    Rel (OD.step s op).1 (Spec.step m op.toA).1 ∧ (OD.step s op).2.toA = (Spec.step m op.toA).2 ∧
      (OD.step s op).2.ObjInv := by
  cases op with
  | setitem k v => exact ⟨h.setitem k v, rfl, trivial⟩
  | delitem k =>
    simp only [OD.step, OD.delitem, Op.toA, Spec.step, h.has]
    by_cases hk : dhas m k = true
    · have : k ∈ s.keys := (h.mem_keys' k).2 ((dhas_iff _ _).1 hk)
      simp only [hk, this, if_true]
      exact ⟨h.delete k, rfl, trivial⟩
    · simp only [hk]; exact ⟨h, rfl, trivial⟩
  | getitem k =>
    simp only [OD.step, OD.getitem, Op.toA, Spec.step, h.get]
    refine ⟨h, ?_, ?_⟩ <;> cases dget s.d k <;> simp [Out.ofVal, Out.toA, Out.ObjInv]
  | contains k => exact ⟨h, by simp [OD.step, OD.has, Op.toA, Spec.step, h.has, Out.toA], trivial⟩
  | get k d =>
    simp only [OD.step, OD.get, Op.toA, Spec.step, h.get]
    refine ⟨h, ?_, ?_⟩ <;> cases dget s.d k <;> cases d <;> simp [Out.toA, Out.ObjInv]
  | len => exact ⟨h, by simp [OD.step, OD.len, Op.toA, Spec.step, h.length, Out.toA], trivial⟩
  | keys => exact ⟨h, by simp [OD.step, Op.toA, Spec.step, h.keys, Out.toA], trivial⟩
  | values => exact ⟨h, by simp [OD.step, OD.values, Op.toA, Spec.step, h.items, Out.toA], by simp [OD.step, OD.values, h.items, Out.ObjInv]⟩
  | items => exact ⟨h, by simp [OD.step, Op.toA, Spec.step, h.items, Out.toA], by simp [OD.step, h.items, Out.ObjInv]⟩
  | append k v =>
    simp only [OD.step, OD.append, OD.has, Op.toA, Spec.step, h.has]
    by_cases hk : dhas m k = true
    · simp only [hk, if_true]; exact ⟨h, rfl, trivial⟩
    · simp only [hk]
      have := h.setitem k v
      rw [dset_of_not_mem m v (fun x => hk ((dhas_iff _ _).2 x))] at this
      exact ⟨this, rfl, trivial⟩
  | clear => exact ⟨Rel.empty, rfl, trivial⟩
  | copy =>
    have hc : Rel (OD.init m) m := by
      have := Rel.init (K := K) (V := V) m; rwa [fromPairs_self m h.nodupM] at this
    simp only [OD.step, OD.copy, h.items, Op.toA, Spec.step, Out.ofObj, Out.toA, Out.ObjInv]
    exact ⟨h, by rw [(rel_iff.1 hc).2], hc.inv⟩
  | create ps => exact ⟨h.create ps, rfl, trivial⟩
  | sift fs =>
    cases fs with
    | none =>
      have hc : Rel (OD.init m) m := by
        have := Rel.init (K := K) (V := V) m; rwa [fromPairs_self m h.nodupM] at this
      simp only [OD.step, OD.sift, OD.copy, h.items, Op.toA, Spec.step, Out.ofObj, Out.toA, Out.ObjInv]
      exact ⟨h, by rw [(rel_iff.1 hc).2], hc.inv⟩
    | some fs =>
      simp only [OD.step, OD.sift, Op.toA, Spec.step, rawItems_congr (fun k => (h.get k).symm) fs]
      cases hr : rawItems m fs with
      | error e => exact ⟨h, rfl, trivial⟩
      | ok l =>
        have hc := Rel.init (K := K) (V := V) l
        simp only [Out.ofObj, Out.toA, Out.ObjInv]
        exact ⟨h, by rw [(rel_iff.1 hc).2], hc.inv⟩
  | insert i k v =>
    simp only [OD.step, OD.insert, OD.has, Op.toA, Spec.step, h.has]
    by_cases hk : dhas m k = true
    · simp only [hk, if_true]; exact ⟨h, rfl, trivial⟩
    · simp only [hk]
      have hk' : k ∉ s.keys := fun x => hk ((dhas_iff _ _).2 ((h.mem_keys' k).1 x))
      exact ⟨h.insert i k v hk', rfl, trivial⟩
  | pop k d =>
    simp only [OD.step, OD.pop, Op.toA, Spec.step, h.get]
    cases hg : dget s.d k with
    | some v =>
      have : k ∈ s.keys := (h.mem_keys k).2 (dget_some_mem hg)
      simp only [this, if_true]
      exact ⟨h.delete k, rfl, trivial⟩
    | none =>
      have : k ∉ s.keys := fun x => (dget_eq_none_iff _ _).1 hg ((h.mem_keys k).1 x)
      cases d with
      | none => exact ⟨h, rfl, trivial⟩
      | some dv => simp only [this, if_false]; exact ⟨h, rfl, trivial⟩
  | popitem =>
    simp only [OD.step, OD.popitem, OD.popitemWith, Op.toA, Spec.step]
    cases hl : s.keys.getLast? with
    | none =>
      have : m = [] := by
        have := List.getLast?_eq_none_iff.1 hl
        rw [← h.keys] at this; simpa [dkeys] using this
      subst this; exact ⟨h, rfl, trivial⟩
    | some k =>
      obtain ⟨v, h1, h2, h3⟩ := h.popLast hl
      have hk : k ∈ s.keys := List.mem_of_getLast? hl
      have hd : dhas s.d k = true := (dhas_iff _ _).2 ((h.mem_keys k).1 hk)
      simp only [h1, h2, OD.delitem, hd, hk, if_true]
      exact ⟨h3, rfl, trivial⟩
  | reorder o =>
    have ho : Rel o (absOf o) := Inv.rel ha
    obtain ⟨h1, h2⟩ := h.reorder ho
    simp only [OD.step, Op.toA, Spec.step, h1]
    exact ⟨h2, rfl, trivial⟩
  | reorderBad => exact ⟨h, rfl, trivial⟩
  | setdefault k d =>
    simp only [OD.step, OD.setdefault, Op.toA, Spec.step, h.get]
    cases hg : dget s.d k with
    | some v =>
      have : k ∈ s.keys := (h.mem_keys k).2 (dget_some_mem hg)
      simp only [this, if_true]
      exact ⟨h, rfl, trivial⟩
    | none =>
      have hk : k ∉ dkeys m := by rw [h.keys]; exact fun x => (dget_eq_none_iff _ _).1 hg ((h.mem_keys k).1 x)
      have := h.setitem k d
      rw [dset_of_not_mem m d hk] at this
      exact ⟨this, rfl, trivial⟩
  | update ps => exact ⟨h.update ps, rfl, trivial⟩
  | eq o =>
    have ho : Rel o (absOf o) := Inv.rel ha
    exact ⟨h, by simp [OD.step, Op.toA, Spec.step, Out.toA, h.eq ho], trivial⟩
  | reversed => exact ⟨h, by simp [OD.step, Op.toA, Spec.step, h.keys, Out.toA], trivial⟩
  | ior ps => exact ⟨h.update ps, rfl, trivial⟩
  | or ps =>
    have hc : Rel (OD.init m) m := by
      have := Rel.init (K := K) (V := V) m; rwa [fromPairs_self m h.nodupM] at this
    have hu := hc.update ps
    simp only [OD.step, OD.copy, h.items, Op.toA, Spec.step, Out.toA, Out.ObjInv]
    exact ⟨h, by rw [(rel_iff.1 hu).2], hu.inv⟩
  | pickle =>
    have hc : Rel (OD.init m) m := by
      have := Rel.init (K := K) (V := V) m; rwa [fromPairs_self m h.nodupM] at this
    have hu := hc.update m
    rw [foldl_dset_sub h.nodupM m (fun p hp => hp)] at hu
    simp only [OD.step, OD.unpickle, h.items, Op.toA, Spec.step, Out.ofObj, Out.toA, Out.ObjInv]
    exact ⟨h, by rw [show OD.update (OD.update OD.empty m) m = OD.update (OD.init m) m from rfl, (rel_iff.1 hu).2], hu.inv⟩
  | pickleLegacy =>
    cases hm : m with
    | nil =>
      subst hm
      simp only [OD.step, OD.unpickleLegacy, h.items, Op.toA, Spec.step, Out.ofObj, Out.toA, Out.ObjInv]
      exact ⟨h, rfl, trivial⟩
    | cons p t =>
      have hu := Rel.rawFilled m h.nodupM
      rw [hm] at hu
      have hi := h.items; rw [hm] at hi
      simp only [OD.step, OD.unpickleLegacy, hi, Op.toA, Spec.step, Out.ofObj, Out.toA, Out.ObjInv]
      exact ⟨hm ▸ h, by simp [(rel_iff.1 hu).2], hu.inv⟩

/-- **a rejected call is a no-op (odict)**: whenever a call on a well formed odict raises (KeyError of a missing or
already present key, ValueError of `reorder` with a non-odict, …) the object is exactly as it was — both the dict
part and `_keys`. -/
theorem C39_rejected_op_is_noop (s : OD K V) (m : List (K × V)) (op : Op K V) (h : Rel s m) (ha : op.ArgsInv)
    (e : Err) (he : (OD.step s op).2 = .err e) : (OD.step s op).1 = s := by
  cases op with
  | setitem k v => simp [OD.step] at he
  | delitem k =>
    simp only [OD.step, OD.delitem] at he ⊢
    by_cases hk : dhas s.d k = true
    · have : k ∈ s.keys := (h.mem_keys k).2 ((dhas_iff _ _).1 hk)
      simp [hk, this, Out.ofUnit] at he
    · simp [hk]
  | getitem k => rfl
  | contains k => rfl
  | get k d => rfl
  | len => rfl
  | keys => rfl
  | values => rfl
  | items => rfl
  | append k v =>
    simp only [OD.step, OD.append] at he ⊢
    by_cases hk : s.has k = true
    · simp [hk]
    · simp [hk, Out.ofUnit] at he
  | clear => simp [OD.step] at he
  | copy => rfl
  | create ps => simp [OD.step] at he
  | sift fs => rfl
  | insert i k v =>
    simp only [OD.step, OD.insert] at he ⊢
    by_cases hk : s.has k = true
    · simp [hk]
    · simp [hk, Out.ofUnit] at he
  | pop k d =>
    simp only [OD.step, OD.pop] at he ⊢
    cases hg : dget s.d k with
    | some v => simp [hg, Out.ofVal] at he
    | none =>
      cases d with
      | none => simp [hg]
      | some dv => simp [hg, Out.ofVal] at he
  | popitem =>
    simp only [OD.step, OD.popitem, OD.popitemWith] at he ⊢
    cases hl : s.keys.getLast? with
    | none => simp [hl]
    | some k =>
      obtain ⟨v, h1, h2, h3⟩ := h.popLast hl
      have hk : k ∈ s.keys := List.mem_of_getLast? hl
      have hd : dhas s.d k = true := (dhas_iff _ _).2 ((h.mem_keys k).1 hk)
      simp [hl, h2, OD.delitem, hd, hk] at he
  | reorder o =>
    have ho : Rel o (absOf o) := Inv.rel ha
    obtain ⟨h1, _⟩ := h.reorder ho
    simp [OD.step, h1, Out.ofUnit] at he
  | reorderBad => rfl
  | setdefault k d =>
    simp only [OD.step, OD.setdefault] at he
    cases hg : dget s.d k <;> simp [hg, Out.ofVal] at he
  | update ps => simp [OD.step] at he
  | eq o => rfl
  | reversed => rfl
  | ior ps => simp [OD.step] at he
  | or ps => rfl
  | pickle => rfl
  | pickleLegacy => rfl

/-- **odict, every history**: any sequence of calls on a well formed odict is matched call by call by the
reference ordered dictionary: same results/exceptions, same final contents. -/
theorem C39_odict_history (ops : List (Op K V)) (s : OD K V) (m : List (K × V)) (h : Rel s m)
    (ha : ∀ op ∈ ops, op.ArgsInv) :
    Rel (run OD.step s ops).1 (run Spec.step m (ops.map Op.toA)).1 ∧
    (run OD.step s ops).2.map Out.toA = (run Spec.step m (ops.map Op.toA)).2 := by
  induction ops generalizing s m with
  | nil => exact ⟨h, rfl⟩
  | cons op t ih =>
    obtain ⟨h1, h2, _⟩ := C39_odict_refines_ordered_map s m op h (ha op (by simp))
    obtain ⟨i1, i2⟩ := ih _ _ h1 (fun o ho => ha o (by simp [ho]))
    simp only [run, List.map_cons]
    exact ⟨i1, by rw [h2, i2]⟩

/-- what is observed through the API of a well formed odict is the reference dictionary -/
theorem C39_odict_observed (s : OD K V) (m : List (K × V)) (h : Rel s m) :
    s.items = .ok m ∧ s.keys = dkeys m ∧ s.values = .ok (m.map Prod.snd) ∧ s.len = m.length ∧
    ∀ k, s.getitem k = (match dget m k with | some v => .ok v | none => .error .KeyError) := by
  refine ⟨h.items, h.keys.symm, by simp [OD.values, h.items], by simp [OD.len, h.length], ?_⟩
  intro k; simp only [OD.getitem, h.get]; cases dget s.d k <;> rfl

end ODict

/-! non-vacuity: a non-trivial well formed odict and calls on it that take the interesting branches -/
example : Rel (OD.init [(3, 30), (1, 10), (3, 31), (2, 20)]) [(3, 31), (1, 10), (2, 20)] := Rel.init _
example : (OD.step (OD.init [(3, 30), (1, 10), (2, 20)]) (.insert (-1) 9 90)).1.keys = [3, 1, 9, 2] := by decide
example : (OD.step (OD.init [(3, 30), (1, 10), (2, 20)]) (.reorder (OD.init [(1, 11), (7, 70)]))).1
    = ⟨[(3, 30), (1, 11), (2, 20), (7, 70)], [3, 2, 1, 7]⟩ := by decide
example : (OD.step (OD.init [(3, 30), (1, 10)]) (.pop 5 none)).2 = .err .KeyError := by decide
example : (OD.step (OD.init [(3, 30), (1, 10)]) .popitem) = (⟨[(3, 30)], [3]⟩, .item 1 10) := by decide
/-- `_keys` order and dict order differ after an insert at the front, and the object is still well formed -/
example : (OD.step (OD.init [(3, 30), (1, 10)]) (.insert 0 2 20)).1 = ⟨[(3, 30), (1, 10), (2, 20)], [2, 3, 1]⟩ := by
  decide

/-! ## lodict -/
section LODict
variable {K V : Type} [DecidableEq K] [DecidableEq V] {lower : K → K}

/-- what `C39_lodict_refines_lowered_map` says about a returned object -/
def Out.ObjLowered (lower : K → K) : Out K V → Prop
  | .obj o => Inv o ∧ Lowered lower o
  | _ => True

theorem Rel.lcreate {s : OD K V} {m : List (K × V)} (h : Rel s m) (ps : List (K × V)) :
    Rel (LOD.create lower s ps)
      ((ps.map (lo lower)).foldl (fun m p => if dhas m p.1 then m else m ++ [p]) m) := by
  unfold LOD.create
  induction ps generalizing s m with
  | nil => exact h
  | cons p t ih =>
    simp only [List.map_cons, List.foldl_cons, LOD.has, OD.has, h.has, lo]
    by_cases hk : dhas m (lower p.1) = true
    · simp only [hk, if_true]; exact ih h
    · simp only [hk]
      have h2 := h.setitem (lower p.1) p.2
      rw [dset_of_not_mem m p.2 (fun x => hk ((dhas_iff _ _).2 x))] at h2
      exact ih h2

/-- **lodict, one call** (`lower` idempotent, e.g. `str.lower`).  A lodict whose keys are all lower case
behaves on any call exactly as the reference ordered dictionary does on the same call with every key
argument lower-cased (and a by-reference dictionary made case-insensitive first); its keys stay lower
case; returned objects are well formed lodicts. -/
theorem C39_lodict_refines_lowered_map (hl : ∀ k, lower (lower k) = lower k)
    (s : OD K V) (m : List (K × V)) (op : Op K V)
    (h : Rel s m) (hlow : Lowered lower s) (ha : op.ArgsInv) :
    Rel (LOD.step lower s op).1 (Spec.step m (op.toA.lower lower)).1 ∧
      (LOD.step lower s op).2.toA = (Spec.step m (op.toA.lower lower)).2 ∧
      Lowered lower (LOD.step lower s op).1 ∧ (LOD.step lower s op).2.ObjLowered lower := by
  have hlm : LoweredM lower m := (h.lowered).1 hlow
  -- the keys stay lower case because the reference dictionary's do
  suffices hmain : Rel (LOD.step lower s op).1 (Spec.step m (op.toA.lower lower)).1 ∧
      (LOD.step lower s op).2.toA = (Spec.step m (op.toA.lower lower)).2 ∧
      (LOD.step lower s op).2.ObjLowered lower from
    ⟨hmain.1, hmain.2.1, (hmain.1.lowered).2 (loweredM_step hl hlm _), hmain.2.2⟩
  -- calls that are literally the odict call on the lower-cased key
  have simple : ∀ op' : Op K V, LOD.step lower s op = OD.step s op' → op'.toA = op.toA.lower lower →
      op'.ArgsInv → (∀ o, (OD.step s op').2 ≠ .obj o) →
      Rel (LOD.step lower s op).1 (Spec.step m (op.toA.lower lower)).1 ∧
      (LOD.step lower s op).2.toA = (Spec.step m (op.toA.lower lower)).2 ∧
      (LOD.step lower s op).2.ObjLowered lower := by
    intro op' e1 e2 ha' hno
    obtain ⟨r1, r2, _⟩ := C39_odict_refines_ordered_map s m op' h ha'
    rw [e1, ← e2]
    refine ⟨r1, r2, ?_⟩
    cases hr : (OD.step s op').2 <;> simp [Out.ObjLowered]
    exact absurd hr (hno _)
  have hcopy : ∀ l : List (K × V), LoweredM lower l →
      ∃ c, LOD.init lower l = .ok c ∧ Rel c (Spec.fromPairs l) ∧ Lowered lower c := by
    intro l hll
    obtain ⟨c, hc1, hc2⟩ := LOD.init_rel (V := V) hl l
    rw [map_lo_of_lowered hll] at hc2
    refine ⟨c, hc1, hc2, (hc2.lowered).2 ?_⟩
    have := loweredM_fromPairs_lo (V := V) hl l
    rwa [map_lo_of_lowered hll] at this
  cases op with
  | setitem k v => exact simple (.setitem (lower k) v) rfl rfl trivial (by intro o; simp [OD.step])
  | delitem k =>
    refine simple (.delitem (lower k)) rfl rfl trivial ?_
    intro o; simp only [OD.step]; cases (s.delitem (lower k)).2 <;> simp [Out.ofUnit]
  | getitem k =>
    refine simple (.getitem (lower k)) rfl rfl trivial ?_
    intro o; simp only [OD.step]; cases s.getitem (lower k) <;> simp [Out.ofVal]
  | contains k => exact simple (.contains (lower k)) rfl rfl trivial (by intro o; simp [OD.step])
  | get k d =>
    refine simple (.get (lower k) d) rfl rfl trivial ?_
    intro o; simp only [OD.step]; cases s.get (lower k) d <;> simp
  | len => exact simple .len rfl rfl trivial (by intro o; simp [OD.step])
  | keys => exact simple .keys rfl rfl trivial (by intro o; simp [OD.step])
  | values =>
    refine simple .values rfl rfl trivial ?_
    intro o; simp only [OD.step]; cases s.values <;> simp
  | items =>
    refine simple .items rfl rfl trivial ?_
    intro o; simp only [OD.step]; cases s.items <;> simp
  | append k v =>
    refine simple (.append (lower k) v) rfl rfl trivial ?_
    intro o; simp only [OD.step]; cases (s.append (lower k) v).2 <;> simp [Out.ofUnit]
  | clear => exact simple .clear rfl rfl trivial (by intro o; simp [OD.step])
  | pop k d =>
    refine simple (.pop (lower k) d) rfl rfl trivial ?_
    intro o; simp only [OD.step]; cases (s.pop (lower k) d).2 <;> simp [Out.ofVal]
  | reorderBad => exact simple .reorderBad rfl rfl trivial (by intro o; simp [OD.step])
  | eq o =>
    exact simple (.eq o) rfl rfl ha (by intro o; simp [OD.step])
  | insert i k v =>
    refine simple (.insert i (lower k) v) ?_ rfl trivial ?_
    · simp [LOD.step, OD.step, LOD.insert, OD.insert, LOD.has, hl]
    · intro o; simp only [OD.step]; cases (s.insert i (lower k) v).2 <;> simp [Out.ofUnit]
  | popitem =>
    refine simple .popitem ?_ rfl trivial ?_
    · simp only [LOD.step, OD.step, LOD.popitem, OD.popitem, OD.popitemWith]
      cases hk : s.keys.getLast? with
      | none => rfl
      | some k => simp only [LOD.delitem, hlow k (List.mem_of_getLast? hk)]
    · intro o; simp only [OD.step]
      generalize s.popitem = r
      obtain ⟨a, b⟩ := r
      cases b <;> simp
  | copy =>
    obtain ⟨c, hc1, hc2, hc3⟩ := hcopy m hlm
    rw [fromPairs_self m h.nodupM] at hc2
    simp only [LOD.step, LOD.copy, h.items, hc1, Op.toA, AOp.lower, Spec.step, Out.ofObj, Out.toA,
      Out.ObjLowered]
    exact ⟨h, by rw [(rel_iff.1 hc2).2], hc2.inv, hc3⟩
  | create ps => exact ⟨h.lcreate ps, rfl, trivial⟩
  | sift fs =>
    cases fs with
    | none =>
      obtain ⟨c, hc1, hc2, hc3⟩ := hcopy m hlm
      rw [fromPairs_self m h.nodupM] at hc2
      simp only [LOD.step, LOD.sift, LOD.copy, h.items, hc1, Op.toA, AOp.lower, Spec.step, Out.ofObj,
        Out.toA, Out.ObjLowered]
      exact ⟨h, by rw [(rel_iff.1 hc2).2], hc2.inv, hc3⟩
    | some fs =>
      simp only [LOD.step, LOD.sift, Op.toA, AOp.lower, Spec.step,
        rawItems_congr (fun k => (h.get k).symm) (fs.map lower)]
      cases hr : rawItems m (fs.map lower) with
      | error e => exact ⟨h, rfl, trivial⟩
      | ok l =>
        have hll : LoweredM lower l := by
          intro k hk
          rw [(rawItems_ok_props hr).1] at hk
          obtain ⟨x, _, rfl⟩ := List.mem_map.1 hk
          exact hl x
        obtain ⟨c, hc1, hc2, hc3⟩ := hcopy l hll
        simp only [hc1, Out.ofObj, Out.toA, Out.ObjLowered]
        exact ⟨h, by rw [(rel_iff.1 hc2).2], hc2.inv, hc3⟩
  | reorder o =>
    have ho : Rel o (absOf o) := Inv.rel ha
    obtain ⟨c, hc1, hc2⟩ := LOD.init_rel (V := V) hl (absOf o)
    obtain ⟨h1, h2⟩ := h.reorder hc2
    simp only [LOD.step, LOD.reorder, LOD.initFrom, ho.items, hc1, Op.toA, AOp.lower, Spec.step, h1]
    exact ⟨h2, rfl, trivial⟩
  | setdefault k d =>
    simp only [LOD.step, LOD.setdefault, OD.getitem, Op.toA, AOp.lower, Spec.step, h.get]
    cases hg : dget s.d (lower k) with
    | some v => exact ⟨h, rfl, trivial⟩
    | none =>
      have hk : lower k ∉ dkeys m := by
        rw [h.keys]; exact fun x => (dget_eq_none_iff _ _).1 hg ((h.mem_keys _).1 x)
      have := h.setitem (lower k) d
      rw [dset_of_not_mem m d hk] at this
      exact ⟨this, rfl, trivial⟩
  | update ps =>
    obtain ⟨h1, h2⟩ := LOD.update_rel hl h ps
    simp only [LOD.step, Op.toA, AOp.lower, Spec.step, h1]
    exact ⟨h2, rfl, trivial⟩
  | reversed => exact simple .reversed rfl rfl trivial (by intro o; simp [OD.step])
  | ior ps =>
    obtain ⟨h1, h2⟩ := LOD.update_rel hl h ps
    simp only [LOD.step, Op.toA, AOp.lower, Spec.step, h1]
    exact ⟨h2, rfl, trivial⟩
  | or ps =>
    obtain ⟨c, hc1, hc2, hc3⟩ := hcopy m hlm
    rw [fromPairs_self m h.nodupM] at hc2
    obtain ⟨u1, u2⟩ := LOD.update_rel hl hc2 ps
    have hlu : Lowered lower (LOD.update lower c ps).1 := by
      refine (u2.lowered).2 ?_
      have := loweredM_step hl hlm (AOp.update ps)
      simpa [AOp.lower, Spec.step] using this
    simp only [LOD.step, LOD.copy, h.items, hc1, Op.toA, AOp.lower, Spec.step]
    generalize LOD.update lower c ps = r at u1 u2 hlu
    obtain ⟨c', o⟩ := r
    simp only at u1 u2 hlu
    subst u1
    simp only [Out.toA, Out.ObjLowered]
    exact ⟨h, by rw [(rel_iff.1 u2).2], u2.inv, hlu⟩
  | pickle =>
    have hfp : Spec.fromPairs (m.map (lo lower)) = m := by
      rw [map_lo_of_lowered hlm, fromPairs_self m h.nodupM]
    have hc : Rel (OD.init m) m := by
      have := Rel.init (K := K) (V := V) m; rwa [fromPairs_self m h.nodupM] at this
    have hu := hc.update m
    rw [foldl_dset_sub h.nodupM m (fun p hp => hp)] at hu
    have e1 : m.foldl (fun t p => LOD.setitem lower t p.1 p.2) (OD.empty : OD K V) = OD.init m := by
      have : m.foldl (fun t p => LOD.setitem lower t p.1 p.2) (OD.empty : OD K V)
          = OD.update OD.empty (m.map (lo lower)) := by
        simp [OD.update, List.foldl_map, lo, LOD.setitem]
      rw [this, map_lo_of_lowered hlm]; rfl
    simp only [LOD.step, LOD.unpickle, h.items, e1, LOD.update_eq hl, hfp, Op.toA, AOp.lower, Spec.step, Out.ofObj,
      Out.toA, Out.ObjLowered]
    exact ⟨h, by rw [(rel_iff.1 hu).2], hu.inv, (hu.lowered).2 hlm⟩
  | pickleLegacy =>
    cases hm : m with
    | nil =>
      subst hm
      simp only [LOD.step, LOD.unpickleLegacy, h.items, Op.toA, AOp.lower, Spec.step, Out.ofObj, Out.toA,
        Out.ObjLowered]
      exact ⟨h, rfl, trivial⟩
    | cons p t =>
      have hfp : Spec.fromPairs (m.map (lo lower)) = m := by
        rw [map_lo_of_lowered hlm, fromPairs_self m h.nodupM]
      have hu := Rel.rawFilled m h.nodupM
      have hi := h.items
      rw [hm] at hu hi hfp
      have hlm' : LoweredM lower (p :: t) := hm ▸ hlm
      simp only [LOD.step, LOD.unpickleLegacy, hi, LOD.update_eq hl, hfp, Op.toA, AOp.lower, Spec.step, Out.ofObj,
        Out.toA, Out.ObjLowered]
      exact ⟨hm ▸ h, by simp [(rel_iff.1 hu).2], hu.inv, (hu.lowered).2 hlm'⟩

/-- the call with every literal key argument rewritten by `f` (e.g. upper-cased, capitalised, …) -/
def Op.mapKeys (f : K → K) : Op K V → Op K V
  | .setitem k v => .setitem (f k) v | .delitem k => .delitem (f k) | .getitem k => .getitem (f k)
  | .contains k => .contains (f k) | .get k d => .get (f k) d | .append k v => .append (f k) v
  | .create ps => .create (ps.map (fun p => (f p.1, p.2))) | .sift (some fs) => .sift (some (fs.map f))
  | .insert i k v => .insert i (f k) v | .pop k d => .pop (f k) d
  | .setdefault k d => .setdefault (f k) d | .update ps => .update (ps.map (fun p => (f p.1, p.2)))
  | .ior ps => .ior (ps.map (fun p => (f p.1, p.2))) | .or ps => .or (ps.map (fun p => (f p.1, p.2)))
  | op => op

/-- **lodict is case-insensitive in every call**: spelling the keys of a call differently (any `f` that
does not change the lower-cased key: upper case, mixed case, …) changes neither the resulting object
nor what is returned or raised.  Holds in every state, well formed or not. -/
theorem C39_lodict_case_insensitive (f : K → K) (hf : ∀ k, lower (f k) = lower k)
    (s : OD K V) (op : Op K V) :
    LOD.step lower s (op.mapKeys f) = LOD.step lower s op := by
  cases op with
  | create ps =>
    simp only [Op.mapKeys, LOD.step, LOD.create, LOD.has, LOD.setitem, List.foldl_map, hf]
    rfl
  | update ps =>
    simp only [Op.mapKeys, LOD.step, LOD.update, LOD.setitem, List.foldl_map, hf]
  | ior ps =>
    simp only [Op.mapKeys, LOD.step, LOD.update, LOD.setitem, List.foldl_map, hf]
  | or ps =>
    simp only [Op.mapKeys, LOD.step, LOD.update, LOD.setitem, List.foldl_map, hf]
  | reversed => rfl
  | pickle => rfl
  | pickleLegacy => rfl
  | sift fs =>
    cases fs with
    | none => rfl
    | some fs =>
      simp only [Op.mapKeys, LOD.step, LOD.sift, List.map_map]
      have : lower ∘ f = lower := funext hf
      rw [this]
  | setitem k v => simp [Op.mapKeys, LOD.step, LOD.setitem, hf]
  | delitem k => simp [Op.mapKeys, LOD.step, LOD.delitem, hf]
  | getitem k => simp [Op.mapKeys, LOD.step, LOD.getitem, hf]
  | contains k => simp [Op.mapKeys, LOD.step, LOD.has, hf]
  | get k d => simp [Op.mapKeys, LOD.step, LOD.get, hf]
  | append k v => simp only [Op.mapKeys, LOD.step, LOD.append, LOD.has, LOD.setitem, hf]; rfl
  | insert i k v => simp only [Op.mapKeys, LOD.step, LOD.insert, LOD.has, hf]; rfl
  | pop k d => simp [Op.mapKeys, LOD.step, LOD.pop, hf]
  | setdefault k d => simp [Op.mapKeys, LOD.step, LOD.setdefault, hf]
  | len => rfl
  | keys => rfl
  | values => rfl
  | items => rfl
  | clear => rfl
  | copy => rfl
  | popitem => rfl
  | reorder o => rfl
  | reorderBad => rfl
  | eq o => rfl

/-- **a rejected call is a no-op (lodict)** -/
theorem C39_lodict_rejected_is_noop (hl : ∀ k, lower (lower k) = lower k) (s : OD K V) (m : List (K × V))
    (op : Op K V) (h : Rel s m) (hlow : Lowered lower s) (ha : op.ArgsInv) (e : Err)
    (he : (LOD.step lower s op).2 = .err e) : (LOD.step lower s op).1 = s := by
  have via : ∀ op' : Op K V, LOD.step lower s op = OD.step s op' → op'.ArgsInv → (LOD.step lower s op).1 = s := by
    intro op' e1 ha'
    rw [e1] at he ⊢
    exact C39_rejected_op_is_noop s m op' h ha' e he
  cases op with
  | setitem k v => exact via (.setitem (lower k) v) rfl trivial
  | delitem k => exact via (.delitem (lower k)) rfl trivial
  | getitem k => exact via (.getitem (lower k)) rfl trivial
  | contains k => exact via (.contains (lower k)) rfl trivial
  | get k d => exact via (.get (lower k) d) rfl trivial
  | len => exact via .len rfl trivial
  | keys => exact via .keys rfl trivial
  | values => exact via .values rfl trivial
  | items => exact via .items rfl trivial
  | append k v => exact via (.append (lower k) v) rfl trivial
  | clear => exact via .clear rfl trivial
  | pop k d => exact via (.pop (lower k) d) rfl trivial
  | reorderBad => exact via .reorderBad rfl trivial
  | eq o => exact via (.eq o) rfl ha
  | reversed => exact via .reversed rfl trivial
  | insert i k v =>
    exact via (.insert i (lower k) v) (by simp [LOD.step, OD.step, LOD.insert, OD.insert, LOD.has, hl]) trivial
  | popitem =>
    refine via .popitem ?_ trivial
    simp only [LOD.step, OD.step, LOD.popitem, OD.popitem, OD.popitemWith]
    cases hk : s.keys.getLast? with
    | none => rfl
    | some k => simp only [LOD.delitem, hlow k (List.mem_of_getLast? hk)]
  | copy => rfl
  | sift fs => rfl
  | or ps => rfl
  | pickle => rfl
  | pickleLegacy => rfl
  | create ps => simp [LOD.step] at he
  | setdefault k d =>
    simp only [LOD.step, LOD.setdefault] at he
    cases hg : OD.getitem s (lower k) <;> simp [hg, Out.ofVal] at he
  | update ps => simp [LOD.step, LOD.update_eq hl, Out.ofUnit] at he
  | ior ps => simp [LOD.step, LOD.update_eq hl, Out.ofUnit] at he
  | reorder o =>
    have ho : Rel o (absOf o) := Inv.rel ha
    obtain ⟨c, hc1, hc2⟩ := LOD.init_rel (V := V) hl (absOf o)
    obtain ⟨h1, _⟩ := h.reorder hc2
    simp [LOD.step, LOD.reorder, LOD.initFrom, ho.items, hc1, h1, Out.ofUnit] at he

/-- **lodict, every history** -/
theorem C39_lodict_history (hl : ∀ k, lower (lower k) = lower k) (ops : List (Op K V)) (s : OD K V)
    (m : List (K × V)) (h : Rel s m) (hlow : Lowered lower s) (ha : ∀ op ∈ ops, op.ArgsInv) :
    Rel (run (LOD.step lower) s ops).1 (run Spec.step m (ops.map (fun op => op.toA.lower lower))).1 ∧
    (run (LOD.step lower) s ops).2.map Out.toA = (run Spec.step m (ops.map (fun op => op.toA.lower lower))).2 ∧
    Lowered lower (run (LOD.step lower) s ops).1 := by
  induction ops generalizing s m with
  | nil => exact ⟨h, rfl, hlow⟩
  | cons op t ih =>
    obtain ⟨h1, h2, h3, _⟩ := C39_lodict_refines_lowered_map hl s m op h hlow (ha op (by simp))
    obtain ⟨i1, i2, i3⟩ := ih _ _ h1 h3 (fun o ho => ha o (by simp [ho]))
    simp only [run, List.map_cons]
    exact ⟨i1, by rw [h2, i2], i3⟩

end LODict

/-! non-vacuity (keys are numbers, "lower case" = last digit): the calls that D23 was about -/
example : Lowered (· % 10) (OD.init [(3, 30), (1, 10)]) := by unfold Lowered; decide
example : (LOD.step (· % 10) (OD.init [(3, 30), (1, 10)]) (.pop 13 none)) = (⟨[(1, 10)], [1]⟩, .val 30) := by decide
example : (LOD.step (· % 10) (OD.init [(3, 30), (1, 10)]) (.insert 0 27 5)).1.keys = [7, 3, 1] := by decide
example : (LOD.step (· % 10) (OD.init [(3, 30), (1, 10)]) (.create [(13, 99), (12, 5)])).1
    = ⟨[(3, 30), (1, 10), (2, 5)], [3, 1, 2]⟩ := by decide
example : (LOD.step (· % 10) (OD.init [(3, 30), (1, 10)]) (.sift (some [11]))).2
    = .obj ⟨[(1, 10)], [1]⟩ := by decide
example : (LOD.step (· % 10) (OD.init [(3, 30), (1, 10)]) (.reorder (OD.init [(23, 7)]))).1
    = ⟨[(3, 7), (1, 10)], [1, 3]⟩ := by decide

/-! ## several live objects: every reachable object is well formed; calls on one object leave the others alone -/
section HeapProps
variable {K V : Type} [DecidableEq K] [DecidableEq V] {lower : K → K}

/-- every object is well formed and every lodict has lower-case keys only -/
def HeapInv (lower : K → K) (h : Heap K V) : Prop :=
  ∀ p ∈ h, Inv p.2 ∧ (p.1 = .lod → Lowered lower p.2)

/-- literal object arguments of a call are well formed (objects named by index are, by `HeapInv`) -/
def HOp.ArgsInv : HOp K V → Prop
  | .call _ op => op.ArgsInv
  | _ => True

/-- the object a call may change -/
def HOp.target : HOp K V → Option Nat
  | .call i _ => some i | .reorder i _ => some i | .update i _ => some i | .create i _ => some i
  | .eq i _ => some i | _ => none

theorem stepObj_inv (hl : ∀ k, lower (lower k) = lower k) (c : Cls) (s : OD K V) (op : Op K V)
    (hs : Inv s) (hlow : c = .lod → Lowered lower s) (ha : op.ArgsInv) :
    (Inv (Heap.stepObj lower c s op).1 ∧ (c = .lod → Lowered lower (Heap.stepObj lower c s op).1)) ∧
    ∀ o, (Heap.stepObj lower c s op).2 = .obj o → Inv o ∧ (c = .lod → Lowered lower o) := by
  cases c with
  | od =>
    obtain ⟨h1, _, h3⟩ := C39_odict_refines_ordered_map s _ op hs.rel ha
    refine ⟨⟨h1.inv, by intro e; cases e⟩, ?_⟩
    intro o ho
    simp only [Heap.stepObj] at ho
    rw [ho] at h3
    exact ⟨h3, by intro e; cases e⟩
  | lod =>
    obtain ⟨h1, _, h3, h4⟩ := C39_lodict_refines_lowered_map hl s _ op hs.rel (hlow rfl) ha
    refine ⟨⟨h1.inv, fun _ => h3⟩, ?_⟩
    intro o ho
    simp only [Heap.stepObj] at ho
    rw [ho] at h4
    exact ⟨h4.1, fun _ => h4.2⟩

theorem commit_inv (h : Heap K V) (i : Nat) (c : Cls) (r : OD K V × Out K V)
    (hh : HeapInv lower h) (h1 : Inv r.1 ∧ (c = .lod → Lowered lower r.1))
    (h2 : ∀ o, r.2 = .obj o → Inv o ∧ (c = .lod → Lowered lower o)) :
    HeapInv lower (Heap.commit h i c r).1 := by
  have hset : HeapInv lower (h.set i (c, r.1)) := by
    intro p hp
    rcases List.mem_or_eq_of_mem_set hp with hp | rfl
    · exact hh p hp
    · exact h1
  unfold Heap.commit
  cases hr : r.2 with
  | obj o =>
    intro p hp
    simp only [List.mem_append, List.mem_singleton] at hp
    rcases hp with hp | rfl
    · exact hset p hp
    · exact h2 o hr
  | none => exact hset
  | err e => exact hset
  | val v => exact hset
  | bool b => exact hset
  | nat n => exact hset
  | keys l => exact hset
  | vals l => exact hset
  | items l => exact hset
  | item k v => exact hset

theorem alloc_inv (hl : ∀ k, lower (lower k) = lower k) (h : Heap K V) (c : Cls) (ps : List (K × V))
    (hh : HeapInv lower h) : HeapInv lower (Heap.alloc lower h c ps).1 := by
  cases c with
  | od =>
    intro p hp
    simp only [Heap.alloc, List.mem_append, List.mem_singleton] at hp
    rcases hp with hp | rfl
    · exact hh p hp
    · exact ⟨(Rel.init ps).inv, by intro e; cases e⟩
  | lod =>
    obtain ⟨c, hc1, hc2⟩ := LOD.init_rel (V := V) hl ps
    simp only [Heap.alloc, hc1]
    intro p hp
    simp only [List.mem_append, List.mem_singleton] at hp
    rcases hp with hp | rfl
    · exact hh p hp
    · exact ⟨hc2.inv, fun _ => (hc2.lowered).2 (loweredM_fromPairs_lo hl ps)⟩

/-- **Every sequence of calls keeps every object well formed** (one step; histories by induction:
`C39_heap_history_invariant`): constructing, copying, sifting and calling any method, with other objects
passed by reference (including the object itself), never lets `_keys` and the dict part of any odict or
lodict disagree, and never leaves a key that is not lower case in a lodict. -/
theorem C39_heap_invariant (hl : ∀ k, lower (lower k) = lower k) (h : Heap K V) (op : HOp K V)
    (hh : HeapInv lower h) (ha : op.ArgsInv) : HeapInv lower (Heap.step lower h op).1 := by
  have hget : ∀ {i : Nat} {c : Cls} {s : OD K V}, h[i]? = some (c, s) →
      Inv s ∧ (c = Cls.lod → Lowered lower s) :=
    fun hi => hh _ (List.mem_of_getElem? hi)
  cases op with
  | new c ps => exact alloc_inv hl h c ps hh
  | newFrom c j =>
    simp only [Heap.step]
    cases hj : h[j]? with
    | none => exact hh
    | some p =>
      cases hi : p.2.items with
      | error e => simp only [hi]; exact hh
      | ok l => simp only [hi]; exact alloc_inv hl h c l hh
  | call i op' =>
    simp only [Heap.step]
    cases hi : h[i]? with
    | none => exact hh
    | some p =>
      obtain ⟨c, s⟩ := p
      obtain ⟨h1, h2⟩ := hget hi
      obtain ⟨r1, r2⟩ := stepObj_inv hl c s op' h1 h2 ha
      exact commit_inv h i c _ hh r1 r2
  | reorder i j =>
    simp only [Heap.step]
    cases hi : h[i]? with
    | none => exact hh
    | some p =>
      cases hj : h[j]? with
      | none => exact hh
      | some q =>
        obtain ⟨c, s⟩ := p
        obtain ⟨c', o⟩ := q
        simp only []
        split
        · exact hh
        · obtain ⟨h1, h2⟩ := hget hi
          obtain ⟨r1, r2⟩ := stepObj_inv hl c s (.reorder o) h1 h2 (hget hj).1
          exact commit_inv h i c _ hh r1 r2
  | update i j =>
    simp only [Heap.step]
    cases hi : h[i]? with
    | none => exact hh
    | some p =>
      cases hj : h[j]? with
      | none => exact hh
      | some q =>
        obtain ⟨c, s⟩ := p
        obtain ⟨c', o⟩ := q
        simp only []
        cases hit : o.items with
        | error e => exact hh
        | ok l =>
          obtain ⟨h1, h2⟩ := hget hi
          obtain ⟨r1, r2⟩ := stepObj_inv hl c s (.update l) h1 h2 trivial
          exact commit_inv h i c _ hh r1 r2
  | create i j =>
    simp only [Heap.step]
    cases hi : h[i]? with
    | none => exact hh
    | some p =>
      cases hj : h[j]? with
      | none => exact hh
      | some q =>
        obtain ⟨c, s⟩ := p
        obtain ⟨c', o⟩ := q
        simp only []
        cases hit : o.items with
        | error e => exact hh
        | ok l =>
          obtain ⟨h1, h2⟩ := hget hi
          obtain ⟨r1, r2⟩ := stepObj_inv hl c s (.create l) h1 h2 trivial
          exact commit_inv h i c _ hh r1 r2
  | eq i j =>
    simp only [Heap.step]
    cases hi : h[i]? with
    | none => exact hh
    | some p =>
      cases hj : h[j]? with
      | none => exact hh
      | some q =>
        obtain ⟨c, s⟩ := p
        obtain ⟨c', o⟩ := q
        obtain ⟨h1, h2⟩ := hget hi
        obtain ⟨r1, r2⟩ := stepObj_inv hl c s (.eq o) h1 h2 (hget hj).1
        exact commit_inv h i c _ hh r1 r2

/-- all histories, starting with no objects -/
theorem C39_heap_history_invariant (hl : ∀ k, lower (lower k) = lower k) (ops : List (HOp K V))
    (ha : ∀ op ∈ ops, op.ArgsInv) (h : Heap K V) (hh : HeapInv lower h) :
    HeapInv lower (run (Heap.step lower) h ops).1 := by
  induction ops generalizing h with
  | nil => exact hh
  | cons op t ih =>
    simp only [run]
    exact ih (fun o ho => ha o (by simp [ho])) _ (C39_heap_invariant hl h op hh (ha op (by simp)))

theorem commit_frame (h : Heap K V) (i : Nat) (c : Cls) (r : OD K V × Out K V) (k : Nat)
    (hk : k ≠ i) (hlt : k < h.length) : (Heap.commit h i c r).1[k]? = h[k]? := by
  have h1 : (h.set i (c, r.1))[k]? = h[k]? := List.getElem?_set_ne (fun e => hk e.symm)
  unfold Heap.commit
  cases r.2 <;> simp only [h1]
  rw [List.getElem?_append_left (by simpa using hlt), h1]

theorem alloc_frame (h : Heap K V) (c : Cls) (ps : List (K × V)) (k : Nat) (hlt : k < h.length) :
    (Heap.alloc lower h c ps).1[k]? = h[k]? := by
  cases c with
  | od => simp only [Heap.alloc]; exact List.getElem?_append_left hlt
  | lod =>
    simp only [Heap.alloc]
    cases LOD.init lower ps with
    | ok s => exact List.getElem?_append_left hlt
    | error e => rfl

/-- **Independence**: a call changes at most the object it is made on; every other live object — in
particular a copy of it, or the original of a copy — keeps its contents and its index, whatever
is passed by reference. -/
theorem C39_heap_frame (h : Heap K V) (op : HOp K V) (k : Nat) (hk : op.target ≠ some k)
    (hlt : k < h.length) : (Heap.step lower h op).1[k]? = h[k]? := by
  cases op with
  | new c ps => exact alloc_frame h c ps k hlt
  | newFrom c j =>
    simp only [Heap.step]
    cases h[j]? with
    | none => rfl
    | some p =>
      obtain ⟨c', o⟩ := p
      simp only []
      cases o.items with
      | error e => rfl
      | ok l => exact alloc_frame h c l k hlt
  | call i op' =>
    have hki : k ≠ i := fun e => hk (by simp [HOp.target, e])
    simp only [Heap.step]
    cases h[i]? with
    | none => rfl
    | some p => exact commit_frame h i p.1 _ k hki hlt
  | reorder i j =>
    have hki : k ≠ i := fun e => hk (by simp [HOp.target, e])
    simp only [Heap.step]
    cases h[i]? with
    | none => rfl
    | some p =>
      cases h[j]? with
      | none => rfl
      | some q =>
        simp only []
        split
        · rfl
        · exact commit_frame h i p.1 _ k hki hlt
  | update i j =>
    have hki : k ≠ i := fun e => hk (by simp [HOp.target, e])
    simp only [Heap.step]
    cases h[i]? with
    | none => rfl
    | some p =>
      cases h[j]? with
      | none => rfl
      | some q =>
        simp only []
        cases q.2.items with
        | error e => rfl
        | ok l => exact commit_frame h i p.1 _ k hki hlt
  | create i j =>
    have hki : k ≠ i := fun e => hk (by simp [HOp.target, e])
    simp only [Heap.step]
    cases h[i]? with
    | none => rfl
    | some p =>
      cases h[j]? with
      | none => rfl
      | some q =>
        simp only []
        cases q.2.items with
        | error e => rfl
        | ok l => exact commit_frame h i p.1 _ k hki hlt
  | eq i j =>
    have hki : k ≠ i := fun e => hk (by simp [HOp.target, e])
    simp only [Heap.step]
    cases h[i]? with
    | none => rfl
    | some p =>
      cases h[j]? with
      | none => rfl
      | some q => exact commit_frame h i p.1 _ k hki hlt

/-- **the views agree after every call**: for every odict / lodict alive after any history, `keys()`,
`values()`, `items()`, iteration and `len()` are one consistent picture — `keys()` is the first components of
`items()`, `values()` the second, `len()` their number, no key twice — whatever was called before (insert at
an index, reorder, pops, construction from one another …). -/
theorem C39_heap_views_consistent (hl : ∀ k, lower (lower k) = lower k) (ops : List (HOp K V))
    (ha : ∀ op ∈ ops, op.ArgsInv) (h : Heap K V) (hh : HeapInv lower h) :
    ∀ p ∈ (run (Heap.step lower) h ops).1, ∃ l, p.2.items = .ok l ∧ p.2.keys = l.map Prod.fst ∧
      p.2.values = .ok (l.map Prod.snd) ∧ p.2.len = l.length ∧ (l.map Prod.fst).Nodup := by
  intro p hp
  have hi := (C39_heap_history_invariant hl ops ha h hh p hp).1
  have hr := hi.rel
  obtain ⟨o1, o2, o3, o4, _⟩ := C39_odict_observed p.2 _ hr
  exact ⟨absOf p.2, o1, o2, o3, o4, hr.nodupM⟩

/-- **copy()**: the copy of a well formed odict / lodict / modict is a new well formed object with the
same items in the same order (for `sift()` without fields likewise: `C39_odict_refines_ordered_map`).
Together with `C39_heap_frame` (neither object is touched by calls on the other): equal and independent. -/
theorem C39_copy_equal_independent (hl : ∀ k, lower (lower k) = lower k) :
    (∀ (s : OD K V) m, Rel s m → ∃ c, OD.copy s = .ok c ∧ Rel c m) ∧
    (∀ (s : OD K V) m, Rel s m → Lowered lower s →
        ∃ c, LOD.copy lower s = .ok c ∧ Rel c m ∧ Lowered lower c) ∧
    (∀ (s : OD K (List V)) m, Rel s m → MSpec.NonEmpty m → ∃ c, MD.copy s = .ok c ∧ Rel c m) := by
  refine ⟨?_, ?_, ?_⟩
  · intro s m h
    refine ⟨OD.init m, by simp [OD.copy, h.items], ?_⟩
    have := Rel.init (K := K) (V := V) m; rwa [fromPairs_self m h.nodupM] at this
  · intro s m h hlow
    have hlm : LoweredM lower m := (h.lowered).1 hlow
    obtain ⟨c, hc1, hc2⟩ := LOD.init_rel (V := V) hl m
    rw [map_lo_of_lowered hlm, fromPairs_self m h.nodupM] at hc2
    exact ⟨c, by simp [LOD.copy, h.items, hc1], hc2, (hc2.lowered).2 hlm⟩
  · intro s m h hne
    refine ⟨MD.update OD.empty (MSpec.all m), by simp [MD.copy, MD.updateFrom, MD.allitems, h.items, MSpec.all], ?_⟩
    have := (Rel.empty (K := K) (V := List V)).maddAll (MSpec.all m)
    rwa [MSpec.addAll_all [] m (by simpa using h.nodupM) hne, List.nil_append] at this

end HeapProps

/-! ## modict -/
section MODict
variable {K V : Type} [DecidableEq K] [DecidableEq V]

def MOp.toA : MOp K V → AMOp K V
  | .setitem k v => .setitem k v | .append k v => .append k v | .getitem k => .getitem k
  | .contains k => .contains k | .delitem k => .delitem k | .len => .len | .keys => .keys
  | .clear => .clear | .values => .values | .listvalues => .listvalues | .allvalues => .allvalues
  | .items => .items | .listitems => .listitems | .allitems => .allitems | .copy => .copy
  | .get k d i => .get k d i | .getlist k => .getlist k | .replace k v => .replace k v
  | .setdefault k d => .setdefault k d | .pop k d i => .pop k d i | .poplist k d => .poplist k d
  | .popitem l i => .popitem l i | .poplistitem l => .poplistitem l | .fromkeys sq d => .fromkeys sq d
  | .update ps => .update ps | .updateFrom o => .updateFrom (absOf o) | .create ps => .create ps
  | .eq o => .eq (absOf o) | .reversed => .reversed | .ior ps => .ior ps | .or ps => .or ps

def MOp.ArgsInv : MOp K V → Prop
  | .updateFrom o => Inv o
  | .eq o => Inv o
  | _ => True

def MOut.toA : MOut K V → AMOut K V
  | .none => .none | .err e => .err e | .val v => .val v | .bool b => .bool b | .nat n => .nat n
  | .keys l => .keys l | .vals l => .vals l | .lists l => .lists l | .items l => .items l
  | .listitems l => .listitems l | .item k v => .item k v | .listitem k l => .listitem k l
  | .list l => .list l | .obj o => .obj (absOf o)

/-- a returned modict is well formed: structures in step, no empty value list -/
def MOut.ObjInv : MOut K V → Prop
  | .obj o => Inv o ∧ MSpec.NonEmpty (absOf o)
  | _ => True

/-- the modict object `s` represents the multi-dictionary `m` -/
def MRel (s : OD K (List V)) (m : List (K × List V)) : Prop := Rel s m ∧ MSpec.NonEmpty m

/-- **modict, one call**: a modict that represents the ordered multi-dictionary `m` (every value list
non-empty) represents after any call what the reference multi-dictionary gives, returns/raises the same,
and no call ever leaves an empty value list behind. -/
theorem C39_modict_refines_multimap (s : OD K (List V)) (m : List (K × List V)) (op : MOp K V)
    (hm : MRel s m) (ha : op.ArgsInv) :
    MRel (MD.step s op).1 (MSpec.step m op.toA).1 ∧ (MD.step s op).2.toA = (MSpec.step m op.toA).2 ∧
      (MD.step s op).2.ObjInv := by
  obtain ⟨h, hne⟩ := hm
  have hobj : ∀ (c : OD K (List V)) (m' : List (K × List V)), Rel c m' → MSpec.NonEmpty m' →
      (MOut.obj c : MOut K V).toA = .obj m' ∧ (MOut.obj c : MOut K V).ObjInv := by
    intro c m' hc hn
    have := (rel_iff.1 hc).2
    exact ⟨by simp [MOut.toA, this], by simp only [MOut.ObjInv, this]; exact ⟨hc.inv, hn⟩⟩
  cases op with
  | setitem k v => exact ⟨⟨h.madd k v, MSpec.nonEmpty_add hne k v⟩, rfl, trivial⟩
  | append k v => exact ⟨⟨h.madd k v, MSpec.nonEmpty_add hne k v⟩, rfl, trivial⟩
  | getitem k =>
    simp only [MD.step, MD.getitem, OD.getitem, MD.newest, MOp.toA, MSpec.step, h.get]
    refine ⟨⟨h, hne⟩, ?_, ?_⟩ <;> cases dget s.d k with
    | none => simp [MD.outOf, MOut.toA, MOut.ObjInv]
    | some l => cases hl : l.getLast? <;> simp [MD.outOf, MOut.toA, MOut.ObjInv, hl]
  | contains k => exact ⟨⟨h, hne⟩, by simp [MD.step, OD.has, MOp.toA, MSpec.step, h.has, MOut.toA], trivial⟩
  | delitem k =>
    simp only [MD.step, OD.delitem, MOp.toA, MSpec.step, h.has]
    by_cases hk : dhas m k = true
    · have : k ∈ s.keys := (h.mem_keys' k).2 ((dhas_iff _ _).1 hk)
      simp only [hk, this, if_true]
      exact ⟨⟨h.delete k, MSpec.nonEmpty_ddel hne k⟩, rfl, trivial⟩
    · simp only [hk]; exact ⟨⟨h, hne⟩, rfl, trivial⟩
  | len => exact ⟨⟨h, hne⟩, by simp [MD.step, OD.len, MOp.toA, MSpec.step, h.length, MOut.toA], trivial⟩
  | keys => exact ⟨⟨h, hne⟩, by simp [MD.step, MOp.toA, MSpec.step, h.keys, MOut.toA], trivial⟩
  | clear => exact ⟨⟨Rel.empty, fun p hp => nomatch hp⟩, rfl, trivial⟩
  | values =>
    simp only [MD.step, MD.values, MD.items, h.items, mapNewest_eq, MOp.toA, MSpec.step]
    refine ⟨⟨h, hne⟩, ?_, ?_⟩ <;> cases MSpec.newestAll m <;> simp [MD.outOf, MOut.toA, MOut.ObjInv]
  | listvalues =>
    exact ⟨⟨h, hne⟩, by simp [MD.step, MD.listvalues, OD.values, h.items, MD.outOf, MOp.toA, MSpec.step, MOut.toA],
      by simp [MD.step, MD.listvalues, OD.values, h.items, MD.outOf, MOut.ObjInv]⟩
  | allvalues =>
    exact ⟨⟨h, hne⟩, by simp [MD.step, MD.allvalues, MD.allitems, h.items, MD.outOf, MOp.toA, MSpec.step, MOut.toA, MSpec.all],
      by simp [MD.step, MD.allvalues, MD.allitems, h.items, MD.outOf, MOut.ObjInv]⟩
  | items =>
    simp only [MD.step, MD.items, h.items, mapNewest_eq, MOp.toA, MSpec.step]
    refine ⟨⟨h, hne⟩, ?_, ?_⟩ <;> cases MSpec.newestAll m <;> simp [MD.outOf, MOut.toA, MOut.ObjInv]
  | listitems =>
    exact ⟨⟨h, hne⟩, by simp [MD.step, MD.listitems, h.items, MD.outOf, MOp.toA, MSpec.step, MOut.toA],
      by simp [MD.step, MD.listitems, h.items, MD.outOf, MOut.ObjInv]⟩
  | allitems =>
    exact ⟨⟨h, hne⟩, by simp [MD.step, MD.allitems, h.items, MD.outOf, MOp.toA, MSpec.step, MOut.toA, MSpec.all],
      by simp [MD.step, MD.allitems, h.items, MD.outOf, MOut.ObjInv]⟩
  | copy =>
    have hc : Rel (MD.update OD.empty (MSpec.all m)) m := by
      have := (Rel.empty (K := K) (V := List V)).maddAll (MSpec.all m)
      rwa [MSpec.addAll_all [] m (by simpa using h.nodupM) hne, List.nil_append] at this
    have e : MD.copy s = .ok (MD.update OD.empty (MSpec.all m)) := by
      simp [MD.copy, MD.updateFrom, MD.allitems, h.items, MSpec.all]
    obtain ⟨o1, o2⟩ := hobj _ _ hc hne
    simp only [MD.step, e, MD.outOf, MOp.toA, MSpec.step]
    exact ⟨⟨h, hne⟩, o1, o2⟩
  | get k d i =>
    simp only [MD.step, MD.get, MOp.toA, MSpec.step, h.get]
    refine ⟨⟨h, hne⟩, ?_, ?_⟩ <;> cases dget s.d k with
    | none => cases d <;> simp [MOut.toA, MOut.ObjInv]
    | some l => cases hl : pyIndex l i <;> cases d <;> simp [MOut.toA, MOut.ObjInv, hl]
  | getlist k =>
    refine ⟨⟨h, hne⟩, ?_, trivial⟩
    simp only [MD.step, MD.getlist, MOp.toA, MSpec.step, h.get, MOut.toA]
    cases dget s.d k <;> rfl
  | replace k v =>
    refine ⟨⟨h.setitem k [v], ?_⟩, rfl, trivial⟩
    intro p hp
    rcases mem_dset hp with hp | hp
    · exact hne p hp
    · subst hp; simp
  | setdefault k d =>
    simp only [MD.step, MD.setdefault, OD.getitem, MOp.toA, MSpec.step, h.get]
    cases hg : dget s.d k with
    | none => exact ⟨⟨h.madd k d, MSpec.nonEmpty_add hne k d⟩, rfl, trivial⟩
    | some l =>
      cases hl : l.getLast? with
      | none => simp only [Option.bind_some, hl]; exact ⟨⟨h.madd k d, MSpec.nonEmpty_add hne k d⟩, rfl, trivial⟩
      | some v => simp only [Option.bind_some, hl]; exact ⟨⟨h, hne⟩, rfl, trivial⟩
  | pop k d i =>
    simp only [MD.step, MD.pop, OD.pop, MOp.toA, MSpec.step, h.get]
    cases hg : dget s.d k with
    | some l =>
      have : k ∈ s.keys := (h.mem_keys k).2 (dget_some_mem hg)
      cases hp : pyIndex l i with
      | none => simp only [hp]; exact ⟨⟨h, hne⟩, rfl, trivial⟩
      | some v =>
        simp only [hp, hg, this, if_true]
        exact ⟨⟨h.delete k, MSpec.nonEmpty_ddel hne k⟩, rfl, trivial⟩
    | none =>
      cases d with
      | none => exact ⟨⟨h, hne⟩, rfl, trivial⟩
      | some dv => exact ⟨⟨h, hne⟩, rfl, trivial⟩
  | poplist k d =>
    simp only [MD.step, MD.poplist, OD.pop, MOp.toA, MSpec.step, h.get]
    cases hg : dget s.d k with
    | some l =>
      have : k ∈ s.keys := (h.mem_keys k).2 (dget_some_mem hg)
      simp only [this, if_true]
      exact ⟨⟨h.delete k, MSpec.nonEmpty_ddel hne k⟩, rfl, trivial⟩
    | none =>
      cases d with
      | none => exact ⟨⟨h, hne⟩, rfl, trivial⟩
      | some dv => exact ⟨⟨h, hne⟩, rfl, trivial⟩
  | poplistitem last =>
    simp only [MD.step, MD.poplistitem, MOp.toA, MSpec.step]
    cases last with
    | true =>
      simp only [if_true]
      cases hl : s.keys.getLast? with
      | none =>
        have : m = [] := by
          have := List.getLast?_eq_none_iff.1 hl
          rw [← h.keys] at this; simpa [dkeys] using this
        subst this; exact ⟨⟨h, hne⟩, rfl, trivial⟩
      | some k =>
        obtain ⟨l, h1, h2, h3⟩ := h.popLast hl
        have hk : k ∈ s.keys := List.mem_of_getLast? hl
        simp only [h1, OD.pop, h2, hk, if_true]
        exact ⟨⟨h3, fun p hp => hne p (List.dropLast_subset _ hp)⟩, rfl, trivial⟩
    | false =>
      simp only [Bool.false_eq_true, if_false]
      cases hl : s.keys.head? with
      | none =>
        have : m = [] := by
          have := List.head?_eq_none_iff.1 hl
          rw [← h.keys] at this; simpa [dkeys] using this
        subst this; exact ⟨⟨h, hne⟩, rfl, trivial⟩
      | some k =>
        obtain ⟨l, h1, h2, h3⟩ := h.popFirst hl
        have hk : k ∈ s.keys := List.mem_of_mem_head? hl
        simp only [h1, OD.pop, h2, hk, if_true]
        exact ⟨⟨h3, fun p hp => hne p (List.mem_of_mem_tail hp)⟩, rfl, trivial⟩
  | popitem last i =>
    simp only [MD.step, MD.popitem, MOp.toA, MSpec.step]
    cases last with
    | true =>
      simp only [if_true]
      cases hl : s.keys.getLast? with
      | none =>
        have : m = [] := by
          have := List.getLast?_eq_none_iff.1 hl
          rw [← h.keys] at this; simpa [dkeys] using this
        subst this; exact ⟨⟨h, hne⟩, rfl, trivial⟩
      | some k =>
        obtain ⟨l, h1, h2, h3⟩ := h.popLast hl
        have hk : k ∈ s.keys := List.mem_of_getLast? hl
        simp only [h1, h2]
        cases hp : pyIndex l i with
        | none => simp only [hp]; exact ⟨⟨h, hne⟩, rfl, trivial⟩
        | some v =>
          simp only [hp, OD.pop, h2, hk, if_true]
          exact ⟨⟨h3, fun p hp => hne p (List.dropLast_subset _ hp)⟩, rfl, trivial⟩
    | false =>
      simp only [Bool.false_eq_true, if_false]
      cases hl : s.keys.head? with
      | none =>
        have : m = [] := by
          have := List.head?_eq_none_iff.1 hl
          rw [← h.keys] at this; simpa [dkeys] using this
        subst this; exact ⟨⟨h, hne⟩, rfl, trivial⟩
      | some k =>
        obtain ⟨l, h1, h2, h3⟩ := h.popFirst hl
        have hk : k ∈ s.keys := List.mem_of_mem_head? hl
        simp only [h1, h2]
        cases hp : pyIndex l i with
        | none => simp only [hp]; exact ⟨⟨h, hne⟩, rfl, trivial⟩
        | some v =>
          simp only [hp, OD.pop, h2, hk, if_true]
          exact ⟨⟨h3, fun p hp => hne p (List.mem_of_mem_tail hp)⟩, rfl, trivial⟩
  | fromkeys sq d =>
    have hc := (Rel.empty (K := K) (V := List V)).maddAll (sq.map (fun k => (k, d)))
    have hn : MSpec.NonEmpty (MSpec.addAll ([] : List (K × List V)) (sq.map (fun k => (k, d)))) :=
      MSpec.nonEmpty_addAll (by intro p hp; simp at hp) _
    obtain ⟨o1, o2⟩ := hobj _ _ hc hn
    exact ⟨⟨h, hne⟩, o1, o2⟩
  | update ps => exact ⟨⟨h.maddAll ps, MSpec.nonEmpty_addAll hne ps⟩, rfl, trivial⟩
  | updateFrom o =>
    have ho : Rel o (absOf o) := Inv.rel ha
    simp only [MD.step, MD.updateFrom, MD.allitems, ho.items, MOp.toA, MSpec.step]
    exact ⟨⟨h.maddAll _, MSpec.nonEmpty_addAll hne _⟩, rfl, trivial⟩
  | create ps => exact ⟨⟨h.mcreate ps, MSpec.nonEmpty_create hne ps⟩, rfl, trivial⟩
  | eq o =>
    have ho : Rel o (absOf o) := Inv.rel ha
    refine ⟨⟨h, hne⟩, ?_, trivial⟩
    simp only [MD.step, MOp.toA, MSpec.step, MOut.toA, h.eq ho]
  | reversed => exact ⟨⟨h, hne⟩, by simp [MD.step, MOp.toA, MSpec.step, h.keys, MOut.toA], trivial⟩
  | ior ps => exact ⟨⟨h.maddAll ps, MSpec.nonEmpty_addAll hne ps⟩, rfl, trivial⟩
  | or ps =>
    have hc : Rel (MD.update OD.empty (MSpec.all m)) m := by
      have := (Rel.empty (K := K) (V := List V)).maddAll (MSpec.all m)
      rwa [MSpec.addAll_all [] m (by simpa using h.nodupM) hne, List.nil_append] at this
    have e : MD.copy s = .ok (MD.update OD.empty (MSpec.all m)) := by
      simp [MD.copy, MD.updateFrom, MD.allitems, h.items, MSpec.all]
    obtain ⟨o1, o2⟩ := hobj _ _ (hc.maddAll ps) (MSpec.nonEmpty_addAll hne ps)
    simp only [MD.step, e, MOp.toA, MSpec.step]
    exact ⟨⟨h, hne⟩, o1, o2⟩

theorem newestAll_of_nonEmpty (m : List (K × List V)) (hne : MSpec.NonEmpty m) :
    ∃ nl, MSpec.newestAll m = some nl ∧ nl.map Prod.fst = dkeys m ∧
      ∀ p ∈ nl, ∃ l, (p.1, l) ∈ m ∧ l.getLast? = some p.2 := by
  induction m with
  | nil => exact ⟨[], rfl, rfl, by simp⟩
  | cons q t ih =>
    obtain ⟨k, l⟩ := q
    obtain ⟨nl, h1, h2, h3⟩ := ih (fun p hp => hne p (by simp [hp]))
    have hl : l ≠ [] := hne (k, l) (by simp)
    obtain ⟨v, hv⟩ : ∃ v, l.getLast? = some v := by
      cases hg : l.getLast? with
      | none => exact absurd (List.getLast?_eq_none_iff.1 hg) hl
      | some v => exact ⟨v, rfl⟩
    refine ⟨(k, v) :: nl, by simp [MSpec.newestAll, hv, h1], by simp [h2], ?_⟩
    intro p hp
    simp only [List.mem_cons] at hp
    rcases hp with rfl | hp
    · exact ⟨l, by simp, hv⟩
    · obtain ⟨l', hm, hg⟩ := h3 p hp
      exact ⟨l', by simp [hm], hg⟩

/-- **modict: the views agree** — on a well formed modict `items()`/`values()` are the newest value of every
key in `keys()` order, `listitems()` the whole lists, `allitems()` every stored pair, `len()` the number of keys -/
theorem C39_modict_views_consistent (s : OD K (List V)) (m : List (K × List V)) (h : MRel s m) :
    MD.listitems s = .ok m ∧ MD.allitems s = .ok (MSpec.all m) ∧ s.keys = dkeys m ∧ OD.len s = m.length ∧
    ∃ nl, MD.items s = .ok nl ∧ MD.values s = .ok (nl.map Prod.snd) ∧ nl.map Prod.fst = s.keys ∧
      ∀ p ∈ nl, ∃ l, (p.1, l) ∈ m ∧ l.getLast? = some p.2 := by
  obtain ⟨hr, hne⟩ := h
  obtain ⟨nl, h1, h2, h3⟩ := newestAll_of_nonEmpty m hne
  refine ⟨hr.items, by simp [MD.allitems, hr.items, MSpec.all], hr.keys.symm, by simp [OD.len, hr.length],
    nl, ?_, ?_, by rw [h2, hr.keys], h3⟩
  · simp [MD.items, hr.items, mapNewest_eq, h1]
  · simp [MD.values, MD.items, hr.items, mapNewest_eq, h1]

/-- **a rejected call is a no-op (modict)**: whatever a call raises — KeyError of a missing key or an empty modict,
IndexError of `pop(key, index=i)` / `popitem(index=i)` with an index outside the key's value list (fix D39g) —
the modict is exactly as it was. -/
theorem C39_modict_rejected_is_noop (s : OD K (List V)) (m : List (K × List V)) (op : MOp K V) (hm : MRel s m)
    (e : Err) (he : (MD.step s op).2 = .err e) : (MD.step s op).1 = s := by
  obtain ⟨h, _⟩ := hm
  cases op with
  | setitem k v => simp [MD.step] at he
  | append k v => simp [MD.step] at he
  | delitem k =>
    simp only [MD.step, OD.delitem] at he ⊢
    by_cases hk : dhas s.d k = true
    · have : k ∈ s.keys := (h.mem_keys k).2 ((dhas_iff _ _).1 hk)
      simp [hk, this, MD.outOf] at he
    · simp [hk]
  | clear => simp [MD.step] at he
  | replace k v => simp [MD.step] at he
  | setdefault k d =>
    simp only [MD.step, MD.setdefault] at he
    cases hg : OD.getitem s k with
    | error _ => simp [hg, MD.outOf] at he
    | ok l => cases hl : l.getLast? <;> simp [hg, hl, MD.outOf] at he
  | pop k d i =>
    simp only [MD.step, MD.pop] at he ⊢
    cases hg : dget s.d k with
    | some l =>
      simp only [hg] at he ⊢
      cases hp : pyIndex l i with
      | some v => simp [hp, MD.outOf] at he
      | none => rfl
    | none => cases d <;> rfl
  | poplist k d =>
    simp only [MD.step, MD.poplist, OD.pop] at he ⊢
    cases hg : dget s.d k with
    | some l => simp [hg, MD.outOf] at he
    | none => cases d <;> simp [hg]
  | popitem last i =>
    simp only [MD.step, MD.popitem] at he ⊢
    cases hx : (if last = true then s.keys.getLast? else s.keys.head?) with
    | none => rfl
    | some k =>
      simp only [hx] at he ⊢
      cases hg : dget s.d k with
      | none => rfl
      | some l =>
        simp only [hg] at he ⊢
        cases hp : pyIndex l i with
        | some v => simp [hp, MD.outOf] at he
        | none => rfl
  | poplistitem last =>
    simp only [MD.step, MD.poplistitem] at he ⊢
    cases hx : (if last = true then s.keys.getLast? else s.keys.head?) with
    | none => simp [hx]
    | some k =>
      simp only [hx, OD.pop] at he
      have hk : k ∈ s.keys := by
        cases last <;> simp at hx
        · exact List.mem_of_mem_head? hx
        · exact List.mem_of_getLast? hx
      obtain ⟨l, hl⟩ := Option.isSome_iff_exists.1 ((dget_isSome_iff s.d k).2 ((h.mem_keys k).1 hk))
      simp [hl, MD.outOf] at he
  | update ps => simp [MD.step] at he
  | updateFrom o =>
    simp only [MD.step, MD.updateFrom] at he ⊢
    cases ho : MD.allitems o with
    | error e' => simp [ho]
    | ok l => simp [ho, MD.outOf] at he
  | create ps => simp [MD.step] at he
  | ior ps => simp [MD.step] at he
  | getitem _ => rfl
  | contains _ => rfl
  | len => rfl
  | keys => rfl
  | values => rfl
  | listvalues => rfl
  | allvalues => rfl
  | items => rfl
  | listitems => rfl
  | allitems => rfl
  | copy => rfl
  | get _ _ _ => rfl
  | getlist _ => rfl
  | fromkeys _ _ => rfl
  | eq _ => rfl
  | reversed => rfl
  | or _ => rfl

/-- **modict, every history** -/
theorem C39_modict_history (ops : List (MOp K V)) (s : OD K (List V)) (m : List (K × List V))
    (h : MRel s m) (ha : ∀ op ∈ ops, op.ArgsInv) :
    MRel (run MD.step s ops).1 (run MSpec.step m (ops.map MOp.toA)).1 ∧
    (run MD.step s ops).2.map MOut.toA = (run MSpec.step m (ops.map MOp.toA)).2 := by
  induction ops generalizing s m with
  | nil => exact ⟨h, rfl⟩
  | cons op t ih =>
    obtain ⟨h1, h2, _⟩ := C39_modict_refines_multimap s m op h (ha op (by simp))
    obtain ⟨i1, i2⟩ := ih _ _ h1 (fun o ho => ha o (by simp [ho]))
    simp only [run, List.map_cons]
    exact ⟨i1, by rw [h2, i2]⟩

end MODict

/-! non-vacuity -/
example : MRel (MD.init [(1, 10), (2, 20), (1, 11)]) [(1, [10, 11]), (2, [20])] :=
  ⟨(Rel.empty (K := Nat) (V := List Nat)).maddAll _, by unfold MSpec.NonEmpty; decide⟩
example : (MD.step (MD.init [(1, 10), (2, 20), (1, 11)]) (.getitem 1)).2 = .val 11 := by decide
example : (MD.step (MD.init [(1, 10), (2, 20), (1, 11)]) (.get 1 none 0)).2 = .val 10 := by decide
example : (MD.step (MD.init [(1, 10), (2, 20), (1, 11)]) (.popitem false (-1)))
    = (⟨[(2, [20])], [2]⟩, .item 1 11) := by decide
example : (MD.step (MD.init [(1, 10), (2, 20), (1, 11)]) .copy).2
    = .obj ⟨[(1, [10, 11]), (2, [20])], [1, 2]⟩ := by decide

/-! ## modict with its value lists as objects: no list is ever shared -/
section ModictListObjects
variable {K V : Type} [DecidableEq K]
open MLists

/-- **no two modicts ever hold the same list object, and no modict holds one list under two keys**: true of
no objects at all and kept by `append`/`__setitem__`, `replace`, `del`/`pop*`, `clear`, `update(pairs)`,
`update(other modict)`, construction from pairs and `copy()` / `modict(other)` / unpickling -/
theorem C39_modict_lists_separate :
    Sep (MLists.empty : MH K V) ∧ ∀ h : MH K V, Sep h →
      (∀ i k v, Sep (MLists.append h i k v)) ∧ (∀ i k v, Sep (MLists.replace h i k v)) ∧
      (∀ i k, Sep (MLists.remove h i k)) ∧ (∀ i, Sep (MLists.clear h i)) ∧ (∀ i ps, Sep (MLists.update h i ps)) ∧
      (∀ i j, Sep (MLists.updateFrom h i j)) ∧ (∀ ps, Sep (MLists.new h ps)) ∧ (∀ j, Sep (MLists.copy h j)) :=
  ⟨Sep.empty, fun _ hs => ⟨hs.append, hs.replace, hs.remove, hs.clear, hs.update, hs.updateFrom, hs.new, hs.copy⟩⟩

/-- **a copy is independent of its original** (and of every other modict): `copy()` / `modict(other)` leaves what
every existing modict holds untouched, the new modict shares no list with any of them, and afterwards a call
on any one modict (`append`, `replace`, `del`, `clear`, `update`) never changes what another one holds under any key -/
theorem C39_modict_copy_independent (h : MH K V) (hs : Sep h) (j : Nat) :
    Sep (MLists.copy h j) ∧ (MLists.copy h j).objs.length = h.objs.length + 1 ∧
    (∀ i, i < h.objs.length → ∀ k, view (MLists.copy h j) i k = view h i k) ∧
    ∀ h' : MH K V, Sep h' → ∀ a b, b ≠ a → ∀ k',
      (∀ k v, view (MLists.append h' a k v) b k' = view h' b k') ∧
      (∀ k v, view (MLists.replace h' a k v) b k' = view h' b k') ∧
      (∀ k, view (MLists.remove h' a k) b k' = view h' b k') ∧
      view (MLists.clear h' a) b k' = view h' b k' ∧
      (∀ ps, view (MLists.update h' a ps) b k' = view h' b k') := by
  refine ⟨hs.copy j, ?_, fun i hi k => view_new_old hs _ hi k, ?_⟩
  · simp [MLists.copy, MLists.new, length_objs_update]
  · intro h' hs' a b hab k'
    exact ⟨fun k v => view_append_other hs' hab k k' v, fun k v => view_replace_other hs' hab k k' v,
      fun k => view_remove_other hab k k', view_clear_other hab k', fun ps => view_update_other hs' hab ps k'⟩

end ModictListObjects

/-! non-vacuity: a copy, then appends to both: neither sees the other's -/
example : MLists.listitems (MLists.append (MLists.append (MLists.copy (MLists.new (MLists.empty : MLists.MH Nat Nat)
    [(1, 10), (2, 20), (1, 11)]) 0) 0 1 12) 1 2 21) 0 = [(1, [10, 11, 12]), (2, [20])] := by decide
example : MLists.listitems (MLists.append (MLists.append (MLists.copy (MLists.new (MLists.empty : MLists.MH Nat Nat)
    [(1, 10), (2, 20), (1, 11)]) 0) 0 1 12) 1 2 21) 1 = [(1, [10, 11]), (2, [20, 21])] := by decide

/-! ## oset -/
section OSetProps
variable {K : Type} [DecidableEq K]
open SSpec

/-- an oset passed as the other operand is duplicate free -/
def OSet.Arg.Ok : OSet.Arg K → Prop
  | .set o => o.Nodup
  | .list _ => True

def SOp.ArgsOk : SOp K → Prop
  | .or o => o.Ok | .and o => o.Ok | .sub o => o.Ok | .rsub o => o.Ok | .xor o => o.Ok
  | .ior o => o.Ok | .iand o => o.Ok | .ixor o => o.Ok | .isub o => o.Ok | .isdisjoint o => o.Ok
  | .le o => o.Nodup | .lt o => o.Nodup | .ge o => o.Nodup | .gt o => o.Nodup | .eq o => o.Ok
  | _ => True

theorem OSet.Arg.Ok.nodup {o : OSet.Arg K} (h : o.Ok) : ∀ s, o = .set s → s.Nodup := by
  intro s e; subst e; exact h

/-- **oset, one call.**  On a duplicate-free list the transcribed oset (add/discard loops, the
`MutableSet` mixin methods built from them, `clear` by repeated `pop`) computes exactly what the reference
ordered set does (filters of the operands, new elements at the end, pop at either end). -/
theorem C39_oset_refines_ordered_set (l : List K) (op : SOp K) (hn : l.Nodup) (ha : op.ArgsOk) :
    OSet.step l op = SSpec.step l op := by
  cases op with
  | add k => rfl
  | discard k =>
    simp only [OSet.step, SSpec.step, OSet.discard, List.Nodup.erase_eq_filter hn]
    congr 1; apply List.filter_congr; intro x _; by_cases e : x = k <;> simp [e]
  | remove k =>
    simp only [OSet.step, SSpec.step, OSet.remove, OSet.discard, List.Nodup.erase_eq_filter hn]
    by_cases hk : k ∈ l
    · simp only [hk, if_true]
      congr 1; apply List.filter_congr; intro x _; by_cases e : x = k <;> simp [e]
    · simp [hk]
  | pop last =>
    cases last with
    | true =>
      simp only [OSet.step, SSpec.step, OSet.pop, if_true]
      cases hl : l.getLast? with
      | none => rfl
      | some k =>
        obtain ⟨ys, rfl⟩ := List.getLast?_eq_some_iff.1 hl
        simp [OSet.discard, erase_last ys k hn]
    | false =>
      cases l with
      | nil => rfl
      | cons k t => simp [OSet.step, SSpec.step, OSet.pop, OSet.discard]
  | clear => simp [OSet.step, SSpec.step, OSet.clear, clearLoop_nil _ l hn]
  | contains k => rfl
  | len => rfl
  | iter => rfl
  | reversed => rfl
  | or o => simp only [OSet.step, SSpec.step, OSet.or, oset_or l _ hn]
  | and o => simp only [OSet.step, SSpec.step, OSet.and, oset_init]
  | sub o => simp only [OSet.step, SSpec.step, oset_sub l o hn]
  | rsub o => simp only [OSet.step, SSpec.step, oset_rsub l o ha.nodup]
  | xor o => simp only [OSet.step, SSpec.step, oset_xor l o hn ha.nodup]
  | ior o => simp only [OSet.step, SSpec.step, OSet.ior, foldl_add _ l hn]
  | iand o => simp only [OSet.step, SSpec.step, oset_iand l o hn]
  | ixor o => simp only [OSet.step, SSpec.step, oset_ixor l o hn ha.nodup]
  | isub o => simp only [OSet.step, SSpec.step, OSet.isub, foldl_discard _ l hn]
  | ixorSelf => simp [OSet.step, SSpec.step, OSet.clear, clearLoop_nil _ l hn]
  | isubSelf => simp [OSet.step, SSpec.step, OSet.clear, clearLoop_nil _ l hn]
  | isdisjoint o => rfl
  | le o =>
    simp only [OSet.step, SSpec.step, OSet.le]
    cases h : l.all (fun x => decide (x ∈ o)) with
    | false => simp
    | true =>
      have := length_le_of_subset hn (o := o) (by simpa using h)
      simp [this]
  | lt o =>
    simp only [OSet.step, SSpec.step, OSet.lt, OSet.le]
    by_cases h : l.length < o.length
    · have : l.length ≤ o.length := Nat.le_of_lt h
      simp [h, this]
    · simp [h]
  | ge o =>
    simp only [OSet.step, SSpec.step, OSet.ge]
    cases h : o.all (fun x => decide (x ∈ l)) with
    | false => simp
    | true =>
      have := length_le_of_subset (l := o) (o := l) ha (by simpa using h)
      simp [this]
  | gt o =>
    simp only [OSet.step, SSpec.step, OSet.gt, OSet.ge]
    by_cases h : o.length < l.length
    · have : o.length ≤ l.length := Nat.le_of_lt h
      simp [h, this]
    · simp [h]
  | eq o =>
    cases o with
    | set o =>
      simp only [OSet.step, SSpec.step, OSet.eq]
      by_cases e : l = o
      · subst e; simp
      · simp [e]
    | list o => rfl

/-- the reference ordered set never holds a duplicate, and every set it returns is duplicate free -/
theorem C39_oset_nodup (l : List K) (op : SOp K) (hn : l.Nodup) :
    (SSpec.step l op).1.Nodup ∧ ∀ o, (SSpec.step l op).2 = .obj o → o.Nodup := by
  have hf : ∀ p : K → Bool, (l.filter p).Nodup := fun p => hn.sublist List.filter_sublist
  have happ : ∀ e : List K, (l ++ (dedup e).filter (· ∉ l)).Nodup := by
    intro e
    refine List.nodup_append.2 ⟨hn, (nodup_dedup e).sublist List.filter_sublist, ?_⟩
    intro a ha b hb; simp at hb; exact fun h => hb.2 (h ▸ ha)
  have hx : ∀ e : List K, (l.filter (· ∉ e) ++ dedup (e.filter (· ∉ l))).Nodup := by
    intro e
    refine List.nodup_append.2 ⟨hf _, nodup_dedup _, ?_⟩
    intro a ha b hb
    rw [mem_dedup] at hb; simp at ha hb
    exact fun h => hb.2 (h ▸ ha.1)
  cases op with
  | add k =>
    refine ⟨?_, by simp [SSpec.step]⟩
    simp only [SSpec.step]; split
    · exact hn
    · rename_i hk
      exact List.nodup_append.2 ⟨hn, by simp, by simp; exact fun x hx e => hk (e ▸ hx)⟩
  | discard k => exact ⟨hf _, by simp [SSpec.step]⟩
  | remove k =>
    simp only [SSpec.step]; split
    · exact ⟨hf _, by simp⟩
    · exact ⟨hn, by simp⟩
  | pop last =>
    cases last with
    | true =>
      simp only [SSpec.step]; split
      · exact ⟨hn.sublist (List.dropLast_sublist l), by simp⟩
      · exact ⟨hn, by simp⟩
    | false =>
      cases l with
      | nil => exact ⟨hn, by simp [SSpec.step]⟩
      | cons k t => exact ⟨(List.nodup_cons.1 hn).2, by simp [SSpec.step]⟩
  | clear => exact ⟨by simp [SSpec.step], by simp [SSpec.step]⟩
  | contains k => exact ⟨hn, by simp [SSpec.step]⟩
  | len => exact ⟨hn, by simp [SSpec.step]⟩
  | iter => exact ⟨hn, by simp [SSpec.step]⟩
  | reversed => exact ⟨hn, by simp [SSpec.step]⟩
  | or o => exact ⟨hn, by simp only [SSpec.step, SOut.obj.injEq]; rintro _ rfl; exact happ _⟩
  | and o => exact ⟨hn, by simp only [SSpec.step, SOut.obj.injEq]; rintro _ rfl; exact nodup_dedup _⟩
  | sub o => exact ⟨hn, by simp only [SSpec.step, SOut.obj.injEq]; rintro _ rfl; exact hf _⟩
  | rsub o => exact ⟨hn, by simp only [SSpec.step, SOut.obj.injEq]; rintro _ rfl; exact nodup_dedup _⟩
  | xor o => exact ⟨hn, by simp only [SSpec.step, SOut.obj.injEq]; rintro _ rfl; exact hx _⟩
  | ior o => exact ⟨happ _, by simp [SSpec.step]⟩
  | iand o => exact ⟨hf _, by simp [SSpec.step]⟩
  | ixor o => exact ⟨hx _, by simp [SSpec.step]⟩
  | isub o => exact ⟨hf _, by simp [SSpec.step]⟩
  | ixorSelf => exact ⟨by simp [SSpec.step], by simp [SSpec.step]⟩
  | isubSelf => exact ⟨by simp [SSpec.step], by simp [SSpec.step]⟩
  | isdisjoint o => exact ⟨hn, by simp [SSpec.step]⟩
  | le o => exact ⟨hn, by simp [SSpec.step]⟩
  | lt o => exact ⟨hn, by simp [SSpec.step]⟩
  | ge o => exact ⟨hn, by simp [SSpec.step]⟩
  | gt o => exact ⟨hn, by simp [SSpec.step]⟩
  | eq o => cases o <;> exact ⟨hn, by simp [SSpec.step]⟩

/-- **a rejected call is a no-op (oset)**: `remove` of a missing element and `pop` from an empty set change nothing -/
theorem C39_oset_rejected_is_noop (l : List K) (op : SOp K) (e : Err) (he : (OSet.step l op).2 = .err e) :
    (OSet.step l op).1 = l := by
  cases op with
  | remove k =>
    simp only [OSet.step, OSet.remove] at he ⊢
    by_cases hk : k ∈ l
    · simp [hk] at he
    · simp [hk]
  | pop last =>
    simp only [OSet.step, OSet.pop] at he ⊢
    cases hx : (if last = true then l.getLast? else l.head?) with
    | none => simp [hx]
    | some k => simp [hx] at he
  | add k => simp [OSet.step] at he
  | discard k => simp [OSet.step] at he
  | clear => simp [OSet.step] at he
  | ior o => simp [OSet.step] at he
  | iand o => simp [OSet.step] at he
  | ixor o => simp [OSet.step] at he
  | isub o => simp [OSet.step] at he
  | ixorSelf => simp [OSet.step] at he
  | isubSelf => simp [OSet.step] at he
  | contains _ => rfl
  | len => rfl
  | iter => rfl
  | reversed => rfl
  | or _ => rfl
  | and _ => rfl
  | sub _ => rfl
  | rsub _ => rfl
  | xor _ => rfl
  | isdisjoint _ => rfl
  | le _ => rfl
  | lt _ => rfl
  | ge _ => rfl
  | gt _ => rfl
  | eq _ => rfl

/-- **oset, every history** (operand osets duplicate free, as every reachable oset is) -/
theorem C39_oset_history (ops : List (SOp K)) (l : List K) (hn : l.Nodup) (ha : ∀ op ∈ ops, op.ArgsOk) :
    run OSet.step l ops = run SSpec.step l ops ∧ (run SSpec.step l ops).1.Nodup := by
  induction ops generalizing l with
  | nil => exact ⟨rfl, hn⟩
  | cons op t ih =>
    have h1 := C39_oset_refines_ordered_set l op hn (ha op (by simp))
    have h2 := (C39_oset_nodup l op hn).1
    obtain ⟨i1, i2⟩ := ih _ h2 (fun o ho => ha o (by simp [ho]))
    simp only [run, h1, i1]
    exact ⟨trivial, i2⟩

/-- a pickle round trip / `copy.copy` / `copy.deepcopy` of an oset (its elements re-added in order) gives the same
elements in the same order -/
theorem C39_oset_pickle_equal (l : List K) (hn : l.Nodup) : OSet.or l (.list []) = l := by
  simp only [OSet.or, elems_list, List.append_nil]
  rw [oset_init, dedup_of_nodup l hn]

/-- membership in the results of the set algebra (any operands) and of the in-place forms -/
theorem C39_oset_algebra_membership (l : List K) (o : OSet.Arg K) (x : K) :
    (x ∈ OSet.or l o ↔ x ∈ l ∨ x ∈ o.elems) ∧ (x ∈ OSet.and l o ↔ x ∈ l ∧ x ∈ o.elems) ∧
    (l.Nodup → (x ∈ OSet.sub l o ↔ x ∈ l ∧ x ∉ o.elems)) ∧
    (l.Nodup → o.Ok → (x ∈ OSet.xor l o ↔ (x ∈ l ∧ x ∉ o.elems) ∨ (x ∈ o.elems ∧ x ∉ l))) := by
  refine ⟨?_, ?_, ?_, ?_⟩
  · simp [OSet.or, mem_init]
  · simp only [OSet.and, mem_init, List.mem_filter, decide_eq_true_eq]; exact and_comm
  · intro hn; exact mem_oset_sub l o hn x
  · intro hn ho
    rw [oset_xor l o hn ho.nodup]
    simp only [List.mem_append, List.mem_filter, mem_dedup, decide_not,
      Bool.not_eq_eq_eq_not, Bool.not_true, decide_eq_false_iff_not]

end OSetProps

/-! non-vacuity: oset('abracadabra') and oset('simsalabim') of the class docstring, as numbers -/
example : OSet.init [1, 2, 18, 1, 3, 1, 4, 1, 2, 18, 1] = [1, 2, 18, 3, 4] := by decide
example : (OSet.step [1, 2, 18, 3, 4] (.and (.set [19, 9, 13, 1, 12, 2]))).2 = .obj [1, 2] := by decide
example : (OSet.step [1, 2, 18, 3, 4] (.xor (.set [19, 9, 13, 1, 12, 2]))).2 = .obj [18, 3, 4, 19, 9, 13, 12] := by
  decide
example : (OSet.step [3, 1, 2] (.and (.list [2, 2, 3]))).2 = .obj [2, 3] := by decide
example : OSet.step [1, 2, 18, 3, 4] (.pop false) = ([2, 18, 3, 4], .key 1) := by decide
example : OSet.step [1, 2, 18, 3, 4] .clear = ([], .none) := by decide

/-! ## oset at the level of its cells: the doubly linked list and the map represent the list of keys -/
section OSetLinks
variable {K : Type} [DecidableEq K]
open Links

/-- the linked structure `s` represents the duplicate-free list `l` (its keys in link order) -/
def LRel (s : LL K) (l : List K) : Prop := ∃ ps, Repr s ps ∧ dkeys ps = l

theorem split_at_key {ps : List (K × Nat)} {k : K} (h : k ∈ dkeys ps) :
    ∃ a c b, ps = a ++ (k, c) :: b ∧ k ∉ dkeys a := by
  induction ps with
  | nil => simp at h
  | cons p t ih =>
    obtain ⟨x, y⟩ := p
    by_cases e : x = k
    · subst e; exact ⟨[], y, t, rfl, by simp⟩
    · simp only [dkeys_cons, List.mem_cons] at h
      rcases h with h | h
      · exact absurd h.symm e
      · obtain ⟨a, c, b, rfl, hk⟩ := ih h
        refine ⟨(x, y) :: a, c, b, rfl, ?_⟩
        simp only [dkeys_cons, List.mem_cons, not_or]
        exact ⟨fun x' => e x'.symm, hk⟩

/-- the cell-level primitives of `oset` on the structure, as calls -/
def Links.step (s : LL K) : SOp K → Option (LL K × SOut K)
  | .add k => some (Links.add s k, .none)
  | .discard k => some (Links.discard s k, .none)
  | .pop last => let r := Links.pop s last; some (r.1, match r.2 with | .ok k => .key k | .error e => .err e)
  | .contains k => some (s, .bool (Links.contains s k))
  | .len => some (s, .nat (Links.len s))
  | .iter => some (s, .keys (Links.iter s))
  | .reversed => some (s, .keys (Links.reversed s))
  | _ => none

theorem LRel.discard {s : LL K} {l : List K} (h : LRel s l) (k : K) :
    LRel (Links.discard s k) (OSet.discard l k) := by
  obtain ⟨ps, hr, rfl⟩ := h
  by_cases hk : k ∈ dkeys ps
  · obtain ⟨a, c, b, rfl, hka⟩ := split_at_key hk
    refine ⟨a ++ b, hr.discard_mem, ?_⟩
    simp only [OSet.discard, dkeys_append, dkeys_cons]
    rw [List.erase_append, if_neg hka]; simp
  · rw [hr.discard_not_mem hk]
    exact ⟨ps, hr, by simp [OSet.discard, List.erase_of_not_mem hk]⟩

/-- **oset, the linked structure, one primitive call**: `add`, `discard`, `pop`, `in`, `len`, iteration and
reversed iteration on the sentinel/cells/map structure give exactly what the list model of
`Model/Containers.lean` gives, and the structure keeps representing the resulting list (well-formed
ring of `next`/`prev` links through exactly the mapped cells, in order). -/
theorem C39_oset_links_refine_list (s : LL K) (l : List K) (op : SOp K) (h : LRel s l)
    (r : LL K × SOut K) (hstep : Links.step s op = some r) :
    r.2 = (OSet.step l op).2 ∧ LRel r.1 (OSet.step l op).1 := by
  obtain ⟨ps, hr, hl⟩ := h
  cases op with
  | add k =>
    simp only [Links.step, Option.some.injEq] at hstep; subst hstep
    refine ⟨rfl, ?_⟩
    subst hl
    by_cases hk : k ∈ dkeys ps
    · rw [hr.add_of_mem hk]; exact ⟨ps, hr, by simp [OSet.step, OSet.add, hk]⟩
    · exact ⟨_, hr.add_new hk, by simp [OSet.step, OSet.add, hk]⟩
  | discard k =>
    simp only [Links.step, Option.some.injEq] at hstep; subst hstep
    exact ⟨rfl, LRel.discard ⟨ps, hr, hl⟩ k⟩
  | contains k =>
    simp only [Links.step, Option.some.injEq] at hstep; subst hstep
    subst hl
    refine ⟨?_, ps, hr, rfl⟩
    simp only [OSet.step, Links.contains, SOut.bool.injEq]
    rw [Bool.eq_iff_iff, hr.mem_iff]; simp
  | len =>
    simp only [Links.step, Option.some.injEq] at hstep; subst hstep
    subst hl
    exact ⟨by simp [OSet.step, hr.len_eq, dkeys], ps, hr, rfl⟩
  | iter =>
    simp only [Links.step, Option.some.injEq] at hstep; subst hstep
    subst hl
    exact ⟨by simp [OSet.step, hr.iter_eq], ps, hr, rfl⟩
  | reversed =>
    simp only [Links.step, Option.some.injEq] at hstep; subst hstep
    subst hl
    exact ⟨by simp [OSet.step, hr.reversed_eq], ps, hr, rfl⟩
  | pop last =>
    simp only [Links.step, Option.some.injEq] at hstep; subst hstep
    subst hl
    have hlen := hr.len_eq
    simp only [Links.len] at hlen
    cases hps : ps with
    | nil =>
      subst hps
      simp only [List.length_nil] at hlen
      cases last <;> simp [Links.pop, hlen, OSet.step, OSet.pop] <;> exact ⟨[], hr, rfl⟩
    | cons p0 t =>
      have hne : ¬ s.map.length = 0 := by rw [hlen, hps]; simp
      obtain ⟨e, he, hlast⟩ := hr.last_cell
      obtain ⟨e', he', hfirst⟩ := chain_first hr.fwd
      rw [he] at he'; cases he'
      -- the pair whose key `pop` reads
      have hpair : ∃ q ∈ ps, q.2 = (if last then e.prev else e.next) ∧
          (if last then (dkeys ps).getLast? else (dkeys ps).head?) = some q.1 := by
        cases last with
        | true =>
          simp only [if_true]
          have hl' : (ps.map Prod.snd).getLast? = ps.getLast?.map Prod.snd := List.getLast?_map
          cases hgl : ps.getLast? with
          | none => rw [List.getLast?_eq_none_iff.1 hgl] at hps; cases hps
          | some q =>
            refine ⟨q, List.mem_of_getLast? hgl, ?_, by simp [dkeys, List.getLast?_map, hgl]⟩
            rw [List.getLast?_cons, hl', hgl] at hlast
            simpa using hlast
        | false =>
          simp only [Bool.false_eq_true, if_false]
          refine ⟨p0, by rw [hps]; simp, ?_, by rw [hps]; simp⟩
          rw [hfirst, hps]; simp
      obtain ⟨q, hq, hq2, hq1⟩ := hpair
      obtain ⟨cq, hcq, hkey⟩ := hr.cellKey q hq
      have hpop : Links.pop s last = (Links.discard s q.1, .ok q.1) := by
        simp only [Links.pop, hne, if_false, he, ← hq2, hcq, hkey]
      have hopop : OSet.pop (dkeys ps) last = (OSet.discard (dkeys ps) q.1, .ok q.1) := by
        simp only [OSet.pop, hq1]
      rw [← hps, hpop]
      simp only [OSet.step, hopop]
      exact ⟨trivial, LRel.discard ⟨ps, hr, rfl⟩ q.1⟩
  | remove _ => simp [Links.step] at hstep
  | clear => simp [Links.step] at hstep
  | or _ => simp [Links.step] at hstep
  | and _ => simp [Links.step] at hstep
  | sub _ => simp [Links.step] at hstep
  | rsub _ => simp [Links.step] at hstep
  | xor _ => simp [Links.step] at hstep
  | ior _ => simp [Links.step] at hstep
  | iand _ => simp [Links.step] at hstep
  | ixor _ => simp [Links.step] at hstep
  | isub _ => simp [Links.step] at hstep
  | ixorSelf => simp [Links.step] at hstep
  | isubSelf => simp [Links.step] at hstep
  | isdisjoint _ => simp [Links.step] at hstep
  | le _ => simp [Links.step] at hstep
  | lt _ => simp [Links.step] at hstep
  | ge _ => simp [Links.step] at hstep
  | gt _ => simp [Links.step] at hstep
  | eq _ => simp [Links.step] at hstep

/-- a new `oset()` represents the empty list; `oset(iterable)` the first occurrences of the iterable -/
theorem C39_oset_links_init (it : List K) : LRel (Links.init it) (OSet.init it) := by
  have : ∀ (it : List K) (s : LL K) (l : List K), LRel s l → LRel (it.foldl Links.add s) (it.foldl OSet.add l) := by
    intro it
    induction it with
    | nil => intro s l h; exact h
    | cons k t ih =>
      intro s l h
      exact ih _ _ (C39_oset_links_refine_list s l (.add k) h _ rfl).2
  exact this it _ _ ⟨[], Repr.empty, rfl⟩

end OSetLinks

/-! non-vacuity: the linked structure after add a, add b, add c, discard b, add d -/
example : Links.iter (Links.discard (Links.init [1, 2, 3]) 2) = [1, 3] := by decide
example : Links.reversed (Links.add (Links.discard (Links.init [1, 2, 3]) 2) 4) = [4, 3, 1] := by decide
example : (match (Links.pop (Links.init [1, 2, 3]) false).2 with | .ok k => k | .error _ => 0) = 1 := by decide

/-! ## laws of the reference dictionary that are not visible in its definition -/
section Laws
variable {K V : Type} [DecidableEq K]

/-- **reorder**: the keys of `other` move to the end in `other`'s order, everything else keeps its
relative order; values come from `other` where it has the key. -/
theorem C39_reorder_law (m o : List (K × V)) (hm : (dkeys m).Nodup) (ho : (dkeys o).Nodup) :
    dkeys (o.foldl (fun m p => ddel m p.1 ++ [p]) m) = (dkeys m).filter (· ∉ dkeys o) ++ dkeys o ∧
    ∀ k, dget (o.foldl (fun m p => ddel m p.1 ++ [p]) m) k
      = match dget o k with | some v => some v | none => dget m k := by
  induction o generalizing m with
  | nil => exact ⟨by simp; exact (List.filter_eq_self.2 (by simp)).symm, fun k => rfl⟩
  | cons p t ih =>
    simp only [dkeys_cons, List.nodup_cons] at ho
    have hm' : (dkeys (ddel m p.1 ++ [p])).Nodup := by
      simp only [dkeys_append, dkeys_ddel, dkeys_cons, dkeys_nil]
      refine List.nodup_append.2 ⟨hm.erase _, by simp, ?_⟩
      intro a ha b hb; simp at hb; subst hb
      exact fun e => ((List.Nodup.mem_erase_iff hm).1 ha).1 e
    obtain ⟨ih1, ih2⟩ := ih (ddel m p.1 ++ [p]) hm' ho.2
    refine ⟨?_, ?_⟩
    · simp only [List.foldl_cons, ih1, dkeys_append, dkeys_ddel, dkeys_cons, dkeys_nil, List.filter_append,
        List.Nodup.erase_eq_filter hm, List.filter_filter, List.filter_cons, List.filter_nil, ho.1,
        not_false_eq_true, decide_true, if_true, List.append_assoc, List.singleton_append]
      congr 1
      apply List.filter_congr; intro x _
      by_cases e1 : x = p.1 <;> by_cases e2 : x ∈ dkeys t <;> simp [e1, e2]
    · intro k
      simp only [List.foldl_cons, ih2, dget_append, dget_ddel _ _ _ hm]
      obtain ⟨a, b⟩ := p
      by_cases e : a = k
      · subst e
        simp [dget, (dget_eq_none_iff t a).2 ho.1]
      · have : ¬ k = a := fun x => e x.symm
        simp only [dget, e, if_false, this]
        cases dget t k <;> cases dget m k <;> rfl

/-- **update / construction from pairs**: existing keys keep their place, new keys are appended in
order of first occurrence; the value of a key is the last one given. -/
theorem C39_update_law (m ps : List (K × V)) (hm : (dkeys m).Nodup) :
    dkeys (ps.foldl (fun m p => dset m p.1 p.2) m) = dkeys m ++ (SSpec.dedup (dkeys ps)).filter (· ∉ dkeys m) ∧
    ∀ k, dget (ps.foldl (fun m p => dset m p.1 p.2) m) k
      = match dget ps.reverse k with | some v => some v | none => dget m k := by
  refine ⟨?_, ?_⟩
  · have : ∀ (ps m : List (K × V)), dkeys (ps.foldl (fun m p => dset m p.1 p.2) m)
        = (dkeys ps).foldl OSet.add (dkeys m) := by
      intro ps
      induction ps with
      | nil => intro m; rfl
      | cons p t ih => intro m; simp only [List.foldl_cons, dkeys_cons, ih, dkeys_dset, OSet.add]
    rw [this, foldl_add _ _ hm]
  · intro k
    induction ps generalizing m with
    | nil => rfl
    | cons p t ih =>
      simp only [List.foldl_cons, ih _ (nodup_dkeys_dset p.1 p.2 hm), List.reverse_cons, dget_append,
        dget_dset]
      obtain ⟨a, b⟩ := p
      cases dget t.reverse k with
      | some v => rfl
      | none =>
        by_cases e : k = a
        · subst e; simp [dget]
        · have : ¬ a = k := fun x => e x.symm
          simp [dget, e, this]

end Laws

/-! ## modict: every value is kept, the newest is returned -/
section ModictLaw
variable {K V : Type} [DecidableEq K]

theorem getlist_append (s : OD K (List V)) (k k' : K) (v : V) :
    MD.getlist (MD.append s k v) k' = if k' = k then MD.getlist s k ++ [v] else MD.getlist s k' := by
  rw [MD.append_eq]
  simp only [MD.getlist, OD.setitem, dget_dset]
  by_cases e : k' = k
  · subst e; simp only [if_true]; cases dget s.d k' <;> rfl
  · simp [e]

/-- **modict keeps every value per key and returns the newest**: after storing the pairs `ps` (by
`update`, `__init__`, or one `m[k] = v` / `append` after the other) the list kept under any key is what was
there before followed by every value stored under that key, in order; and `m[k]` is the last element of that
list.  Holds for every modict state. -/
theorem C39_modict_keeps_all_returns_newest (s : OD K (List V)) (ps : List (K × V)) (k : K) :
    MD.getlist (MD.update s ps) k = MD.getlist s k ++ (ps.filter (fun p => p.1 = k)).map Prod.snd ∧
    ∀ v, (MD.getlist (MD.update s ps) k).getLast? = some v → MD.getitem (MD.update s ps) k = .ok v := by
  refine ⟨?_, ?_⟩
  · unfold MD.update
    induction ps generalizing s with
    | nil => simp
    | cons p t ih =>
      simp only [List.foldl_cons, ih, getlist_append, List.filter_cons]
      by_cases e : p.1 = k
      · subst e; simp
      · have : ¬ k = p.1 := fun x => e x.symm
        simp [e, this]
  · intro v
    generalize MD.update s ps = s'
    simp only [MD.getlist, MD.getitem, OD.getitem, MD.newest]
    cases dget s'.d k with
    | none => simp
    | some l => intro h; simp [h]

end ModictLaw

/-! ## `str.lower` on ASCII keys is idempotent: the hypothesis of the lodict theorems holds for the driver's keys -/

theorem Char.toLower_idem (c : Char) : c.toLower.toLower = c.toLower := by
  simp only [Char.toLower]
  split
  · split
    · next h1 h2 =>
      simp only [UInt32.le_iff_toNat_le, UInt32.toNat_add, seval] at h1 h2
      omega
    · simp
  · rfl

theorem C39_lowerStr_idempotent (s : String) : lowerStr (lowerStr s) = lowerStr s := by
  simp [lowerStr, String.toList_ofList, List.map_map, Function.comp_def, Char.toLower_idem]

end Ioflo.Containers
