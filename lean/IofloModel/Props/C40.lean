import IofloModel.Lemmas.Bits
/-!
# C40 — bit, byte and hex codecs round-trip

Property theorems only.  Model: `Model/Bits.lean` (transcription of `ioflo/aid/byting.py`);
specification functions (`specFields`, `maskedFields`, `padFields`, `norm`, `normHex`,
`lowerHex`, `uval`) and helper lemmas: `Lemmas/Bits.lean`.

All theorems quantify over every format, every field value (any `Int`, negative and
over-wide included), every size and both byte orders; nothing is bounded.
-/
namespace Ioflo.Bits

/-! ## 1. unpack ∘ pack -/

/-- **Round trip, every format / value / size / byte order.**  Whenever `packify`
returns bytes, `unpackify` of those bytes (same format, size and byte order) returns
each field reduced to its width — `f mod 2^w`, and truthiness `f ≠ 0` for a one-bit
field, which is what the code packs — as `bool` for one-bit fields when `boolean`
is requested, followed by one zero padding field when the format does not fill the
`8·size` bits. -/
theorem C40_unpack_pack (fmt fields : List Int) (size : Option Int) (boolean rev : Bool)
    (b : List Byte) (hp : packify fmt fields size rev = .ok b) :
    ∃ sz, checkSize fmt size = .ok sz ∧ ((8 * sz : Nat) : Int) - fmt.sum ≥ 0 ∧
      unpackify fmt b boolean size rev
        = .ok (specFields boolean fmt fields ++ padFields boolean (8 * sz - fmt.sum.toNat)) :=
  unpack_pack fmt fields size boolean rev b hp

/-- non-vacuity: the docstring example, with a boolean flag bit and no padding -/
example : packify [1, 3, 2, 2] [1, 4, 0, 3] none false = .ok [0xc3#8] ∧
    unpackify [1, 3, 2, 2] [0xc3#8] true none false
      = .ok (specFields true [1, 3, 2, 2] [1, 4, 0, 3] ++ padFields true 0) ∧
    specFields true [1, 3, 2, 2] [1, 4, 0, 3] = [.bool true, .int 4, .int 0, .int 3] := by
  decide +kernel

/-- non-vacuity: over-wide and negative values, explicit size with 12 padding bits -/
example : packify [4] [-1] (some 2) true = .ok [0x00#8, 0xf0#8] ∧
    unpackify [4] [0x00#8, 0xf0#8] false (some 2) true = .ok [.int 15, .int 0] := by
  decide +kernel

/-- The hypothesis of `C40_unpack_pack` is met by every valid format: non-negative widths,
a value for each field, total width within `8·size`. -/
theorem C40_packify_succeeds (fmt fields : List Int) (size : Option Int) (rev : Bool) (sz : Nat)
    (hw : ∀ w ∈ fmt, 0 ≤ w) (hl : fmt.length ≤ fields.length) (hs : checkSize fmt size = .ok sz) :
    ∃ b, packify fmt fields size rev = .ok b ∧ b.length = sz := by
  obtain ⟨b, hb⟩ := packify_succeeds fmt fields size rev sz hw hl hs
  exact ⟨b, hb, packify_length hb hs⟩

example : checkSize [3, 0, 9] none = .ok 2 := by decide

/-- one-bit fields come back as booleans when requested: `True` iff the packed value was truthy -/
theorem C40_pack_bool_fields (fmt fields : List Int) (f : Int) :
    specFields true (1 :: fmt) (f :: fields) = .bool (f != 0) :: specFields true fmt fields ∧
    specFields false (1 :: fmt) (f :: fields)
      = .int (if f ≠ 0 then 1 else 0) :: specFields false fmt fields := by
  constructor
  · simp only [specFields, mkFld, fieldBits]
    by_cases h : f = 0 <;> simp [h]
  · simp [specFields, mkFld, fieldBits]

/-- wider fields come back masked to their width, as plain ints -/
theorem C40_pack_wide_fields (boolean : Bool) (fmt fields : List Int) (w f : Int) (hw : w ≠ 1) :
    specFields boolean (w :: fmt) (f :: fields)
      = .int (f % 2 ^ w.toNat).toNat :: specFields boolean fmt fields := by
  simp [specFields, mkFld, fieldBits, hw]

/-! ### the literal "masked to its field width" reading -/

/-- The property as literally worded: *every* field, one-bit fields included, comes back as
`value mod 2^width`. -/
def C40_full : Prop :=
  ∀ (fmt fields : List Int) (size : Option Int) (boolean rev : Bool) (b : List Byte),
    packify fmt fields size rev = .ok b →
    ∃ sz, checkSize fmt size = .ok sz ∧
      unpackify fmt b boolean size rev
        = .ok (maskedFields boolean fmt fields ++ padFields boolean (8 * sz - fmt.sum.toNat))

/-- Proved part: the literal reading holds whenever no one-bit field holds a value other than
`0`/`1` (`False`/`True`) — hypothesis `oneBitNonBool fmt fields = false`, the decidable region
predicate of known finding D40a. -/
theorem C40_unpack_pack_masked_partial (fmt fields : List Int) (size : Option Int)
    (boolean rev : Bool) (b : List Byte) (H : oneBitNonBool fmt fields = false)
    (hp : packify fmt fields size rev = .ok b) :
    ∃ sz, checkSize fmt size = .ok sz ∧
      unpackify fmt b boolean size rev
        = .ok (maskedFields boolean fmt fields ++ padFields boolean (8 * sz - fmt.sum.toNat)) := by
  obtain ⟨sz, h1, _, h3⟩ := unpack_pack fmt fields size boolean rev b hp
  exact ⟨sz, h1, by rw [h3, spec_eq_masked boolean fmt fields H]⟩

example : oneBitNonBool [1, 3, 2, 2] [1, 12, 0, -3] = false := by decide

/-- The code (as documented) packs a one-bit field by truthiness: `packify("1 7", [2, 5])`
unpacks to `(1, 5)`, masking would give `(0, 5)`.  Witness of known finding D40a. -/
theorem C40_counterexample_onebit : ¬ C40_full := by
  intro h
  obtain ⟨b, hb⟩ := packify_succeeds [1, 7] [2, 5] none false 1 (by decide) (by decide) (by decide)
  obtain ⟨sz, h1, h2⟩ := h [1, 7] [2, 5] none false false b hb
  obtain ⟨sz', h1', _, h2'⟩ := unpack_pack [1, 7] [2, 5] none false false b hb
  rw [h1] at h1'; injection h1' with e; subst e
  rw [h2] at h2'; injection h2' with e
  have h4 : checkSize [1, 7] none = .ok 1 := by decide
  rw [h4] at h1; injection h1 with h1; subst h1
  revert e; decide

example : oneBitNonBool [1, 7] [2, 5] = true := by decide

/-- the one-byte variants `packByte` / `unpackByte` (one decimal digit per field, widths 1..8,
total ≤ 8): the same round trip, no padding field -/
theorem C40_unpackByte_packByte (fmt : List Nat) (fields : List Int) (boolean : Bool) (b : Nat)
    (h : packByte fmt fields = .ok b) :
    b < 256 ∧ unpackByte fmt (b : Int) boolean = .ok (specFields boolean (widths fmt) fields) :=
  unpackByte_packByte fmt fields boolean b h

example : packByte [1, 3, 2, 2] [1, 4, 0, 3] = .ok 0xc3 ∧
    unpackByte [1, 3, 2, 2] 0xc3 true = .ok [.bool true, .int 4, .int 0, .int 3] ∧
    packByte [4, 5] [1, 1] = .error .valueError ∧ packByte [9] [1] = .error .valueError := by
  decide +kernel

/-! ## 2. packing into a buffer -/

/-- **Frame.**  `packifyInto` zero-extends `b` to `offset + size` when it is shorter, then
replaces exactly the `size` bytes at `offset` by the bytes `packify` returns; everything
before and after is kept.  It returns `size`. -/
theorem C40_packInto_frame (b : List Byte) (fmt fields : List Int) (size : Option Int)
    (offset : Nat) (rev : Bool) (p : List Byte) (hp : packify fmt fields size rev = .ok p) :
    packifyInto b fmt fields size offset rev =
      .ok ((b ++ List.replicate (offset + p.length - b.length) 0#8).take offset ++ p ++
            (b ++ List.replicate (offset + p.length - b.length) 0#8).drop (offset + p.length),
           p.length) :=
  packifyInto_eq b fmt fields size offset rev p hp

example : packifyInto [1#8, 2#8, 3#8] [4, 4] [1, 2] none 4 false
    = .ok ([1#8, 2#8, 3#8, 0#8, 0x12#8], 1) := by decide +kernel

/-- Element-wise reading of the frame: same length as the (extended) buffer, bytes outside
`[offset, offset+size)` untouched, bytes inside are the packed ones. -/
theorem C40_packInto_untouched (b : List Byte) (fmt fields : List Int) (size : Option Int)
    (offset : Nat) (rev : Bool) (p r : List Byte) (k : Nat)
    (hp : packify fmt fields size rev = .ok p)
    (hr : packifyInto b fmt fields size offset rev = .ok (r, k)) :
    k = p.length ∧ r.length = max b.length (offset + p.length) ∧
    (∀ i, i < offset → r[i]? = (b ++ List.replicate (offset + p.length - b.length) 0#8)[i]?) ∧
    (∀ i, offset + p.length ≤ i →
        r[i]? = (b ++ List.replicate (offset + p.length - b.length) 0#8)[i]?) ∧
    (∀ j, j < p.length → r[offset + j]? = p[j]?) := by
  rw [packifyInto_eq b fmt fields size offset rev p hp] at hr
  injection hr with hr
  injection hr with hr hk
  subst hr hk
  generalize hB : b ++ List.replicate (offset + p.length - b.length) 0#8 = B
  have hBl : B.length = max b.length (offset + p.length) := by
    rw [← hB]; simp only [List.length_append, List.length_replicate]; omega
  have hto : (B.take offset).length = offset := by
    rw [List.length_take]; omega
  refine ⟨rfl, ?_, ?_, ?_, ?_⟩
  · simp only [List.length_append, List.length_take, List.length_drop]; omega
  · intro i hi
    rw [List.append_assoc, List.getElem?_append_left (by omega), List.getElem?_take_of_lt hi]
  · intro i hi
    rw [List.getElem?_append_right (by simp only [List.length_append]; omega)]
    simp only [List.length_append, hto, List.getElem?_drop]
    congr 1; omega
  · intro j hj
    rw [List.append_assoc, List.getElem?_append_right (by omega), hto,
      List.getElem?_append_left (by omega)]
    congr 1; omega

/-- an exception of `packify` is the same exception of `packifyInto` -/
theorem C40_packInto_error (b : List Byte) (fmt fields : List Int) (size : Option Int)
    (offset : Nat) (rev : Bool) (e : Err) (hp : packify fmt fields size rev = .error e) :
    packifyInto b fmt fields size offset rev = .error e :=
  packifyInto_err b fmt fields size offset rev e hp

example : packify [16, -8] [1, 1] (some 1) false = .error .valueError ∧
    packify [-8, 16] [1, 1] (some 1) false = .error .typeError ∧
    packify [4, 4] [1] none false = .error .indexError ∧
    packify [9] [1] (some 1) false = .error .valueError := by decide +kernel

/-! ### packifyInto in full: any offset, any buffer type, the buffer after an exception -/

/-- for a `bytearray` or `list` buffer and a non-negative offset the full model is the frame above -/
theorem C40_packIntoFull_frame (kind : BufKind) (hk : kind ≠ .bytes) (b : List Byte)
    (fmt fields : List Int) (size : Option Int) (o : Nat) (rev : Bool) (p : List Byte)
    (hp : packify fmt fields size rev = .ok p) :
    packifyIntoFull kind b fmt fields size (o : Int) rev =
      ((b ++ List.replicate (o + p.length - b.length) 0#8).take o ++ p ++
        (b ++ List.replicate (o + p.length - b.length) 0#8).drop (o + p.length), .ok p.length) :=
  packIntoFull_ok kind hk b fmt fields size o rev p hp

/-- **The caller's buffer after an exception**: never a partially packed buffer — it is the old
buffer, at most with zero bytes appended (the code extends before it packs); untouched when the
format / size check fails or when a `bytes` object cannot be extended. -/
theorem C40_packIntoFull_after_error (kind : BufKind) (b b' : List Byte) (fmt fields : List Int)
    (size : Option Int) (offset : Int) (rev : Bool) (e : IntoErr)
    (h : packifyIntoFull kind b fmt fields size offset rev = (b', .error e)) :
    (∃ k, b' = b ++ List.replicate k 0#8) ∧
    ((∃ e', checkSize fmt size = .error e') → b' = b) ∧ (e = .attributeError → b' = b) :=
  packIntoFull_error kind b b' fmt fields size offset rev e h

example : packifyIntoFull .bytearray [7#8] [4, 4] [1] none 2 false
      = ([7#8, 0#8, 0#8], .error (.codec .indexError)) ∧
    packifyIntoFull .bytes [7#8] [8] [1] none 0 false = ([7#8], .error .typeErrorAssign) ∧
    packifyIntoFull .bytes [7#8] [8] [1] none 1 false = ([7#8], .error .attributeError) ∧
    packifyIntoFull .list [7#8] [8] [1] none 1 false = ([7#8, 1#8], .ok 1) := by decide +kernel

/-- The frame for negative offsets as Python indexing suggests: counted from the end, overwriting
in place, whenever the `size` bytes fit before the end of the buffer. -/
def C40_negoffset_full : Prop :=
  ∀ (kind : BufKind) (b : List Byte) (fmt fields : List Int) (size : Option Int) (offset : Int)
    (rev : Bool) (p : List Byte), kind ≠ .bytes → packify fmt fields size rev = .ok p →
    -(b.length : Int) ≤ offset → offset + (p.length : Nat) ≤ 0 →
    packifyIntoFull kind b fmt fields size offset rev =
      (b.take (offset + b.length).toNat ++ p ++ b.drop ((offset + b.length).toNat + p.length),
        .ok p.length)

/-- Proved part: it holds when the slice end `offset + size` is still negative (the negation of
`negOffsetInserts`, region of known finding D40b, for a slice inside the buffer). -/
theorem C40_packIntoFull_negative_offset_partial (kind : BufKind) (hk : kind ≠ .bytes)
    (b : List Byte) (fmt fields : List Int) (size : Option Int) (offset : Int) (rev : Bool)
    (p : List Byte) (hp : packify fmt fields size rev = .ok p)
    (h1 : -(b.length : Int) ≤ offset) (h2 : offset + (p.length : Nat) < 0) :
    packifyIntoFull kind b fmt fields size offset rev =
      (b.take (offset + b.length).toNat ++ p ++ b.drop ((offset + b.length).toNat + p.length),
        .ok p.length) :=
  packIntoFull_neg kind hk b fmt fields size offset rev p hp h1 h2

/-- When the slice reaches the end exactly (`offset = -size`) the end index `0` is read from the
front: the packed byte is INSERTED before the last byte instead of replacing it. Witness of D40b. -/
theorem C40_counterexample_negative_offset : ¬ C40_negoffset_full := by
  intro h
  have := h .bytearray [1#8, 2#8, 3#8] [8] [255] none (-1) false [255#8] (by decide)
    (by decide +kernel) (by decide) (by decide)
  revert this
  decide +kernel

example : packifyIntoFull .bytearray [1#8, 2#8, 3#8] [8] [255] none (-1) false
      = ([1#8, 2#8, 255#8, 3#8], .ok 1) ∧
    packifyIntoFull .bytearray [1#8, 2#8, 3#8] [8] [255] none (-2) false
      = ([1#8, 255#8, 3#8], .ok 1) ∧ negOffsetInserts (-1) 1 = true ∧ negOffsetInserts (-2) 1 = false := by
  decide +kernel

/-! ### the format as TEXT -/

/-- **Round trip from the text form**: whenever `packify` accepts the format text,
`unpackify` with the same text returns the fields of `C40_unpack_pack` for the parsed widths. -/
theorem C40_unpack_pack_text (txt : List Char) (fields : List Int) (size : Option Int)
    (boolean rev : Bool) (b : List Byte) (hp : packifyText txt fields size rev = .ok b) :
    ∃ ws sz, parseFmt txt = .ok ws ∧ checkSize ws size = .ok sz ∧
      unpackifyText txt b boolean size rev
        = .ok (specFields boolean ws fields ++ padFields boolean (8 * sz - ws.sum.toNat)) :=
  unpack_pack_text txt fields size boolean rev b hp

/-- **Every well-formed text parses to its widths**: optional leading white space, decimal
widths separated by non-empty runs of ASCII white space, optional trailing white space. -/
theorem C40_parse_wellformed_text (pre : List Char) (hpre : ∀ c ∈ pre, isSpace c = true)
    (items : List (Nat × List Char)) (h : SepsOk items) :
    parseFmt (pre ++ renderFmt items) = .ok (items.map (fun x => (x.1 : Int))) :=
  parseFmt_render pre hpre items h

/-- hence for every well-formed text with a value per field and a size that holds the widths the
round trip succeeds and returns the masked fields plus padding -/
theorem C40_unpack_pack_wellformed_text (pre : List Char) (hpre : ∀ c ∈ pre, isSpace c = true)
    (items : List (Nat × List Char)) (h : SepsOk items) (fields : List Int) (size : Option Int)
    (boolean rev : Bool) (sz : Nat) (hl : items.length ≤ fields.length)
    (hs : checkSize (items.map (fun x => (x.1 : Int))) size = .ok sz) :
    ∃ b, packifyText (pre ++ renderFmt items) fields size rev = .ok b ∧ b.length = sz ∧
      unpackifyText (pre ++ renderFmt items) b boolean size rev
        = .ok (specFields boolean (items.map (fun x => (x.1 : Int))) fields ++
            padFields boolean (8 * sz - (items.map (fun x => (x.1 : Int))).sum.toNat)) := by
  have hparse := parseFmt_render pre hpre items h
  obtain ⟨b, hb⟩ := packify_succeeds (items.map (fun x => (x.1 : Int))) fields size rev sz
    (by intro w hw; simp only [List.mem_map] at hw; obtain ⟨x, _, rfl⟩ := hw; omega)
    (by simpa using hl) hs
  have hpt : packifyText (pre ++ renderFmt items) fields size rev = .ok b := by
    simp only [packifyText, hparse, hb]
  obtain ⟨ws, sz', h1, h2, h3⟩ := unpack_pack_text _ fields size boolean rev b hpt
  rw [hparse] at h1; injection h1 with h1; subst h1
  rw [hs] at h2; injection h2 with h2; subst h2
  exact ⟨b, hpt, packify_length hb hs, h3⟩

example : parseFmt " 1\t3  2 2\n".toList = .ok [1, 3, 2, 2] ∧ parseFmt "1_0 +4 007 -2".toList = .ok [10, 4, 7, -2] ∧
    parseFmt "1__0".toList = .error .valueError ∧ parseFmt "8 0x8".toList = .error .valueError ∧
    parseFmt "".toList = .ok [] ∧ renderFmt [(1, " ".toList), (12, [])] = "1 12".toList ∧
    packifyText "1 3 2 2".toList [1, 4, 0, 3] none false = .ok [0xc3#8] := by decide +kernel

/-! ## 3. byte-order variants are mirror images -/

theorem C40_reverse_mirror_packify (fmt fields : List Int) (size : Option Int) :
    packify fmt fields size true = (packify fmt fields size false).map List.reverse :=
  packify_mirror fmt fields size

theorem C40_reverse_mirror_unpackify (fmt : List Int) (b : List Byte) (boolean : Bool)
    (size : Option Int) :
    unpackify fmt b boolean size true = unpackify fmt b.reverse boolean size false := by
  simp [unpackify]

theorem C40_reverse_mirror_bytify (n : Int) (size : Nat) (strict : Bool) :
    bytify n size true strict = (bytify n size false strict).reverse := by
  simp [bytify_eq]

/-- little-endian decoding is big-endian decoding of the mirrored bytes -/
theorem C40_reverse_mirror_unbytify (b : List Byte) : unbytify b true = unbytify b.reverse false := by
  simp [unbytify]

example : packify [4, 12] [0xa, 0xbcd] none true = .ok [0xcd#8, 0xab#8] := by decide +kernel

/-! ## 4. integer ↔ bytes -/

/-- `unbytify ∘ bytify`: the integer itself when it is non-negative and not `strict`,
its residue modulo `256^size` when negative or `strict` (both byte orders). -/
theorem C40_unbytify_bytify (n : Int) (size : Nat) (rev strict : Bool) :
    unbytify (bytify n size rev strict) rev
      = if n < 0 ∨ strict = true then (n % 2 ^ (size * 8)).toNat else n.toNat :=
  unbytify_bytify n size rev strict

/-- in particular a non-negative integer survives the non-strict round trip whatever `size` is -/
theorem C40_unbytify_bytify_nonneg (n : Nat) (size : Nat) (rev : Bool) :
    unbytify (bytify n size rev false) rev = n := by
  rw [unbytify_bytify]
  have : ¬ ((n : Int) < 0) := by omega
  simp [norm, this]

example : unbytify (bytify 70000 2 true false) true = 70000 ∧
    bytify 70000 2 true false = [0x70#8, 0x11#8, 0x01#8] ∧
    bytify 70000 2 false true = [0x11#8, 0x70#8] ∧
    bytify (-2) 2 false false = [0xff#8, 0xfe#8] := by decide +kernel

/-- at least `size` bytes; exactly `size` when `strict` or negative -/
theorem C40_bytify_length (n : Int) (size : Nat) (rev strict : Bool) :
    size ≤ (bytify n size rev strict).length ∧
    ((n < 0 ∨ strict = true) → (bytify n size rev strict).length = size) := by
  rw [bytify_eq]
  constructor
  · cases rev <;> simp [length_bytifyNat_ge]
  · intro h
    have := length_bytifyNat _ _ (norm_lt n size strict h)
    cases rev <;> simp [this]

/-- `bytify ∘ unbytify` at the original length gives the original bytes (leading zeros
included), strict or not, both byte orders. -/
theorem C40_bytify_unbytify (b : List Byte) (rev strict : Bool) :
    bytify (unbytify b rev) b.length rev strict = b :=
  bytify_unbytify b rev strict

example : bytify (unbytify [0#8, 0#8, 7#8] false) 3 false false = [0#8, 0#8, 7#8] := by
  decide +kernel

/-! ## 5. hex ↔ bytes (`hexify`/`unhexify`; `hexize`/`unhexize` are the same functions on `bytes`) -/

theorem C40_unhexify_hexify (b : List Byte) : unhexify (hexify b) = b :=
  unhexify_hexify b

example : hexify [0x0a#8, 0xff#8] = "0aff".toList := by decide +kernel

/-- for *every* string: re-encoding what `unhexify` decoded gives the string with non-hex
characters deleted, `0` prepended to an odd length, upper-case digits lowered -/
theorem C40_hexify_unhexify_any (h : List Char) : hexify (unhexify h) = (normHex h).map lowerHex :=
  hexify_unhexify h

/-- on the domain — even-length strings of lower-case hex digits — it is the identity -/
theorem C40_hexify_unhexify (h : List Char) (hl : ∀ c ∈ h, isLowerHex c = true)
    (he : h.length % 2 = 0) : hexify (unhexify h) = h := by
  rw [hexify_unhexify, normHex_of_lower h hl he]

example : (∀ c ∈ "00fe9a".toList, isLowerHex c = true) ∧ "00fe9a".toList.length % 2 = 0 ∧
    unhexify "00fe9a".toList = [0#8, 0xfe#8, 0x9a#8] := by decide +kernel
example : hexify (unhexify "A:b c".toList) = "0abc".toList := by decide +kernel

/-! ## 6. binary strings -/

/-- `unbinize ∘ binize` = the low `size` bits of `n` (any `n`, negative too, any `size`) -/
theorem C40_unbinize_binize_any (n size : Int) :
    unbinize (binize n size) = .ok (n % 2 ^ size.toNat).toNat :=
  unbinize_binize n size

/-- on the domain `0 ≤ n < 2^size` it is the identity -/
theorem C40_unbinize_binize (n : Nat) (size : Nat) (h : n < 2 ^ size) :
    unbinize (binize n size) = .ok n := by
  rw [unbinize_binize]
  have h4 : ((2:Int) ^ size) = ((2 ^ size : Nat) : Int) := by simp
  simp only [Int.toNat_natCast]
  rw [h4, ← Int.natCast_emod, Int.toNat_natCast, Nat.mod_eq_of_lt h]

example : binize 11 4 = "1011".toList ∧ unbinize "1011".toList = .ok 11 := by decide +kernel

/-- `binize ∘ unbinize` at the original length is the identity on `0`/`1` strings -/
theorem C40_binize_unbinize (u : List Char) (h : isBinary u) :
    ∃ v, unbinize u = .ok v ∧ binize v u.length = u :=
  binize_unbinize u h

example : isBinary "0010".toList := by unfold isBinary; decide

/-! ## 7. sign extension -/

/-- `signExtend x n` is the two's-complement value of the `n`-bit pattern `x`. -/
theorem C40_signExtend_twos_complement (x n : Int) (hn : 1 ≤ n) (h0 : 0 ≤ x)
    (hx : x < 2 ^ n.toNat) :
    signExtend x n = .ok (if x < 2 ^ (n - 1).toNat then x else x - 2 ^ n.toNat) :=
  signExtend_spec x n hn h0 hx

/-- hence the result lies in `[-2^(n-1), 2^(n-1))` and is congruent to `x` modulo `2^n` -/
theorem C40_signExtend_range (x n : Int) (hn : 1 ≤ n) (h0 : 0 ≤ x) (hx : x < 2 ^ n.toNat) :
    ∃ r, signExtend x n = .ok r ∧ -(2 ^ (n - 1).toNat) ≤ r ∧ r < 2 ^ (n - 1).toNat ∧
      (r = x ∨ r = x - 2 ^ n.toNat) := by
  have hs := signExtend_spec x n hn h0 hx
  obtain ⟨k, rfl⟩ : ∃ k : Nat, n = k + 1 := ⟨(n - 1).toNat, by omega⟩
  have e1 : ((k : Int) + 1 - 1).toNat = k := by omega
  have e2 : ((k : Int) + 1).toNat = k + 1 := by omega
  rw [e1, e2] at hs
  rw [e2] at hx
  rw [e1, e2]
  refine ⟨_, hs, ?_⟩
  rw [Int.pow_succ] at hx ⊢
  have hP : (0:Int) < 2 ^ k := Int.pow_pos (by omega)
  split <;> omega

example : signExtend 0xff 8 = .ok (-1) ∧ signExtend 0x7f 8 = .ok 127 ∧
    signExtend 0x80 8 = .ok (-128) ∧ signExtend 1 0 = .error .valueError := by decide +kernel

end Ioflo.Bits
