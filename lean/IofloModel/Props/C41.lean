import IofloModel.Lemmas.Crc
/-!
# C41 — CRC helpers compute the standard CRC-16 and CRC-64 checksums

Property theorems only.  Model: `Model/Crc.lean` (transcription of
`ioflo/aid/checking.py`).  Reference: the catalogue's table-driven MSB-first CRC
with the published parameters (`refCrc16`, `refCrc64`).
-/
namespace Ioflo.Crc

/-! ## 16 bit -/

theorem hi_xor {w : Nat} (a b : BitVec w) : hi (a ^^^ b) = hi a ^^^ hi b := by
  unfold hi; ext i h; simp [BitVec.getElem_xor]

theorem hi_emb16 : ∀ b : BitVec 8, hi (emb 16 b) = b := by
  apply forall_byte; decide +kernel
theorem hi_emb64 : ∀ b : BitVec 8, hi (emb 64 b) = b := by
  apply forall_byte; decide +kernel
theorem emb_shl16 : ∀ b : BitVec 8, emb 16 b <<< 8 = 0#16 := by
  apply forall_byte; decide +kernel
theorem emb_shl64 : ∀ b : BitVec 8, emb 64 b <<< 8 = 0#64 := by
  apply forall_byte; decide +kernel

theorem base16 : ∀ b : BitVec 8, lfsr 16 0x1021#16 (emb 16 b)
    = (if b.msb then 0x1021#16 else 0#16) ^^^ emb 16 (b <<< 1) := by
  apply forall_byte; decide +kernel

theorem base64 : ∀ b : BitVec 8, lfsr 64 0x42f0e1eba9ea3693#64 (emb 64 b)
    = (if b.msb then 0x42f0e1eba9ea3693#64 else 0#64) ^^^ emb 64 (b <<< 1) := by
  apply forall_byte; decide +kernel

theorem bits16_eq_feed (k : Nat) (c : BitVec 16) (b : BitVec 8) :
    bits16 k c b = feed 0x1021#16 k c b := by
  induction k generalizing c b with
  | zero => rfl
  | succ k ih => simp only [bits16, bit16, feed, feedBit, ih]

/-- The code's 8-iteration inner loop is one table-driven byte step. -/
theorem byte16_eq_table (c : BitVec 16) (b : BitVec 8) :
    byte16 c b = tableByte 16 0x1021#16 c b := by
  unfold byte16 tableByte
  rw [bits16_eq_feed, feed8_eq _ base16,
    lfsrN8_table _ (by decide) split16 low_lt16 low_shl16,
    BitVec.shiftLeft_xor_distrib, emb_shl16, hi_xor, hi_emb16]
  simp [hi]

/-- **C41 (16 bit), every byte string.** -/
theorem C41_crc16_is_genibus (msg : List (BitVec 8)) : crc16 msg = refCrc16 msg := by
  unfold crc16 refCrc16 refCrc
  have : ∀ (c : BitVec 16), msg.foldl byte16 c = msg.foldl (tableByte 16 0x1021#16) c := by
    induction msg with
    | nil => intro c; rfl
    | cons b bs ih => intro c; simp only [List.foldl, byte16_eq_table, ih]
  rw [this]

def check9 : List (BitVec 8) := "123456789".toUTF8.toList.map (fun b => BitVec.ofNat 8 b.toNat)

/-- catalogue check value of CRC-16/GENIBUS -/
theorem C41_crc16_check : crc16 check9 = 0xD64E#16 := by decide +kernel

/-! ## 64 bit -/

theorem shl_append32 (t b : BitVec 32) :
    ((t <<< 1) ||| (if b.msb then 1#32 else 0#32)) ++ (b <<< 1) = (t ++ b) <<< 1 := by
  apply BitVec.eq_of_getLsbD_eq
  intro i h
  simp only [BitVec.getLsbD_append, BitVec.getLsbD_shiftLeft, BitVec.getLsbD_or]
  by_cases h0 : i < 32
  · have : i - 1 < 32 := by omega
    have h64 : i < 64 := by omega
    simp [h0, this, h64]
  · by_cases h1 : i = 32
    · subst h1; cases hb : b.msb <;> simp [BitVec.msb_eq_getLsbD_last] at hb ⊢ <;> simp [hb]
    · have h2 : ¬ (i - 1 < 32) := by omega
      have h3 : ¬ (i - 32 < 1) := by omega
      have h4 : i - 1 - 32 = i - 32 - 1 := by omega
      have h5 : i - 32 ≠ 0 := by omega
      have h6 : i - 32 < 32 := by omega
      have h7 : i ≠ 0 := by omega
      cases hb : b.msb <;> simp [h0, h2, h3, h4, h5, h6, h7, h]

/-- The two 32-bit halves kept by the code are at every step the high and low half
of one 64-bit register fed the same data bit. -/
theorem bit64_halves (t b : BitVec 32) (y : BitVec 8) :
    (bit64 t b y).1 ++ (bit64 t b y).2.1
      = feedBit 0x42f0e1eba9ea3693#64 (t ++ b) y.msb ∧ (bit64 t b y).2.2 = y <<< 1 := by
  refine ⟨?_, rfl⟩
  unfold bit64 feedBit
  have hm : (t ++ b).msb = t.msb := by rw [BitVec.msb_append]; simp
  have hp : (0x42f0e1eba9ea3693#64) = (0x42f0e1eb#32) ++ (0xa9ea3693#32) := by decide
  rw [hm, hp]
  by_cases hc : (t.msb != y.msb) = true
  · simp only [hc, if_true]; rw [← BitVec.xor_append, shl_append32]
  · simp only [hc]; simp only [Bool.false_eq_true, if_false]; rw [shl_append32]

theorem bits64_eq_feed (k : Nat) (t b : BitVec 32) (y : BitVec 8) :
    (bits64 k t b y).1 ++ (bits64 k t b y).2 = feed 0x42f0e1eba9ea3693#64 k (t ++ b) y := by
  induction k generalizing t b y with
  | zero => rfl
  | succ k ih =>
    simp only [bits64, feed]
    have h := bit64_halves t b y
    rw [← h.1, ← h.2]
    exact ih _ _ _

theorem byte64_eq_table (s : BitVec 32 × BitVec 32) (y : BitVec 8) :
    (byte64 s y).1 ++ (byte64 s y).2 = tableByte 64 0x42f0e1eba9ea3693#64 (s.1 ++ s.2) y := by
  unfold byte64 tableByte
  rw [bits64_eq_feed, feed8_eq _ base64,
    lfsrN8_table _ (by decide) split64 low_lt64 low_shl64,
    BitVec.shiftLeft_xor_distrib, emb_shl64, hi_xor, hi_emb64]
  simp [hi]

/-- **C41 (64 bit), every byte string**: `(crctop, crcbot)` are the high and low
32 bits of CRC-64/WE. -/
theorem C41_crc64_is_we (msg : List (BitVec 8)) :
    (crc64 msg).1 ++ (crc64 msg).2 = refCrc64 msg := by
  unfold crc64 refCrc64 refCrc
  have : ∀ (s : BitVec 32 × BitVec 32),
      (msg.foldl byte64 s).1 ++ (msg.foldl byte64 s).2
        = msg.foldl (tableByte 64 0x42f0e1eba9ea3693#64) (s.1 ++ s.2) := by
    induction msg with
    | nil => intro s; rfl
    | cons y ys ih => intro s; simp only [List.foldl]; rw [ih, byte64_eq_table]
  simp only []
  rw [← BitVec.xor_append, this]
  rfl

/-- catalogue check value of CRC-64/WE, as the code returns it -/
theorem C41_crc64_check : crc64 check9 = (0x62EC59E3#32, 0xF1A4F00A#32) := by decide +kernel

/-- non-vacuity: the reference itself reproduces the catalogue values -/
example : refCrc16 check9 = 0xD64E#16 ∧ refCrc64 check9 = 0x62EC59E3F1A4F00A#64 := by
  decide +kernel

end Ioflo.Crc
