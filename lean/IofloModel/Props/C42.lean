import IofloModel.Model.Timer
/-!
# C42 — timers report elapsed, remaining and expiry consistently with their clock

Exact time (`τ := Rat`).  A *history* is a list of (clock reading, call) pairs; nothing is assumed
about the readings unless a hypothesis says so.  `Timer.Spec` / `Mono.Spec` restate the clauses of
the property declaratively (with `max`, `min`, `↔`), independently of the `if`s of the model.
-/
namespace Ioflo.Timer

/-- `|x|` -/
def qabs (x : Rat) : Rat := max x (-x)

/-! ## the property, clause by clause, for one call -/

/-- One call on a timer whose attributes are `c`, when its clock reads `now`:
state after `c'`, returned value `out`. -/
def Timer.Spec (c : Core Rat) (now : Rat) : Op Rat → Core Rat → Out Rat → Prop
  | .elapsed, c', out => c' = c ∧ out = .num (max 0 (now - c.start))
  | .remaining, c', out => c' = c ∧ out = .num (max 0 (c.stop - now))
  | .expired, c', out => c' = c ∧ ∃ b, out = .bool b ∧ (b = true ↔ c.stop ≤ now)
  | .rep, c', out =>
      c'.start = c.stop ∧ c'.duration = c.duration ∧ c'.stop = c.stop + c.duration ∧
      out = .pair c'.start c'.stop
  | .extend e, c', out =>
      c'.start = c.start ∧ c'.duration = qabs (c.duration + extOf c e) ∧
      c'.stop = c.start + c'.duration ∧ out = .pair c'.start c'.stop
  | .restart s d, c', out =>
      (c'.start = match s with
        | some s => qabs s
        | none => now) ∧
      (c'.duration = match d with
        | some d => qabs d
        | none => c.duration) ∧
      c'.stop = c'.start + c'.duration ∧ out = .pair c'.start c'.stop

/-- the invariant of a timer driven by a clock that is never negative -/
def Core.WF (c : Core Rat) : Prop := 0 ≤ c.start ∧ 0 ≤ c.duration ∧ c.stop = c.start + c.duration

/-- a predicate holds at every call of a history -/
def Timer.Along (P : Core Rat → Rat → Op Rat → Core Rat → Out Rat → Prop) :
    Core Rat → List (Rat × Op Rat) → Prop
  | _, [] => True
  | c, (now, op) :: rest =>
    P c now op (Timer.step c now op).1 (Timer.step c now op).2 ∧
      Timer.Along P (Timer.step c now op).1 rest

/-! ## Timer (wall clock) -/

theorem pabs_eq (x : Rat) : pabs x = qabs x := by unfold pabs qabs; grind
theorem max0_eq (x : Rat) : max0 x = max 0 x := by unfold max0; grind

/-- elapsed = clock − start, never negative (every state, every clock reading) -/
theorem C42_timer_elapsed (c : Core Rat) (now : Rat) :
    Timer.step c now .elapsed = (c, .num (max 0 (now - c.start))) ∧ 0 ≤ max 0 (now - c.start) := by
  simp only [Timer.step, max0_eq]; grind

/-- remaining = stop − clock, never negative -/
theorem C42_timer_remaining (c : Core Rat) (now : Rat) :
    Timer.step c now .remaining = (c, .num (max 0 (c.stop - now))) ∧ 0 ≤ max 0 (c.stop - now) := by
  simp only [Timer.step, max0_eq]; grind

/-- expired exactly when the clock has reached stop -/
theorem C42_timer_expired_iff (c : Core Rat) (now : Rat) :
    (Timer.step c now .expired = (c, .bool true) ↔ c.stop ≤ now) ∧
    (Timer.step c now .expired = (c, .bool false) ↔ now < c.stop) := by
  simp only [Timer.step]; grind

/-- expired ⇔ nothing remains -/
theorem C42_timer_expired_iff_remaining_zero (c : Core Rat) (now : Rat) :
    (Timer.step c now .expired).2 = .bool true ↔ (Timer.step c now .remaining).2 = .num 0 := by
  simp only [Timer.step, max0]; grind

/-- repeat restarts exactly at the previous stop, for the same duration -/
theorem C42_timer_repeat_starts_at_stop (c : Core Rat) (now : Rat) (h : 0 ≤ c.stop) :
    (Timer.step c now .rep).1.start = c.stop ∧ (Timer.step c now .rep).1.duration = c.duration ∧
    (Timer.step c now .rep).1.stop = c.stop + c.duration := by
  simp only [Timer.step, Core.restartAt, pabs_eq, qabs]; grind

/-- extend keeps the start; the new duration is |duration + extension| -/
theorem C42_timer_extend_keeps_start (c : Core Rat) (now : Rat) (e : Option Rat) (h : 0 ≤ c.start) :
    (Timer.step c now (.extend e)).1.start = c.start ∧
    (Timer.step c now (.extend e)).1.duration = qabs (c.duration + extOf c e) ∧
    (Timer.step c now (.extend e)).1.stop = c.start + qabs (c.duration + extOf c e) := by
  simp only [Timer.step, Core.restartAt, pabs_eq, qabs]; grind

/-- every call satisfies its clause of the property (repeat/extend: when stop resp. start ≥ 0) -/
theorem C42_timer_step_spec (c : Core Rat) (now : Rat) (op : Op Rat) (h : Timer.Safe c op) :
    Timer.Spec c now op (Timer.step c now op).1 (Timer.step c now op).2 := by
  cases op with
  | restart s d =>
    cases s <;> cases d <;> simp only [Timer.Spec, Timer.step, Core.restartAt, pabs_eq] <;> grind
  | rep => simp only [Timer.Safe] at h; simp only [Timer.Spec, Timer.step, Core.restartAt, pabs_eq, qabs]; grind
  | extend e => simp only [Timer.Safe] at h; simp only [Timer.Spec, Timer.step, Core.restartAt, pabs_eq, qabs]; grind
  | elapsed => simp only [Timer.Spec, Timer.step, max0_eq]; grind
  | remaining => simp only [Timer.Spec, Timer.step, max0_eq]; grind
  | expired => simp only [Timer.Spec, Timer.step]; grind

theorem wf_init (d now : Rat) (h : 0 ≤ now) : (Timer.init d now).WF := by
  simp only [Timer.init, Core.WF, pabs_eq, qabs]; grind

theorem wf_safe (c : Core Rat) (op : Op Rat) (h : c.WF) : Timer.Safe c op := by
  cases op <;> simp only [Timer.Safe, Core.WF] at * <;> grind

theorem wf_step (c : Core Rat) (now : Rat) (op : Op Rat) (h : c.WF) (hn : 0 ≤ now) :
    (Timer.step c now op).1.WF := by
  cases op with
  | restart s d =>
    cases s <;> cases d <;> simp only [Timer.step, Core.restartAt, Core.WF, pabs_eq, qabs] at * <;> grind
  | rep => simp only [Timer.step, Core.restartAt, Core.WF, pabs_eq, qabs] at *; grind
  | extend e => simp only [Timer.step, Core.restartAt, Core.WF, pabs_eq, qabs] at *; grind
  | elapsed => exact h
  | remaining => exact h
  | expired => exact h

theorem along_of_wf (c : Core Rat) (h : List (Rat × Op Rat)) (hc : c.WF) (hn : ∀ p ∈ h, 0 ≤ p.1) :
    Timer.Along Timer.Spec c h := by
  induction h generalizing c with
  | nil => trivial
  | cons p rest ih =>
    obtain ⟨now, op⟩ := p
    refine ⟨C42_timer_step_spec c now op (wf_safe c op hc), ih _ ?_ ?_⟩
    · exact wf_step c now op hc (hn (now, op) (by simp))
    · intro q hq; exact hn q (by simp [hq])

/-- **Every history** of a wall-clock timer whose clock is never negative (time.time() is seconds
since 1970): every call — in particular every `repeat` and every `extend` — satisfies its clause. -/
theorem C42_timer_every_history (d t0 : Rat) (h : List (Rat × Op Rat))
    (h0 : 0 ≤ t0) (hn : ∀ p ∈ h, 0 ≤ p.1) :
    Timer.Along Timer.Spec (Timer.init d t0) h :=
  along_of_wf _ h (wf_init d t0 h0) hn

/-- non-vacuity: a history with forward steps, a standstill and a backward jump -/
example : Timer.Along Timer.Spec (Timer.init 2 10)
    [(11, .elapsed), (11, .rep), (9, .extend none), (15, .expired), (16, .restart none (some (-3)))] :=
  C42_timer_every_history 2 10 _ (by decide +kernel) (by decide +kernel)

/-- without the clock hypothesis the clauses for `repeat`/`extend` fail: `restart()` at a
negative clock stores a negative start which the next `abs()` flips (finding D42b) -/
theorem C42_counterexample_timer_negative_clock :
    ¬ Timer.Along Timer.Spec (Timer.init 1 0) [((-3 : Rat), .restart none none), (-3, .rep)] := by
  simp only [Timer.Along, Timer.Spec, Timer.step, Timer.init, Core.restartAt, pabs]
  intro h; have := h.2.1.1; revert this; decide +kernel

/-! ## MonoTimer (repaired, see `fixes/D42a-…patch`) -/

/-- The property for one call of a monotonic timer: without compensation a backward jump raises
and changes nothing; otherwise start and stop are first shifted by the jump and the call then
behaves as the wall-clock clauses say, with `.latest` = the reading. -/
def Mono.Spec (m : Mono Rat) (now : Rat) (op : Op Rat) (m' : Mono Rat) (out : Out Rat) : Prop :=
  if now < m.latest ∧ m.retro = false then m' = m ∧ out = .err .timerRetro
  else m'.latest = now ∧ m'.retro = m.retro ∧ Timer.Spec (m.shifted now) now op m'.core out

def Mono.Along (P : Mono Rat → Rat → Op Rat → Mono Rat → Out Rat → Prop) :
    Mono Rat → List (Rat × Op Rat) → Prop
  | _, [] => True
  | m, (now, op) :: rest =>
    P m now op (Mono.step m now op).1 (Mono.step m now op).2 ∧
      Mono.Along P (Mono.step m now op).1 rest

/-- `Safe` at every call of the history (a decidable condition on the history) -/
def Mono.SafeAlong : Mono Rat → List (Rat × Op Rat) → Prop
  | _, [] => True
  | m, (now, op) :: rest => Mono.Safe m now op ∧ Mono.SafeAlong (Mono.step m now op).1 rest

instance Mono.decSafeAlong : (m : Mono Rat) → (h : List (Rat × Op Rat)) → Decidable (Mono.SafeAlong m h)
  | _, [] => by unfold Mono.SafeAlong; infer_instance
  | m, (now, op) :: rest => by
    unfold Mono.SafeAlong
    have := Mono.decSafeAlong (Mono.step m now op).1 rest
    infer_instance

/-- what `update()` does, as equations -/
theorem mono_update_eq (m : Mono Rat) (now : Rat) :
    m.update now =
      if now < m.latest ∧ m.retro = false then .error .timerRetro
      else .ok { core := { m.shifted now with duration := m.core.duration }, latest := now, retro := m.retro } := by
  unfold Mono.update Mono.shifted Mono.shift
  by_cases h : now - m.latest < 0
  · cases hr : m.retro
    · have : now < m.latest := by grind
      simp [h, this]
    · have h1 : min (now - m.latest) 0 = now - m.latest := by grind
      have h2 : m.latest + (now - m.latest) = now := by grind
      simp [h, h1, h2]
  · have h0 : ¬ now < m.latest := by grind
    have h1 : min (now - m.latest) 0 = 0 := by grind
    have h2 : m.latest + (now - m.latest) = now := by grind
    simp [h, h0, h1, h2, Rat.add_zero]

/-- **retrograde compensation**: a backward jump `δ = now − latest < 0` shifts start and stop by
`δ`, keeps the duration, and `.latest` becomes the reading -/
theorem C42_mono_retro_shift (m : Mono Rat) (now : Rat) (hr : m.retro = true) (hb : now < m.latest) :
    ∃ m', m.update now = .ok m' ∧ m'.core.start = m.core.start + (now - m.latest) ∧
      m'.core.stop = m.core.stop + (now - m.latest) ∧ m'.core.duration = m.core.duration ∧
      m'.latest = now ∧ m'.retro = true := by
  rw [mono_update_eq]
  have h1 : min (now - m.latest) 0 = now - m.latest := by grind
  simp [hr, Mono.shifted, Mono.shift, h1]

/-- a clock that did not go back shifts nothing -/
theorem C42_mono_forward_no_shift (m : Mono Rat) (now : Rat) (hf : m.latest ≤ now) :
    m.update now = .ok { m with latest := now } := by
  rw [mono_update_eq]
  have h0 : ¬ now < m.latest := by grind
  have h1 : min (now - m.latest) 0 = 0 := by grind
  simp [h0, Mono.shifted, Mono.shift, h1, Rat.add_zero]

/-- **without compensation every call raises on a backward jump** and leaves the timer unchanged -/
theorem C42_mono_no_retro_raises (m : Mono Rat) (now : Rat) (op : Op Rat)
    (hr : m.retro = false) (hb : now < m.latest) :
    Mono.step m now op = (m, .err .timerRetro) := by
  unfold Mono.step; rw [mono_update_eq]; simp [hr, hb]

/-- … and that is the only way a monotonic timer raises -/
theorem C42_mono_raises_iff (m : Mono Rat) (now : Rat) (op : Op Rat) (e : Err) :
    (Mono.step m now op).2 = .err e ↔ (e = .timerRetro ∧ m.retro = false ∧ now < m.latest) := by
  unfold Mono.step; rw [mono_update_eq]
  by_cases h : now < m.latest ∧ m.retro = false
  · simp only [h, and_self, if_true]; grind
  · simp only [h, if_false]
    cases op <;> simp only [Mono.after] <;> grind

/-- every call of a monotonic timer satisfies its clause -/
theorem C42_mono_step_spec (m : Mono Rat) (now : Rat) (op : Op Rat) (h : Mono.Safe m now op) :
    Mono.Spec m now op (Mono.step m now op).1 (Mono.step m now op).2 := by
  unfold Mono.Spec Mono.step; rw [mono_update_eq]
  by_cases hc : now < m.latest ∧ m.retro = false
  · simp [hc]
  · simp only [hc, if_false]
    have hs := C42_timer_step_spec { m.shifted now with duration := m.core.duration } now op h
    cases op <;> exact ⟨rfl, rfl, hs⟩

/-- **every history** of a monotonic timer, with or without compensation, any clock trace:
every call satisfies its clause, provided `repeat`/`extend` never meet a negative stop/start
(possible only after a backward jump larger than the start itself — finding D42b) -/
theorem C42_mono_every_history_partial (m : Mono Rat) (h : List (Rat × Op Rat))
    (hs : Mono.SafeAlong m h) : Mono.Along Mono.Spec m h := by
  induction h generalizing m with
  | nil => trivial
  | cons p rest ih =>
    obtain ⟨now, op⟩ := p
    exact ⟨C42_mono_step_spec m now op hs.1, ih _ hs.2⟩

/-- non-vacuity: forward steps, standstill, two backward jumps, with compensation -/
example : Mono.Along Mono.Spec (Mono.init true 10 100)
    [(105, .elapsed), (95, .extend (some 0)), (95, .elapsed), (90, .rep), (120, .expired)] :=
  C42_mono_every_history_partial _ _ (by decide +kernel)

/-- the hypothesis is needed: a jump back beyond the start makes it negative and `extend`
flips it (nonnegative clock readings only) -/
theorem C42_counterexample_mono_deep_jump :
    let m := (Mono.step (Mono.init true 1 12) 12 (.restart (some 5) none)).1
    ¬ Mono.Safe m 0 (.extend (some 0)) ∧ (m.shifted 0).start = -7 ∧
    (Mono.step m 0 (.extend (some 0))).1.core.start = 7 ∧
    ¬ Mono.Spec m 0 (.extend (some 0)) (Mono.step m 0 (.extend (some 0))).1 (Mono.step m 0 (.extend (some 0))).2 := by
  refine ⟨by decide +kernel, by decide +kernel, by decide +kernel, ?_⟩
  intro h
  unfold Mono.Spec at h
  rw [if_neg (by decide +kernel)] at h
  exact absurd h.2.2.1 (by decide +kernel)

/-! ### elapsed never decreases -/

/-- clock − start as the timer itself sees it -/
def Mono.el (m : Mono Rat) : Rat := m.latest - m.core.start

/-- calls that do not restart the timer -/
def Op.keeps : Op Rat → Bool
  | .restart _ _ => false
  | .rep => false
  | _ => true

/-- with compensation, no call other than restart/repeat ever lowers clock − start,
whatever the clock does -/
theorem C42_mono_elapsed_step (m : Mono Rat) (now : Rat) (op : Op Rat) (hr : m.retro = true)
    (hk : op.keeps = true) (hs : Mono.Safe m now op) :
    m.el ≤ (Mono.step m now op).1.el ∧ (Mono.step m now op).1.retro = true := by
  unfold Mono.step; rw [mono_update_eq]
  simp only [hr, Bool.true_eq_false, and_false, if_false]
  cases op with
  | restart s d => simp [Op.keeps] at hk
  | rep => simp [Op.keeps] at hk
  | extend e =>
    simp only [Mono.Safe, Timer.Safe, Mono.shifted] at hs
    simp only [Mono.after, Mono.el, Core.restartAt, Mono.shifted, Mono.shift, pabs_eq, qabs] at *
    grind
  | elapsed => simp only [Mono.after, Mono.el, Mono.shifted, Mono.shift]; grind
  | remaining => simp only [Mono.after, Mono.el, Mono.shifted, Mono.shift]; grind
  | expired => simp only [Mono.after, Mono.el, Mono.shifted, Mono.shift]; grind

/-- the values returned by the `elapsed` calls of a history -/
def Mono.elapsedReadings (m : Mono Rat) : List (Rat × Op Rat) → List Rat
  | [] => []
  | (now, op) :: rest =>
    match op, (Mono.step m now op).2 with
    | .elapsed, .num x => x :: Mono.elapsedReadings (Mono.step m now op).1 rest
    | _, _ => Mono.elapsedReadings (Mono.step m now op).1 rest

theorem mono_elapsed_out (m : Mono Rat) (now : Rat) (hr : m.retro = true) :
    (Mono.step m now .elapsed).2 = .num (max 0 (Mono.step m now .elapsed).1.el) := by
  unfold Mono.step; rw [mono_update_eq]
  simp only [hr, Bool.true_eq_false, and_false, if_false, Mono.after, Mono.el, max0_eq]

theorem readings_cons_elapsed (m : Mono Rat) (now : Rat) (rest : List (Rat × Op Rat)) (hr : m.retro = true) :
    Mono.elapsedReadings m ((now, .elapsed) :: rest) =
      max 0 (Mono.step m now .elapsed).1.el :: Mono.elapsedReadings (Mono.step m now .elapsed).1 rest := by
  have h := mono_elapsed_out m now hr
  rw [Mono.elapsedReadings.eq_2]
  exact h

theorem mono_readings_ge (m : Mono Rat) (h : List (Rat × Op Rat)) (hr : m.retro = true)
    (hk : ∀ p ∈ h, p.2.keeps = true) (hs : Mono.SafeAlong m h) :
    ∀ x ∈ Mono.elapsedReadings m h, max 0 m.el ≤ x := by
  induction h generalizing m with
  | nil => intro x hx; simp [Mono.elapsedReadings] at hx
  | cons p rest ih =>
    obtain ⟨now, op⟩ := p
    have hstep := C42_mono_elapsed_step m now op hr (hk (now, op) (by simp)) hs.1
    have ih' := ih (Mono.step m now op).1 hstep.2 (fun q hq => hk q (by simp [hq])) hs.2
    have hmono : ∀ x, max 0 (Mono.step m now op).1.el ≤ x → max 0 m.el ≤ x := by
      intro x hx; have := hstep.1; grind
    intro x hx
    cases op with
    | elapsed =>
      rw [readings_cons_elapsed m now rest hr] at hx
      simp only [List.mem_cons] at hx
      rcases hx with rfl | hx
      · exact hmono _ (Rat.le_refl)
      · exact hmono x (ih' x hx)
    | restart s d => exact hmono x (ih' x (by simpa [Mono.elapsedReadings] using hx))
    | rep => exact hmono x (ih' x (by simpa [Mono.elapsedReadings] using hx))
    | extend e => exact hmono x (ih' x (by simpa [Mono.elapsedReadings] using hx))
    | remaining => exact hmono x (ih' x (by simpa [Mono.elapsedReadings] using hx))
    | expired => exact hmono x (ih' x (by simpa [Mono.elapsedReadings] using hx))

/-- **elapsed never decreases**: along every history without restart/repeat of a timer with
compensation — any clock trace, extends included — the successive values of `.elapsed` are
non-decreasing -/
theorem C42_mono_elapsed_never_decreases_partial (m : Mono Rat) (h : List (Rat × Op Rat))
    (hr : m.retro = true) (hk : ∀ p ∈ h, p.2.keeps = true) (hs : Mono.SafeAlong m h) :
    (Mono.elapsedReadings m h).Pairwise (· ≤ ·) := by
  induction h generalizing m with
  | nil => simp [Mono.elapsedReadings]
  | cons p rest ih =>
    obtain ⟨now, op⟩ := p
    have hstep := C42_mono_elapsed_step m now op hr (hk (now, op) (by simp)) hs.1
    have hk' : ∀ q ∈ rest, q.2.keeps = true := fun q hq => hk q (by simp [hq])
    have ih' := ih (Mono.step m now op).1 hstep.2 hk' hs.2
    cases op with
    | elapsed =>
      rw [readings_cons_elapsed m now rest hr]
      simp only [List.pairwise_cons]
      exact ⟨mono_readings_ge _ rest hstep.2 hk' hs.2, ih'⟩
    | restart s d => simpa [Mono.elapsedReadings] using ih'
    | rep => simpa [Mono.elapsedReadings] using ih'
    | extend e => simpa [Mono.elapsedReadings] using ih'
    | remaining => simpa [Mono.elapsedReadings] using ih'
    | expired => simpa [Mono.elapsedReadings] using ih'

/-- when only the three properties are read (no extend) nothing else is needed -/
theorem C42_mono_elapsed_never_decreases_reads (m : Mono Rat) (h : List (Rat × Op Rat))
    (hr : m.retro = true)
    (hk : ∀ p ∈ h, p.2 = .elapsed ∨ p.2 = .remaining ∨ p.2 = .expired) :
    (Mono.elapsedReadings m h).Pairwise (· ≤ ·) := by
  apply C42_mono_elapsed_never_decreases_partial m h hr
  · intro p hp; rcases hk p hp with h | h | h <;> simp [h, Op.keeps]
  · clear hr
    induction h generalizing m with
    | nil => trivial
    | cons p rest ih =>
      obtain ⟨now, op⟩ := p
      refine ⟨?_, ih _ (fun q hq => hk q (by simp [hq]))⟩
      rcases hk (now, op) (by simp) with h | h | h <;> simp at h <;> subst h <;> trivial

/-- non-vacuity: the clock goes 100 → 105 → 95 → 95 → 50 → 60, elapsed reads 5, 5, 5, 15 -/
example : Mono.elapsedReadings (Mono.init true 10 100)
    [(105, .elapsed), (95, .extend (some 0)), (95, .elapsed), (50, .elapsed), (60, .elapsed)] = [5, 5, 5, 15] := by
  decide +kernel

/-- **the defect repaired by D42a**: in the unrepaired code `extend` after a backward jump puts the
un-shifted start back, and elapsed drops from 5 to 0 although nothing was restarted -/
theorem C42_counterexample_orig_extend_loses_shift :
    let m : Mono Rat := { core := { start := 100, stop := 110, duration := 10 }, latest := 105, retro := true }
    (Mono.stepOrig m 95 (.extend (some 0))).1.el < m.el ∧
    m.el ≤ (Mono.step m 95 (.extend (some 0))).1.el := by
  decide +kernel

/-- a monotonic timer whose clock never goes back is the wall-clock timer -/
theorem C42_mono_forward_is_timer (m : Mono Rat) (now : Rat) (op : Op Rat) (hf : m.latest ≤ now) :
    Mono.step m now op = ({ m with core := (Timer.step m.core now op).1, latest := now }, (Timer.step m.core now op).2) := by
  unfold Mono.step; rw [C42_mono_forward_no_shift m now hf]
  cases op <;> rfl

/-! ## StoreTimer -/

/-- a StoreTimer whose `.start` is a number -/
def SCore.ofCore {τ : Type} (c : Core τ) : SCore τ := { start := some c.start, stop := c.stop, duration := c.duration }

/-- **a store timer on a stamped store is the wall-clock timer with the stamp as clock**
(so every `C42_timer_*` theorem speaks about store timers) -/
theorem C42_store_is_timer (c : Core Rat) (t : Rat) (op : Op Rat) :
    Store.step (SCore.ofCore c) (some t) op =
      (SCore.ofCore (Timer.step c t op).1, (Timer.step c t op).2) := by
  cases op with
  | restart s d => cases s <;> cases d <;> rfl
  | rep => rfl
  | extend e => cases e <;> rfl
  | elapsed => rfl
  | remaining => rfl
  | expired => rfl

theorem C42_store_init_is_timer (d t : Rat) :
    Store.init d (some t) = SCore.ofCore (Timer.init d t) := rfl

/-- the same for whole histories -/
theorem C42_store_history_is_timer (c : Core Rat) (h : List (Rat × Op Rat)) :
    Store.run (SCore.ofCore c) (h.map (fun p => (some p.1, p.2))) =
      (SCore.ofCore (Timer.run c h).1, (Timer.run c h).2) := by
  induction h generalizing c with
  | nil => rfl
  | cons p rest ih =>
    obtain ⟨now, op⟩ := p
    simp only [List.map, Store.run, Timer.run, C42_store_is_timer, ih]

/-- **every history of a store timer** on a store whose stamp is a number ≥ 0 at construction and
at every call: it returns what the wall-clock timer returns and every call satisfies its clause -/
theorem C42_store_every_history (d t0 : Rat) (h : List (Rat × Op Rat))
    (h0 : 0 ≤ t0) (hn : ∀ p ∈ h, 0 ≤ p.1) :
    Store.run (Store.init d (some t0)) (h.map (fun p => (some p.1, p.2))) =
      (SCore.ofCore (Timer.run (Timer.init d t0) h).1, (Timer.run (Timer.init d t0) h).2) ∧
    Timer.Along Timer.Spec (Timer.init d t0) h :=
  ⟨by rw [C42_store_init_is_timer]; exact C42_store_history_is_timer _ h,
   C42_timer_every_history d t0 h h0 hn⟩

/-- on a store without stamp: never expired, elapsed/remaining raise `TypeError`, nothing changes -/
theorem C42_store_no_stamp (c : SCore Rat) :
    Store.step c none .expired = (c, .bool false) ∧
    Store.step c none .elapsed = (c, .err .typeError) ∧
    Store.step c none .remaining = (c, .err .typeError) := by
  refine ⟨rfl, ?_, rfl⟩
  cases c with | mk s a b => cases s <;> rfl

/-- a store timer whose start is a number never raises while the store has a stamp -/
theorem C42_store_errors_only_without_stamp (c : Core Rat) (t : Rat) (op : Op Rat) (e : Err) :
    (Store.step (SCore.ofCore c) (some t) op).2 ≠ .err e := by
  rw [C42_store_is_timer]; cases op <;> simp [Timer.step]

end Ioflo.Timer
