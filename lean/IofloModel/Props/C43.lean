import IofloModel.Lemmas.Wrap
/-!
# C43 — angle wrapping stays in range and preserves the angle

Property theorems only.  Model: `Model/Wrap.lean` (transcription of `wrap1`, `wrap2`, `delta`
of `ioflo/aid/navigating.py` over exact rationals).  Every theorem is for all rational
angles and wraps (every int, every finite float is one).  IEEE rounding of `float %` is
outside these theorems; see the binary64 instantiation in the model and the check's evidence.
-/
namespace Ioflo.Wrap

/-! ## one-sided wrap -/

/-- positive wrap: the result lies in `[0, wrap)` -/
theorem C43_wrap1_range_pos (a w : Rat) (hw : 0 < w) : 0 ≤ wrap1 a w ∧ wrap1 a w < w := by
  unfold wrap1
  simp only [ne_eq, Rat.ne_of_gt hw, not_false_eq_true, if_true]
  exact pymod_pos a w hw

/-- negative wrap: the result lies in `(wrap, 0]` -/
theorem C43_wrap1_range_neg (a w : Rat) (hw : w < 0) : w < wrap1 a w ∧ wrap1 a w ≤ 0 := by
  unfold wrap1
  simp only [ne_eq, Rat.ne_of_lt hw, not_false_eq_true, if_true]
  exact pymod_neg a w hw

example : wrap1 (-1) 360 = 359 ∧ wrap1 370 (-360) = -350 ∧ wrap1 (725 / 2) 360 = 5 / 2 := by
  decide +kernel

/-- the result differs from the angle by a whole number of wraps (for `wrap = 0`: by none) -/
theorem C43_wrap1_congruent (a w : Rat) : ∃ k : Int, wrap1 a w = a - (k : Rat) * w := by
  unfold wrap1
  split
  · exact ⟨(a / w).floor, pymod_eq a w⟩
  · exact ⟨0, by grind⟩

/-- and it is the only such number in the half-open range -/
theorem C43_wrap1_unique (a w r : Rat) (k : Int) (hw : 0 < w) (h0 : 0 ≤ r) (h1 : r < w)
    (hk : r = a - (k : Rat) * w) : r = wrap1 a w := by
  unfold wrap1
  simp only [ne_eq, Rat.ne_of_gt hw, not_false_eq_true, if_true]
  exact pymod_unique_pos a w r k hw h0 h1 hk

/-- wrapping twice is wrapping once -/
theorem C43_wrap1_idempotent (a w : Rat) : wrap1 (wrap1 a w) w = wrap1 a w := by
  by_cases h0 : w = 0
  · subst h0; simp [wrap1]
  · by_cases hw : 0 < w
    · have hr := C43_wrap1_range_pos a w hw
      exact (C43_wrap1_unique (wrap1 a w) w (wrap1 a w) 0 hw hr.1 hr.2 (by grind)).symm
    · have hw' : w < 0 := by grind
      have hr := C43_wrap1_range_neg a w hw'
      have := pymod_unique_neg (wrap1 a w) w (wrap1 a w) 0 hw' hr.1 hr.2 (by grind)
      have e : wrap1 (wrap1 a w) w = pymod (wrap1 a w) w := by
        generalize wrap1 a w = x
        unfold wrap1
        simp only [ne_eq, h0, not_false_eq_true, if_true]
      rw [e]; exact this.symm

/-! ## two-sided wrap -/

/-- the result lies in `[-|wrap|, +|wrap|]`; more precisely in `(-w, w]` for `w > 0` and in
`[w, -w)` for `w < 0` -/
theorem C43_wrap2_range (a w : Rat) (hw : w ≠ 0) :
    -(pabs w) ≤ wrap2 a w ∧ wrap2 a w ≤ pabs w ∧
    (0 < w → -w < wrap2 a w) ∧ (w < 0 → wrap2 a w < -w) := by
  by_cases hp : 0 < w
  · have hr := pymod_pos a (w * 2) (by grind)
    rw [wrap2_pos a w hp, pabs_of_nonneg (Rat.le_of_lt hp)]
    split <;> grind
  · have hn : w < 0 := by grind
    have hr := pymod_neg a (w * 2) (by grind)
    rw [wrap2_neg a w hn, pabs_of_nonpos (Rat.le_of_lt hn)]
    split <;> grind

example : wrap2 190 180 = -170 ∧ wrap2 (-190) 180 = 170 ∧ wrap2 180 180 = 180 ∧
    wrap2 (-180) 180 = 180 ∧ wrap2 180 (-180) = -180 ∧ wrap2 (1081 / 2) 180 = -359 / 2 := by
  decide +kernel

/-- the result differs from the angle by a whole number of full turns `2·wrap` -/
theorem C43_wrap2_congruent (a w : Rat) : ∃ k : Int, wrap2 a w = a - (k : Rat) * (w * 2) := by
  by_cases h0 : w = 0
  · subst h0; exact ⟨0, by simp [wrap2]; grind⟩
  · have he := pymod_eq a (w * 2)
    by_cases hp : 0 < w
    · rw [wrap2_pos a w hp]
      split
      · exact ⟨(a / (w * 2)).floor, he⟩
      · refine ⟨(a / (w * 2)).floor + 1, ?_⟩
        rw [he, Rat.intCast_add]; grind
    · have hn : w < 0 := by grind
      rw [wrap2_neg a w hn]
      split
      · exact ⟨(a / (w * 2)).floor, he⟩
      · refine ⟨(a / (w * 2)).floor + 1, ?_⟩
        rw [he, Rat.intCast_add]; grind

/-! ## short rotation between two headings -/

/-- `delta` is the two-sided wrap of the difference … -/
theorem C43_delta_is_wrap2_diff (d a w : Rat) : delta d a w = wrap2 (d - a) w := rfl

/-- … hence at most half a turn, and `actual + delta` is `desired` up to whole turns -/
theorem C43_delta_short_and_correct (d a w : Rat) (hw : w ≠ 0) :
    -(pabs w) ≤ delta d a w ∧ delta d a w ≤ pabs w ∧
    ∃ k : Int, a + delta d a w = d - (k : Rat) * (w * 2) := by
  have hr := C43_wrap2_range (d - a) w hw
  obtain ⟨k, hk⟩ := C43_wrap2_congruent (d - a) w
  refine ⟨hr.1, hr.2.1, k, ?_⟩
  rw [C43_delta_is_wrap2_diff, hk]; grind

example : delta 10 350 180 = 20 ∧ delta 350 10 180 = -20 := by decide +kernel

/-! ## no wrapping -/

/-- a wrap of zero returns the angle unchanged -/
theorem C43_wrap_zero_id (a d : Rat) : wrap1 a 0 = a ∧ wrap2 a 0 = a ∧ delta d a 0 = d - a := by
  simp [wrap1, wrap2, delta]


/-! ## binary64: what the theorems above do not say -/

/-- The half-open range claimed for the binary64 instantiation (arguments that are binary64
values, every arithmetic result rounded to nearest). -/
def C43_float_full : Prop :=
  ∀ a w : Rat, rn a = a → rn w = w → 0 < w → 0 ≤ wrap1F a w ∧ wrap1F a w < w

/-- It fails: `wrap1(-1e-20, 360.0) == 360.0` — the exact result `360 - 1e-20` rounds to the
excluded end point.  Witness of known finding D43a. -/
theorem C43_counterexample_float : ¬ C43_float_full := by
  intro h
  have := h (mkRat (-6646139978924579) (2 ^ 119)) 360 (by decide +kernel) (by decide +kernel)
    (by decide +kernel)
  revert this
  decide +kernel

/-- What does hold for binary64: the CLOSED ranges.  For a wrap that is a binary64 value
(`rn w = w`) the rounded one-sided wrap lies in `[0, w]` (resp. `[w, 0]`): rounding to nearest is
monotone, so it can reach the excluded end but never pass it. -/
theorem C43_float_wrap1_closed_range (a w : Rat) (hw : rn w = w) :
    (0 < w → 0 ≤ wrap1F a w ∧ wrap1F a w ≤ w) ∧ (w < 0 → w ≤ wrap1F a w ∧ wrap1F a w ≤ 0) := by
  have h := pymodF_range a w hw
  unfold wrap1F
  constructor
  · intro h0; simp only [ne_eq, Rat.ne_of_gt h0, not_false_eq_true, if_true]; exact h.1 h0
  · intro h0; simp only [ne_eq, Rat.ne_of_lt h0, not_false_eq_true, if_true]; exact h.2 h0

/-- … and the rounded two-sided wrap, hence the rounded `delta`, lies in `[-|w|, |w|]` -/
theorem C43_float_wrap2_range (a w : Rat) (hw : rn w = w) (h0 : w ≠ 0) :
    -(pabs w) ≤ wrap2F a w ∧ wrap2F a w ≤ pabs w := by
  unfold wrap2F
  simp only [ne_eq, h0, not_false_eq_true, if_true]
  split
  · have hnw : rn (-w) = -w := by rw [rn_neg, hw]
    have h := pymodF_range (rn (pymodF a (rn (w * 2)) - w)) (-w) hnw
    by_cases hp : 0 < w
    · have := h.2 (by grind)
      rw [pabs_of_nonneg (Rat.le_of_lt hp)]; constructor <;> grind
    · have hn : w < 0 := by grind
      have := h.1 (by grind)
      rw [pabs_of_nonpos (Rat.le_of_lt hn)]; constructor <;> grind
  · next hc => exact pabs_le_iff _ _ hc

theorem C43_float_delta_range (d a w : Rat) (hw : rn w = w) (h0 : w ≠ 0) :
    -(pabs w) ≤ deltaF d a w ∧ deltaF d a w ≤ pabs w :=
  C43_float_wrap2_range _ w hw h0

example : rn 360 = 360 ∧ wrap1F (mkRat (-6646139978924579) (2 ^ 119)) 360 = 360 := by decide +kernel

/-! ## arguments of any numeric type (int, bool, Fraction, float mixed) -/

/-- **No wrapping, whatever the type**: with a wrap of zero the angle comes back as the very same
exact number — no conversion to float happens (an int above `2^53` or a Fraction like `1/3`
survives), and `delta` returns the difference it formed. -/
theorem C43_typed_wrap_zero_id (fa fw fd : Bool) (a d : Rat) :
    wrap1T fa fw a 0 = a ∧ wrap2T a 0 = a ∧
    deltaT fd fa d a 0 = (if fd || fa then rn (rn d - rn a) else d - a) := by
  simp [wrap1T, wrap2T, deltaT]

example : wrap2T (1 / 3) 0 = 1 / 3 ∧ wrap2T 9007199254740993 0 = 9007199254740993 ∧
    rn (1 / 3) ≠ 1 / 3 ∧ rn 9007199254740993 ≠ 9007199254740993 := by decide +kernel

/-- without a float among the arguments `wrap1` is the exact function of the theorems above -/
theorem C43_typed_wrap1_exact (a w : Rat) : wrap1T false false a w = wrap1 a w := by
  simp [wrap1T, wrap1]

/-- with binary64 arguments the typed functions are the binary64 instantiation; a non-float angle
given to `wrap2` is first converted (`rn`) -/
theorem C43_typed_float (fa fw : Bool) (a w : Rat) (hw : rn w = w) :
    (rn a = a → (fa || fw) = true → wrap1T fa fw a w = wrap1F a w) ∧
    (w ≠ 0 → wrap2T a w = wrap2F (rn a) w) := by
  constructor
  · intro ha hf; simp [wrap1T, wrap1F, hf, ha, hw]
  · intro h0; simp [wrap2T, wrap2F, hw, h0]

/-- hence the closed range also for `wrap2` of an int / Fraction angle and a binary64 wrap -/
theorem C43_typed_wrap2_range (a w : Rat) (hw : rn w = w) (h0 : w ≠ 0) :
    -(pabs w) ≤ wrap2T a w ∧ wrap2T a w ≤ pabs w := by
  rw [(C43_typed_float false false a w hw).2 h0]
  exact C43_float_wrap2_range (rn a) w hw h0

/-- Proved part: where no rounding occurs (`floatDiffers = false`, the region predicate of D43a)
the binary64 results ARE the exact results, so every theorem of this file applies to them. -/
theorem C43_float_agrees_partial (d a w : Rat) (H : floatDiffers d a w = false) :
    wrap1F a w = wrap1 a w ∧ wrap2F a w = wrap2 a w ∧ deltaF d a w = delta d a w := by
  unfold floatDiffers at H
  simp only [Bool.or_eq_false_iff, bne_eq_false_iff_eq] at H
  exact ⟨H.1.1, H.1.2, H.2⟩

example : floatDiffers 10 350 180 = false ∧ floatDiffers (1 / 2) (-725 / 4) 360 = false := by
  decide +kernel

end Ioflo.Wrap
