import IofloModel.Lemmas.PolyConvex
/-!
# C44 — point-in-polygon tests agree with exact geometry

Integer coordinates, arbitrary vertex lists (simple or not, degenerate or not) unless stated.
Proved: what `tween2` / the boundary test mean geometrically, that the five predicates partition the
plane consistently with the `side` flag, that the winding number vanishes exactly off the strict
interior as the code defines it, its behaviour under reversal / rotation of the vertex list /
translation, the exact interior for axis-parallel rectangles, and — `C44_convex_interior`,
`C44_convex_classification` — for EVERY CONVEX polygon (either orientation, collinear vertices allowed)
that strictly inside = strictly on the same side of every side, boundary = on some side, winding
number non-zero exactly inside.  For any closed polygon: a point strictly left of every side is
inside (`C44_left_of_every_side_inside`), a polygon strictly on one side of a line through the point
does not wind round it (`C44_separated_not_inside`).
NOT proved (`C44_full`): that the crossing sum is the geometric interior for every simple NON-convex
polygon (Jordan curve theorem); that part rests on the correspondence runs.
-/
namespace Ioflo.Poly

/-! ## segments and the boundary -/

/-- `tween2 p u v` ⇔ `p = u + t·(v − u)` for a rational `t = n/d ∈ [0,1]` -/
theorem C44_tween2_iff_on_segment (p u v : Pt) : tween2 p u v = true ↔ OnSegment p u v :=
  tween2_iff p u v

/-- the order of the endpoints does not matter -/
theorem C44_tween2_symmetric (p u v : Pt) : tween2 p u v = tween2 p v u := tween2_symm p u v

/-- the endpoints and (for an even lattice segment) the midpoint are on it -/
example : tween2 (0, 0) (0, 0) (4, 2) = true ∧ tween2 (4, 2) (0, 0) (4, 2) = true ∧
    tween2 (2, 1) (0, 0) (4, 2) = true ∧ tween2 (2, 2) (0, 0) (4, 2) = false ∧
    tween2 (6, 3) (0, 0) (4, 2) = false := by decide

/-- `sideOnly` ⇔ p is a vertex or lies on one of the sides `vs[i] → vs[i+1 mod l]` -/
theorem C44_sideOnly_iff_on_boundary (p : Pt) (vs : List Pt) :
    sideOnly p vs = true ↔ (p ∈ vs ∨ ∃ e ∈ edges vs, OnSegment p e.1 e.2) := by
  rw [sideOnly_eq]
  simp only [onBoundary, onEdge, Bool.or_eq_true, decide_eq_true_eq, List.any_eq_true, tween2_iff]

/-- the sides are exactly the pairs of cyclically consecutive vertices -/
theorem C44_edges_cyclic (a : Pt) (l : List Pt) : edges (a :: l) = pairs (a :: (l ++ [a])) :=
  edges_eq_pairs a l

/-! ## the five predicates -/

/-- exactly one of strictly inside / on the boundary / strictly outside holds … -/
theorem C44_predicates_partition (p : Pt) (vs : List Pt) :
    (insideOnly p vs = true ∧ sideOnly p vs = false ∧ outsideOnly p vs = false) ∨
    (insideOnly p vs = false ∧ sideOnly p vs = true ∧ outsideOnly p vs = false) ∨
    (insideOnly p vs = false ∧ sideOnly p vs = false ∧ outsideOnly p vs = true) := by
  simp only [insideOnly, outsideOnly, outside, inside_eq, sideOnly_eq, Bool.not_false]
  cases onBoundary p vs <;> cases (crossSum p (edges vs) != 0) <;> simp

/-- … and `inside` / `outside` count the boundary according to the `side` flag -/
theorem C44_side_flag (p : Pt) (vs : List Pt) (side : Bool) :
    inside p vs side = (insideOnly p vs || (side && sideOnly p vs)) ∧
    outside p vs side = (outsideOnly p vs || (side && sideOnly p vs)) := by
  simp only [insideOnly, outsideOnly, outside, inside_eq, sideOnly_eq, Bool.not_false]
  cases onBoundary p vs <;> cases (crossSum p (edges vs) != 0) <;> cases side <;> simp

/-- with the same flag a point is never both inside and outside unless it is on the boundary -/
theorem C44_inside_outside (p : Pt) (vs : List Pt) (side : Bool) :
    (inside p vs side && outside p vs side) = (side && sideOnly p vs) := by
  simp only [outside, inside_eq, sideOnly_eq]
  cases onBoundary p vs <;> cases (crossSum p (edges vs) != 0) <;> cases side <;> simp

/-! ## the winding number -/

/-- zero exactly for points that are not strictly inside (outside or on the boundary) -/
theorem C44_wind_zero_iff_not_insideOnly (p : Pt) (vs : List Pt) :
    wind p vs = 0 ↔ insideOnly p vs = false := by
  simp only [insideOnly, wind_eq, inside_eq]
  cases h : onBoundary p vs <;> simp

theorem C44_wind_zero_iff_outside_or_boundary (p : Pt) (vs : List Pt) :
    wind p vs = 0 ↔ (outsideOnly p vs = true ∨ sideOnly p vs = true) := by
  rw [C44_wind_zero_iff_not_insideOnly]
  rcases C44_predicates_partition p vs with h | h | h <;> simp [h]

/-- off the boundary the winding number is the sum of the signed crossings of the sides -/
theorem C44_wind_is_crossing_sum (p : Pt) (vs : List Pt) (h : sideOnly p vs = false) :
    wind p vs = ((edges vs).map (cross p)).sum := by
  rw [sideOnly_eq] at h
  simp [wind_eq, h, crossSum]

/-- walking the polygon the other way round negates the winding number -/
theorem C44_wind_reverse_neg (p : Pt) (vs : List Pt) : wind p vs.reverse = - wind p vs := by
  cases vs with
  | nil => simp [wind, edges, windLoop]
  | cons a t =>
    have hrot : (a :: t).reverse = rot1 (a :: t.reverse) := by simp [rot1]
    have hb : onBoundary p (a :: t).reverse = onBoundary p (a :: t) := by
      rw [hrot, onBoundary_rot1]
      simp only [onBoundary, edges_eq_pairs]
      have hw : a :: (t.reverse ++ [a]) = (a :: (t ++ [a])).reverse := by simp
      rw [hw, pairs_reverse, onEdge_swap_reverse]
      congr 1
      apply decide_eq_decide.mpr
      simp
    have hc : crossSum p (edges (a :: t).reverse) = - crossSum p (edges (a :: t)) := by
      rw [hrot, edges_rot1, crossSum_rot1, edges_eq_pairs, edges_eq_pairs]
      have hw : a :: (t.reverse ++ [a]) = (a :: (t ++ [a])).reverse := by simp
      rw [hw, pairs_reverse, crossSum_swap_reverse]
    rw [wind_eq, wind_eq, hb, hc]
    split <;> omega

/-- starting the vertex list at another vertex changes nothing -/
theorem C44_wind_rotate_inv (p : Pt) (vs : List Pt) (k : Nat) :
    wind p (Nat.repeat rot1 k vs) = wind p vs := by
  induction k with
  | zero => rfl
  | succ k ih =>
    simp only [Nat.repeat]
    rw [wind_eq, onBoundary_rot1, edges_rot1, crossSum_rot1, ← wind_eq, ih]

/-- `rot1` is `rotateLeft 1` -/
theorem C44_rot1_is_rotateLeft (vs : List Pt) : rot1 vs = vs.rotateLeft 1 := by
  cases vs with
  | nil => rfl
  | cons a t =>
    cases t with
    | nil => rfl
    | cons b t' => simp [rot1, List.rotateLeft]

/-- the same for the predicates -/
theorem C44_predicates_rotate_inv (p : Pt) (vs : List Pt) (side : Bool) :
    inside p (rot1 vs) side = inside p vs side ∧ sideOnly p (rot1 vs) = sideOnly p vs := by
  simp only [inside_eq, sideOnly_eq, onBoundary_rot1, edges_rot1, crossSum_rot1, and_self]

/-- moving polygon and point together changes nothing -/
theorem C44_wind_translate_inv (d p : Pt) (vs : List Pt) :
    wind (shift d p) (vs.map (shift d)) = wind p vs := by
  have hb : onBoundary (shift d p) (vs.map (shift d)) = onBoundary p vs := by
    simp only [onBoundary, edges_map_shift, onEdge, List.any_map]
    congr 1
    · exact decide_eq_decide.mpr (mem_map_shift d p vs)
    · congr 1; funext e; simp only [Function.comp, tween2_shift]
  have hc : crossSum (shift d p) (edges (vs.map (shift d))) = crossSum p (edges vs) := by
    simp only [crossSum, edges_map_shift, List.map_map]
    congr 1
    apply List.map_congr_left
    intro e _
    simp only [Function.comp, cross_shift]
  rw [wind_eq, wind_eq, hb, hc]

theorem C44_predicates_translate_inv (d p : Pt) (vs : List Pt) (side : Bool) :
    inside (shift d p) (vs.map (shift d)) side = inside p vs side := by
  have h := C44_wind_translate_inv d p vs
  have hb : onBoundary (shift d p) (vs.map (shift d)) = onBoundary p vs := by
    simp only [onBoundary, edges_map_shift, onEdge, List.any_map]
    congr 1
    · exact decide_eq_decide.mpr (mem_map_shift d p vs)
    · congr 1; funext e; simp only [Function.comp, tween2_shift]
  rw [wind_eq, wind_eq, hb] at h
  rw [inside_eq, inside_eq, hb]
  cases hbd : onBoundary p vs
  · simp only [hbd, Bool.false_eq_true, if_false] at h ⊢; rw [h]
  · simp

/-- non-vacuity: the unit square walked counter-clockwise winds +1 around its centre of the doubled
grid, clockwise −1; a corner, an edge point and an outer point give 0 -/
example : wind (1, 1) [(0, 0), (2, 0), (2, 2), (0, 2)] = 1 ∧
    wind (1, 1) [(0, 0), (2, 0), (2, 2), (0, 2)].reverse = -1 ∧
    wind (0, 0) [(0, 0), (2, 0), (2, 2), (0, 2)] = 0 ∧
    wind (1, 0) [(0, 0), (2, 0), (2, 2), (0, 2)] = 0 ∧
    wind (3, 1) [(0, 0), (2, 0), (2, 2), (0, 2)] = 0 := by decide

/-! ## exact interior: axis-parallel rectangles -/

/-- **an instance of `C44_full`**: for every axis-parallel rectangle (counter-clockwise from its
lower left corner; other starting corners, the clockwise order and other positions follow from the
rotation / reversal / translation theorems above) the strictly-inside test is the open rectangle,
the boundary test is its border, and the winding number inside is 1 -/
theorem C44_rectangle_interior_partial (p : Pt) (x0 y0 x1 y1 : Int) (hx : x0 < x1) (hy : y0 < y1) :
    (insideOnly p [(x0, y0), (x1, y0), (x1, y1), (x0, y1)] = true ↔
        (x0 < p.1 ∧ p.1 < x1 ∧ y0 < p.2 ∧ p.2 < y1)) ∧
    (sideOnly p [(x0, y0), (x1, y0), (x1, y1), (x0, y1)] = true ↔
        (((p.2 = y0 ∨ p.2 = y1) ∧ x0 ≤ p.1 ∧ p.1 ≤ x1) ∨ ((p.1 = x0 ∨ p.1 = x1) ∧ y0 ≤ p.2 ∧ p.2 ≤ y1))) ∧
    (insideOnly p [(x0, y0), (x1, y0), (x1, y1), (x0, y1)] = true →
        wind p [(x0, y0), (x1, y0), (x1, y1), (x0, y1)] = 1) := by
  have hE : edges [(x0, y0), (x1, y0), (x1, y1), (x0, y1)] =
      [((x0, y0), (x1, y0)), ((x1, y0), (x1, y1)), ((x1, y1), (x0, y1)), ((x0, y1), (x0, y0))] := rfl
  have hB : onBoundary p [(x0, y0), (x1, y0), (x1, y1), (x0, y1)] = true ↔
      (((p.2 = y0 ∨ p.2 = y1) ∧ x0 ≤ p.1 ∧ p.1 ≤ x1) ∨ ((p.1 = x0 ∨ p.1 = x1) ∧ y0 ≤ p.2 ∧ p.2 ≤ y1)) := by
    simp only [onBoundary, hE, onEdge, List.any_cons, List.any_nil, Bool.or_false,
      tween2_horizontal p x0 x1 y0 hx, tween2_vertical p x1 y0 y1 hy,
      tween2_symm p (x1, y1) (x0, y1), tween2_horizontal p x0 x1 y1 hx,
      tween2_symm p (x0, y1) (x0, y0), tween2_vertical p x0 y0 y1 hy,
      Bool.or_eq_true, decide_eq_true_eq, List.mem_cons, List.not_mem_nil, or_false]
    obtain ⟨p1, p2⟩ := p
    simp only [Prod.mk.injEq]
    omega
  have hC : crossSum p [((x0, y0), (x1, y0)), ((x1, y0), (x1, y1)), ((x1, y1), (x0, y1)), ((x0, y1), (x0, y0))] =
      (if y0 ≤ p.2 ∧ p.2 < y1 ∧ p.1 < x1 then 1 else 0) + (if y0 ≤ p.2 ∧ p.2 < y1 ∧ p.1 < x0 then -1 else 0) := by
    simp only [crossSum, List.map_cons, List.map_nil, List.sum_cons, List.sum_nil,
      cross_horizontal, cross_vertical_up p x1 y0 y1 hy, cross_vertical_down p x0 y0 y1 hy]
    omega
  have hS : crossSum p [((x0, y0), (x1, y0)), ((x1, y0), (x1, y1)), ((x1, y1), (x0, y1)), ((x0, y1), (x0, y0))] =
      if y0 ≤ p.2 ∧ p.2 < y1 ∧ x0 ≤ p.1 ∧ p.1 < x1 then 1 else 0 := by
    rw [hC]
    by_cases c1 : y0 ≤ p.2 ∧ p.2 < y1 ∧ p.1 < x1 <;> by_cases c2 : y0 ≤ p.2 ∧ p.2 < y1 ∧ p.1 < x0 <;>
      by_cases c3 : y0 ≤ p.2 ∧ p.2 < y1 ∧ x0 ≤ p.1 ∧ p.1 < x1
    all_goals first
      | (rw [if_pos c1, if_pos c2, if_pos c3]; omega)
      | (rw [if_pos c1, if_pos c2, if_neg c3]; omega)
      | (rw [if_pos c1, if_neg c2, if_pos c3]; omega)
      | (rw [if_pos c1, if_neg c2, if_neg c3]; omega)
      | (rw [if_neg c1, if_pos c2, if_pos c3]; omega)
      | (rw [if_neg c1, if_pos c2, if_neg c3]; omega)
      | (rw [if_neg c1, if_neg c2, if_pos c3]; omega)
      | (rw [if_neg c1, if_neg c2, if_neg c3]; omega)
      | omega
  have key : ∀ (b : Bool), onBoundary p [(x0, y0), (x1, y0), (x1, y1), (x0, y1)] = b →
      ((if b then false else (crossSum p [((x0, y0), (x1, y0)), ((x1, y0), (x1, y1)), ((x1, y1), (x0, y1)), ((x0, y1), (x0, y0))] != 0)) = true ↔
        (x0 < p.1 ∧ p.1 < x1 ∧ y0 < p.2 ∧ p.2 < y1)) := by
    intro b hb
    cases b with
    | true =>
      have := hB.mp hb
      simp only [if_true, Bool.false_eq_true, false_iff]
      omega
    | false =>
      have hb' : ¬ (((p.2 = y0 ∨ p.2 = y1) ∧ x0 ≤ p.1 ∧ p.1 ≤ x1) ∨ ((p.1 = x0 ∨ p.1 = x1) ∧ y0 ≤ p.2 ∧ p.2 ≤ y1)) := by
        intro h; rw [hB.mpr h] at hb; cases hb
      simp only [Bool.false_eq_true, if_false, hS]
      by_cases cS : y0 ≤ p.2 ∧ p.2 < y1 ∧ x0 ≤ p.1 ∧ p.1 < x1
      · rw [if_pos cS]; exact ⟨fun _ => by omega, fun _ => by decide⟩
      · rw [if_neg cS]; exact ⟨fun h => absurd h (by decide), fun h => absurd (by omega) cS⟩
  refine ⟨?_, ?_, ?_⟩
  · simp only [insideOnly, inside_eq, hE]
    exact key _ rfl
  · rw [sideOnly_eq]; exact hB
  · intro hin
    simp only [insideOnly, inside_eq, hE] at hin
    have hstrict := (key _ rfl).mp hin
    have hb : onBoundary p [(x0, y0), (x1, y0), (x1, y1), (x0, y1)] = false := by
      cases hbb : onBoundary p [(x0, y0), (x1, y0), (x1, y1), (x0, y1)] with
      | false => rfl
      | true => have := hB.mp hbb; omega
    have hc : y0 ≤ p.2 ∧ p.2 < y1 ∧ x0 ≤ p.1 ∧ p.1 < x1 := by omega
    simp only [wind_eq, hb, hE, hS, Bool.false_eq_true, if_false]
    rw [if_pos hc]

/-- non-vacuity -/
example : insideOnly (1, 1) [(0, 0), (3, 0), (3, 2), (0, 2)] = true ∧ sideOnly (3, 1) [(0, 0), (3, 0), (3, 2), (0, 2)] = true := by decide

/-! ## convex polygons -/

/-- **any polygon**: if all its vertices lie strictly on one side of some line through `p`
(`n` = a normal of the line) it does not wind round `p` -/
theorem C44_separated_not_inside (n p : Pt) (vs : List Pt) (h : ∀ v ∈ vs, 0 < dot n (sub v p)) :
    wind p vs = 0 ∧ insideOnly p vs = false := by
  have hc := crossSum_halfplane n p vs h
  constructor
  · rw [wind_eq, hc]; split <;> rfl
  · simp only [insideOnly, inside_eq, hc]; split <;> simp

/-- **any closed polygon**: a point strictly to the left of every side is strictly inside by the
code, with positive winding number -/
theorem C44_left_of_every_side_inside (p : Pt) (vs : List Pt) (h : InsideCCW p vs) :
    insideOnly p vs = true ∧ 1 ≤ wind p vs := by
  have hc := crossSum_pos_of_inside p vs h
  have hb : onBoundary p vs = false := by
    cases hbb : onBoundary p vs with
    | false => rfl
    | true =>
      obtain ⟨e, he, h0⟩ := boundary_ori_zero p vs hbb
      have := h.2 e he; omega
  constructor
  · simp only [insideOnly, inside_eq, hb, Bool.false_eq_true, if_false, bne_iff_ne, ne_eq]; omega
  · rw [wind_eq, hb]; simpa using hc

/-- **convex polygons**: a point strictly to the right of some side is outside -/
theorem C44_convex_right_of_a_side_outside (p : Pt) (vs : List Pt) (hc : ConvexCCW vs)
    (e : Pt × Pt) (he : e ∈ edges vs) (hr : ori p e < 0) : wind p vs = 0 ∧ insideOnly p vs = false := by
  have h0 := crossSum_of_right p vs hc e he hr
  constructor
  · rw [wind_eq, h0]; split <;> rfl
  · simp only [insideOnly, inside_eq, h0]; split <;> simp

/-- **convex polygons given counter-clockwise, every integer point**: strictly inside by the code ⇔
strictly to the left of every side -/
theorem C44_convex_ccw_interior (p : Pt) (vs : List Pt) (hc : ConvexCCW vs) (hps : ProperSides vs) :
    insideOnly p vs = true ↔ InsideCCW p vs := by
  constructor
  · intro hin
    have hne : vs ≠ [] := by
      rintro rfl
      simp [insideOnly, inside, insideLoop, edges] at hin
    have hb : onBoundary p vs = false := by
      cases hbb : onBoundary p vs with
      | false => rfl
      | true => simp [insideOnly, inside_eq, hbb] at hin
    have hcs : crossSum p (edges vs) ≠ 0 := by
      simpa [insideOnly, inside_eq, hb] using hin
    refine ⟨hne, ?_⟩
    intro e he
    by_cases hneg : ori p e < 0
    · exact absurd (crossSum_of_right p vs hc e he hneg) hcs
    · by_cases hz : ori p e = 0
      · exact absurd (crossSum_of_on_line p vs hc hps hb e he hz) hcs
      · omega
  · intro h; exact (C44_left_of_every_side_inside p vs h).1

theorem mem_rot1' {α : Type} (x : α) (l : List α) : x ∈ rot1 l ↔ x ∈ l := by
  cases l with
  | nil => simp [rot1]
  | cons a t => simp [rot1, or_comm]

theorem mem_edges_reverse (vs : List Pt) (e : Pt × Pt) : e ∈ edges vs.reverse ↔ e.swap ∈ edges vs := by
  cases vs with
  | nil => simp [edges]
  | cons a t =>
    have hrot : (a :: t).reverse = rot1 (a :: t.reverse) := by simp [rot1]
    rw [hrot, edges_rot1, mem_rot1', edges_eq_pairs, edges_eq_pairs]
    have hw : a :: (t.reverse ++ [a]) = (a :: (t ++ [a])).reverse := by simp
    rw [hw, pairs_reverse]
    simp only [List.mem_reverse, List.mem_map]
    constructor
    · rintro ⟨x, hx, rfl⟩; simpa using hx
    · intro h; exact ⟨e.swap, h, by simp⟩

theorem onBoundary_reverse (p : Pt) (vs : List Pt) : onBoundary p vs.reverse = onBoundary p vs := by
  cases vs with
  | nil => rfl
  | cons a t =>
    have hrot : (a :: t).reverse = rot1 (a :: t.reverse) := by simp [rot1]
    rw [hrot, onBoundary_rot1]
    simp only [onBoundary, edges_eq_pairs]
    have hw : a :: (t.reverse ++ [a]) = (a :: (t ++ [a])).reverse := by simp
    rw [hw, pairs_reverse, onEdge_swap_reverse]
    congr 1
    apply decide_eq_decide.mpr
    simp

theorem crossSum_reverse (p : Pt) (vs : List Pt) : crossSum p (edges vs.reverse) = - crossSum p (edges vs) := by
  cases vs with
  | nil => simp [edges, crossSum]
  | cons a t =>
    have hrot : (a :: t).reverse = rot1 (a :: t.reverse) := by simp [rot1]
    rw [hrot, edges_rot1, crossSum_rot1, edges_eq_pairs, edges_eq_pairs]
    have hw : a :: (t.reverse ++ [a]) = (a :: (t ++ [a])).reverse := by simp
    rw [hw, pairs_reverse, crossSum_swap_reverse]

theorem insideOnly_reverse (p : Pt) (vs : List Pt) : insideOnly p vs.reverse = insideOnly p vs := by
  simp only [insideOnly, inside_eq, onBoundary_reverse, crossSum_reverse]
  cases onBoundary p vs
  · simp only [Bool.false_eq_true, if_false]
    by_cases h : crossSum p (edges vs) = 0
    · rw [h]; rfl
    · have h' : - crossSum p (edges vs) ≠ 0 := by omega
      have e1 : (-crossSum p (edges vs) != 0) = true := by simpa using h'
      have e2 : (crossSum p (edges vs) != 0) = true := by simpa using h
      rw [e1, e2]
  · rfl

theorem ori_swap (p a b : Pt) : ori p (b, a) = - ori p (a, b) := by
  simp only [ori, trip, sub]; grind

/-- convex: no zero-length side, and — walked one way or the other — every vertex on or to the left
of the line of every side -/
def Convex (vs : List Pt) : Prop := ProperSides vs ∧ (ConvexCCW vs ∨ ConvexCCW vs.reverse)

instance (vs : List Pt) : Decidable (Convex vs) := by unfold Convex; infer_instance

/-- strictly on the same side of every side -/
def InsideConvex (p : Pt) (vs : List Pt) : Prop :=
  vs ≠ [] ∧ ((∀ e ∈ edges vs, 0 < ori p e) ∨ (∀ e ∈ edges vs, ori p e < 0))

instance (p : Pt) (vs : List Pt) : Decidable (InsideConvex p vs) := by unfold InsideConvex; infer_instance

theorem insideCCW_reverse_iff (p : Pt) (vs : List Pt) :
    InsideCCW p vs.reverse ↔ (vs ≠ [] ∧ ∀ e ∈ edges vs, ori p e < 0) := by
  unfold InsideCCW
  have hne : vs.reverse ≠ [] ↔ vs ≠ [] := by simp
  rw [hne]
  constructor
  · rintro ⟨h1, h2⟩
    refine ⟨h1, ?_⟩
    intro e he
    have := h2 e.swap ((mem_edges_reverse vs e.swap).mpr (by simpa using he))
    obtain ⟨a, b⟩ := e
    simp only [Prod.swap] at this
    rw [ori_swap] at this; omega
  · rintro ⟨h1, h2⟩
    refine ⟨h1, ?_⟩
    intro e he
    have := h2 e.swap ((mem_edges_reverse vs e).mp he)
    obtain ⟨a, b⟩ := e
    simp only [Prod.swap] at this
    rw [ori_swap] at this; omega

theorem properSides_reverse (vs : List Pt) (h : ProperSides vs) : ProperSides vs.reverse := by
  intro e he
  have := h e.swap ((mem_edges_reverse vs e).mp he)
  obtain ⟨a, b⟩ := e
  simp only [Prod.swap] at this ⊢
  exact fun h => this h.symm

/-- **C44 for convex polygons** (integer vertices, either orientation, every integer point):
the code's strictly-inside test is "strictly on the same side of every side" -/
theorem C44_convex_interior (p : Pt) (vs : List Pt) (hc : Convex vs) :
    insideOnly p vs = true ↔ InsideConvex p vs := by
  obtain ⟨hps, hor⟩ := hc
  constructor
  · intro hin
    rcases hor with hccw | hcw
    · have := (C44_convex_ccw_interior p vs hccw hps).mp hin
      exact ⟨this.1, Or.inl this.2⟩
    · have hin' : insideOnly p vs.reverse = true := by rw [insideOnly_reverse]; exact hin
      have := (C44_convex_ccw_interior p vs.reverse hcw (properSides_reverse vs hps)).mp hin'
      have := (insideCCW_reverse_iff p vs).mp this
      exact ⟨this.1, Or.inr this.2⟩
  · rintro ⟨hne, hl | hr⟩
    · exact (C44_left_of_every_side_inside p vs ⟨hne, hl⟩).1
    · have := (insideCCW_reverse_iff p vs).mpr ⟨hne, hr⟩
      have := (C44_left_of_every_side_inside p vs.reverse this).1
      rw [insideOnly_reverse] at this; exact this

/-- the complete classification for convex polygons: boundary = on some side (segment, ends included),
strictly inside = same side of every side, strictly outside = the rest; winding number ±1… non-zero
exactly inside -/
theorem C44_convex_classification (p : Pt) (vs : List Pt) (hc : Convex vs) :
    (sideOnly p vs = true ↔ (p ∈ vs ∨ ∃ e ∈ edges vs, OnSegment p e.1 e.2)) ∧
    (insideOnly p vs = true ↔ InsideConvex p vs) ∧
    (outsideOnly p vs = true ↔ (sideOnly p vs = false ∧ ¬ InsideConvex p vs)) ∧
    (wind p vs ≠ 0 ↔ InsideConvex p vs) := by
  have hi := C44_convex_interior p vs hc
  refine ⟨C44_sideOnly_iff_on_boundary p vs, hi, ?_, ?_⟩
  · rcases C44_predicates_partition p vs with h | h | h <;> simp [h, ← hi]
  · rw [← hi]
    have := C44_wind_zero_iff_not_insideOnly p vs
    cases h : insideOnly p vs <;> simp [h] at this ⊢ <;> omega

/-- non-vacuity: a triangle and a pentagon, both orientations -/
example : Convex [(0, 0), (4, 0), (1, 3)] ∧ Convex [(0, 0), (4, 0), (1, 3)].reverse ∧
    Convex [(0, 0), (4, 0), (5, 3), (2, 5), (-1, 2)] ∧ Convex [(0, 0), (4, 0), (5, 3), (2, 5), (-1, 2)].reverse ∧
    InsideConvex (1, 1) [(0, 0), (4, 0), (1, 3)] ∧ InsideConvex (1, 1) [(0, 0), (4, 0), (1, 3)].reverse ∧
    InsideConvex (2, 2) [(0, 0), (4, 0), (5, 3), (2, 5), (-1, 2)].reverse ∧
    ¬ InsideConvex (5, 0) [(0, 0), (4, 0), (1, 3)] ∧ ¬ InsideConvex (2, 0) [(0, 0), (4, 0), (1, 3)] ∧
    ¬ Convex [(0, 0), (4, 0), (1, 1), (2, 4)] := by decide

/-! ## what is not proved -/

/-- the geometric statement for all simple polygons (proved above for the convex ones and for
axis-parallel rectangles only): a point off the boundary is strictly inside
by the code iff it is in the bounded component of the complement of the polygon's curve.  Stated
here through an abstract `Interior` predicate that any proof would have to instantiate with the
Jordan interior; NOT proved — the correspondence check compares with exact rational ray casting
on all simple polygons of the stated bounds instead. -/
def C44_full (Simple : List Pt → Prop) (Interior : List Pt → Pt → Prop) : Prop :=
  ∀ vs p, Simple vs → sideOnly p vs = false → (insideOnly p vs = true ↔ Interior vs p)

end Ioflo.Poly
