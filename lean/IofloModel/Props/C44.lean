import IofloModel.Lemmas.Poly
/-!
# C44 — point-in-polygon tests agree with exact geometry

Integer coordinates, arbitrary vertex lists (simple or not, degenerate or not) unless stated.
Proved: what `tween2` / the boundary test mean geometrically, that the five predicates partition the
plane consistently with the `side` flag, that the winding number vanishes exactly off the strict
interior as the code defines it, its behaviour under reversal / rotation of the vertex list /
translation, and the exact interior for axis-parallel rectangles.
NOT proved (`C44_full`): that the crossing sum is the geometric interior for every simple polygon
(Jordan curve theorem); that part rests on the correspondence runs.
-/
namespace Ioflo.Poly

/-! ## segments and the boundary -/

/-- `tween2 p u v` ⇔ `p = u + t·(v − u)` for a rational `t = n/d ∈ [0,1]` -/
theorem C44_tween2_iff_on_segment (p u v : Pt) : tween2 p u v = true ↔ OnSegment p u v :=
  tween2_iff p u v

/-- the order of the endpoints does not matter -/
theorem C44_tween2_symmetric (p u v : Pt) : tween2 p u v = tween2 p v u := tween2_symm p u v

/-- the endpoints and (for an even lattice segment) the midpoint are on it -/
example : tween2 (0, 0) (0, 0) (4, 2) = true ∧ tween2 (4, 2) (0, 0) (4, 2) = true ∧
    tween2 (2, 1) (0, 0) (4, 2) = true ∧ tween2 (2, 2) (0, 0) (4, 2) = false ∧
    tween2 (6, 3) (0, 0) (4, 2) = false := by decide

/-- `sideOnly` ⇔ p is a vertex or lies on one of the sides `vs[i] → vs[i+1 mod l]` -/
theorem C44_sideOnly_iff_on_boundary (p : Pt) (vs : List Pt) :
    sideOnly p vs = true ↔ (p ∈ vs ∨ ∃ e ∈ edges vs, OnSegment p e.1 e.2) := by
  rw [sideOnly_eq]
  simp only [onBoundary, onEdge, Bool.or_eq_true, decide_eq_true_eq, List.any_eq_true, tween2_iff]

/-- the sides are exactly the pairs of cyclically consecutive vertices -/
theorem C44_edges_cyclic (a : Pt) (l : List Pt) : edges (a :: l) = pairs (a :: (l ++ [a])) :=
  edges_eq_pairs a l

/-! ## the five predicates -/

/-- exactly one of strictly inside / on the boundary / strictly outside holds … -/
theorem C44_predicates_partition (p : Pt) (vs : List Pt) :
    (insideOnly p vs = true ∧ sideOnly p vs = false ∧ outsideOnly p vs = false) ∨
    (insideOnly p vs = false ∧ sideOnly p vs = true ∧ outsideOnly p vs = false) ∨
    (insideOnly p vs = false ∧ sideOnly p vs = false ∧ outsideOnly p vs = true) := by
  simp only [insideOnly, outsideOnly, outside, inside_eq, sideOnly_eq, Bool.not_false]
  cases onBoundary p vs <;> cases (crossSum p (edges vs) != 0) <;> simp

/-- … and `inside` / `outside` count the boundary according to the `side` flag -/
theorem C44_side_flag (p : Pt) (vs : List Pt) (side : Bool) :
    inside p vs side = (insideOnly p vs || (side && sideOnly p vs)) ∧
    outside p vs side = (outsideOnly p vs || (side && sideOnly p vs)) := by
  simp only [insideOnly, outsideOnly, outside, inside_eq, sideOnly_eq, Bool.not_false]
  cases onBoundary p vs <;> cases (crossSum p (edges vs) != 0) <;> cases side <;> simp

/-- with the same flag a point is never both inside and outside unless it is on the boundary -/
theorem C44_inside_outside (p : Pt) (vs : List Pt) (side : Bool) :
    (inside p vs side && outside p vs side) = (side && sideOnly p vs) := by
  simp only [outside, inside_eq, sideOnly_eq]
  cases onBoundary p vs <;> cases (crossSum p (edges vs) != 0) <;> cases side <;> simp

/-! ## the winding number -/

/-- zero exactly for points that are not strictly inside (outside or on the boundary) -/
theorem C44_wind_zero_iff_not_insideOnly (p : Pt) (vs : List Pt) :
    wind p vs = 0 ↔ insideOnly p vs = false := by
  simp only [insideOnly, wind_eq, inside_eq]
  cases h : onBoundary p vs <;> simp

theorem C44_wind_zero_iff_outside_or_boundary (p : Pt) (vs : List Pt) :
    wind p vs = 0 ↔ (outsideOnly p vs = true ∨ sideOnly p vs = true) := by
  rw [C44_wind_zero_iff_not_insideOnly]
  rcases C44_predicates_partition p vs with h | h | h <;> simp [h]

/-- off the boundary the winding number is the sum of the signed crossings of the sides -/
theorem C44_wind_is_crossing_sum (p : Pt) (vs : List Pt) (h : sideOnly p vs = false) :
    wind p vs = ((edges vs).map (cross p)).sum := by
  rw [sideOnly_eq] at h
  simp [wind_eq, h, crossSum]

/-- walking the polygon the other way round negates the winding number -/
theorem C44_wind_reverse_neg (p : Pt) (vs : List Pt) : wind p vs.reverse = - wind p vs := by
  cases vs with
  | nil => simp [wind, edges, windLoop]
  | cons a t =>
    have hrot : (a :: t).reverse = rot1 (a :: t.reverse) := by simp [rot1]
    have hb : onBoundary p (a :: t).reverse = onBoundary p (a :: t) := by
      rw [hrot, onBoundary_rot1]
      simp only [onBoundary, edges_eq_pairs]
      have hw : a :: (t.reverse ++ [a]) = (a :: (t ++ [a])).reverse := by simp
      rw [hw, pairs_reverse, onEdge_swap_reverse]
      congr 1
      apply decide_eq_decide.mpr
      simp
    have hc : crossSum p (edges (a :: t).reverse) = - crossSum p (edges (a :: t)) := by
      rw [hrot, edges_rot1, crossSum_rot1, edges_eq_pairs, edges_eq_pairs]
      have hw : a :: (t.reverse ++ [a]) = (a :: (t ++ [a])).reverse := by simp
      rw [hw, pairs_reverse, crossSum_swap_reverse]
    rw [wind_eq, wind_eq, hb, hc]
    split <;> omega

/-- starting the vertex list at another vertex changes nothing -/
theorem C44_wind_rotate_inv (p : Pt) (vs : List Pt) (k : Nat) :
    wind p (Nat.repeat rot1 k vs) = wind p vs := by
  induction k with
  | zero => rfl
  | succ k ih =>
    simp only [Nat.repeat]
    rw [wind_eq, onBoundary_rot1, edges_rot1, crossSum_rot1, ← wind_eq, ih]

/-- `rot1` is `rotateLeft 1` -/
theorem C44_rot1_is_rotateLeft (vs : List Pt) : rot1 vs = vs.rotateLeft 1 := by
  cases vs with
  | nil => rfl
  | cons a t =>
    cases t with
    | nil => rfl
    | cons b t' => simp [rot1, List.rotateLeft]

/-- the same for the predicates -/
theorem C44_predicates_rotate_inv (p : Pt) (vs : List Pt) (side : Bool) :
    inside p (rot1 vs) side = inside p vs side ∧ sideOnly p (rot1 vs) = sideOnly p vs := by
  simp only [inside_eq, sideOnly_eq, onBoundary_rot1, edges_rot1, crossSum_rot1, and_self]

/-- moving polygon and point together changes nothing -/
theorem C44_wind_translate_inv (d p : Pt) (vs : List Pt) :
    wind (shift d p) (vs.map (shift d)) = wind p vs := by
  have hb : onBoundary (shift d p) (vs.map (shift d)) = onBoundary p vs := by
    simp only [onBoundary, edges_map_shift, onEdge, List.any_map]
    congr 1
    · exact decide_eq_decide.mpr (mem_map_shift d p vs)
    · congr 1; funext e; simp only [Function.comp, tween2_shift]
  have hc : crossSum (shift d p) (edges (vs.map (shift d))) = crossSum p (edges vs) := by
    simp only [crossSum, edges_map_shift, List.map_map]
    congr 1
    apply List.map_congr_left
    intro e _
    simp only [Function.comp, cross_shift]
  rw [wind_eq, wind_eq, hb, hc]

theorem C44_predicates_translate_inv (d p : Pt) (vs : List Pt) (side : Bool) :
    inside (shift d p) (vs.map (shift d)) side = inside p vs side := by
  have h := C44_wind_translate_inv d p vs
  have hb : onBoundary (shift d p) (vs.map (shift d)) = onBoundary p vs := by
    simp only [onBoundary, edges_map_shift, onEdge, List.any_map]
    congr 1
    · exact decide_eq_decide.mpr (mem_map_shift d p vs)
    · congr 1; funext e; simp only [Function.comp, tween2_shift]
  rw [wind_eq, wind_eq, hb] at h
  rw [inside_eq, inside_eq, hb]
  cases hbd : onBoundary p vs
  · simp only [hbd, Bool.false_eq_true, if_false] at h ⊢; rw [h]
  · simp

/-- non-vacuity: the unit square walked counter-clockwise winds +1 around its centre of the doubled
grid, clockwise −1; a corner, an edge point and an outer point give 0 -/
example : wind (1, 1) [(0, 0), (2, 0), (2, 2), (0, 2)] = 1 ∧
    wind (1, 1) [(0, 0), (2, 0), (2, 2), (0, 2)].reverse = -1 ∧
    wind (0, 0) [(0, 0), (2, 0), (2, 2), (0, 2)] = 0 ∧
    wind (1, 0) [(0, 0), (2, 0), (2, 2), (0, 2)] = 0 ∧
    wind (3, 1) [(0, 0), (2, 0), (2, 2), (0, 2)] = 0 := by decide

/-! ## exact interior: axis-parallel rectangles -/

/-- **an instance of `C44_full`**: for every axis-parallel rectangle (counter-clockwise from its
lower left corner; other starting corners, the clockwise order and other positions follow from the
rotation / reversal / translation theorems above) the strictly-inside test is the open rectangle,
the boundary test is its border, and the winding number inside is 1 -/
theorem C44_rectangle_interior_partial (p : Pt) (x0 y0 x1 y1 : Int) (hx : x0 < x1) (hy : y0 < y1) :
    (insideOnly p [(x0, y0), (x1, y0), (x1, y1), (x0, y1)] = true ↔
        (x0 < p.1 ∧ p.1 < x1 ∧ y0 < p.2 ∧ p.2 < y1)) ∧
    (sideOnly p [(x0, y0), (x1, y0), (x1, y1), (x0, y1)] = true ↔
        (((p.2 = y0 ∨ p.2 = y1) ∧ x0 ≤ p.1 ∧ p.1 ≤ x1) ∨ ((p.1 = x0 ∨ p.1 = x1) ∧ y0 ≤ p.2 ∧ p.2 ≤ y1))) ∧
    (insideOnly p [(x0, y0), (x1, y0), (x1, y1), (x0, y1)] = true →
        wind p [(x0, y0), (x1, y0), (x1, y1), (x0, y1)] = 1) := by
  have hE : edges [(x0, y0), (x1, y0), (x1, y1), (x0, y1)] =
      [((x0, y0), (x1, y0)), ((x1, y0), (x1, y1)), ((x1, y1), (x0, y1)), ((x0, y1), (x0, y0))] := rfl
  have hB : onBoundary p [(x0, y0), (x1, y0), (x1, y1), (x0, y1)] = true ↔
      (((p.2 = y0 ∨ p.2 = y1) ∧ x0 ≤ p.1 ∧ p.1 ≤ x1) ∨ ((p.1 = x0 ∨ p.1 = x1) ∧ y0 ≤ p.2 ∧ p.2 ≤ y1)) := by
    simp only [onBoundary, hE, onEdge, List.any_cons, List.any_nil, Bool.or_false,
      tween2_horizontal p x0 x1 y0 hx, tween2_vertical p x1 y0 y1 hy,
      tween2_symm p (x1, y1) (x0, y1), tween2_horizontal p x0 x1 y1 hx,
      tween2_symm p (x0, y1) (x0, y0), tween2_vertical p x0 y0 y1 hy,
      Bool.or_eq_true, decide_eq_true_eq, List.mem_cons, List.not_mem_nil, or_false]
    obtain ⟨p1, p2⟩ := p
    simp only [Prod.mk.injEq]
    omega
  have hC : crossSum p [((x0, y0), (x1, y0)), ((x1, y0), (x1, y1)), ((x1, y1), (x0, y1)), ((x0, y1), (x0, y0))] =
      (if y0 ≤ p.2 ∧ p.2 < y1 ∧ p.1 < x1 then 1 else 0) + (if y0 ≤ p.2 ∧ p.2 < y1 ∧ p.1 < x0 then -1 else 0) := by
    simp only [crossSum, List.map_cons, List.map_nil, List.sum_cons, List.sum_nil,
      cross_horizontal, cross_vertical_up p x1 y0 y1 hy, cross_vertical_down p x0 y0 y1 hy]
    omega
  have hS : crossSum p [((x0, y0), (x1, y0)), ((x1, y0), (x1, y1)), ((x1, y1), (x0, y1)), ((x0, y1), (x0, y0))] =
      if y0 ≤ p.2 ∧ p.2 < y1 ∧ x0 ≤ p.1 ∧ p.1 < x1 then 1 else 0 := by
    rw [hC]
    by_cases c1 : y0 ≤ p.2 ∧ p.2 < y1 ∧ p.1 < x1 <;> by_cases c2 : y0 ≤ p.2 ∧ p.2 < y1 ∧ p.1 < x0 <;>
      by_cases c3 : y0 ≤ p.2 ∧ p.2 < y1 ∧ x0 ≤ p.1 ∧ p.1 < x1
    all_goals first
      | (rw [if_pos c1, if_pos c2, if_pos c3]; omega)
      | (rw [if_pos c1, if_pos c2, if_neg c3]; omega)
      | (rw [if_pos c1, if_neg c2, if_pos c3]; omega)
      | (rw [if_pos c1, if_neg c2, if_neg c3]; omega)
      | (rw [if_neg c1, if_pos c2, if_pos c3]; omega)
      | (rw [if_neg c1, if_pos c2, if_neg c3]; omega)
      | (rw [if_neg c1, if_neg c2, if_pos c3]; omega)
      | (rw [if_neg c1, if_neg c2, if_neg c3]; omega)
      | omega
  have key : ∀ (b : Bool), onBoundary p [(x0, y0), (x1, y0), (x1, y1), (x0, y1)] = b →
      ((if b then false else (crossSum p [((x0, y0), (x1, y0)), ((x1, y0), (x1, y1)), ((x1, y1), (x0, y1)), ((x0, y1), (x0, y0))] != 0)) = true ↔
        (x0 < p.1 ∧ p.1 < x1 ∧ y0 < p.2 ∧ p.2 < y1)) := by
    intro b hb
    cases b with
    | true =>
      have := hB.mp hb
      simp only [if_true, Bool.false_eq_true, false_iff]
      omega
    | false =>
      have hb' : ¬ (((p.2 = y0 ∨ p.2 = y1) ∧ x0 ≤ p.1 ∧ p.1 ≤ x1) ∨ ((p.1 = x0 ∨ p.1 = x1) ∧ y0 ≤ p.2 ∧ p.2 ≤ y1)) := by
        intro h; rw [hB.mpr h] at hb; cases hb
      simp only [Bool.false_eq_true, if_false, hS]
      by_cases cS : y0 ≤ p.2 ∧ p.2 < y1 ∧ x0 ≤ p.1 ∧ p.1 < x1
      · rw [if_pos cS]; exact ⟨fun _ => by omega, fun _ => by decide⟩
      · rw [if_neg cS]; exact ⟨fun h => absurd h (by decide), fun h => absurd (by omega) cS⟩
  refine ⟨?_, ?_, ?_⟩
  · simp only [insideOnly, inside_eq, hE]
    exact key _ rfl
  · rw [sideOnly_eq]; exact hB
  · intro hin
    simp only [insideOnly, inside_eq, hE] at hin
    have hstrict := (key _ rfl).mp hin
    have hb : onBoundary p [(x0, y0), (x1, y0), (x1, y1), (x0, y1)] = false := by
      cases hbb : onBoundary p [(x0, y0), (x1, y0), (x1, y1), (x0, y1)] with
      | false => rfl
      | true => have := hB.mp hbb; omega
    have hc : y0 ≤ p.2 ∧ p.2 < y1 ∧ x0 ≤ p.1 ∧ p.1 < x1 := by omega
    simp only [wind_eq, hb, hE, hS, Bool.false_eq_true, if_false]
    rw [if_pos hc]

/-- non-vacuity -/
example : insideOnly (1, 1) [(0, 0), (3, 0), (3, 2), (0, 2)] = true ∧ sideOnly (3, 1) [(0, 0), (3, 0), (3, 2), (0, 2)] = true := by decide

/-! ## what is not proved -/

/-- the geometric statement for all simple polygons: a point off the boundary is strictly inside
by the code iff it is in the bounded component of the complement of the polygon's curve.  Stated
here through an abstract `Interior` predicate that any proof would have to instantiate with the
Jordan interior; NOT proved — the correspondence check compares with exact rational ray casting
on all simple polygons of the stated bounds instead. -/
def C44_full (Simple : List Pt → Prop) (Interior : List Pt → Pt → Prop) : Prop :=
  ∀ vs p, Simple vs → sideOnly p vs = false → (insideOnly p vs = true ↔ Interior vs p)

end Ioflo.Poly
