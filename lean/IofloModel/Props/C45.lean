import IofloModel.Lemmas.Arbiter
/-!
# C45 — arbiters select outputs by their documented rules

Exact numbers (`τ := Rat`), arbitrary input lists.  `IsFirstMax lt key l w` (Lemmas/Arbiter.lean):
`w` is in `l`, everything before it is strictly smaller, nothing after it is strictly larger.
The model contains the repairs D24 and D25b (see Model/Arbiter.lean); D25 is not repaired.
-/
namespace Ioflo.Arbiter

/-! ## FixTruth -/

/-- None/True → 1, False → 0, numbers clamped to [0,1] -/
theorem C45_fixTruth_cases (t : Truth Rat) :
    fixTruth t = match t with
      | .none => 1
      | .bool true => 1
      | .bool false => 0
      | .num x => min 1 (max 0 x) := by
  cases t with
  | none => rfl
  | bool b => cases b <;> rfl
  | num x => simp only [fixTruth]; grind

theorem C45_fixTruth_range (t : Truth Rat) : 0 ≤ fixTruth t ∧ fixTruth t ≤ 1 := by
  rw [C45_fixTruth_cases]
  cases t with
  | none => simp only; grind
  | bool b => cases b <;> simp only <;> grind
  | num x => simp only; grind

theorem C45_fixTruth_id (x : Rat) (h0 : 0 ≤ x) (h1 : x ≤ 1) : fixTruth (.num x) = x := by
  rw [C45_fixTruth_cases]; simp only; grind

/-! ## ArbiterSwitch -/

/-- the first selected input goes out with its value and truth as they are; none selected → default -/
theorem C45_switch_first_selected (d : Default Rat) (ins : List (Input Rat)) :
    (∃ pre i post, ins = pre ++ i :: post ∧ (∀ x ∈ pre, x.sel = false) ∧ i.sel = true ∧
        switch d ins = { value := i.value, truth := i.truth }) ∨
    ((∀ x ∈ ins, x.sel = false) ∧ switch d ins = d.out) := by
  induction ins with
  | nil => right; simp [switch]
  | cons i rest ih =>
    by_cases hs : i.sel = true
    · left; exact ⟨[], i, rest, rfl, by simp, hs, by simp [switch, hs]⟩
    · have hs' : i.sel = false := by simpa using hs
      rcases ih with ⟨pre, j, post, h1, h2, h3, h4⟩ | ⟨h1, h2⟩
      · left
        refine ⟨i :: pre, j, post, by simp [h1], ?_, h3, by simp [switch, hs', h4]⟩
        intro x hx; simp at hx; rcases hx with rfl | hx
        · exact hs'
        · exact h2 x hx
      · right
        refine ⟨?_, by simp [switch, hs', h2]⟩
        intro x hx; simp at hx; rcases hx with rfl | hx
        · exact hs'
        · exact h1 x hx

/-- the same with `find?` -/
theorem C45_switch_find (d : Default Rat) (ins : List (Input Rat)) :
    switch d ins = match ins.find? (·.sel) with
      | some i => { value := i.value, truth := i.truth }
      | none => d.out := by
  induction ins with
  | nil => rfl
  | cons i rest ih =>
    by_cases hs : i.sel = true
    · simp [switch, hs]
    · have hs' : i.sel = false := by simpa using hs
      simp [switch, hs', ih]

/-! ## ArbiterPriority -/

/-- selected and sufficiently true: `sel and truth > default.truth` (truth fixed to [0,1]) -/
def Suff (dt : Rat) (i : Input Rat) : Prop := i.sel = true ∧ dt < fixTruth i.truth

instance (dt : Rat) : DecidablePred (Suff dt) := fun i => by unfold Suff; infer_instance

/-- what the code's priority loop can ever take: additionally importance > 0 (`impmax = 0.0`) -/
def PCand (dt : Rat) (i : Input Rat) : Prop := Suff dt i ∧ 0 < i.imp

instance (dt : Rat) : DecidablePred (PCand dt) := fun i => by unfold PCand; infer_instance

def mkBest (w : Input Rat) : Best Rat := { input := some w, impmax := w.imp, truthmax := fixTruth w.truth }

/-- "strictly more important" -/
abbrev pickImp : Input Rat → Input Rat → Input Rat := pick (· < ·) (fun i : Input Rat => i.imp)

theorem priorityStep_mk (dt : Rat) (w i : Input Rat) (hw : 0 < w.imp) :
    priorityStep dt (mkBest w) i = if PCand dt i then mkBest (pickImp w i) else mkBest w := by
  unfold priorityStep mkBest pickImp pick PCand Suff
  by_cases h1 : i.sel = true <;> by_cases h2 : dt < fixTruth i.truth <;> by_cases h3 : w.imp < i.imp
  · have : 0 < i.imp := by grind
    simp [h1, h2, h3, this]
  · simp [h1, h2, h3]
  all_goals simp [h1, h2]

theorem pickImp_pos (w i : Input Rat) (hw : 0 < w.imp) : 0 < (pickImp w i).imp := by
  unfold pickImp pick; split <;> grind

theorem priority_fold_some (dt : Rat) (ins : List (Input Rat)) (w : Input Rat) (hw : 0 < w.imp) :
    ins.foldl (priorityStep dt) (mkBest w) = mkBest ((ins.filter (PCand dt)).foldl pickImp w) := by
  induction ins generalizing w with
  | nil => rfl
  | cons i rest ih =>
    simp only [List.foldl_cons, priorityStep_mk dt w i hw, List.filter_cons]
    by_cases hc : PCand dt i
    · simp only [hc, if_true, decide_true, List.foldl_cons]
      exact ih _ (pickImp_pos w i hw)
    · simp only [hc, if_false, decide_false]
      exact ih w hw

theorem priorityStep_none (dt : Rat) (tm : Rat) (i : Input Rat) :
    priorityStep dt { input := none, impmax := 0, truthmax := tm } i =
      if PCand dt i then mkBest i else { input := none, impmax := 0, truthmax := tm } := by
  unfold priorityStep mkBest PCand Suff
  by_cases h1 : i.sel = true <;> by_cases h2 : dt < fixTruth i.truth <;> by_cases h3 : (0 : Rat) < i.imp <;>
    simp [h1, h2, h3]

theorem priority_fold_none (dt tm : Rat) (ins : List (Input Rat)) :
    ins.foldl (priorityStep dt) { input := none, impmax := 0, truthmax := tm } =
      match ins.filter (PCand dt) with
      | [] => { input := none, impmax := 0, truthmax := tm }
      | w :: l => mkBest (l.foldl pickImp w) := by
  induction ins with
  | nil => rfl
  | cons i rest ih =>
    simp only [List.foldl_cons, priorityStep_none, List.filter_cons]
    by_cases hc : PCand dt i
    · simp only [hc, if_true, decide_true]
      exact priority_fold_some dt rest i hc.2
    · simp only [hc, if_false, decide_false]
      exact ih

/-- what the rule says, for a given notion of candidate -/
def PrioritySpec (cand : Input Rat → Prop) [DecidablePred cand] (d : Default Rat) (ins : List (Input Rat))
    (out : Out Rat) : Prop :=
  (ins.filter cand = [] ∧ out = d.out) ∨
  (∃ w, IsFirstMax (· < ·) (fun i : Input Rat => i.imp) (ins.filter cand) w ∧
      out = { value := w.value, truth := .num (fixTruth w.truth) })

/-- **what the code does, every input list**: the first most important among the inputs that are
selected, sufficiently true AND of positive importance; the default if there is none -/
theorem C45_priority_code (d : Default Rat) (ins : List (Input Rat)) :
    PrioritySpec (PCand d.truth) d ins (priority d ins) := by
  unfold priority PrioritySpec
  rw [priority_fold_none]
  cases h : ins.filter (PCand d.truth) with
  | nil => left; exact ⟨rfl, rfl⟩
  | cons w l =>
    right
    refine ⟨l.foldl pickImp w, ?_, rfl⟩
    exact foldl_pick_isFirstMax (· < ·) (fun i : Input Rat => i.imp)
      (fun a b c h1 h2 => by grind) (fun a b c h1 h2 => by grind) w l

/-- the property as stated: first most important selected input whose truth exceeds the default -/
def C45_priority_full : Prop :=
  ∀ (d : Default Rat) (ins : List (Input Rat)), PrioritySpec (Suff d.truth) d ins (priority d ins)

/-- holds whenever no selected sufficient input has importance ≤ 0 (outside the region of D25) … -/
theorem C45_priority_first_max_importance_partial (d : Default Rat) (ins : List (Input Rat))
    (H : nonPosCandidate d.truth ins = false) :
    PrioritySpec (Suff d.truth) d ins (priority d ins) := by
  have H' : ∀ i ∈ ins, Suff d.truth i → 0 < i.imp := by
    intro i hi hs
    simp only [nonPosCandidate, List.any_eq_false, Bool.and_eq_true, decide_eq_true_eq, not_and] at H
    have := H i hi
    unfold Suff at hs
    grind
  have hf : ins.filter (Suff d.truth) = ins.filter (PCand d.truth) := by
    apply List.filter_congr
    intro i hi
    apply decide_eq_decide.mpr
    exact ⟨fun h => ⟨h, H' i hi h⟩, fun h => h.1⟩
  have := C45_priority_code d ins
  unfold PrioritySpec at *
  rw [hf]; exact this

/-- … and fails without it (finding D25): one selected, fully true input of importance 0 loses to
the default -/
theorem C45_counterexample_priority_importance_zero : ¬ C45_priority_full := by
  intro h
  have := h { value := .num 0, truth := 1/2 } [{ sel := true, imp := 0, truth := .none, value := .num 7 }]
  rcases this with ⟨h1, _⟩ | ⟨w, hw, hout⟩
  · revert h1; decide +kernel
  · obtain ⟨pre, post, hl, _, _⟩ := hw
    have hl' : [({ sel := true, imp := 0, truth := .none, value := .num 7 } : Input Rat)] = pre ++ w :: post := by
      rw [← hl]; decide +kernel
    have hw' : w = { sel := true, imp := 0, truth := .none, value := .num 7 } := by
      cases pre with
      | nil => simp at hl'; exact hl'.1.symm
      | cons p ps => cases ps <;> simp at hl'
    subst hw'
    revert hout; decide +kernel

/-- non-vacuity of the partial theorem: three candidates, the first of the two most important wins -/
example : priority ({ value := .num 0, truth := 1/4 } : Default Rat)
    [{ sel := true, imp := 1/2, truth := .num 1, value := .num 10 },
     { sel := true, imp := 3/4, truth := .none, value := .num 20 },
     { sel := false, imp := 1, truth := .none, value := .num 30 },
     { sel := true, imp := 3/4, truth := .bool true, value := .num 40 }]
    = { value := .num 20, truth := .num 1 } := by decide +kernel

/-! ## ArbiterTrusted (with D24 repaired) -/

/-- (truth, importance), compared lexicographically -/
def tkey (i : Input Rat) : Rat × Rat := (fixTruth i.truth, i.imp)

def lexLt (a b : Rat × Rat) : Prop := a.1 < b.1 ∨ (b.1 = a.1 ∧ a.2 < b.2)

instance : DecidableRel lexLt := fun a b => by unfold lexLt; infer_instance

abbrev pickLex : Input Rat → Input Rat → Input Rat := pick lexLt tkey

theorem trustedStep_mk (dt : Rat) (w i : Input Rat) :
    trustedStep dt (mkBest w) i = if Suff dt i then mkBest (pickLex w i) else mkBest w := by
  unfold trustedStep mkBest pickLex pick Suff lexLt tkey
  by_cases h1 : i.sel = true <;> by_cases h2 : dt < fixTruth i.truth
  · by_cases h3 : fixTruth w.truth < fixTruth i.truth
    · simp [h1, h2, h3]
    · by_cases h4 : fixTruth i.truth = fixTruth w.truth
      · by_cases h5 : w.imp < i.imp <;> simp [h1, h4, h5]
      · simp [h1, h2, h3, h4]
  all_goals simp [h1, h2]

theorem trusted_fold_some (dt : Rat) (ins : List (Input Rat)) (w : Input Rat) :
    ins.foldl (trustedStep dt) (mkBest w) = mkBest ((ins.filter (Suff dt)).foldl pickLex w) := by
  induction ins generalizing w with
  | nil => rfl
  | cons i rest ih =>
    simp only [List.foldl_cons, trustedStep_mk, List.filter_cons]
    by_cases hc : Suff dt i
    · simp only [hc, if_true, decide_true, List.foldl_cons]; exact ih _
    · simp only [hc, if_false, decide_false]; exact ih w

theorem trustedStep_none (dt im : Rat) (hd : 0 ≤ dt) (i : Input Rat) :
    trustedStep dt { input := none, impmax := im, truthmax := 0 } i =
      if Suff dt i then mkBest i else { input := none, impmax := im, truthmax := 0 } := by
  unfold trustedStep mkBest Suff
  by_cases h1 : i.sel = true <;> by_cases h2 : dt < fixTruth i.truth
  · have : (0 : Rat) < fixTruth i.truth := by grind
    simp [h1, h2, this]
  all_goals simp [h1, h2]

theorem trusted_fold_none (dt im : Rat) (hd : 0 ≤ dt) (ins : List (Input Rat)) :
    ins.foldl (trustedStep dt) { input := none, impmax := im, truthmax := 0 } =
      match ins.filter (Suff dt) with
      | [] => { input := none, impmax := im, truthmax := 0 }
      | w :: l => mkBest (l.foldl pickLex w) := by
  induction ins with
  | nil => rfl
  | cons i rest ih =>
    simp only [List.foldl_cons, trustedStep_none dt im hd, List.filter_cons]
    by_cases hc : Suff dt i
    · simp only [hc, if_true, decide_true]; exact trusted_fold_some dt rest i
    · simp only [hc, if_false, decide_false]; exact ih

/-- **trusted arbiter, every input list** (default truth ≥ 0, which `__init__` guarantees): the
output is the first input that is maximal for (truth, importance) in lexicographic order among the
selected inputs whose truth exceeds the default's — highest truth, ties broken by importance, then
by position; the default if there is no such input -/
theorem C45_trusted_max_truth_then_importance (d : Default Rat) (ins : List (Input Rat))
    (hd : 0 ≤ d.truth) :
    (ins.filter (Suff d.truth) = [] ∧ trusted d ins = d.out) ∨
    (∃ w, IsFirstMax lexLt tkey (ins.filter (Suff d.truth)) w ∧
        trusted d ins = { value := w.value, truth := .num (fixTruth w.truth) }) := by
  unfold trusted
  rw [trusted_fold_none d.truth 0 hd]
  cases h : ins.filter (Suff d.truth) with
  | nil => left; exact ⟨rfl, rfl⟩
  | cons w l =>
    right
    refine ⟨l.foldl pickLex w, ?_, rfl⟩
    exact foldl_pick_isFirstMax lexLt tkey
      (fun a b c h1 h2 => by unfold lexLt at *; grind) (fun a b c h1 h2 => by unfold lexLt at *; grind) w l

/-- the default truth left by `__init__` is `FixTruth` of whatever was there: never negative -/
theorem C45_trusted_after_init (v : Val Rat) (raw : Truth Rat) (ins : List (Input Rat)) :
    let d : Default Rat := { value := v, truth := fixTruth raw }
    (ins.filter (Suff d.truth) = [] ∧ trusted d ins = d.out) ∨
    (∃ w, IsFirstMax lexLt tkey (ins.filter (Suff d.truth)) w ∧
        trusted d ins = { value := w.value, truth := .num (fixTruth w.truth) }) :=
  C45_trusted_max_truth_then_importance _ ins (C45_fixTruth_range raw).1

/-- non-vacuity: highest truth wins over importance; on a truth tie the more important; on a full
tie the first -/
example : trusted ({ value := .num 0, truth := 1/4 } : Default Rat)
    [{ sel := true, imp := 9, truth := .num (1/2), value := .num 10 },
     { sel := true, imp := 1, truth := .num (3/4), value := .num 20 },
     { sel := true, imp := 2, truth := .num (3/4), value := .num 30 },
     { sel := true, imp := 2, truth := .num (3/4), value := .num 40 }]
    = { value := .num 30, truth := .num (3/4) } := by decide +kernel

instance {ε α : Type} [DecidableEq ε] [DecidableEq α] : DecidableEq (Except ε α) := fun a b =>
  match a, b with
  | .ok x, .ok y => if h : x = y then isTrue (by rw [h]) else isFalse (by intro h'; cases h'; exact h rfl)
  | .error x, .error y => if h : x = y then isTrue (by rw [h]) else isFalse (by intro h'; cases h'; exact h rfl)
  | .ok _, .error _ => isFalse (by intro h; cases h)
  | .error _, .ok _ => isFalse (by intro h; cases h)

/-- **the defect repaired by D24**: on a truth tie the original loop raises `NameError` -/
theorem C45_counterexample_trusted_orig_name_error :
    trustedOrig ({ value := .num 0, truth := 1/4 } : Default Rat)
      [{ sel := true, imp := 1, truth := .num (3/4), value := .num 20 },
       { sel := true, imp := 2, truth := .num (3/4), value := .num 30 }] = .error .nameError := by
  decide +kernel

theorem trustedOrigLoop_ok (dt : Rat) (ins : List (Input Rat)) (b b' : Best Rat)
    (h : trustedOrigLoop dt b ins = .ok b') : ins.foldl (trustedStep dt) b = b' := by
  induction ins generalizing b with
  | nil => simp [trustedOrigLoop] at h; simp [h]
  | cons i rest ih =>
    simp only [trustedOrigLoop] at h
    simp only [List.foldl_cons, trustedStep]
    by_cases h1 : i.sel = true ∧ dt < fixTruth i.truth
    · simp only [h1, and_self, if_true] at h ⊢
      by_cases h2 : b.truthmax < fixTruth i.truth
      · simp only [h2, if_true] at h ⊢; exact ih _ h
      · simp only [h2, if_false] at h ⊢
        by_cases h3 : (fixTruth i.truth == b.truthmax) = true
        · simp [h3] at h
        · simp only [h3] at h ⊢
          simp only [Bool.false_eq_true, false_and, if_false] at h ⊢
          exact ih _ h
    · simp only [h1, if_false] at h ⊢; exact ih _ h

/-- the repair changes nothing where the original did not raise -/
theorem C45_trusted_repair_conservative (d : Default Rat) (ins : List (Input Rat)) (o : Out Rat)
    (h : trustedOrig d ins = .ok o) : trusted d ins = o := by
  unfold trustedOrig at h
  unfold trusted
  cases hl : trustedOrigLoop d.truth ({ input := none, impmax := 0, truthmax := 0 } : Best Rat) ins with
  | error e => simp [hl] at h
  | ok b =>
    simp only [hl] at h
    rw [trustedOrigLoop_ok d.truth ins _ b hl]
    exact Except.ok.inj h

/-! ## ArbiterWeighted -/

/-- the selected inputs -/
def selected (ins : List (Input Rat)) : List (Input Rat) := ins.filter (·.sel)

/-- value as a number, for inputs whose value is one -/
def numVal (i : Input Rat) : Rat :=
  match i.value.toNum? with
  | some v => v
  | none => 0

def sumImp (l : List (Input Rat)) : Rat := (l.map (fun i => i.imp)).sum
def sumCnf (l : List (Input Rat)) : Rat := (l.map (fun i => i.imp * fixTruth i.truth)).sum
def sumVal (l : List (Input Rat)) : Rat := (l.map (fun i => i.imp * fixTruth i.truth * numVal i)).sum

/-- every selected input has a numeric value -/
def AllNumeric (ins : List (Input Rat)) : Prop := ∀ i ∈ selected ins, i.value.toNum?.isSome = true

instance (ins : List (Input Rat)) : Decidable (AllNumeric ins) := by unfold AllNumeric; infer_instance

theorem weightedLoop_numeric (ins : List (Input Rat)) (s : Sums Rat) (h : AllNumeric ins) :
    ∃ s', weightedLoop s ins = .ok s' ∧ s'.wgtimp = s.wgtimp + sumImp (selected ins) ∧
      s'.wgtcnf = s.wgtcnf + sumCnf (selected ins) ∧ s'.wgtval = s.wgtval + sumVal (selected ins) := by
  induction ins generalizing s with
  | nil =>
    refine ⟨s, rfl, ?_, ?_, ?_⟩ <;> simp only [selected, sumImp, sumCnf, sumVal, List.filter_nil, List.map_nil, List.sum_nil] <;> grind
  | cons i rest ih =>
    have hrest : AllNumeric rest := by
      intro x hx; apply h x
      simp only [selected, List.mem_filter, List.mem_cons] at hx ⊢
      exact ⟨Or.inr hx.1, hx.2⟩
    by_cases hs : i.sel = true
    · have hi : i.value.toNum?.isSome = true := h i (by simp [selected, hs])
      obtain ⟨v, hv⟩ := Option.isSome_iff_exists.mp hi
      have hsel : selected (i :: rest) = i :: selected rest := by simp [selected, hs]
      obtain ⟨s', h1, h2, h3, h4⟩ := ih ⟨s.wgtval + i.imp * fixTruth i.truth * v,
        s.wgtcnf + i.imp * fixTruth i.truth, s.wgtimp + i.imp⟩ hrest
      refine ⟨s', by simp only [weightedLoop, hs, if_true, hv]; exact h1, ?_, ?_, ?_⟩
      · rw [h2, hsel]; simp only [sumImp, List.map_cons, List.sum_cons]; grind
      · rw [h3, hsel]; simp only [sumCnf, List.map_cons, List.sum_cons]; grind
      · rw [h4, hsel]; simp only [sumVal, List.map_cons, List.sum_cons, numVal, hv]; grind
    · have hs' : i.sel = false := by simpa using hs
      have hsel : selected (i :: rest) = selected rest := by simp [selected, hs']
      rw [hsel]
      simp only [weightedLoop, hs', Bool.false_eq_true, if_false]
      exact ih s hrest

theorem weightedLoop_type_error (ins : List (Input Rat)) (s : Sums Rat) (h : ¬ AllNumeric ins) :
    weightedLoop s ins = .error .typeError := by
  induction ins generalizing s with
  | nil => exact absurd (by intro i hi; simp [selected] at hi) h
  | cons i rest ih =>
    by_cases hs : i.sel = true
    · cases hv : i.value.toNum? with
      | none => simp [weightedLoop, hs, hv]
      | some v =>
        simp only [weightedLoop, hs, if_true, hv]
        apply ih
        intro hrest; apply h
        intro x hx
        simp only [selected, List.mem_filter, List.mem_cons] at hx
        rcases hx with ⟨rfl | hx, hsel⟩
        · simp [hv]
        · exact hrest x (by simp [selected, hx, hsel])
    · have hs' : i.sel = false := by simpa using hs
      simp only [weightedLoop, hs', Bool.false_eq_true, if_false]
      apply ih
      intro hrest; apply h
      intro x hx
      simp only [selected, List.mem_filter, List.mem_cons] at hx
      rcases hx with ⟨rfl | hx, hsel⟩
      · simp [hs'] at hsel
      · exact hrest x (by simp [selected, hx, hsel])

/-- **weighted arbiter, every input list.**  With `W = Σ imp`, `C = Σ imp·truth`,
`V = Σ imp·truth·value` over the selected inputs (truth fixed to [0,1]): the output is the weighted
average `V / C` with truth `C / W` exactly when all selected values are numbers, `C ≠ 0`, `W ≠ 0`
and `C / W` exceeds the default truth; in every other case it is the default -/
theorem C45_weighted_average_iff_exceeds (d : Default Rat) (ins : List (Input Rat)) :
    weighted d ins =
      if AllNumeric ins ∧ sumCnf (selected ins) ≠ 0 ∧ sumImp (selected ins) ≠ 0 ∧
          d.truth < sumCnf (selected ins) / sumImp (selected ins) then
        { value := .num (sumVal (selected ins) / sumCnf (selected ins)),
          truth := .num (sumCnf (selected ins) / sumImp (selected ins)) }
      else d.out := by
  unfold weighted weightedTry
  by_cases hn : AllNumeric ins
  · obtain ⟨s', h1, h2, h3, h4⟩ := weightedLoop_numeric ins { wgtval := 0, wgtcnf := 0, wgtimp := 0 } hn
    simp only [Rat.zero_add] at h2 h3 h4
    rw [h1]
    simp only [h2, h3, h4, hn, true_and]
    by_cases hc : sumCnf (selected ins) = 0
    · simp [hc]
    · by_cases hw : sumImp (selected ins) = 0
      · simp [hc, hw]
      · simp only [beq_iff_eq, hc, hw, if_false, ne_eq, not_false_eq_true, true_and]
  · rw [weightedLoop_type_error ins _ hn]
    simp [hn]

/-- non-vacuity: two selected inputs of weight 1 with truths 1 and 1/2 and values 10 and 40:
truth 3/4, value (10 + 20) / (3/2) = 20 -/
example : weighted ({ value := .num 0, truth := 1/2 } : Default Rat)
    [{ sel := true, imp := 1, truth := .none, value := .num 10 },
     { sel := false, imp := 5, truth := .none, value := .str 3 },
     { sel := true, imp := 1, truth := .num (1/2), value := .num 40 }]
    = { value := .num 20, truth := .num (3/4) } := by decide +kernel

/-! ## the weighted output is an average -/


theorem sums_between (l : List (Input Rat)) (lo hi : Rat)
    (h : ∀ i ∈ l, 0 ≤ i.imp ∧ lo ≤ numVal i ∧ numVal i ≤ hi) :
    0 ≤ sumCnf l ∧ lo * sumCnf l ≤ sumVal l ∧ sumVal l ≤ hi * sumCnf l := by
  induction l with
  | nil => simp [sumCnf, sumVal]
  | cons i rest ih =>
    obtain ⟨h0, h1, h2⟩ := ih (fun x hx => h x (by simp [hx]))
    obtain ⟨hi0, hi1, hi2⟩ := h i (by simp)
    have ht := (C45_fixTruth_range i.truth).1
    have hw : 0 ≤ i.imp * fixTruth i.truth := Rat.mul_nonneg hi0 ht
    have ha : 0 ≤ i.imp * fixTruth i.truth * (numVal i - lo) := Rat.mul_nonneg hw (by grind)
    have hb : 0 ≤ i.imp * fixTruth i.truth * (hi - numVal i) := Rat.mul_nonneg hw (by grind)
    simp only [sumCnf, sumVal, List.map_cons, List.sum_cons] at *
    refine ⟨by grind, by grind, by grind⟩

/-- the weighted value is an average: with non-negative importances it lies between the smallest
and the largest selected value -/
theorem C45_weighted_value_between (d : Default Rat) (ins : List (Input Rat)) (lo hi : Rat) (v t : Rat)
    (himp : ∀ i ∈ selected ins, 0 ≤ i.imp)
    (hval : ∀ i ∈ selected ins, lo ≤ numVal i ∧ numVal i ≤ hi)
    (hout : weighted d ins = { value := .num v, truth := .num t })
    (hnd : weighted d ins ≠ d.out) : lo ≤ v ∧ v ≤ hi := by
  rw [C45_weighted_average_iff_exceeds] at hout hnd
  split at hout
  · rename_i hc
    obtain ⟨_, hc0, _, _⟩ := hc
    have := sums_between (selected ins) lo hi (fun i hi' => ⟨himp i hi', hval i hi'⟩)
    obtain ⟨h0, h1, h2⟩ := this
    have hpos : 0 < sumCnf (selected ins) := by grind
    have hv : v = sumVal (selected ins) / sumCnf (selected ins) := by
      have := congrArg Out.value hout
      simp at this; exact this.symm
    rw [hv]
    constructor
    · apply Rat.not_lt.mp
      intro hlt
      have := (Rat.div_lt_iff hpos).mp hlt
      grind
    · apply Rat.not_lt.mp
      intro hlt
      have := (Rat.lt_div_iff hpos).mp hlt
      grind
  · exact absurd (by rename_i hc; simp [hc]) hnd



theorem cnf_le_imp (l : List (Input Rat)) (h : ∀ i ∈ l, 0 ≤ i.imp) :
    0 ≤ sumCnf l ∧ sumCnf l ≤ sumImp l := by
  induction l with
  | nil => simp [sumCnf, sumImp]
  | cons i rest ih =>
    obtain ⟨h0, h1⟩ := ih (fun x hx => h x (by simp [hx]))
    have hi0 := h i (by simp)
    have ht := C45_fixTruth_range i.truth
    have ha : 0 ≤ i.imp * fixTruth i.truth := Rat.mul_nonneg hi0 ht.1
    have hb : 0 ≤ i.imp * (1 - fixTruth i.truth) := Rat.mul_nonneg hi0 (by grind)
    simp only [sumCnf, sumImp, List.map_cons, List.sum_cons] at *
    refine ⟨by grind, by grind⟩

/-- with non-negative importances the weighted truth is again a truth: it lies in (0, 1] -/
theorem C45_weighted_truth_range (d : Default Rat) (ins : List (Input Rat)) (v : Val Rat) (t : Rat)
    (himp : ∀ i ∈ selected ins, 0 ≤ i.imp)
    (hout : weighted d ins = { value := v, truth := .num t })
    (hnd : weighted d ins ≠ d.out) : 0 < t ∧ t ≤ 1 := by
  rw [C45_weighted_average_iff_exceeds] at hout hnd
  split at hout
  · rename_i hc
    obtain ⟨_, hc0, hw0, _⟩ := hc
    obtain ⟨h0, h1⟩ := cnf_le_imp (selected ins) himp
    have hcpos : 0 < sumCnf (selected ins) := by grind
    have hwpos : 0 < sumImp (selected ins) := by grind
    have ht : t = sumCnf (selected ins) / sumImp (selected ins) := by
      have := congrArg Out.truth hout
      simp at this; exact this.symm
    rw [ht]
    constructor
    · have := (Rat.lt_div_iff hwpos).mpr (by grind : (0 : Rat) * sumImp (selected ins) < sumCnf (selected ins))
      exact this
    · apply Rat.not_lt.mp
      intro hlt
      have := (Rat.lt_div_iff hwpos).mp hlt
      grind
  · exact absurd (by rename_i hc; simp [hc]) hnd

/-! ## falling back, never raising -/

/-- nothing selected → every arbiter gives the default -/
theorem C45_falls_back_to_default (d : Default Rat) (ins : List (Input Rat)) (h : ∀ i ∈ ins, i.sel = false) :
    switch d ins = d.out ∧ priority d ins = d.out ∧ trusted d ins = d.out ∧ weighted d ins = d.out := by
  have hsel : selected ins = [] := by
    simp only [selected, List.filter_eq_nil_iff]; intro i hi; simp [h i hi]
  refine ⟨?_, ?_, ?_, ?_⟩
  · rcases C45_switch_first_selected d ins with ⟨pre, i, post, h1, _, h3, _⟩ | ⟨_, h2⟩
    · have := h i (by simp [h1]); simp [this] at h3
    · exact h2
  · rcases C45_priority_code d ins with ⟨_, h2⟩ | ⟨w, hw, _⟩
    · exact h2
    · obtain ⟨pre, post, hl, _, _⟩ := hw
      have hm : w ∈ ins.filter (PCand d.truth) := by simp [hl]
      have := (List.mem_filter.mp hm)
      have hw2 := of_decide_eq_true this.2
      have := h w this.1
      simp [PCand, Suff, this] at hw2
  · have hf : ins.filter (Suff d.truth) = [] := by
      simp only [List.filter_eq_nil_iff]; intro i hi; simp [Suff, h i hi]
    have hstep : ∀ (l : List (Input Rat)) (b : Best Rat), (∀ i ∈ l, i.sel = false) →
        l.foldl (trustedStep d.truth) b = b := by
      intro l
      induction l with
      | nil => intros; rfl
      | cons i rest ih =>
        intro b hl
        have hi := hl i (by simp)
        simp only [List.foldl_cons, trustedStep, hi, Bool.false_eq_true, false_and, if_false]
        exact ih b (fun x hx => hl x (by simp [hx]))
    unfold trusted; rw [hstep ins _ h]; rfl
  · rw [C45_weighted_average_iff_exceeds]
    simp [hsel, sumCnf]

/-- the exceptions that can arise inside the weighted arbiter's `try` are the two it catches -/
theorem C45_never_raises_weighted (ins : List (Input Rat)) (e : Err) (h : weightedTry ins = .error e) :
    e = .typeError ∨ e = .zeroDivision := by
  unfold weightedTry at h
  by_cases hn : AllNumeric ins
  · obtain ⟨s', h1, _⟩ := weightedLoop_numeric ins { wgtval := 0, wgtcnf := 0, wgtimp := 0 } hn
    rw [h1] at h
    simp only at h
    split at h
    · cases h; right; rfl
    · split at h
      · cases h; right; rfl
      · cases h
  · rw [weightedLoop_type_error ins _ hn] at h
    cases h; left; rfl

/-! ## no memory -/

/-- **stateless**: what an arbiter leaves in its output share is a function of the CURRENT default
and of the current selections, importances, truths and values of its inputs in construction order —
nothing else (no earlier update, no stamp) enters: equal contents give equal outputs -/
theorem C45_stateless (d d' : Default Rat) (ins ins' : List (Input Rat)) (hd : d = d') (hi : ins = ins') :
    switch d ins = switch d' ins' ∧ priority d ins = priority d' ins' ∧
    trusted d ins = trusted d' ins' ∧ weighted d ins = weighted d' ins' := by
  subst hd; subst hi; exact ⟨rfl, rfl, rfl, rfl⟩

/-- an unselected input does not matter at all (whatever its value, truth and importance) -/
theorem C45_unselected_irrelevant (d : Default Rat) (pre post : List (Input Rat)) (i : Input Rat)
    (h : i.sel = false) :
    switch d (pre ++ i :: post) = switch d (pre ++ post) ∧
    weighted d (pre ++ i :: post) = weighted d (pre ++ post) := by
  constructor
  · induction pre with
    | nil => simp [switch, h]
    | cons x t ih => simp only [List.cons_append, switch, ih]
  · have hsel : selected (pre ++ i :: post) = selected (pre ++ post) := by
      simp [selected, List.filter_append, h]
    have hnum : AllNumeric (pre ++ i :: post) ↔ AllNumeric (pre ++ post) := by
      unfold AllNumeric; rw [hsel]
    rw [C45_weighted_average_iff_exceeds, C45_weighted_average_iff_exceeds, hsel]
    simp only [hnum]

end Ioflo.Arbiter
