import IofloModel.Lemmas.Pid
import IofloModel.Lemmas.PidTyped
import IofloModel.Props.C43
/-!
# C46 — PID controller output and integrator stay within configured limits

Property theorems only.  Model: `Model/Pid.lean` (transcription of `ControllerPid.action`,
`DoerLapse.updateLapse`, `blend0`, `wrap2`).  Unless said otherwise the theorems hold for
EVERY arithmetic `A : Arith` — any five functions used for `+ - * / %`, hence also for IEEE
binary64 with any rounding — and for every value, NaN and ±infinity included.
-/
namespace Ioflo.Pid
open Num

/-! ## the clamp -/

/-- `min(hi, max(lo, x))` lies within ordered limits for every `x`, NaN and ±inf included -/
theorem C46_clamp_in_range (lo hi x : Num) (h : le lo hi = true) :
    le lo (clamp lo hi x) = true ∧ le (clamp lo hi x) hi = true := by
  have := clamp_within lo hi x h
  simpa [within] using this

example : clamp (.fin (-20)) (.fin 20) .nan = .fin (-20) ∧ clamp (.fin (-20)) (.fin 20) .pinf = .fin 20 ∧
    clamp (.fin (-20)) (.fin 20) (.fin 3) = .fin 3 ∧ clamp .ninf (.fin 5) .ninf = .ninf := by
  decide +kernel

/-! ## one evaluated update -/

/-- every `action()` that evaluates the controller (positive lapse) leaves the output within
`[ovmin, ovmax]`, from ANY prior state and for any inputs, gains and arithmetic -/
theorem C46_output_within_limits (A : Arith) (s s' : State) (st : Option Num) (i r sp : Num) (p : Parm)
    (hev : evaluated A s st = true) (hlim : le p.ovmin p.ovmax = true)
    (h : action A s st i r sp p = .ok s') : within p.ovmin p.ovmax s'.out = true := by
  obtain ⟨e, er, es1, out1, _, _, _, _, _, hout, _⟩ := action_eval A s st i r sp p s' hev h
  rw [hout]; exact clamp_within _ _ _ hlim

/-- … and the error sum within `[esmin, esmax]` -/
theorem C46_errorsum_within_limits (A : Arith) (s s' : State) (st : Option Num) (i r sp : Num)
    (p : Parm) (hev : evaluated A s st = true) (hlim : le p.esmin p.esmax = true)
    (h : action A s st i r sp p = .ok s') : within p.esmin p.esmax s'.es = true := by
  obtain ⟨e, er, es1, out1, _, _, _, _, hes, _, _⟩ := action_eval A s st i r sp p s' hev h
  rw [hes]; exact clamp_within _ _ _ hlim

/-- an `action()` whose lapse is not positive changes only stamp, lapse and the elapsed share -/
theorem C46_unevaluated_update_keeps_shares (A : Arith) (s : State) (st : Option Num) (i r sp : Num)
    (p : Parm) (hev : evaluated A s st = false) :
    ∃ s', action A s st i r sp p = .ok s' ∧ s'.prsp = s.prsp ∧ s'.e = s.e ∧ s'.er = s.er ∧
      s'.es = s.es ∧ s'.out = s.out := by
  have := lapsed_shares A s st
  exact ⟨_, action_skip A s st i r sp p hev, this.1, this.2.1, this.2.2.1, this.2.2.2.1, this.2.2.2.2.1⟩

/-- when is an `action()` evaluated: both the doer's previous stamp and the store's stamp are
numbers and their difference (in the controller's arithmetic) is greater than zero -/
theorem C46_evaluated_iff (A : Arith) (s : State) (st : Option Num) :
    evaluated A s st = true ↔
      ∃ last now, s.stamp = some last ∧ st = some now ∧ gt (A.sub now last) zero = true := by
  unfold evaluated lapseOf updateLapse
  cases hs : s.stamp with
  | none => simp; decide
  | some last =>
    cases st with
    | none => simp; decide
    | some now =>
      simp only [Option.some.injEq, exists_and_left, exists_eq_left']
      unfold pymax
      by_cases hg : gt (A.sub now last) zero = true
      · simp only [hg, if_true, iff_true]
        have hn := lt_not_nan (a := zero) (b := A.sub now last) hg
        unfold gt at hg
        have hz : zero.isNan = false := rfl
        simp only [le, hn.2, hz, hg, Bool.not_false, Bool.not_true, Bool.and_false, Bool.not_false]
      · simp only [hg]
        simp; decide

/-- non-vacuity: the first action (no previous stamp) is not evaluated, the next one is -/
example : evaluated exactArith init (some (.fin 0)) = false ∧
    evaluated exactArith { init with stamp := some (.fin 0) } (some (.fin (1 / 2))) = true := by
  decide +kernel

/-! ## histories -/

/-- the four limits of a `parm` share -/
structure Limits where
  esmin : Num
  esmax : Num
  ovmin : Num
  ovmax : Num

def limitsOf (p : Parm) : Limits := ⟨p.esmin, p.esmax, p.ovmin, p.ovmax⟩
def Limits.ordered (L : Limits) : Bool := le L.esmin L.esmax && le L.ovmin L.ovmax
def Limits.holds (L : Limits) (s : State) : Bool :=
  within L.esmin L.esmax s.es && within L.ovmin L.ovmax s.out
def Limits.zeroInside (L : Limits) : Bool :=
  within L.esmin L.esmax zero && within L.ovmin L.ovmax zero

/-- an operation of a history run under limits `L`: an update whose parm share carries `L`
(gains, wrap, drsp may change freely), or a restart -/
def opUnder (L : Limits) : Op → Prop
  | .update _ _ _ _ p => limitsOf p = L
  | .restart => True

/-- one step keeps the limits (a restart needs zero inside the error-sum range) -/
theorem step_keeps (A : Arith) (L : Limits) (s s' : State) (op : Op) (hord : L.ordered = true)
    (hop : opUnder L op) (hre : op = .restart → within L.esmin L.esmax zero = true)
    (hs : L.holds s = true) (h : step A s op = .ok s') : L.holds s' = true := by
  simp only [Limits.ordered, Bool.and_eq_true] at hord
  simp only [Limits.holds, Bool.and_eq_true] at hs ⊢
  cases op with
  | restart =>
    simp only [step] at h; injection h with h; subst h
    exact ⟨hre rfl, hs.2⟩
  | update st i r sp p =>
    simp only [opUnder] at hop
    subst hop
    simp only [step] at h
    by_cases hev : evaluated A s st = true
    · exact ⟨C46_errorsum_within_limits A s s' st i r sp p hev hord.1 h,
        C46_output_within_limits A s s' st i r sp p hev hord.2 h⟩
    · simp only [Bool.not_eq_true] at hev
      obtain ⟨s'', h2, _, _, _, hes, hout⟩ := C46_unevaluated_update_keeps_shares A s st i r sp p hev
      rw [h] at h2; injection h2 with h2; subst h2
      simp only [limitsOf] at hs ⊢
      rw [hes, hout]; exact hs

theorem run_keeps (A : Arith) (L : Limits) (hord : L.ordered = true) :
    ∀ (ops : List Op) (s s' : State), (∀ op ∈ ops, opUnder L op) →
      ((.restart : Op) ∈ ops → within L.esmin L.esmax zero = true) →
      L.holds s = true → run A s ops = .ok s' → L.holds s' = true
  | [], s, s', _, _, hs, h => by
    simp only [run] at h; injection h with h; subst h; exact hs
  | op :: ops, s, s', hop, hre, hs, h => by
    simp only [run] at h
    split at h
    · cases h
    · next s1 h1 =>
      have hs1 := step_keeps A L s s1 op hord (hop op (by simp))
        (fun e => hre (by simp [e])) hs h1
      exact run_keeps A L hord ops s1 s' (fun o ho => hop o (by simp [ho]))
        (fun hm => hre (by simp [hm])) hs1 h

/-- **Every history, from the first evaluation on.**  Start in ANY state; once an `action()`
with ordered limits `L` has been evaluated, output and error sum stay within `L` through every
later operation under `L` (evaluated or not; restarts allowed when `0` is within the error-sum
range). -/
theorem C46_limits_after_evaluation (A : Arith) (L : Limits) (s0 s : State) (st : Option Num)
    (i r sp : Num) (p : Parm) (post : List Op) (hord : L.ordered = true) (hp : limitsOf p = L)
    (hev : evaluated A s0 st = true) (hpost : ∀ op ∈ post, opUnder L op)
    (hre : (.restart : Op) ∈ post → within L.esmin L.esmax zero = true)
    (h : run A s0 (.update st i r sp p :: post) = .ok s) : L.holds s = true := by
  simp only [run, step] at h
  split at h
  · cases h
  · next s1 h1 =>
    have hord' := hord
    simp only [Limits.ordered, Bool.and_eq_true] at hord'
    subst hp
    have hs1 : (limitsOf p).holds s1 = true := by
      simp only [Limits.holds, Bool.and_eq_true]
      exact ⟨C46_errorsum_within_limits A s0 s1 st i r sp p hev hord'.1 h1,
        C46_output_within_limits A s0 s1 st i r sp p hev hord'.2 h1⟩
    exact run_keeps A _ hord post s1 s hpost hre hs1 h

/-- The property as literally worded — *always* within the limits, from creation on. -/
def C46_full : Prop :=
  ∀ (A : Arith) (L : Limits) (ops : List Op) (s : State), L.ordered = true →
    (∀ op ∈ ops, opUnder L op) → run A init ops = .ok s → L.holds s = true

/-- Proved part: *always*, for every history from creation, when `0` lies within both ranges
(hypothesis `zeroInside`; its negation `zeroOutside` is the region of known finding D46a). -/
theorem C46_limits_always_partial (A : Arith) (L : Limits) (ops : List Op) (s : State)
    (hord : L.ordered = true) (H : L.zeroInside = true) (hops : ∀ op ∈ ops, opUnder L op)
    (h : run A init ops = .ok s) : L.holds s = true := by
  have H' := H
  simp only [Limits.zeroInside, Bool.and_eq_true] at H'
  exact run_keeps A L hord ops init s hops (fun _ => H'.1) H h

theorem C46_zeroOutside_is_not_zeroInside (p : Parm) :
    zeroOutside p = !(limitsOf p).zeroInside := rfl

/-- With `0` outside a range the literal statement fails: the shares are created with `0.0` and
the first `action()` (no previous stamp, lapse 0) leaves them there.  Witness of D46a. -/
theorem C46_counterexample_zero_outside : ¬ C46_full := by
  intro h
  let p : Parm := ⟨.fin 180, .fin (1 / 100), true, .fin 1, .fin 0, .fin 3, .fin (1 / 2), .fin 1,
    .fin 2, .fin 1, .fin 10, .fin 5⟩
  have := h exactArith (limitsOf p) [.update (some (.fin 0)) (.fin 10) (.fin 0) (.fin 20) p]
    (lapsed exactArith init (some (.fin 0))) (by decide +kernel) (by intro op hop; simp at hop; subst hop; rfl)
    (by
      simp only [run, step]
      rw [action_skip exactArith init (some (.fin 0)) _ _ _ p (by decide +kernel)])
  revert this
  decide +kernel

/-! ## set point -/

/-- **A set-point change larger than `drsp` resets the integrator**: the evaluated update adopts
the new set point, and its whole outcome is independent of the error sum accumulated before. -/
theorem C46_setpoint_jump_resets_integrator (A : Arith) (s s' : State) (st : Option Num)
    (i r sp : Num) (p : Parm) (hev : evaluated A s st = true) (hj : jump A s sp p = true)
    (h : action A s st i r sp p = .ok s') :
    s'.prsp = sp ∧ ∀ x : Num, action A { s with es := x } st i r sp p = .ok s' := by
  constructor
  · obtain ⟨_, _, _, _, _, _, _, hp, _⟩ := action_eval A s st i r sp p s' hev h
    rw [hp]; simp [rspEff, hj]
  · intro x
    rw [← h]
    have hu : updateLapse A { s with es := x } st = { updateLapse A s st with es := x } := by
      unfold updateLapse; cases s.stamp <;> cases st <;> rfl
    have hprsp : (updateLapse A s st).prsp = s.prsp := by
      unfold updateLapse; cases s.stamp <;> cases st <;> rfl
    have hle : le (updateLapse A s st).lapse zero = false := by
      simpa [evaluated, lapseOf] using hev
    unfold jump at hj
    rw [← hprsp] at hj
    unfold action
    rw [hu]
    generalize updateLapse A s st = u at *
    simp [hle, hj]

/-- a change of at most `drsp` is ignored: the previous set point is kept and used -/
theorem C46_small_setpoint_change_ignored (A : Arith) (s s' : State) (st : Option Num)
    (i r sp : Num) (p : Parm) (hev : evaluated A s st = true) (hj : jump A s sp p = false)
    (h : action A s st i r sp p = .ok s') :
    s'.prsp = s.prsp ∧
    ∀ sp2 : Num, jump A s sp2 p = false → action A s st i r sp2 p = .ok s' := by
  constructor
  · obtain ⟨_, _, _, _, _, _, _, hp, _⟩ := action_eval A s st i r sp p s' hev h
    rw [hp]; simp [rspEff, hj]
  · intro sp2 hj2
    rw [← h]
    have hprsp : (updateLapse A s st).prsp = s.prsp := by
      unfold updateLapse; cases s.stamp <;> cases st <;> rfl
    unfold jump at hj hj2
    rw [← hprsp] at hj hj2
    unfold action
    generalize updateLapse A s st = u at *
    simp [hj, hj2]

/-! ## the error -/

/-- the error share holds `wrap2(input - set point, wrap)` computed with the controller's
arithmetic (the set point being the new one after a jump, the remembered one otherwise) -/
theorem C46_error_is_wrap2_generic (A : Arith) (s s' : State) (st : Option Num) (i r sp : Num)
    (p : Parm) (hev : evaluated A s st = true) (h : action A s st i r sp p = .ok s') :
    wrap2 A (A.sub i (rspEff A s sp p)) p.wrap = .ok s'.e := by
  obtain ⟨e, _, _, _, he, hee, _⟩ := action_eval A s st i r sp p s' hev h
  rw [hee]; exact he


/-- **Exact arithmetic: the error is the shortest wrapped difference.**  For finite input, set
point and wrap the error share holds C43's `wrap2 (input - set point) wrap`; hence, when wrapping
is configured (`wrap ≠ 0`), it lies in `[-|wrap|, |wrap|]` and differs from the plain difference
by a whole number of full turns `2·wrap`; with `wrap = 0` it is the plain difference. -/
theorem C46_error_is_wrap2 (s s' : State) (st : Option Num) (i r sp : Num) (p : Parm) (a b w : Rat)
    (hev : evaluated exactArith s st = true) (hi : i = .fin a)
    (hb : rspEff exactArith s sp p = .fin b) (hw : p.wrap = .fin w)
    (h : action exactArith s st i r sp p = .ok s') :
    s'.e = .fin (Wrap.wrap2 (a - b) w) ∧
    (w ≠ 0 → -(Wrap.pabs w) ≤ Wrap.wrap2 (a - b) w ∧ Wrap.wrap2 (a - b) w ≤ Wrap.pabs w ∧
      ∃ k : Int, Wrap.wrap2 (a - b) w = (a - b) - (k : Rat) * (w * 2)) ∧
    (w = 0 → Wrap.wrap2 (a - b) w = a - b) := by
  have he := C46_error_is_wrap2_generic exactArith s s' st i r sp p hev h
  rw [hb, hw, hi] at he
  have hsub : exactArith.sub (.fin a) (.fin b) = .fin (a - b) := by
    simp [exactArith, xsub, xadd, Num.neg, Rat.sub_eq_add_neg]
  rw [hsub, wrap2_exact] at he
  injection he with he
  refine ⟨he.symm, ?_, ?_⟩
  · intro hw0
    have hr := Wrap.C43_wrap2_range (a - b) w hw0
    exact ⟨hr.1, hr.2.1, Wrap.C43_wrap2_congruent (a - b) w⟩
  · intro hw0; subst hw0; exact (Wrap.C43_wrap_zero_id (a - b) 0).2.1

/-- non-vacuity: heading control across the wrap: input 350, set point 20 → error -30 -/
example : wrap2 exactArith (exactArith.sub (.fin 350) (.fin 20)) (.fin 180) = .ok (.fin (-30)) := by
  decide +kernel

/-- **Binary64 arithmetic: the error still never exceeds the wrap.**  With every operation
rounded to nearest, finite input / set point and a wrap that is a non-zero binary64 value, the
error share holds C43's rounded `wrap2F` of the rounded difference and lies in `[-|wrap|, |wrap|]`
(C43_float_wrap2_range: rounding can reach an end of the range, never pass it). -/
theorem C46_error_within_wrap_binary64 (s s' : State) (st : Option Num) (i r sp : Num) (p : Parm)
    (a b w : Rat) (hev : evaluated floatArith s st = true) (hi : i = .fin a)
    (hb : rspEff floatArith s sp p = .fin b) (hw : p.wrap = .fin w) (hfl : Wrap.rn w = w)
    (hw0 : w ≠ 0) (h : action floatArith s st i r sp p = .ok s') :
    s'.e = .fin (Wrap.wrap2F (Wrap.rn (a - b)) w) ∧
    -(Wrap.pabs w) ≤ Wrap.wrap2F (Wrap.rn (a - b)) w ∧ Wrap.wrap2F (Wrap.rn (a - b)) w ≤ Wrap.pabs w := by
  have he := C46_error_is_wrap2_generic floatArith s s' st i r sp p hev h
  rw [hb, hw, hi] at he
  have hsub : floatArith.sub (.fin a) (.fin b) = .fin (Wrap.rn (a - b)) := by
    simp [floatArith, xsub, xadd, Num.neg, rnN, Rat.sub_eq_add_neg]
  rw [hsub, wrap2_float] at he
  injection he with he
  exact ⟨he.symm, Wrap.C43_float_wrap2_range _ w hfl hw0⟩

/-! ## no exception -/

/-- `action()` never raises `ZeroDivisionError` (every divisor is the positive lapse, a non-zero
constant, or a non-zero multiple of the wrap) — for every arithmetic in which doubling a non-zero
number is non-zero, in particular exact arithmetic -/
theorem C46_never_raises (A : Arith) (hA : DoublingNonzero A) (s : State) (st : Option Num)
    (i r sp : Num) (p : Parm) : ∃ s', action A s st i r sp p = .ok s' :=
  action_total A hA s st i r sp p

theorem C46_never_raises_exact (s : State) (ops : List Op) : ∃ s', run exactArith s ops = .ok s' := by
  induction ops generalizing s with
  | nil => exact ⟨s, rfl⟩
  | cons op ops ih =>
    cases op with
    | restart => simp only [run, step]; exact ih _
    | update st i r sp p =>
      obtain ⟨s1, h1⟩ := action_total exactArith exact_doubling s st i r sp p
      simp only [run, step, h1]; exact ih _


/-- the binary64 instantiation (what the driver runs against the implementation) never raises -/
theorem C46_never_raises_binary64 (s : State) (ops : List Op) : ∃ s', run floatArith s ops = .ok s' := by
  induction ops generalizing s with
  | nil => exact ⟨s, rfl⟩
  | cons op ops ih =>
    cases op with
    | restart => simp only [run, step]; exact ih _
    | update st i r sp p =>
      obtain ⟨s1, h1⟩ := action_total floatArith float_doubling s st i r sp p
      simp only [run, step, h1]; exact ih _



/-! ## arguments of any numeric type (int, bool, Fraction, float): the typed model -/

/-- typed model: every evaluated `action()` leaves output and error sum within ordered limits,
whatever the Python types of inputs, gains and limits (exact Fraction arithmetic included) -/
theorem C46_typed_within_limits (s s' : StateT) (st : Option TNum) (i r sp : TNum) (p : ParmT)
    (hev : evaluatedT s st = true) (h : actionT s st i r sp p = .ok s') :
    (le p.ovmin.v p.ovmax.v = true → within p.ovmin.v p.ovmax.v s'.out.v = true) ∧
    (le p.esmin.v p.esmax.v = true → within p.esmin.v p.esmax.v s'.es.v = true) := by
  obtain ⟨es1, out1, hes, hout⟩ := actionT_eval s st i r sp p s' hev h
  rw [hes, hout]
  exact ⟨clampT_within _ _ _, clampT_within _ _ _⟩

def limitsOfT (p : ParmT) : Limits := ⟨p.esmin.v, p.esmax.v, p.ovmin.v, p.ovmax.v⟩
def Limits.holdsT (L : Limits) (s : StateT) : Bool :=
  within L.esmin L.esmax s.es.v && within L.ovmin L.ovmax s.out.v

def opUnderT (L : Limits) : OpT → Prop
  | .update _ _ _ _ p => limitsOfT p = L
  | .restart => True

theorem stepT_keeps (L : Limits) (s s' : StateT) (op : OpT) (hord : L.ordered = true)
    (hop : opUnderT L op) (hz : within L.esmin L.esmax zero = true)
    (hs : L.holdsT s = true) (h : stepT s op = .ok s') : L.holdsT s' = true := by
  simp only [Limits.ordered, Bool.and_eq_true] at hord
  simp only [Limits.holdsT, Bool.and_eq_true] at hs ⊢
  cases op with
  | restart =>
    simp only [stepT] at h; injection h with h; subst h
    exact ⟨hz, hs.2⟩
  | update st i r sp p =>
    simp only [opUnderT] at hop
    subst hop
    simp only [stepT] at h
    by_cases hev : evaluatedT s st = true
    · have := C46_typed_within_limits s s' st i r sp p hev h
      exact ⟨this.2 hord.1, this.1 hord.2⟩
    · simp only [Bool.not_eq_true] at hev
      obtain ⟨s'', h2, hes, hout, _⟩ := actionT_skip s st i r sp p hev
      rw [h] at h2; injection h2 with h2; subst h2
      simp only [limitsOfT] at hs ⊢
      rw [hes, hout]; exact hs

/-- typed model, every history from creation: always within limits that contain zero -/
theorem C46_typed_limits_always_partial (L : Limits) (hord : L.ordered = true) (H : L.zeroInside = true) :
    ∀ (ops : List OpT) (s s' : StateT), (∀ op ∈ ops, opUnderT L op) → L.holdsT s = true →
      runT s ops = .ok s' → L.holdsT s' = true
  | [], s, s', _, hs, h => by
    simp only [runT] at h; injection h with h; subst h; exact hs
  | op :: ops, s, s', hop, hs, h => by
    simp only [runT] at h
    split at h
    · cases h
    · next s1 h1 =>
      have hz : within L.esmin L.esmax zero = true := by
        simp only [Limits.zeroInside, Bool.and_eq_true] at H; exact H.1
      have hs1 := stepT_keeps L s s1 op hord (hop op (by simp)) hz hs h1
      exact C46_typed_limits_always_partial L hord H ops s1 s' (fun o ho => hop o (by simp [ho])) hs1 h

/-- **exactness**: with no wrapping configured (`wrap` equal to zero in any type) and neither the
input nor the set point a float, the error share holds their exact difference — no conversion
to float happens (a Fraction like 1/3 survives) -/
theorem C46_typed_error_exact (s s' : StateT) (st : Option TNum) (i r sp : TNum) (p : ParmT)
    (hev : evaluatedT s st = true) (hw : p.wrap.v = zero)
    (h : actionT s st i r sp p = .ok s') :
    ∃ rspEff : TNum, (rspEff = sp ∨ rspEff = s.prsp) ∧ s'.prsp = rspEff ∧ s'.e = TNum.sub i rspEff ∧
      (i.isFloat = false → rspEff.isFloat = false → s'.e.v = xsub i.v rspEff.v) := by
  unfold evaluatedT at hev
  simp only [Bool.not_eq_true'] at hev
  have hprsp : (updateLapseT s st).prsp = s.prsp := by
    unfold updateLapseT; cases s.stamp <;> cases st <;> rfl
  unfold actionT at h
  simp only [hev, Bool.false_eq_true, if_false] at h
  have hne : Num.ne p.wrap.v zero = false := by rw [hw]; decide
  simp only [wrap2T, hne, Bool.false_eq_true, if_false] at h
  split at h
  · cases h
  · split at h
    · cases h
    · split at h
      · cases h
      · split at h
        · cases h
        · injection h with h
          subst h
          refine ⟨_, ?_, rfl, rfl, ?_⟩
          · rw [hprsp]; split <;> simp
          · intro h1 h2
            revert h2
            simp only []
            split <;> intro h2 <;> simp [TNum.sub, TNum.arith, h1, h2]


/-- non-vacuity: Fraction input 1/3 and set point 1/10, wrap 0 (an int): the error share holds the
exact Fraction 7/30, and the output is clamped -/
example :
    (match actionT { initT with stamp := some ⟨.fin 0, .int⟩ } (some ⟨.fin 1, .int⟩)
        ⟨.fin (1 / 3), .frac⟩ ⟨.fin 0, .float⟩ ⟨.fin (1 / 10), .frac⟩
        ⟨⟨.fin 0, .int⟩, ⟨.fin (1 / 100), .frac⟩, true, ⟨.fin 1, .int⟩, ⟨.fin 0, .int⟩, ⟨.fin 300, .int⟩,
          ⟨.fin 0, .int⟩, ⟨.fin 0, .int⟩, ⟨.fin 5, .int⟩, ⟨.fin (-5), .int⟩, ⟨.fin 20, .int⟩, ⟨.fin (-20), .int⟩⟩ with
      | .ok s => decide (s.e.v = .fin (7 / 30)) && decide (s.e.k = .frac) && decide (s.out.v = .fin 20) &&
          decide (s.prsp.v = .fin (1 / 10))
      | .error _ => false) = true := by decide +kernel



theorem run_append (A : Arith) : ∀ (pre post : List Op) (s0 s : State),
    run A s0 (pre ++ post) = .ok s → ∃ s1, run A s0 pre = .ok s1 ∧ run A s1 post = .ok s
  | [], post, s0, s, h => ⟨s0, rfl, h⟩
  | op :: pre, post, s0, s, h => by
    simp only [List.cons_append, run] at h ⊢
    split at h
    · cases h
    · next s' hs' =>
      obtain ⟨s1, h1, h2⟩ := run_append A pre post s' s h
      exact ⟨s1, by simp only [h1], h2⟩

/-- **The limits in force.**  Parameters (limits, gains, wrap, drsp) may be rewritten between
actions in any way; whatever happened before — any operations under any parameters — an
evaluated `action()` leaves output and error sum within the ordered limits that the parm share
holds AT THAT ACTION. -/
theorem C46_limits_in_force (A : Arith) (s0 s : State) (pre : List Op) (st : Option Num)
    (i r sp : Num) (p : Parm) (h : run A s0 (pre ++ [.update st i r sp p]) = .ok s) :
    ∃ s1, run A s0 pre = .ok s1 ∧
      (evaluated A s1 st = true → (limitsOf p).ordered = true → (limitsOf p).holds s = true) := by
  obtain ⟨s1, h1, h2⟩ := run_append A pre _ s0 s h
  refine ⟨s1, h1, ?_⟩
  intro hev hord
  simp only [run, step] at h2
  split at h2
  · cases h2
  · next s' hs' =>
    injection h2 with h2; subst h2
    simp only [Limits.ordered, Bool.and_eq_true] at hord
    simp only [Limits.holds, Bool.and_eq_true]
    exact ⟨C46_errorsum_within_limits A s1 s' st i r sp p hev hord.1 hs',
      C46_output_within_limits A s1 s' st i r sp p hev hord.2 hs'⟩


end Ioflo.Pid
