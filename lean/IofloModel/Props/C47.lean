import IofloModel.Lemmas.Registry
/-!
# C47 — named entities have unique names within their namespace

Property theorems only.  Model: `Model/Registry.lean` (transcription of `Registrar.__init__` /
`Clear`, `House.__init__` / `assignRegistries`, `ClearRegistries`, `Framer.assignFrameRegistry`,
with Python's class-attribute inheritance for `Names` and `Counter`).  A *namespace* is a registry
dict (`heap d`); the namespace current for a class is `getNames s cls`.
-/
namespace Ioflo.Registry

theorem idsOk_init : IdsOk init := by simp [IdsOk, init]

/-! ## the automatic name -/

/-- **The automatic-name loop terminates on a fresh name, for every sequence of random
letters.**  Given at least `maxLen(Names) + 1 − |start|` letters — whatever they are — the loop
`while name in Names: name += letter` stops, having consumed at most that many letters (each
iteration lengthens the candidate), on `start ++ used` which is not in `Names`; every shorter
candidate it went through was taken. -/
theorem C47_autoname_terminates_fresh (keys : List Str) (start : Str) (letters : List Char)
    (h : maxLen keys + 1 - start.length ≤ letters.length) :
    ∃ used rest, extend keys start letters = some (start ++ used, rest) ∧ letters = used ++ rest ∧
      start ++ used ∉ keys ∧ used.length ≤ maxLen keys + 1 - start.length ∧
      (∀ p, p <+: used → p ≠ used → start ++ p ∈ keys) :=
  extend_terminates keys letters start h

/-- the same for an infinite stream `rnd` of letters: the loop reads at most the first
`maxLen(Names) + 1 − |start|` of them -/
theorem C47_autoname_every_stream (keys : List Str) (start : Str) (rnd : Nat → Char) :
    ∃ n, n ≤ maxLen keys + 1 - start.length ∧
      ∃ rest, extend keys start ((List.range (maxLen keys + 1 - start.length)).map rnd) =
        some (start ++ (List.range n).map rnd, rest) ∧
      start ++ (List.range n).map rnd ∉ keys := by
  obtain ⟨used, rest, he, hl, hn, hb, _⟩ :=
    extend_terminates keys ((List.range (maxLen keys + 1 - start.length)).map rnd) start (by simp)
  refine ⟨used.length, hb, rest, ?_, ?_⟩
  · have hu : used = (List.range used.length).map rnd := by
      have h1 : used = ((List.range (maxLen keys + 1 - start.length)).map rnd).take used.length := by
        rw [hl]; simp
      rw [h1, ← List.map_take, List.take_range]
      simp [Nat.min_eq_left hb]
    rw [← hu]; exact he
  · have hu : used = (List.range used.length).map rnd := by
      have h1 : used = ((List.range (maxLen keys + 1 - start.length)).map rnd).take used.length := by
        rw [hl]; simp
      rw [h1, ← List.map_take, List.take_range]
      simp [Nat.min_eq_left hb]
    rw [← hu]; exact hn

/-- **An automatic name is never rejected and never collides**: with enough letters in the
supply, creating an instance without a name succeeds, and the name it gets was not in the
namespace current for its class. -/
theorem C47_auto_never_rejected (s : St) (cls : Cls) (letters : List Char)
    (h : maxLen (dkeys (s.heap (getNames s cls))) + 1 ≤ letters.length) :
    ∃ nm i, (registrarInit s cls [] letters).2 = .ok (nm, i) ∧
      nm ∉ dkeys (s.heap (getNames s cls)) ∧ cls.preface <+: nm ∧
      dget ((registrarInit s cls [] letters).1.heap (getNames s cls)) nm = some i := by
  obtain ⟨used, rest, he, _, hn, _, _⟩ := extend_terminates (dkeys (s.heap (getNames s cls))) letters
    (cls.preface ++ digits (getCounter (setCounter s (getCounter s cls + 1) cls) cls)) (by omega)
  refine ⟨_, s.nextInst, ?_, hn, ?_, ?_⟩
  · simp only [registrarInit, List.isEmpty_nil, if_true, getNames_setCounter, heap_setCounter, he]
    simp [register]
  · simp [List.append_assoc]
  · simp only [registrarInit, List.isEmpty_nil, if_true, getNames_setCounter, heap_setCounter, he]
    simp only [register, setHeap, heap_setCounter, if_true, nextInst_setCounter]
    exact dget_append_new hn _

/-! ## explicit names -/

/-- **An explicitly requested duplicate is rejected, and no registry changes**: if the name is
already in the namespace current for the class, `Registrar.__init__` raises ParameterError; the
heap of registry dicts and the set of registered instances are exactly as before. -/
theorem C47_duplicate_rejected (s : St) (cls : Cls) (name : Str) (letters : List Char)
    (hne : name ≠ []) (hdup : name ∈ dkeys (s.heap (getNames s cls))) :
    (step s (.new cls name letters)).2 = .err .parameterError ∧
    (step s (.new cls name letters)).1.heap = s.heap ∧
    (step s (.new cls name letters)).1.insts = s.insts ∧
    (∀ c, getNames (step s (.new cls name letters)).1 c = getNames s c) := by
  have hie : name.isEmpty = false := by cases name <;> simp_all
  simp [step, registrarInit, hie, hdup]

/-- the same for a house whose name is taken in the house namespace -/
theorem C47_duplicate_house_rejected (s : St) (name : Str) (letters : List Char)
    (hne : name ≠ []) (hdup : name ∈ dkeys (s.heap (getNames s (.root .house)))) :
    (step s (.newHouse name letters)).2 = .err .parameterError ∧
    (step s (.newHouse name letters)).1.heap = s.heap ∧
    (step s (.newHouse name letters)).1.insts = s.insts := by
  have hie : name.isEmpty = false := by cases name <;> simp_all
  simp [step, registrarInit, hie, hdup]

/-- an explicit name that is free is accepted as it is and registered in the current namespace -/
theorem C47_free_name_accepted (s : St) (cls : Cls) (name : Str) (letters : List Char)
    (hne : name ≠ []) (hfree : name ∉ dkeys (s.heap (getNames s cls))) :
    (step s (.new cls name letters)).2 = .name name s.nextInst ∧
    dget ((step s (.new cls name letters)).1.heap (getNames s cls)) name = some s.nextInst := by
  have hie : name.isEmpty = false := by cases name <;> simp_all
  constructor
  · simp only [step, registrarInit, hie, Bool.false_eq_true, if_false, getNames_setCounter,
      heap_setCounter, hfree]
    split <;> simp [register]
  · simp only [step, registrarInit, hie, Bool.false_eq_true, if_false, getNames_setCounter,
      heap_setCounter, hfree]
    split
    · simp only [allocFramer, register, setHeap, heap_setCounter, if_true, nextInst_setCounter]
      exact dget_append_new hfree _
    · simp only [register, setHeap, heap_setCounter, if_true, nextInst_setCounter]
      exact dget_append_new hfree _

/-! ## registries are maps; what is registered stays -/

/-- **Every registry is a map with one instance per name, every history**: from a fresh
interpreter, after any sequence of creations, clears and namespace switches, (1) no registry
dict has a repeated key, (2) every instance ever registered is found under its own name in the
dict it registered in, so (3) two registered instances of the same namespace with the same name
are one and the same instance. -/
theorem C47_names_injective (ops : List Op) :
    (∀ d, (dkeys ((run init ops).heap d)).Nodup) ∧
    (∀ i ∈ (run init ops).insts, dget ((run init ops).heap i.dict) i.name = some i.id) ∧
    (∀ i ∈ (run init ops).insts, ∀ j ∈ (run init ops).insts,
      i.dict = j.dict → i.name = j.name → i.id = j.id) := by
  have h := wf_run wf_init idsOk_init ops
  refine ⟨h.keysNodup, h.instsIn, ?_⟩
  intro i hi j hj hd hn
  have h1 := h.instsIn i hi
  have h2 := h.instsIn j hj
  rw [hd, hn, h2] at h1
  exact (Option.some.inj h1).symm

theorem heap_registrarInit_other (s : St) (cls : Cls) (name : Str) (letters : List Char) (d : Nat)
    (hd : d ≠ getNames s cls) : (registrarInit s cls name letters).1.heap d = s.heap d := by
  unfold registrarInit
  simp only [getNames_setCounter, heap_setCounter]
  split
  · split
    · simp
    · simp [register, setHeap, hd]
  · split
    · simp
    · simp [register, setHeap, hd]

theorem dget_registrarInit_mono (s : St) (cls : Cls) (name : Str) (letters : List Char) (d : Nat)
    (n : Str) (v : Nat) (h : dget (s.heap d) n = some v) :
    dget ((registrarInit s cls name letters).1.heap d) n = some v := by
  unfold registrarInit
  simp only [getNames_setCounter, heap_setCounter]
  split
  · split
    · simpa using h
    · simp only [register, setHeap, heap_setCounter]
      split
      · next e => subst e; exact dget_append_some h _
      · exact h
  · split
    · simpa using h
    · simp only [register, setHeap, heap_setCounter]
      split
      · next e => subst e; exact dget_append_some h _
      · exact h

/-- **What is registered stays registered**: no operation other than `prune` (a razed clone
taking itself out, see `C47_prune_frees_own_name`) removes an entry from any registry or makes a
name point to another instance. -/
theorem C47_registered_stays (s : St) (op : Op) (d : Nat) (n : Str) (v : Nat)
    (hp : ∀ k, op ≠ .prune k)
    (h : dget (s.heap d) n = some v) : dget ((step s op).1.heap d) n = some v := by
  cases op with
  | prune k => exact absurd rfl (hp k)
  | new cls name letters =>
    have h1 := dget_registrarInit_mono s cls name letters d n v h
    simp only [step]
    cases hr : registrarInit s cls name letters with
    | mk s1 r =>
      rw [hr] at h1
      cases r with
      | error e => exact h1
      | ok p => obtain ⟨nm, i⟩ := p; simp only; split <;> exact h1
  | newHouse name letters =>
    have h1 := dget_registrarInit_mono s (.root .house) name letters d n v h
    simp only [step]
    cases hr : registrarInit s (.root .house) name letters with
    | mk s1 r =>
      rw [hr] at h1
      cases r with
      | error e => exact h1
      | ok p =>
        obtain ⟨nm, i⟩ := p
        simp only at h1 ⊢
        have h2 := dget_registrarInit_mono (allocHouse s1 i) (.root .store) nm [] d n v h1
        cases hr2 : registrarInit (allocHouse s1 i) (.root .store) nm [] with
        | mk s3 r2 => rw [hr2] at h2; cases r2 <;> exact h2
  | clear cls => simpa [step, clear] using h
  | clearRegistries => simpa [step, clear] using h
  | assignRegistries k =>
    simp only [step]
    split
    · exact h
    · simpa using h
  | assignFrameRegistry k =>
    simp only [step]
    split
    · exact h
    · simpa using h

/-- over histories -/
theorem C47_registered_forever (s : St) (ops : List Op) (d : Nat) (n : Str) (v : Nat)
    (hp : ∀ op ∈ ops, ∀ k, op ≠ .prune k)
    (h : dget (s.heap d) n = some v) : dget ((run s ops).heap d) n = some v := by
  induction ops generalizing s with
  | nil => exact h
  | cons op ops ih =>
    exact ih _ (fun o ho => hp o (List.mem_cons_of_mem _ ho))
      (C47_registered_stays s op d n v (hp op (List.mem_cons_self ..)) h)

/-! ## namespaces are isolated -/

/-- **A creation touches only the namespace current for its class**: every other registry
dict — in particular every other house's and every other framer's — is exactly as before; a
house additionally registers its store in the namespace current for stores. -/
theorem C47_namespace_isolation (s : St) (d : Nat) :
    (∀ cls name letters, d ≠ getNames s cls →
      (step s (.new cls name letters)).1.heap d = s.heap d) ∧
    (∀ name letters, d ≠ getNames s (.root .house) → d ≠ getNames s (.root .store) →
      (step s (.newHouse name letters)).1.heap d = s.heap d) := by
  constructor
  · intro cls name letters hd
    have h1 := heap_registrarInit_other s cls name letters d hd
    simp only [step]
    cases hr : registrarInit s cls name letters with
    | mk s1 r =>
      rw [hr] at h1
      cases r with
      | error e => exact h1
      | ok p => obtain ⟨nm, i⟩ := p; simp only; split <;> exact h1
  · intro name letters hd1 hd2
    have h1 := heap_registrarInit_other s (.root .house) name letters d hd1
    simp only [step]
    cases hr : registrarInit s (.root .house) name letters with
    | mk s1 r =>
      rw [hr] at h1
      cases r with
      | error e => exact h1
      | ok p =>
        obtain ⟨nm, i⟩ := p
        simp only at h1 ⊢
        have hs : getNames (allocHouse s1 i) (.root .store) = getNames s (.root .store) := by
          have : s1 = (registrarInit s (.root .house) name letters).1 := by rw [hr]
          subst this
          unfold registrarInit
          simp only [getNames_setCounter, heap_setCounter]
          split
          · split <;> simp [allocHouse, register, setHeap, getNames, setCounter]
          · split <;> simp [allocHouse, register, setHeap, getNames, setCounter]
        have h2 := heap_registrarInit_other (allocHouse s1 i) (.root .store) nm [] d (by rw [hs]; exact hd2)
        cases hr2 : registrarInit (allocHouse s1 i) (.root .store) nm [] with
        | mk s3 r2 =>
          rw [hr2] at h2
          cases r2 <;> simp only <;> rw [h2] <;> exact h1

/-- **A cleared or newly made namespace is empty and nobody else's**: in any reachable state,
`cls.Clear()` binds `cls` to a dict that is empty, to which no class was bound and in which no
instance is registered. -/
theorem C47_clear_fresh (ops : List Op) (cls : Cls) :
    let s := run init ops
    getNames (clear s cls) cls = s.nextDict ∧ (clear s cls).heap s.nextDict = [] ∧
    (∀ c, getNames s c ≠ s.nextDict) ∧ (∀ i ∈ s.insts, i.dict ≠ s.nextDict) := by
  intro s
  have h : WF s := wf_run wf_init idsOk_init ops
  refine ⟨?_, ?_, ?_, ?_⟩
  · simp only [clear, getNames_setCounter]
    exact getNames_setNames_self _ _ _
  · simp only [clear, heap_setCounter, heap_setNames]
    exact h.emptyBeyond _ (Nat.le_refl _)
  · intro c; exact Nat.ne_of_lt (h.boundLt c)
  · intro i hi e
    have h1 := h.instsIn i hi
    rw [e, h.emptyBeyond _ (Nat.le_refl _)] at h1
    simp [dget] at h1

/-- **An instance is registered in one namespace and under one name only** — the dict that was
current for its class when it was created — in every reachable state: if the same instance is
found in two registry entries, they are the same entry. -/
theorem C47_one_namespace_per_instance (ops : List Op) (d d' : Nat) (n n' : Str) (v : Nat)
    (h1 : dget ((run init ops).heap d) n = some v) (h2 : dget ((run init ops).heap d') n' = some v) :
    d = d' ∧ n = n' := by
  have hw := wf_run wf_init idsOk_init ops
  have hi : IdsOk (run init ops) := idsOk_run idsOk_init ops
  obtain ⟨c, hc⟩ := hw.entryInst d n v h1
  obtain ⟨c', hc'⟩ := hw.entryInst d' n' v h2
  have : (⟨v, c, n, d⟩ : Inst) = ⟨v, c', n', d'⟩ := by
    exact eq_of_nodup_map_id hi.1 hc hc' rfl
  simp only [Inst.mk.injEq, true_and] at this
  exact ⟨this.2.2, this.2.1⟩

/-! ## razing: `Framer.prune` -/

/-- **A pruned framer frees its name in its own namespace and only there.**  If the framer is
registered (record `r`) and the namespace current for Framer is the one it registered in — which
`prune` ensures with `assignRegistries` of its own house (repair D47a) — then afterwards its
name is free in that dict, and every other entry of every registry dict is exactly as before. -/
theorem C47_prune_frees_own_name (ops : List Op) (k i fd : Nat) (r : Inst)
    (hk : (run init ops).framerDicts[k]? = some (i, fd))
    (hr : findInst (run init ops).insts i = some r)
    (hcur : getNames (run init ops) (.sub .framer) = r.dict) :
    dget ((step (run init ops) (.prune k)).1.heap r.dict) r.name = none ∧
    (∀ d n, (d ≠ r.dict ∨ n ≠ r.name) →
      dget ((step (run init ops) (.prune k)).1.heap d) n = dget ((run init ops).heap d) n) := by
  have hw := wf_run wf_init idsOk_init ops
  generalize run init ops = s at hk hr hcur hw
  have hri := findInst_some hr
  have hin := hw.instsIn r hri.1
  rw [hri.2] at hin
  have hstep : (step s (.prune k)).1 =
      { setHeap s r.dict (derase (s.heap r.dict) r.name) with
        insts := s.insts.filter (fun x => x.id != i) } := by
    simp only [step, hk, unregister, hr, hcur, hin, if_true]
  rw [hstep]
  constructor
  · simp only [setHeap, if_true]
    exact dget_derase_self (hw.keysNodup _) _
  · intro d n hdn
    simp only [setHeap]
    by_cases e : d = r.dict
    · subst e
      simp only [if_true]
      rcases hdn with h1 | h1
      · exact absurd rfl h1
      · exact dget_derase_ne _ (Ne.symm h1)
    · simp only [e, if_false]

/-- **Pruned while another namespace is current, nothing happens** (the behaviour D47a repaired
at its source): if the namespace current for Framer is not the one the framer registered in,
`prune` removes nothing — in particular not a namesake in the other house. -/
theorem C47_prune_elsewhere_noop (ops : List Op) (k i fd : Nat) (r : Inst)
    (hk : (run init ops).framerDicts[k]? = some (i, fd))
    (hr : findInst (run init ops).insts i = some r)
    (hcur : getNames (run init ops) (.sub .framer) ≠ r.dict) :
    (step (run init ops) (.prune k)).1 = run init ops := by
  have hone := C47_one_namespace_per_instance ops
  have hw := wf_run wf_init idsOk_init ops
  generalize run init ops = s at hk hr hcur hw hone
  have hri := findInst_some hr
  have hin := hw.instsIn r hri.1
  rw [hri.2] at hin
  have hno : dget (s.heap (getNames s (.sub .framer))) r.name ≠ some i := by
    intro hc
    exact hcur (hone _ _ _ _ _ hc hin).1
  simp only [step, hk, unregister, hr, hno, if_false]

/-! ## non-vacuity -/

def t (s : String) : Str := s.toList

/-- a history with everything in it: explicit names of the automatic pattern force the loop to
use two letters; a duplicate is rejected; a house brings its own namespaces, in which the
automatic names start again at 1 without colliding with the old ones (they live in another dict) -/
example :
    (step init (.new (.root .tasker) (t "Tasker3") [])).2 = .name (t "Tasker3") 0 ∧
    (step (run init [.new (.root .tasker) (t "Tasker3") [], .new (.root .tasker) (t "Tasker3a") []])
      (.new (.root .tasker) [] ['a', 'b', 'c'])).2 = .name (t "Tasker3ab") 2 ∧
    (step (run init [.new (.root .tasker) (t "x") []]) (.new (.sub .framer) (t "x") [])).2 =
      .err .parameterError ∧
    (step (run init [.new (.root .tasker) [] [], .newHouse (t "h") [], .assignRegistries 0])
      (.new (.root .tasker) [] [])).2 = .name (t "Tasker1") 3 ∧
    (run init [.new (.root .tasker) [] [], .newHouse (t "h") [], .assignRegistries 0,
               .new (.root .tasker) [] []]).heap 2 = [(t "Tasker1", 0)] ∧
    (run init [.new (.root .tasker) [] [], .newHouse (t "h") [], .assignRegistries 0,
               .new (.root .tasker) [] []]).heap 6 = [(t "Tasker1", 3)] := by decide

/-- the subclass counter: the first Framer takes its number from Tasker's counter and from then
on Framer counts on its own -/
example :
    (step (run init [.new (.root .tasker) [] []]) (.new (.sub .framer) [] [])).2 = .name (t "Framer2") 1 ∧
    (step (run init [.new (.root .tasker) [] [], .new (.sub .framer) [] [], .clear (.root .tasker)])
      (.new (.sub .framer) [] [])).2 = .name (t "Framer3") 2 := by decide

/-- razing: a framer of a house is pruned while its house is current — its name is free again and
is given to the next framer of that name; pruned once more (or while another house is current)
nothing happens -/
example :
    (run init [.newHouse (t "h") [], .assignRegistries 0, .new (.sub .framer) (t "f") [], .prune 0]).heap 6 = [] ∧
    (step (run init [.newHouse (t "h") [], .assignRegistries 0, .new (.sub .framer) (t "f") [], .prune 0])
      (.new (.sub .framer) (t "f") [])).2 = .name (t "f") 3 ∧
    (run init [.newHouse (t "h") [], .assignRegistries 0, .new (.sub .framer) (t "f") [], .prune 0,
               .new (.sub .framer) (t "f") [], .prune 0]).heap 6 = [(t "f", 3)] ∧
    (run init [.newHouse (t "h") [], .assignRegistries 0, .new (.sub .framer) (t "f") [],
               .newHouse (t "g") [], .assignRegistries 1, .new (.sub .framer) (t "f") [], .prune 0]).heap 6 =
      [(t "f", 2)] := by decide

end Ioflo.Registry

#print axioms Ioflo.Registry.C47_autoname_terminates_fresh
#print axioms Ioflo.Registry.C47_autoname_every_stream
#print axioms Ioflo.Registry.C47_auto_never_rejected
#print axioms Ioflo.Registry.C47_duplicate_rejected
#print axioms Ioflo.Registry.C47_free_name_accepted
#print axioms Ioflo.Registry.C47_names_injective
#print axioms Ioflo.Registry.C47_registered_stays
#print axioms Ioflo.Registry.C47_namespace_isolation
#print axioms Ioflo.Registry.C47_clear_fresh
#print axioms Ioflo.Registry.C47_one_namespace_per_instance
#print axioms Ioflo.Registry.C47_prune_frees_own_name
#print axioms Ioflo.Registry.C47_prune_elsewhere_noop
